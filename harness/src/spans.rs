//! `spans`: every span the immutable document reports (keys, values, tables, arrays of tables) in
//! traversal order, with the checks of C14 evaluated on the implementation itself.
use crate::tree::show_value;
use crate::util::*;
use toml_edit::{Item, Table, Value};

type Sp = Option<std::ops::Range<usize>>;

struct Ctx<'a> {
    src: &'a str,
    out: Vec<String>,
    bounds: bool,
    boundary: bool,
    nest: bool,
    reparse: bool,
    shape: bool,
}

/// end of the last thing written in the table's own section: its values and the tables its dotted keys make
fn own_extent(t: &Table) -> Option<usize> {
    let mut m: Option<usize> = None;
    for (_, it) in t.iter() {
        let e = match it {
            Item::Value(v) => v.span().map(|r| r.end),
            Item::Table(sub) if sub.is_dotted() => sub.span().map(|r| r.end).or_else(|| own_extent(sub)),
            _ => None,
        };
        if let Some(e) = e {
            m = Some(m.map_or(e, |x| x.max(e)));
        }
    }
    m
}

fn fmt_sp(s: &Sp) -> String {
    match s {
        Some(r) => format!("{}-{}", r.start, r.end),
        None => "none".into(),
    }
}

impl<'a> Ctx<'a> {
    fn check(&mut self, s: &Sp, parent: &Sp) {
        if let Some(r) = s {
            if !(r.start <= r.end && r.end <= self.src.len()) {
                self.bounds = false;
                return;
            }
            if !(self.src.is_char_boundary(r.start) && self.src.is_char_boundary(r.end)) {
                self.boundary = false;
            }
            if let Some(p) = parent {
                if !(p.start <= r.start && r.end <= p.end) {
                    self.nest = false;
                }
            }
        }
    }
    fn key(&mut self, k: &toml_edit::Key, parent: &Sp) {
        let s = k.span();
        self.check(&s, parent);
        if let Some(r) = &s {
            if r.end <= self.src.len() && self.src.is_char_boundary(r.start) && self.src.is_char_boundary(r.end) {
                match self.src[r.clone()].parse::<toml_edit::Key>() {
                    Ok(k2) if k2.get() == k.get() => {}
                    _ => self.reparse = false,
                }
            }
        }
        self.out.push(format!("k{}", fmt_sp(&s)));
    }
    fn value(&mut self, v: &Value, parent: &Sp) {
        let s = v.span();
        self.check(&s, parent);
        // a table made of dotted keys is not written as a value: its span covers `key ... value` text
        let dotted = matches!(v, Value::InlineTable(t) if t.is_dotted());
        if let (Some(r), false) = (&s, dotted) {
            if r.end <= self.src.len() && self.src.is_char_boundary(r.start) && self.src.is_char_boundary(r.end) {
                match self.src[r.clone()].parse::<Value>() {
                    Ok(v2) if show_value(&v2) == show_value(v) => {}
                    _ => self.reparse = false,
                }
            }
        }
        self.out.push(format!("v{}", fmt_sp(&s)));
        match v {
            Value::Array(a) => {
                for e in a.iter() {
                    self.value(e, &s);
                }
            }
            Value::InlineTable(t) => {
                for (k, e) in t.iter() {
                    if let Some(key) = t.key(k) {
                        self.key(key, &s);
                    }
                    self.value(e, &s);
                }
            }
            _ => {}
        }
    }
    fn table(&mut self, t: &Table) {
        self.table_in(t, &None, true)
    }
    fn table_in(&mut self, t: &Table, parent: &Sp, root: bool) {
        let s = t.span();
        self.check(&s, parent);
        // a table with a header of its own (not merely mentioned by a longer header) always has a span, whenever the header comes
        if s.is_none() && !root && !t.is_implicit() {
            self.shape = false;
        }
        // shape of a table's span: a [header] table starts at its `[`; it ends with its last own entry, or, when it has
        // none, with the `]` of its header (never inside the trivia after it); a dotted-key table ends with its last value
        if let Some(r) = &s {
            if r.start <= r.end && r.end <= self.src.len() && self.src.is_char_boundary(r.start) && self.src.is_char_boundary(r.end) {
                let text = &self.src[r.clone()];
                if !root && !t.is_dotted() && !text.starts_with('[') {
                    self.shape = false;
                }
                match own_extent(t) {
                    Some(e) => {
                        if r.end != e {
                            self.shape = false;
                        }
                    }
                    None => {
                        if !root && !t.is_dotted() && !text.ends_with(']') {
                            self.shape = false;
                        }
                    }
                }
            }
        }
        self.out.push(format!("T{}", fmt_sp(&s)));
        for (k, it) in t.iter() {
            // keys and values written in this table's own section lie inside its span;
            // sub-tables and arrays of tables have their own headers elsewhere
            let own = match it {
                Item::Value(_) => s.clone(),
                Item::Table(sub) if sub.is_dotted() => s.clone(),
                _ => None,
            };
            if let Some(key) = t.key(k) {
                let ks = match it {
                    Item::Value(_) => own.clone(),
                    Item::Table(sub) if sub.is_dotted() => own.clone(),
                    _ => None,
                };
                self.key(key, &ks);
            }
            match it {
                Item::None => {}
                Item::Value(v) => self.value(v, &own),
                Item::Table(sub) if sub.is_dotted() => self.table_in(sub, &own, false),
                Item::Table(sub) => self.table_in(sub, &None, false),
                Item::ArrayOfTables(a) => {
                    let asp = a.span();
                    self.check(&asp, &None);
                    self.out.push(format!("A{}", fmt_sp(&asp)));
                    for sub in a.iter() {
                        let ss = sub.span();
                        self.check(&ss, &asp);
                        self.table_in(sub, &asp, false);
                    }
                }
            }
        }
    }
}

pub fn cmd_spans(args: &crate::Args) -> String {
    let s = match std::str::from_utf8(&args[0]) {
        Ok(s) => s,
        Err(_) => return "not-utf8".into(),
    };
    let d = match toml_edit::ImDocument::parse(s) {
        Ok(d) => d,
        Err(_) => return "err".into(),
    };
    let mut c = Ctx { src: s, out: Vec::new(), bounds: true, boundary: true, nest: true, reparse: true, shape: true };
    c.table(d.as_table());
    // spans disappear once the document is made editable
    let m = d.clone().into_mut();
    let mut c2 = Ctx { src: s, out: Vec::new(), bounds: true, boundary: true, nest: true, reparse: true, shape: true };
    c2.table(m.as_table());
    let despan = c2.out.iter().all(|e| e[1..] == *"none");
    let ok = |b: bool| if b { "ok" } else { "BAD" };
    format!(
        "ok spans={} bounds={} boundary={} nest={} reparse={} despan={} shape={}",
        if c.out.is_empty() { "-".to_string() } else { c.out.join(",") },
        ok(c.bounds), ok(c.boundary), ok(c.nest), ok(c.reparse), ok(despan), ok(c.shape)
    )
}
