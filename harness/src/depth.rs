//! `depth`: nesting depth of the decoded structure and survival of every consumer on a
//! 2 MiB thread stack (C05).  A stack overflow aborts the process, so each case runs in a child
//! process (`<exe> --depth-child`, text on stdin).
use std::io::{Read, Write};
use toml_edit::{Item, Table, Value};

/// iterative (explicit stack) depth measurement: root table = 1
pub fn tree_depth(root: &Table) -> usize {
    enum N<'a> {
        T(&'a Table),
        V(&'a Value),
    }
    let mut max = 0usize;
    let mut stack: Vec<(N<'_>, usize)> = vec![(N::T(root), 1)];
    while let Some((n, d)) = stack.pop() {
        if d > max {
            max = d;
        }
        match n {
            N::T(t) => {
                for (_, it) in t.iter() {
                    match it {
                        Item::Table(s) => stack.push((N::T(s), d + 1)),
                        Item::ArrayOfTables(a) => {
                            for s in a.iter() {
                                stack.push((N::T(s), d + 2))
                            }
                        }
                        Item::Value(v) => stack.push((N::V(v), d)),
                        Item::None => {}
                    }
                }
            }
            N::V(v) => match v {
                Value::Array(a) => {
                    for e in a.iter() {
                        stack.push((N::V(e), d + 1))
                    }
                    if a.is_empty() && d + 1 > max {
                        max = d + 1;
                    }
                }
                Value::InlineTable(t) => {
                    for (_, e) in t.iter() {
                        stack.push((N::V(e), d + 1))
                    }
                    if t.is_empty() && d + 1 > max {
                        max = d + 1;
                    }
                }
                _ => {}
            },
        }
    }
    max
}

fn work(text: String) -> String {
    let parsed = text.parse::<toml_edit::DocumentMut>();
    match parsed {
        Err(e) => {
            let kind = if e.message().contains("recursion limit") { "recursion" } else { "other" };
            let _ = e.to_string();
            // the serde front ends must agree and survive too
            let t = toml::from_str::<toml::Value>(&text).is_ok();
            format!("err kind={kind} toml={}", if t { "ok" } else { "err" })
        }
        Ok(doc) => {
            let depth = tree_depth(doc.as_table());
            let printed = doc.to_string();
            let dbg = format!("{doc:?}");
            let cl = doc.clone();
            let printed2 = cl.to_string();
            drop(cl);
            let im = toml_edit::ImDocument::parse(text.as_str()).map(|d| format!("{d:?}").len()).unwrap_or(0);
            let tv = toml::from_str::<toml::Value>(&text);
            let tv_ok = tv.is_ok();
            if let Ok(v) = &tv {
                let _ = format!("{v:?}");
                let _ = v.clone();
                let _ = toml::to_string(v).map(|s| s.len());
            }
            drop(tv);
            let ev = toml_edit::de::from_str::<toml::Value>(&text).is_ok();
            drop(doc);
            format!(
                "ok depth={depth} same_print={} consumers=survived toml={} edit_de={} dbg={}",
                if printed == printed2 { "yes" } else { "no" },
                if tv_ok { "ok" } else { "err" },
                if ev { "ok" } else { "err" },
                if dbg.len() > 0 && im > 0 { "ok" } else { "empty" }
            )
        }
    }
}

pub fn child_main() {
    let mut buf = Vec::new();
    std::io::stdin().read_to_end(&mut buf).unwrap();
    let text = String::from_utf8(buf).expect("utf8");
    let h = std::thread::Builder::new()
        .stack_size(2 * 1024 * 1024)
        .spawn(move || work(text))
        .unwrap();
    match h.join() {
        Ok(s) => println!("{s}"),
        Err(_) => println!("PANIC-in-child"),
    }
}

pub fn cmd_depth(args: &crate::Args) -> String {
    if std::str::from_utf8(&args[0]).is_err() {
        return "not-utf8".into();
    }
    let exe = std::env::current_exe().unwrap();
    let mut ch = std::process::Command::new(exe)
        .arg("--depth-child")
        .stdin(std::process::Stdio::piped())
        .stdout(std::process::Stdio::piped())
        .stderr(std::process::Stdio::null())
        .spawn()
        .unwrap();
    {
        let mut si = ch.stdin.take().unwrap();
        si.write_all(&args[0]).unwrap();
    }
    let out = ch.wait_with_output().unwrap();
    if !out.status.success() {
        return format!("CRASH child-status={:?}", out.status.code());
    }
    String::from_utf8_lossy(&out.stdout).trim().to_string()
}
