//! `fuzz`: every entry point on arbitrary bytes, and everything a caller can do with what was
//! returned (C04).  A panic is caught by the main loop and reported as `PANIC ...`.
use crate::util::*;
use std::time::Instant;

fn v(ok: bool) -> &'static str {
    if ok { "ok" } else { "err" }
}

fn use_err(e: &toml_edit::TomlError) {
    let _ = e.to_string();
    let _ = format!("{e:?}");
    let _ = e.message().len();
    let _ = e.span();
    let _ = e.clone();
}

/// print / debug-print / clone every node and key reachable from an item that still carries spans
fn walk_im(it: &toml_edit::Item) {
    let _ = it.to_string();
    let _ = it.clone();
    match it {
        toml_edit::Item::None => {}
        toml_edit::Item::Value(v) => walk_im_value(v),
        toml_edit::Item::Table(t) => {
            let _ = t.to_string();
            for (k, x) in t.iter() {
                if let Some((key, _)) = t.get_key_value(k) {
                    let _ = key.to_string();
                    let _ = key.display_repr().len();
                    let _ = format!("{key:?}");
                }
                walk_im(x);
            }
        }
        toml_edit::Item::ArrayOfTables(a) => {
            let _ = a.to_string();
            for t in a.iter() {
                let _ = t.to_string();
                for (_, x) in t.iter() {
                    walk_im(x);
                }
            }
        }
    }
}

fn walk_im_value(v: &toml_edit::Value) {
    let _ = v.to_string();
    let _ = format!("{v:?}");
    let _ = v.clone();
    match v {
        toml_edit::Value::String(f) => {
            let _ = f.display_repr().len();
            let _ = f.to_string();
        }
        toml_edit::Value::Integer(f) => {
            let _ = f.display_repr().len();
        }
        toml_edit::Value::Float(f) => {
            let _ = f.display_repr().len();
        }
        toml_edit::Value::Boolean(f) => {
            let _ = f.display_repr().len();
        }
        toml_edit::Value::Datetime(f) => {
            let _ = f.display_repr().len();
        }
        toml_edit::Value::Array(a) => {
            for x in a.iter() {
                walk_im_value(x);
            }
        }
        toml_edit::Value::InlineTable(t) => {
            for (k, x) in t.iter() {
                if let Some((key, _)) = t.get_key_value(k) {
                    let _ = key.to_string();
                    let _ = key.display_repr().len();
                }
                walk_im_value(x);
            }
        }
    }
}

pub fn cmd_fuzz(args: &crate::Args) -> String {
    // a timing measurement is noisy on a loaded machine: an over-budget run is repeated and the
    // fastest of three runs is what counts
    let mut best: Option<(String, u64)> = None;
    for _ in 0..3 {
        let (line, el) = fuzz_once(&args[0]);
        let slow = el > budget_us(args[0].len());
        if best.as_ref().map_or(true, |(_, b)| el < *b) {
            best = Some((line, el));
        }
        if !slow {
            break;
        }
    }
    let (line, el) = best.unwrap();
    if el > budget_us(args[0].len()) {
        format!("{line} SLOW={el}us")
    } else {
        line
    }
}

/// generous linear budget: 250 ms + 50 us per byte (debug builds on a loaded machine included)
fn budget_us(len: usize) -> u64 {
    250_000 + 50 * (len as u64)
}

fn fuzz_once(b: &Vec<u8>) -> (String, u64) {
    let t0 = Instant::now();
    let slice = toml_edit::de::from_slice::<toml::Value>(b);
    if let Err(e) = &slice {
        let _ = e.to_string();
        let _ = format!("{e:?}");
    }
    let slice_ok = slice.is_ok();
    let s = match std::str::from_utf8(b) {
        Ok(s) => s,
        Err(_) => return (format!("utf8=no slice={}", v(slice_ok)), t0.elapsed().as_micros() as u64),
    };
    // document
    let doc = s.parse::<toml_edit::DocumentMut>();
    let doc_ok = doc.is_ok();
    match &doc {
        Ok(d) => {
            let p = d.to_string();
            let _ = format!("{d:?}");
            let c = d.clone();
            let _ = c.to_string() == p;
            drop(c);
            let _ = toml_edit::de::from_document::<toml::Value>(d.clone()).map(|x| format!("{x:?}").len());
            let _ = p.parse::<toml_edit::DocumentMut>().map(|d2| d2.to_string().len());
        }
        Err(e) => use_err(e),
    }
    let im = toml_edit::ImDocument::parse(s);
    match &im {
        Ok(d) => {
            let _ = format!("{d:?}");
            // printing from the span-keeping document itself (no into_mut): every item, key and value still
            // refers to the source through spans
            let _ = d.as_item().to_string();
            let _ = d.as_table().to_string();
            walk_im(d.as_item());
            let _ = d.clone().into_mut().to_string();
            if let Ok(owned) = toml_edit::ImDocument::parse(s.to_string()) {
                let _ = toml_edit::de::from_document::<toml::Value>(owned).map(|x| format!("{x:?}").len());
            }
        }
        Err(e) => use_err(e),
    }
    drop(im);
    // value / key / key path / datetime
    let val = s.parse::<toml_edit::Value>();
    match &val {
        Ok(x) => {
            let _ = x.to_string();
            let _ = format!("{x:?}");
            let _ = x.clone();
        }
        Err(e) => use_err(e),
    }
    let key = s.parse::<toml_edit::Key>();
    match &key {
        Ok(k) => {
            let _ = k.to_string();
            let _ = format!("{k:?}");
        }
        Err(e) => use_err(e),
    }
    let kp = toml_edit::Key::parse(s);
    match &kp {
        Ok(ks) => {
            for k in ks {
                let _ = k.to_string();
            }
        }
        Err(e) => use_err(e),
    }
    let dt = s.parse::<toml_datetime::Datetime>();
    if let Ok(d) = &dt {
        let _ = d.to_string();
        let _ = format!("{d:?}");
    }
    // serde front ends
    let tv = toml::from_str::<toml::Value>(s);
    match &tv {
        Ok(x) => {
            let _ = format!("{x:?}");
            let _ = toml::to_string(x).map(|t| t.len());
            let _ = toml::to_string_pretty(x).map(|t| t.len());
            let _ = x.to_string();
        }
        Err(e) => {
            let _ = e.to_string();
            let _ = format!("{e:?}");
            let _ = e.span();
            let _ = e.message().len();
        }
    }
    let tt = s.parse::<toml::Table>().is_ok();
    let ed = toml_edit::de::from_str::<toml::Value>(s).is_ok();
    let tv_ok = tv.is_ok();
    drop(tv);
    drop(doc);
    let el = t0.elapsed().as_micros() as u64;
    (
        format!(
            "utf8=yes doc={} val={} key={} kp={} dt={} slice={} toml={} table={} edit_de={}",
            v(doc_ok), v(val.is_ok()), v(key.is_ok()), v(kp.is_ok()), v(dt.is_ok()), v(slice_ok), v(tv_ok), v(tt), v(ed)
        ),
        el,
    )
}
