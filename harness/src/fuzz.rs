//! `fuzz`: every entry point on arbitrary bytes, and everything a caller can do with what was
//! returned (C04).  A panic is caught by the main loop and reported as `PANIC ...`.
use crate::util::*;
use std::time::Instant;

fn v(ok: bool) -> &'static str {
    if ok { "ok" } else { "err" }
}

fn use_err(e: &toml_edit::TomlError) {
    let _ = e.to_string();
    let _ = format!("{e:?}");
    let _ = e.message().len();
    let _ = e.span();
    let _ = e.clone();
}

fn use_key(key: &toml_edit::Key) {
    let _ = key.to_string();
    let _ = key.display_repr().len();
    let _ = key.default_repr();
    let _ = format!("{key:?}");
    let _ = key.clone();
    let _ = key.span();
    let _ = key.get().len();
    let _ = format!("{:?}{:?}", key.leaf_decor(), key.dotted_decor());
    // comparisons and conversions of key.rs / raw_string.rs that only a caller's code uses
    let ks = key.get().to_owned();
    assert!(*key == *ks.as_str() && *key == ks.as_str() && *key == ks && key.partial_cmp(key) == Some(std::cmp::Ordering::Equal),
            "agree: Key compares by its name");
    let decor = toml_edit::Decor::new(toml_edit::RawString::from(&ks), toml_edit::RawString::from(ks.clone().into_boxed_str()));
    let _ = toml_edit::RawString::from(&toml_edit::InternalString::from(ks.as_str())).as_str().map(|t| t.len());
    let rebuilt = toml_edit::Key::from(&ks).with_leaf_decor(decor.clone());
    #[allow(deprecated)]
    let _ = (rebuilt.to_string(), format!("{:?}", rebuilt.decor()), toml_edit::Key::new(&ks).with_decor(decor).to_string());
    assert!(rebuilt == *key, "agree: Key::from(&String)");
}

/// the mutable view of a key (key.rs KeyMut), on a copy of the table
fn use_key_mut(t: &toml_edit::Table) {
    let mut c = t.clone();
    for (mut k, _) in c.iter_mut() {
        let name = k.get().to_owned();
        let shown = k.to_string();
        assert!(k == *name.as_str() && k == name.as_str() && k == name && &*k == name.as_str(), "agree: KeyMut compares by its name");
        let _ = (k.as_repr().map(|r| format!("{r:?}")), k.default_repr(), k.display_repr().len());
        let _ = format!("{:?}{:?}", k.leaf_decor(), k.dotted_decor());
        #[allow(deprecated)]
        let _ = format!("{:?}", k.decor());
        k.fmt();
        // without a stored spelling the key prints its default spelling, which reads back as the same name
        let plain = k.display_repr().into_owned();
        assert!(plain.parse::<toml_edit::Key>().map(|p| p.get() == name).unwrap_or(false), "agree: default spelling of key {shown} reads back: {plain}");
        #[allow(deprecated)]
        k.decor_mut().clear();
    }
    let _ = c.to_string();
}

macro_rules! use_formatted {
    ($f:expr) => {{
        let f = $f;
        let _ = f.display_repr().len();
        let _ = f.default_repr();
        let _ = f.to_string();
        let _ = format!("{f:?}");
        let _ = f.clone();
        let _ = f.span();
        let _ = f.as_repr().map(|r| format!("{r:?}"));
        let _ = format!("{:?}", f.decor());
        // Formatted::fmt drops the stored spelling: the default spelling must be a value of the same kind again
        let mut g = f.clone();
        g.fmt();
        let kind = toml_edit::Value::from(g.value().clone()).type_name();
        let txt = g.display_repr().into_owned();
        assert!(txt.parse::<toml_edit::Value>().map(|v| v.type_name() == kind).unwrap_or(false), "agree: default spelling reads back as {kind}: {txt}");
    }};
}

/// print / debug-print / clone / measure every node kind and every key reachable from an item, without
/// mutating it: called on the root of a DocumentMut (owned text everywhere) and on the root of an
/// ImDocument (every repr and decor still a span into the source; the name `walk_im` is kept for that use)
fn walk_nodes(it: &toml_edit::Item) {
    let _ = it.to_string();
    let _ = format!("{it:?}");
    let _ = it.clone();
    let _ = it.span();
    let _ = it.type_name();
    if let Some(tl) = it.as_table_like() {
        let _ = tl.len();
        let _ = tl.is_empty();
        let _ = tl.get_values().len();
        for (k, _) in tl.iter() {
            if let Some((key, _)) = tl.get_key_value(k) {
                use_key(key);
            }
            let _ = tl.key(k).map(|key| key.to_string());
            let _ = tl.contains_key(k);
        }
    }
    match it {
        toml_edit::Item::None => {}
        toml_edit::Item::Value(v) => walk_value(v),
        toml_edit::Item::Table(t) => {
            let _ = t.to_string();
            let _ = format!("{t:?}");
            let _ = t.clone();
            let _ = (t.span(), t.position(), t.is_dotted(), t.is_implicit(), t.len(), t.is_empty());
            let _ = format!("{:?}", t.decor());
            use_key_mut(t);
            for (k, x) in t.iter() {
                if let Some((key, _)) = t.get_key_value(k) {
                    use_key(key);
                }
                walk_nodes(x);
            }
            // the conversion the deserializers and `Item::into_value` rely on
            let _ = t.clone().into_inline_table().to_string();
        }
        toml_edit::Item::ArrayOfTables(a) => {
            let _ = a.to_string();
            let _ = format!("{a:?}");
            let _ = a.clone();
            let _ = (a.span(), a.len(), a.is_empty());
            for t in a.iter() {
                let _ = t.to_string();
                let _ = format!("{t:?}");
                for (k, x) in t.iter() {
                    if let Some((key, _)) = t.get_key_value(k) {
                        use_key(key);
                    }
                    walk_nodes(x);
                }
            }
            let _ = a.clone().into_array().to_string();
            let _ = a.clone().into_iter().count();
        }
    }
    let _ = it.clone().into_value().map(|v| v.to_string());
    let _ = it.clone().into_table().map(|t| t.to_string());
}
use walk_nodes as walk_im;

fn walk_value(v: &toml_edit::Value) {
    use serde::de::IntoDeserializer;
    use serde::Deserialize;
    let _ = v.to_string();
    let _ = format!("{v:?}");
    let _ = v.clone();
    let _ = v.span();
    let _ = v.type_name();
    let _ = format!("{:?}", v.decor());
    // ValueDeserializer on the node itself (owned or still spanned)
    let _ = toml::Value::deserialize(v.clone().into_deserializer()).map(|x| x.to_string());
    match v {
        toml_edit::Value::String(f) => use_formatted!(f),
        toml_edit::Value::Integer(f) => use_formatted!(f),
        toml_edit::Value::Float(f) => use_formatted!(f),
        toml_edit::Value::Boolean(f) => use_formatted!(f),
        toml_edit::Value::Datetime(f) => use_formatted!(f),
        toml_edit::Value::Array(a) => {
            let _ = a.to_string();
            let _ = format!("{a:?}");
            let _ = a.clone();
            let _ = (a.span(), a.len(), a.is_empty(), a.trailing_comma());
            let _ = format!("{:?}", a.trailing());
            for x in a.iter() {
                walk_value(x);
            }
            let _ = a.clone().into_iter().count();
        }
        toml_edit::Value::InlineTable(t) => {
            let _ = t.to_string();
            let _ = format!("{t:?}");
            let _ = t.clone();
            let _ = (t.span(), t.len(), t.is_empty(), t.is_dotted());
            let _ = format!("{:?}", t.preamble());
            let _ = t.get_values().len();
            for (k, x) in t.iter() {
                if let Some((key, _)) = t.get_key_value(k) {
                    use_key(key);
                }
                let _ = t.get(k).map(|x| x.type_name());
                walk_value(x);
            }
            let _ = t.clone().into_table().to_string();
            let _ = t.clone().into_iter().count();
        }
    }
}

/// the default traversal of `toml_edit::visit` / `toml_edit::visit_mut` (what `DocumentFormatter` and user visitors ride on)
struct CountNodes(usize);
impl<'doc> toml_edit::visit::Visit<'doc> for CountNodes {
    fn visit_value(&mut self, node: &'doc toml_edit::Value) {
        self.0 += 1;
        toml_edit::visit::visit_value(self, node);
    }
}
impl toml_edit::visit_mut::VisitMut for CountNodes {
    fn visit_value_mut(&mut self, node: &mut toml_edit::Value) {
        self.0 += 1;
        toml_edit::visit_mut::visit_value_mut(self, node);
    }
}

/// print / debug-print / clone / re-serialize / re-deserialize every node of a `toml::Value`
fn walk_toml(x: &toml::Value) {
    let _ = x.to_string();
    let _ = format!("{x:?}");
    let _ = x.clone();
    let _ = x.type_str();
    let _ = x.clone().try_into::<toml::Value>().map(|y| y == *x);
    let _ = toml::Value::try_from(x).map(|y| y == *x);
    toml_value_api(x);
    match x {
        toml::Value::Array(a) => {
            for y in a {
                walk_toml(y);
            }
        }
        toml::Value::Table(t) => {
            let _ = t.to_string();
            let _ = format!("{t:?}");
            let _ = toml::to_string(t).map(|s| s.len());
            let _ = toml::to_string_pretty(t).map(|s| s.len());
            let _ = x.clone().try_into::<toml::Table>().map(|y| y.len());
            let _ = t.clone().try_into::<toml::Value>().map(|y| y.is_table());
            for (_, y) in t {
                walk_toml(y);
            }
        }
        _ => {}
    }
}

/// the serde paths that hand out spans and date-time kinds
fn serde_extras(s: &str) {
    use serde_spanned::Spanned;
    use std::collections::BTreeMap;
    let _ = toml::from_str::<Spanned<toml::Table>>(s).map(|x| x.span());
    let _ = toml::from_str::<BTreeMap<Spanned<String>, Spanned<toml::Value>>>(s).map(|m| m.len());
    let _ = toml_edit::de::from_str::<BTreeMap<Spanned<String>, Spanned<toml::Value>>>(s).map(|m| m.len());
    for r in [
        toml::from_str::<BTreeMap<String, toml_datetime::Datetime>>(s).map(|m| m.len()),
        toml::from_str::<BTreeMap<String, toml_datetime::Date>>(s).map(|m| m.len()),
        toml::from_str::<BTreeMap<String, toml_datetime::Time>>(s).map(|m| m.len()),
        toml::from_str::<BTreeMap<String, Vec<BTreeMap<String, Option<i8>>>>>(s).map(|m| m.len()),
    ] {
        if let Err(e) = r {
            let _ = e.to_string();
            let _ = format!("{e:?}");
            let _ = e.span();
        }
    }
    let _ = s.parse::<toml_edit::de::ValueDeserializer>().map(|d| {
        use serde::Deserialize;
        toml::Value::deserialize(d).map(|x| x.to_string())
    });
    let _ = s.parse::<toml_edit::de::Deserializer>().map(|d| {
        use serde::Deserialize;
        toml::Value::deserialize(d).map(|x| x.to_string())
    });
}

/// Entry points and conversions that measured source coverage (lib/coverage_run.py) showed no check ever called.
/// Each is a second way to the same answer, so it is compared with the first way; a disagreement panics and
/// is reported as `PANIC agree: ..` like any other C04 failure.
fn more_entry_points(s: &str, d: &toml_edit::DocumentMut) {
    use serde::de::IntoDeserializer;
    use serde::Deserialize;
    let show = |r: Result<toml::Value, toml_edit::de::Error>| match r {
        Ok(x) => format!("ok {x:?}"),
        Err(e) => format!("err {e}"),
    };
    // toml_edit/src/de/mod.rs: IntoDeserializer for DocumentMut / ImDocument<String> / Deserializer, Deserializer::new
    let base = show(toml_edit::de::from_document::<toml::Value>(d.clone()));
    let a = show(toml::Value::deserialize(d.clone().into_deserializer()));
    #[allow(deprecated)]
    let b = show(toml::Value::deserialize(toml_edit::de::Deserializer::new(d.clone())));
    let c = show(toml::Value::deserialize(toml_edit::de::Deserializer::from(d.clone()).into_deserializer()));
    assert!(a == base && b == base && c == base, "agree: DocumentMut deserializer entry points: {base} / {a} / {b} / {c}");
    if let Ok(im) = toml_edit::ImDocument::parse(s.to_string()) {
        let base = show(toml_edit::de::from_document::<toml::Value>(im.clone()));
        let a = show(toml::Value::deserialize(im.clone().into_deserializer()));
        assert!(a == base, "agree: ImDocument deserializer entry points: {base} / {a}");
        // ImDocument's own read accessors (document.rs)
        let _ = im.iter().count();
        let _ = format!("{:?}", im.trailing());
        assert!(im.raw() == s, "agree: ImDocument::raw is not the source");
        let _ = (*im).len();
    }
    let _ = d.iter().count();
    // error conversions (de/mod.rs, ser/mod.rs) keep the message
    if let Err(e) = toml_edit::de::from_str::<std::collections::BTreeMap<String, i8>>(s) {
        let m = e.to_string();
        let te: toml_edit::TomlError = e.into();
        assert!(te.to_string() == m, "agree: de::Error -> TomlError changes the rendering");
        let se: toml_edit::ser::Error = te.into();
        let back: toml_edit::TomlError = se.clone().into();
        let _ = (se.to_string(), back.to_string(), format!("{se:?}"));
    }
    // toml_edit::ser::to_vec = to_string bytes
    if let Ok(x) = toml_edit::de::from_document::<toml::Value>(d.clone()) {
        let t = toml_edit::ser::to_string(&x).map_err(|e| e.to_string());
        let v = toml_edit::ser::to_vec(&x).map(|v| String::from_utf8_lossy(&v).into_owned()).map_err(|e| e.to_string());
        assert!(t == v, "agree: toml_edit::ser::to_vec and to_string");
    }
}

/// `toml::Value`'s accessors, indexing and `From` conversions against its variant (toml/src/value.rs)
fn toml_value_api(x: &toml::Value) {
    use toml::Value as V;
    let kinds = [x.is_integer(), x.is_float(), x.is_bool(), x.is_str(), x.is_datetime(), x.is_array(), x.is_table()];
    let opts = [x.as_integer().is_some(), x.as_float().is_some(), x.as_bool().is_some(), x.as_str().is_some(),
                x.as_datetime().is_some(), x.as_array().is_some(), x.as_table().is_some()];
    assert!(kinds == opts && kinds.iter().filter(|k| **k).count() == 1, "agree: toml::Value is_* / as_* of a {}", x.type_str());
    assert!(x.same_type(x) && x.same_type(&x.clone()), "agree: toml::Value::same_type");
    let rebuilt = match x {
        V::String(t) => V::from(t.as_str()),
        V::Integer(i) => V::from(*i),
        V::Float(f) => V::from(*f),
        V::Boolean(b) => V::from(*b),
        V::Datetime(d) => V::from(*d),
        V::Array(a) => V::from(a.clone()),
        V::Table(t) => V::from(t.iter().map(|(k, v)| (k.clone(), v.clone())).collect::<std::collections::BTreeMap<String, V>>()),
    };
    assert!(format!("{rebuilt:?}") == format!("{x:?}"), "agree: toml::Value::from rebuilds the value");
    let mut y = x.clone();
    match x {
        V::Array(a) => {
            for (i, e) in a.iter().enumerate() {
                assert!(x.get(i).map(|g| format!("{g:?}")) == Some(format!("{e:?}")) && format!("{:?}", x[i]) == format!("{e:?}"),
                        "agree: toml::Value index {i}");
                let _ = y.get_mut(i).map(|m| m.type_str());
                y[i] = V::Integer(i as i64);
            }
            assert!(x.get(a.len()).is_none() && x.get("a").is_none(), "agree: toml::Value::get out of range");
        }
        V::Table(t) => {
            for (k, e) in t {
                let ks: String = k.clone();
                assert!(x.get(k.as_str()).is_some() && format!("{:?}", x[k.as_str()]) == format!("{e:?}") && format!("{:?}", x[&ks]) == format!("{e:?}"),
                        "agree: toml::Value index by key");
                let _ = y.get_mut(&ks).map(|m| m.type_str());
                y[k.as_str()] = V::Boolean(true);
            }
            assert!(x.get(0).is_none(), "agree: toml::Value::get(0) on a table");
            let h: std::collections::HashMap<String, V> = t.iter().map(|(k, v)| (k.clone(), v.clone())).collect();
            assert!(V::from(h).as_table().map(|m| m.len()) == Some(t.len()), "agree: toml::Value::from(HashMap)");
        }
        _ => {
            assert!(x.get(0).is_none() && x.get("a").is_none(), "agree: toml::Value::get on a scalar");
        }
    }
    let _ = y.to_string();
    // a scalar asked for as a date-time / an Option: the visitors' `expecting` texts and visit_some
    let _ = x.clone().try_into::<toml_datetime::Datetime>().map_err(|e| e.to_string());
    let _ = x.clone().try_into::<toml_datetime::Date>().map_err(|e| e.to_string());
    let o = x.clone().try_into::<Option<V>>().map(|o| o.map(|v| format!("{v:?}")));
    assert!(o.ok().flatten() == Some(format!("{x:?}")), "agree: Option<toml::Value> from a value");
}

/// a `Serialize` that goes through `serialize_bytes` (derive never does; serde_bytes and hand-written impls do)
struct RawBytes<'a>(&'a [u8]);
impl serde::Serialize for RawBytes<'_> {
    fn serialize<S: serde::Serializer>(&self, s: S) -> Result<S::Ok, S::Error> {
        s.serialize_bytes(self.0)
    }
}
#[derive(serde::Serialize)]
struct UnitMarker;
#[derive(serde::Serialize)]
struct HoldsBytes<'a> {
    b: RawBytes<'a>,
    u: Option<UnitMarker>,
}
#[derive(serde::Deserialize, PartialEq, Eq, PartialOrd, Ord, Debug)]
#[allow(non_camel_case_types)]
enum KeyShape {
    a,
    b(i64),
    c(i64, i64),
    d { x: i64 },
    key,
}

/// a struct that carries toml_datetime's private struct and field names (the in-band tunnel, known class
/// `private-datetime-key`) around a payload that is not date-time text: every payload kind must be refused by
/// toml_edit/src/ser/map.rs DatetimeFieldSerializer with an error, never accepted and never a panic
#[derive(serde::Serialize)]
#[serde(rename = "$__toml_private_Datetime")]
struct FakeDatetime<T> {
    #[serde(rename = "$__toml_private_datetime")]
    v: T,
}
#[derive(serde::Serialize)]
struct HoldsFake<T> {
    d: FakeDatetime<T>,
}
#[derive(serde::Serialize)]
enum FakeKinds {
    U,
    N(i64),
    T(i64, i64),
    S { x: i64 },
}
#[derive(serde::Serialize)]
struct FakeNewtype(i64);
#[derive(serde::Serialize)]
struct FakePair(i64, i64);
#[derive(serde::Serialize)]
struct FakeRec {
    x: i64,
}

fn fake_datetime<T: serde::Serialize>(what: &str, v: T) {
    let h = HoldsFake { d: FakeDatetime { v } };
    let r = toml_edit::ser::to_string(&h).map_err(|e| (e.to_string(), format!("{e:?}")));
    let t = toml::to_string(&h).map_err(|e| e.to_string());
    assert!(r.is_err() && t.is_err(), "agree: the date-time tunnel accepted a {what}: {r:?} / {t:?}");
}

fn fake_datetimes_once() {
    static ONCE: std::sync::Once = std::sync::Once::new();
    ONCE.call_once(|| {
        fake_datetime("bool", true);
        fake_datetime("i8", 1i8);
        fake_datetime("i16", 1i16);
        fake_datetime("i32", 1i32);
        fake_datetime("i64", 1i64);
        fake_datetime("u8", 1u8);
        fake_datetime("u16", 1u16);
        fake_datetime("u32", 1u32);
        fake_datetime("u64", 1u64);
        fake_datetime("f32", 1f32);
        fake_datetime("f64", 1f64);
        fake_datetime("char", 'c');
        fake_datetime("str that is no date-time", "x");
        fake_datetime("bytes", RawBytes(b"1979-05-27"));
        fake_datetime("none", None::<i64>);
        fake_datetime("some", Some("1979-05-27"));
        fake_datetime("unit", ());
        fake_datetime("unit struct", UnitMarker);
        fake_datetime("unit variant", FakeKinds::U);
        fake_datetime("newtype struct", FakeNewtype(1));
        fake_datetime("newtype variant", FakeKinds::N(1));
        fake_datetime("seq", vec![1i64]);
        fake_datetime("tuple", (1i64, 2i64));
        fake_datetime("tuple struct", FakePair(1, 2));
        fake_datetime("tuple variant", FakeKinds::T(1, 2));
        fake_datetime("map", std::collections::BTreeMap::<String, i64>::new());
        fake_datetime("struct", FakeRec { x: 1 });
        fake_datetime("struct variant", FakeKinds::S { x: 1 });
        // and the one payload that is date-time text goes through
        let h = HoldsFake { d: FakeDatetime { v: "1979-05-27" } };
        assert!(toml_edit::ser::to_string(&h).as_deref() == Ok("d = 1979-05-27\n"), "agree: the date-time tunnel with date-time text");
    });
}

/// serializer / deserializer methods no derived type reaches
fn serde_corners(b: &[u8], s: &str) {
    use serde::Serialize;
    use std::collections::BTreeMap;
    fake_datetimes_once();
    let head = &b[..b.len().min(24)];
    let want = format!("[{}]", head.iter().map(|x| x.to_string()).collect::<Vec<_>>().join(", "));
    // bytes = an array of integers, on every serializer (toml, toml_edit, Value::try_from); a table root refuses them
    let h = HoldsBytes { b: RawBytes(head), u: None };
    let t1 = toml::to_string(&h).map_err(|e| e.to_string());
    let t2 = toml_edit::ser::to_string(&h).map_err(|e| e.to_string());
    assert!(t1 == Ok(format!("b = {want}\n")) && t1 == t2, "agree: bytes in a struct: {t1:?} / {t2:?}");
    let v = toml::Value::try_from(&h).map(|v| v["b"].to_string()).map_err(|e| e.to_string());
    assert!(v == Ok(want.clone()), "agree: Value::try_from of bytes: {v:?}");
    let mut out = String::new();
    let r = RawBytes(head).serialize(toml::ser::ValueSerializer::new(&mut out)).map_err(|e| e.to_string());
    assert!(r.is_ok() && out == want, "agree: toml::ser::ValueSerializer bytes: {r:?} {out}");
    let r = RawBytes(head).serialize(toml_edit::ser::ValueSerializer::new()).map(|v| v.to_string()).map_err(|e| e.to_string());
    assert!(r == Ok(want.clone()), "agree: toml_edit ValueSerializer bytes: {r:?}");
    assert!(toml::to_string(&RawBytes(head)).is_err() && toml::Table::try_from(RawBytes(head)).is_err(), "agree: bytes at the root are refused");
    let km: BTreeMap<RawBytes<'_>, i64> = BTreeMap::new();
    let _ = km;
    // a unit struct: refused everywhere, as a value and as the root
    let mut out = String::new();
    let e1 = UnitMarker.serialize(toml::ser::ValueSerializer::new(&mut out)).map_err(|e| (e.to_string(), format!("{e:?}")));
    let e2 = toml::to_string(&UnitMarker).map_err(|e| e.to_string());
    let e3 = toml::Value::try_from(UnitMarker).map_err(|e| e.to_string());
    assert!(e1.is_err() && e2.is_err() && e3.is_err(), "agree: a unit struct is refused: {e1:?} {e2:?} {e3:?}");
    // map keys that are enum variants with a payload (toml_edit/src/de/key.rs UnitOnly): refused, rendered, never a panic
    for r in [toml::from_str::<BTreeMap<KeyShape, toml::Value>>(s).map(|m| m.len()),
              toml::from_str::<BTreeMap<String, BTreeMap<KeyShape, toml::Value>>>(s).map(|m| m.len())] {
        if let Err(e) = r {
            let _ = (e.to_string(), format!("{e:?}"), e.span());
        }
    }
    if let Err(e) = toml_edit::de::from_str::<BTreeMap<KeyShape, toml::Value>>(s) {
        let _ = (e.to_string(), format!("{e:?}"), e.span());
    }
}

/// serde_spanned's own API on what the deserializer handed out: the wrapper is transparent
fn spanned_api(s: &str) {
    use serde_spanned::Spanned;
    use std::collections::BTreeMap;
    use std::hash::{Hash, Hasher};
    let (Ok(sp), Ok(plain)) = (toml::from_str::<BTreeMap<Spanned<String>, Spanned<toml::Value>>>(s), toml::from_str::<BTreeMap<String, toml::Value>>(s)) else {
        return;
    };
    let a = toml::to_string(&sp).map_err(|e| e.to_string());
    let b = toml::to_string(&plain).map_err(|e| e.to_string());
    assert!(a == b, "agree: Spanned serializes as its value: {a:?} / {b:?}");
    for ((k, v), (pk, pv)) in sp.iter().zip(plain.iter()) {
        assert!(k.get_ref() == pk && k.as_ref() == pk && std::borrow::Borrow::<str>::borrow(k) == pk.as_str(), "agree: Spanned key accessors");
        assert!(format!("{:?}", v.get_ref()) == format!("{pv:?}") && k.span().start <= k.span().end && v.span().end <= s.len(), "agree: Spanned value accessors");
        let again = Spanned::new(0..0, k.get_ref().clone());
        let hash = |x: &Spanned<String>| {
            let mut h = std::collections::hash_map::DefaultHasher::new();
            x.hash(&mut h);
            h.finish()
        };
        assert!(again == *k && again.partial_cmp(k) == Some(std::cmp::Ordering::Equal) && hash(&again) == hash(k), "agree: Spanned compares by value");
        let mut m = again.clone();
        m.get_mut().push('x');
        *m.as_mut() = pk.clone();
        assert!(m.into_inner() == *pk, "agree: Spanned::into_inner");
    }
}

/// toml_write's value writers (toml_write/src/value.rs) on what was parsed: arrays of integers, tables of integers, every width
fn toml_write_values(x: &toml::Value) {
    use toml_write::ToTomlValue;
    let Some(t) = x.as_table() else { return };
    use toml_write::WriteTomlValue;
    // (`&str` is not a WriteTomlKey: the blanket impl for `&V` needs `V: Sized`; String and str are)
    let ints: std::collections::BTreeMap<String, i64> = t.iter().filter_map(|(k, v)| v.as_integer().map(|i| (k.clone(), i))).collect();
    if !ints.is_empty() {
        let text = format!("v = {}", ints.to_toml_value());
        let back = text.parse::<toml::Table>().map(|t| t["v"].as_table().map(|m| m.iter().map(|(k, v)| (k.clone(), v.as_integer())).collect::<Vec<_>>()));
        let want: Vec<(String, Option<i64>)> = ints.iter().map(|(k, v)| (k.to_string(), Some(*v))).collect();
        assert!(back == Ok(Some(want)), "agree: toml_write inline table of integers reparses: {text}");
        let h: std::collections::HashMap<String, i64> = ints.iter().take(1).map(|(k, v)| (k.clone(), *v)).collect();
        let one: std::collections::BTreeMap<String, i64> = h.iter().map(|(k, v)| (k.clone(), *v)).collect();
        assert!(h.to_toml_value() == one.to_toml_value() && (&&one).to_toml_value() == one.to_toml_value(), "agree: toml_write HashMap / reference");
    }
    for v in t.values() {
        let Some(a) = v.as_array() else { continue };
        let Some(is) = a.iter().map(|e| e.as_integer()).collect::<Option<Vec<i64>>>() else { continue };
        let mut direct = String::new();
        let _ = is.as_slice().write_toml_value(&mut direct);
        let texts = [is.to_toml_value(), direct, (&is).to_toml_value()];
        let back = format!("v = {}", texts[0]).parse::<toml::Table>().map(|t| t["v"].as_array().map(|a| a.iter().map(|e| e.as_integer()).collect::<Vec<_>>()));
        assert!(texts[0] == texts[1] && texts[1] == texts[2] && back == Ok(Some(is.iter().map(|i| Some(*i)).collect())), "agree: toml_write array of integers reparses: {}", texts[0]);
        for i in is.iter().take(4) {
            let i = *i;
            let w = [(i as i8).to_toml_value() == (i as i8).to_string(), (i as u16).to_toml_value() == (i as u16).to_string(),
                     (i as i16).to_toml_value() == (i as i16).to_string(), (i as u32).to_toml_value() == (i as u32).to_string(),
                     (i as i32).to_toml_value() == (i as i32).to_string(), (i as u64).to_toml_value() == (i as u64).to_string(),
                     (i as u128).to_toml_value() == (i as u128).to_string(), (i as i128).to_toml_value() == (i as i128).to_string(),
                     [i, i].to_toml_value() == format!("[{i}, {i}]")];
            assert!(w.iter().all(|x| *x), "agree: toml_write integer widths");
        }
    }
}

pub fn cmd_fuzz(args: &crate::Args) -> String {
    // a timing measurement is noisy on a loaded machine: an over-budget run is repeated and the
    // fastest of three runs is what counts
    let mut best: Option<(String, u64)> = None;
    for _ in 0..3 {
        let (line, el) = fuzz_once(&args[0]);
        let slow = el > budget_us(args[0].len());
        if best.as_ref().map_or(true, |(_, b)| el < *b) {
            best = Some((line, el));
        }
        if !slow {
            break;
        }
    }
    let (line, el) = best.unwrap();
    if el > budget_us(args[0].len()) {
        format!("{line} SLOW={el}us")
    } else {
        line
    }
}

/// generous linear budget: 250 ms + 50 us per byte (debug builds on a loaded machine included)
fn budget_us(len: usize) -> u64 {
    250_000 + 50 * (len as u64)
}

fn fuzz_once(b: &Vec<u8>) -> (String, u64) {
    let t0 = Instant::now();
    let slice = toml_edit::de::from_slice::<toml::Value>(b);
    if let Err(e) = &slice {
        let _ = e.to_string();
        let _ = format!("{e:?}");
    }
    let slice_ok = slice.is_ok();
    let s = match std::str::from_utf8(b) {
        Ok(s) => s,
        Err(_) => return (format!("utf8=no slice={}", v(slice_ok)), t0.elapsed().as_micros() as u64),
    };
    // document
    let doc = s.parse::<toml_edit::DocumentMut>();
    let doc_ok = doc.is_ok();
    match &doc {
        Ok(d) => {
            let p = d.to_string();
            let _ = format!("{d:?}");
            let c = d.clone();
            let _ = c.to_string() == p;
            drop(c);
            let _ = toml_edit::de::from_document::<toml::Value>(d.clone()).map(|x| format!("{x:?}").len());
            let _ = p.parse::<toml_edit::DocumentMut>().map(|d2| d2.to_string().len());
            // every node kind of the owned document: Display / Debug / Clone / accessors / ValueDeserializer
            walk_nodes(d.as_item());
            more_entry_points(s, d);
            let _ = d.as_table().to_string();
            let _ = format!("{:?}{:?}", d.decor(), d.trailing());
            {
                use toml_edit::visit::Visit;
                use toml_edit::visit_mut::VisitMut;
                let mut n = CountNodes(0);
                n.visit_document(d);
                let mut c2 = d.clone();
                n.visit_document_mut(&mut c2);
                let _ = c2.to_string();
            }
        }
        Err(e) => use_err(e),
    }
    let im = toml_edit::ImDocument::parse(s);
    match &im {
        Ok(d) => {
            let _ = format!("{d:?}");
            // printing from the span-keeping document itself (no into_mut): every item, key and value still
            // refers to the source through spans
            let _ = d.as_item().to_string();
            let _ = d.as_table().to_string();
            walk_im(d.as_item());
            let _ = d.clone().into_mut().to_string();
            if let Ok(owned) = toml_edit::ImDocument::parse(s.to_string()) {
                let _ = toml_edit::de::from_document::<toml::Value>(owned).map(|x| format!("{x:?}").len());
            }
        }
        Err(e) => use_err(e),
    }
    drop(im);
    // value / key / key path / datetime
    let val = s.parse::<toml_edit::Value>();
    match &val {
        Ok(x) => {
            let _ = x.to_string();
            let _ = format!("{x:?}");
            let _ = x.clone();
        }
        Err(e) => use_err(e),
    }
    let key = s.parse::<toml_edit::Key>();
    match &key {
        Ok(k) => {
            let _ = k.to_string();
            let _ = format!("{k:?}");
        }
        Err(e) => use_err(e),
    }
    let kp = toml_edit::Key::parse(s);
    match &kp {
        Ok(ks) => {
            for k in ks {
                let _ = k.to_string();
            }
        }
        Err(e) => use_err(e),
    }
    let dt = s.parse::<toml_datetime::Datetime>();
    if let Ok(d) = &dt {
        let _ = d.to_string();
        let _ = format!("{d:?}");
        // what the standalone parser returned, fed back through the serde tunnel at every date-time kind
        let v = toml::Value::Datetime(d.clone());
        let _ = v.clone().try_into::<toml_datetime::Datetime>().map(|x| x.to_string());
        let _ = v.clone().try_into::<toml_datetime::Date>().map_err(|e| e.to_string());
        let _ = v.clone().try_into::<toml_datetime::Time>().map_err(|e| e.to_string());
        let _ = v.clone().try_into::<String>().map_err(|e| e.to_string());
        let _ = toml::Value::try_from(d.clone()).map(|x| x.to_string());
        let _ = v.to_string();
    }
    // serde front ends
    let tv = toml::from_str::<toml::Value>(s);
    match &tv {
        Ok(x) => {
            let _ = format!("{x:?}");
            let _ = toml::to_string(x).map(|t| t.len());
            let _ = toml::to_string_pretty(x).map(|t| t.len());
            let _ = x.to_string();
            walk_toml(x);
            serde_extras(s);
            serde_corners(b, s);
            spanned_api(s);
            toml_write_values(x);
        }
        Err(e) => {
            let _ = e.to_string();
            let _ = format!("{e:?}");
            let _ = e.span();
            let _ = e.message().len();
        }
    }
    let table = s.parse::<toml::Table>();
    if let Ok(t) = &table {
        let _ = t.to_string();
        let _ = format!("{t:?}");
    }
    let tt = table.is_ok();
    let _ = s.parse::<toml::Value>().map(|x| x.to_string());
    let ed = toml_edit::de::from_str::<toml::Value>(s).is_ok();
    let tv_ok = tv.is_ok();
    drop(tv);
    drop(doc);
    let el = t0.elapsed().as_micros() as u64;
    (
        format!(
            "utf8=yes doc={} val={} key={} kp={} dt={} slice={} toml={} table={} edit_de={}",
            v(doc_ok), v(val.is_ok()), v(key.is_ok()), v(kp.is_ok()), v(dt.is_ok()), v(slice_ok), v(tv_ok), v(tt), v(ed)
        ),
        el,
    )
}
