//! `fuzz`: every entry point on arbitrary bytes, and everything a caller can do with what was
//! returned (C04).  A panic is caught by the main loop and reported as `PANIC ...`.
use crate::util::*;
use std::time::Instant;

fn v(ok: bool) -> &'static str {
    if ok { "ok" } else { "err" }
}

fn use_err(e: &toml_edit::TomlError) {
    let _ = e.to_string();
    let _ = format!("{e:?}");
    let _ = e.message().len();
    let _ = e.span();
    let _ = e.clone();
}

fn use_key(key: &toml_edit::Key) {
    let _ = key.to_string();
    let _ = key.display_repr().len();
    let _ = key.default_repr();
    let _ = format!("{key:?}");
    let _ = key.clone();
    let _ = key.span();
    let _ = key.get().len();
    let _ = format!("{:?}{:?}", key.leaf_decor(), key.dotted_decor());
}

macro_rules! use_formatted {
    ($f:expr) => {{
        let f = $f;
        let _ = f.display_repr().len();
        let _ = f.default_repr();
        let _ = f.to_string();
        let _ = format!("{f:?}");
        let _ = f.clone();
        let _ = f.span();
        let _ = f.as_repr().map(|r| format!("{r:?}"));
        let _ = format!("{:?}", f.decor());
    }};
}

/// print / debug-print / clone / measure every node kind and every key reachable from an item, without
/// mutating it: called on the root of a DocumentMut (owned text everywhere) and on the root of an
/// ImDocument (every repr and decor still a span into the source; the name `walk_im` is kept for that use)
fn walk_nodes(it: &toml_edit::Item) {
    let _ = it.to_string();
    let _ = format!("{it:?}");
    let _ = it.clone();
    let _ = it.span();
    let _ = it.type_name();
    if let Some(tl) = it.as_table_like() {
        let _ = tl.len();
        let _ = tl.is_empty();
        let _ = tl.get_values().len();
        for (k, _) in tl.iter() {
            if let Some((key, _)) = tl.get_key_value(k) {
                use_key(key);
            }
            let _ = tl.key(k).map(|key| key.to_string());
            let _ = tl.contains_key(k);
        }
    }
    match it {
        toml_edit::Item::None => {}
        toml_edit::Item::Value(v) => walk_value(v),
        toml_edit::Item::Table(t) => {
            let _ = t.to_string();
            let _ = format!("{t:?}");
            let _ = t.clone();
            let _ = (t.span(), t.position(), t.is_dotted(), t.is_implicit(), t.len(), t.is_empty());
            let _ = format!("{:?}", t.decor());
            for (k, x) in t.iter() {
                if let Some((key, _)) = t.get_key_value(k) {
                    use_key(key);
                }
                walk_nodes(x);
            }
            // the conversion the deserializers and `Item::into_value` rely on
            let _ = t.clone().into_inline_table().to_string();
        }
        toml_edit::Item::ArrayOfTables(a) => {
            let _ = a.to_string();
            let _ = format!("{a:?}");
            let _ = a.clone();
            let _ = (a.span(), a.len(), a.is_empty());
            for t in a.iter() {
                let _ = t.to_string();
                let _ = format!("{t:?}");
                for (k, x) in t.iter() {
                    if let Some((key, _)) = t.get_key_value(k) {
                        use_key(key);
                    }
                    walk_nodes(x);
                }
            }
            let _ = a.clone().into_array().to_string();
            let _ = a.clone().into_iter().count();
        }
    }
    let _ = it.clone().into_value().map(|v| v.to_string());
    let _ = it.clone().into_table().map(|t| t.to_string());
}
use walk_nodes as walk_im;

fn walk_value(v: &toml_edit::Value) {
    use serde::de::IntoDeserializer;
    use serde::Deserialize;
    let _ = v.to_string();
    let _ = format!("{v:?}");
    let _ = v.clone();
    let _ = v.span();
    let _ = v.type_name();
    let _ = format!("{:?}", v.decor());
    // ValueDeserializer on the node itself (owned or still spanned)
    let _ = toml::Value::deserialize(v.clone().into_deserializer()).map(|x| x.to_string());
    match v {
        toml_edit::Value::String(f) => use_formatted!(f),
        toml_edit::Value::Integer(f) => use_formatted!(f),
        toml_edit::Value::Float(f) => use_formatted!(f),
        toml_edit::Value::Boolean(f) => use_formatted!(f),
        toml_edit::Value::Datetime(f) => use_formatted!(f),
        toml_edit::Value::Array(a) => {
            let _ = a.to_string();
            let _ = format!("{a:?}");
            let _ = a.clone();
            let _ = (a.span(), a.len(), a.is_empty(), a.trailing_comma());
            let _ = format!("{:?}", a.trailing());
            for x in a.iter() {
                walk_value(x);
            }
            let _ = a.clone().into_iter().count();
        }
        toml_edit::Value::InlineTable(t) => {
            let _ = t.to_string();
            let _ = format!("{t:?}");
            let _ = t.clone();
            let _ = (t.span(), t.len(), t.is_empty(), t.is_dotted());
            let _ = format!("{:?}", t.preamble());
            let _ = t.get_values().len();
            for (k, x) in t.iter() {
                if let Some((key, _)) = t.get_key_value(k) {
                    use_key(key);
                }
                let _ = t.get(k).map(|x| x.type_name());
                walk_value(x);
            }
            let _ = t.clone().into_table().to_string();
            let _ = t.clone().into_iter().count();
        }
    }
}

/// the default traversal of `toml_edit::visit` / `toml_edit::visit_mut` (what `DocumentFormatter` and user visitors ride on)
struct CountNodes(usize);
impl<'doc> toml_edit::visit::Visit<'doc> for CountNodes {
    fn visit_value(&mut self, node: &'doc toml_edit::Value) {
        self.0 += 1;
        toml_edit::visit::visit_value(self, node);
    }
}
impl toml_edit::visit_mut::VisitMut for CountNodes {
    fn visit_value_mut(&mut self, node: &mut toml_edit::Value) {
        self.0 += 1;
        toml_edit::visit_mut::visit_value_mut(self, node);
    }
}

/// print / debug-print / clone / re-serialize / re-deserialize every node of a `toml::Value`
fn walk_toml(x: &toml::Value) {
    let _ = x.to_string();
    let _ = format!("{x:?}");
    let _ = x.clone();
    let _ = x.type_str();
    let _ = x.clone().try_into::<toml::Value>().map(|y| y == *x);
    let _ = toml::Value::try_from(x).map(|y| y == *x);
    match x {
        toml::Value::Array(a) => {
            for y in a {
                walk_toml(y);
            }
        }
        toml::Value::Table(t) => {
            let _ = t.to_string();
            let _ = format!("{t:?}");
            let _ = toml::to_string(t).map(|s| s.len());
            let _ = toml::to_string_pretty(t).map(|s| s.len());
            let _ = x.clone().try_into::<toml::Table>().map(|y| y.len());
            let _ = t.clone().try_into::<toml::Value>().map(|y| y.is_table());
            for (_, y) in t {
                walk_toml(y);
            }
        }
        _ => {}
    }
}

/// the serde paths that hand out spans and date-time kinds
fn serde_extras(s: &str) {
    use serde_spanned::Spanned;
    use std::collections::BTreeMap;
    let _ = toml::from_str::<Spanned<toml::Table>>(s).map(|x| x.span());
    let _ = toml::from_str::<BTreeMap<Spanned<String>, Spanned<toml::Value>>>(s).map(|m| m.len());
    let _ = toml_edit::de::from_str::<BTreeMap<Spanned<String>, Spanned<toml::Value>>>(s).map(|m| m.len());
    for r in [
        toml::from_str::<BTreeMap<String, toml_datetime::Datetime>>(s).map(|m| m.len()),
        toml::from_str::<BTreeMap<String, toml_datetime::Date>>(s).map(|m| m.len()),
        toml::from_str::<BTreeMap<String, toml_datetime::Time>>(s).map(|m| m.len()),
        toml::from_str::<BTreeMap<String, Vec<BTreeMap<String, Option<i8>>>>>(s).map(|m| m.len()),
    ] {
        if let Err(e) = r {
            let _ = e.to_string();
            let _ = format!("{e:?}");
            let _ = e.span();
        }
    }
    let _ = s.parse::<toml_edit::de::ValueDeserializer>().map(|d| {
        use serde::Deserialize;
        toml::Value::deserialize(d).map(|x| x.to_string())
    });
    let _ = s.parse::<toml_edit::de::Deserializer>().map(|d| {
        use serde::Deserialize;
        toml::Value::deserialize(d).map(|x| x.to_string())
    });
}

pub fn cmd_fuzz(args: &crate::Args) -> String {
    // a timing measurement is noisy on a loaded machine: an over-budget run is repeated and the
    // fastest of three runs is what counts
    let mut best: Option<(String, u64)> = None;
    for _ in 0..3 {
        let (line, el) = fuzz_once(&args[0]);
        let slow = el > budget_us(args[0].len());
        if best.as_ref().map_or(true, |(_, b)| el < *b) {
            best = Some((line, el));
        }
        if !slow {
            break;
        }
    }
    let (line, el) = best.unwrap();
    if el > budget_us(args[0].len()) {
        format!("{line} SLOW={el}us")
    } else {
        line
    }
}

/// generous linear budget: 250 ms + 50 us per byte (debug builds on a loaded machine included)
fn budget_us(len: usize) -> u64 {
    250_000 + 50 * (len as u64)
}

fn fuzz_once(b: &Vec<u8>) -> (String, u64) {
    let t0 = Instant::now();
    let slice = toml_edit::de::from_slice::<toml::Value>(b);
    if let Err(e) = &slice {
        let _ = e.to_string();
        let _ = format!("{e:?}");
    }
    let slice_ok = slice.is_ok();
    let s = match std::str::from_utf8(b) {
        Ok(s) => s,
        Err(_) => return (format!("utf8=no slice={}", v(slice_ok)), t0.elapsed().as_micros() as u64),
    };
    // document
    let doc = s.parse::<toml_edit::DocumentMut>();
    let doc_ok = doc.is_ok();
    match &doc {
        Ok(d) => {
            let p = d.to_string();
            let _ = format!("{d:?}");
            let c = d.clone();
            let _ = c.to_string() == p;
            drop(c);
            let _ = toml_edit::de::from_document::<toml::Value>(d.clone()).map(|x| format!("{x:?}").len());
            let _ = p.parse::<toml_edit::DocumentMut>().map(|d2| d2.to_string().len());
            // every node kind of the owned document: Display / Debug / Clone / accessors / ValueDeserializer
            walk_nodes(d.as_item());
            let _ = d.as_table().to_string();
            let _ = format!("{:?}{:?}", d.decor(), d.trailing());
            {
                use toml_edit::visit::Visit;
                use toml_edit::visit_mut::VisitMut;
                let mut n = CountNodes(0);
                n.visit_document(d);
                let mut c2 = d.clone();
                n.visit_document_mut(&mut c2);
                let _ = c2.to_string();
            }
        }
        Err(e) => use_err(e),
    }
    let im = toml_edit::ImDocument::parse(s);
    match &im {
        Ok(d) => {
            let _ = format!("{d:?}");
            // printing from the span-keeping document itself (no into_mut): every item, key and value still
            // refers to the source through spans
            let _ = d.as_item().to_string();
            let _ = d.as_table().to_string();
            walk_im(d.as_item());
            let _ = d.clone().into_mut().to_string();
            if let Ok(owned) = toml_edit::ImDocument::parse(s.to_string()) {
                let _ = toml_edit::de::from_document::<toml::Value>(owned).map(|x| format!("{x:?}").len());
            }
        }
        Err(e) => use_err(e),
    }
    drop(im);
    // value / key / key path / datetime
    let val = s.parse::<toml_edit::Value>();
    match &val {
        Ok(x) => {
            let _ = x.to_string();
            let _ = format!("{x:?}");
            let _ = x.clone();
        }
        Err(e) => use_err(e),
    }
    let key = s.parse::<toml_edit::Key>();
    match &key {
        Ok(k) => {
            let _ = k.to_string();
            let _ = format!("{k:?}");
        }
        Err(e) => use_err(e),
    }
    let kp = toml_edit::Key::parse(s);
    match &kp {
        Ok(ks) => {
            for k in ks {
                let _ = k.to_string();
            }
        }
        Err(e) => use_err(e),
    }
    let dt = s.parse::<toml_datetime::Datetime>();
    if let Ok(d) = &dt {
        let _ = d.to_string();
        let _ = format!("{d:?}");
        // what the standalone parser returned, fed back through the serde tunnel at every date-time kind
        let v = toml::Value::Datetime(d.clone());
        let _ = v.clone().try_into::<toml_datetime::Datetime>().map(|x| x.to_string());
        let _ = v.clone().try_into::<toml_datetime::Date>().map_err(|e| e.to_string());
        let _ = v.clone().try_into::<toml_datetime::Time>().map_err(|e| e.to_string());
        let _ = v.clone().try_into::<String>().map_err(|e| e.to_string());
        let _ = toml::Value::try_from(d.clone()).map(|x| x.to_string());
        let _ = v.to_string();
    }
    // serde front ends
    let tv = toml::from_str::<toml::Value>(s);
    match &tv {
        Ok(x) => {
            let _ = format!("{x:?}");
            let _ = toml::to_string(x).map(|t| t.len());
            let _ = toml::to_string_pretty(x).map(|t| t.len());
            let _ = x.to_string();
            walk_toml(x);
            serde_extras(s);
        }
        Err(e) => {
            let _ = e.to_string();
            let _ = format!("{e:?}");
            let _ = e.span();
            let _ = e.message().len();
        }
    }
    let table = s.parse::<toml::Table>();
    if let Ok(t) = &table {
        let _ = t.to_string();
        let _ = format!("{t:?}");
    }
    let tt = table.is_ok();
    let _ = s.parse::<toml::Value>().map(|x| x.to_string());
    let ed = toml_edit::de::from_str::<toml::Value>(s).is_ok();
    let tv_ok = tv.is_ok();
    drop(tv);
    drop(doc);
    let el = t0.elapsed().as_micros() as u64;
    (
        format!(
            "utf8=yes doc={} val={} key={} kp={} dt={} slice={} toml={} table={} edit_de={}",
            v(doc_ok), v(val.is_ok()), v(key.is_ok()), v(kp.is_ok()), v(dt.is_ok()), v(slice_ok), v(tv_ok), v(tt), v(ed)
        ),
        el,
    )
}
