//! C10 observations: every quoting style TomlStringBuilder / TomlKeyBuilder offers for a string,
//! read back by the value / key parser alone and inside a one-line document.
use std::str::FromStr;
use toml_write::{ToTomlKey as _, ToTomlValue as _, TomlKeyBuilder, TomlStringBuilder};
use verif_harness::util::hex;
use verif_harness::Args;

fn verdict(same: bool) -> &'static str {
    if same {
        "ok"
    } else {
        "BAD"
    }
}

fn rt_value(s: &str, t: &str) -> &'static str {
    match toml_edit::Value::from_str(t) {
        Ok(v) => match &v {
            toml_edit::Value::String(f) => verdict(f.value() == s),
            _ => "BAD",
        },
        Err(_) => "ERR",
    }
}

fn rt_value_doc(s: &str, t: &str) -> &'static str {
    let text = format!("k = {t}\n");
    match text.parse::<toml_edit::DocumentMut>() {
        Ok(d) => {
            let tbl = d.as_table();
            let mut it = tbl.iter();
            match (it.next(), it.next()) {
                (Some((k, toml_edit::Item::Value(toml_edit::Value::String(f)))), None) => {
                    verdict(k == "k" && f.value() == s)
                }
                _ => "BAD",
            }
        }
        Err(_) => "ERR",
    }
}

fn rt_key(s: &str, t: &str) -> &'static str {
    match toml_edit::Key::from_str(t) {
        Ok(k) => verdict(k.get() == s),
        Err(_) => "ERR",
    }
}

fn rt_key_doc(s: &str, t: &str) -> &'static str {
    let text = format!("{t} = 1\n");
    match text.parse::<toml_edit::DocumentMut>() {
        Ok(d) => {
            let tbl = d.as_table();
            let mut it = tbl.iter();
            match (it.next(), it.next()) {
                (Some((k, toml_edit::Item::Value(toml_edit::Value::Integer(f)))), None) => {
                    verdict(k == s && *f.value() == 1)
                }
                _ => "BAD",
            }
        }
        Err(_) => "ERR",
    }
}

fn show_style(
    name: &str,
    tok: Option<String>,
    s: &str,
    alone: fn(&str, &str) -> &'static str,
    doc: fn(&str, &str) -> &'static str,
) -> String {
    match tok {
        None => format!("{name}=none"),
        Some(t) => format!("{name}={},{},{}", hex(t.as_bytes()), alone(s, &t), doc(s, &t)),
    }
}

fn arg_str(args: &Args) -> Option<&str> {
    if args.len() != 1 {
        return None;
    }
    std::str::from_utf8(&args[0]).ok()
}

fn cmd_wstr(args: &Args) -> String {
    let Some(s) = arg_str(args) else {
        return "bad-args".to_string();
    };
    let b = TomlStringBuilder::new(s);
    // every other way the crate offers to write this string as a VALUE must give the default style's token
    {
        use std::borrow::Cow;
        use toml_write::TomlWrite as _;
        let want = b.as_default().to_toml_value();
        let owned: String = s.to_owned();
        let mut via_write = String::new();
        let _ = via_write.value(&owned);
        let got: Vec<(&str, String)> = vec![
            ("String", owned.to_toml_value()),
            ("Cow::Borrowed", Cow::Borrowed(s).to_toml_value()),
            ("Cow::Owned", Cow::<str>::Owned(owned.clone()).to_toml_value()),
            ("&String", (&owned).to_toml_value()),
            ("TomlWrite::value", via_write),
        ];
        for (name, g) in got {
            if g != want {
                return format!("IMPLDIFF value impl={} wrote={} default-style={}", name, hex(g.as_bytes()), hex(want.as_bytes()));
            }
        }
    }
    let styles: Vec<(&str, Option<String>)> = vec![
        ("default", Some(b.as_default().to_toml_value())),
        ("literal", b.as_literal().map(|t| t.to_toml_value())),
        ("ml_literal", b.as_ml_literal().map(|t| t.to_toml_value())),
        ("basic_pretty", b.as_basic_pretty().map(|t| t.to_toml_value())),
        ("ml_basic_pretty", b.as_ml_basic_pretty().map(|t| t.to_toml_value())),
        ("basic", Some(b.as_basic().to_toml_value())),
        ("ml_basic", Some(b.as_ml_basic().to_toml_value())),
    ];
    styles
        .into_iter()
        .map(|(n, t)| show_style(n, t, s, rt_value, rt_value_doc))
        .collect::<Vec<_>>()
        .join(" ")
}

fn cmd_wkey(args: &Args) -> String {
    let Some(s) = arg_str(args) else {
        return "bad-args".to_string();
    };
    let b = TomlKeyBuilder::new(s);
    // every other way the crate offers to write this string as a KEY must give the default style's token
    {
        use std::borrow::Cow;
        use toml_write::TomlWrite as _;
        let want = b.as_default().to_toml_key();
        let owned: String = s.to_owned();
        let mut via_write = String::new();
        let _ = via_write.key(&owned);
        let mut one = std::collections::BTreeMap::new();
        one.insert(Cow::<str>::Owned(owned.clone()), 1u8);
        let got: Vec<(&str, String)> = vec![
            ("String", owned.to_toml_key()),
            ("Cow::Borrowed", Cow::Borrowed(s).to_toml_key()),
            ("Cow::Owned", Cow::<str>::Owned(owned.clone()).to_toml_key()),
            ("&String", (&owned).to_toml_key()),
            ("TomlWrite::key", via_write),
        ];
        for (name, g) in got {
            if g != want {
                return format!("IMPLDIFF key impl={} wrote={} default-style={}", name, hex(g.as_bytes()), hex(want.as_bytes()));
            }
        }
        // a map written as an inline table spells its key the same way
        let inl = one.to_toml_value();
        if !inl.contains(want.as_str()) {
            return format!("IMPLDIFF key impl=BTreeMap<Cow<str>,_> wrote={} default-style={}", hex(inl.as_bytes()), hex(want.as_bytes()));
        }
    }
    let styles: Vec<(&str, Option<String>)> = vec![
        ("default", Some(b.as_default().to_toml_key())),
        ("unquoted", b.as_unquoted().map(|t| t.to_toml_key())),
        ("literal", b.as_literal().map(|t| t.to_toml_key())),
        ("basic_pretty", b.as_basic_pretty().map(|t| t.to_toml_key())),
        ("basic", Some(b.as_basic().to_toml_key())),
    ];
    styles
        .into_iter()
        .map(|(n, t)| show_style(n, t, s, rt_key, rt_key_doc))
        .collect::<Vec<_>>()
        .join(" ")
}

fn run_cmd(cmd: &str, args: &Args) -> String {
    match cmd {
        "wstr" => cmd_wstr(args),
        "wkey" => cmd_wkey(args),
        _ => "unknown-command".to_string(),
    }
}

fn main() {
    verif_harness::main_loop(run_cmd);
}
