//! C15 observations: error span / message emptiness / rendered line+column of every
//! rejection (`derr`, `verr`, `kerr`, `kperr`), and location of serde deserialization errors
//! on every route (`deerr`).
use std::ops::Range;
use std::panic::{catch_unwind, AssertUnwindSafe};

use serde::de::DeserializeOwned;
use serde::Deserialize;
use verif_harness::util::hex;
use verif_harness::Args;

// ---------------------------------------------------------------------------------------------
// parse errors
// ---------------------------------------------------------------------------------------------

/// (line, column, number of carets) read back from the rendered text
fn parse_render(text: &str) -> Option<(String, String, usize)> {
    let mut lines = text.split('\n');
    let first = lines.next()?;
    let rest = first.strip_prefix("TOML parse error at line ")?;
    let (l, c) = rest.split_once(", column ")?;
    // the marker line is the last line that consists of blanks, one '|' and carets only
    let mut carets = 0;
    for ln in text.split('\n') {
        let t = ln.trim_start_matches(' ');
        if let Some(m) = t.strip_prefix('|') {
            let m2 = m.trim_start_matches(' ');
            if !m2.is_empty() && m2.bytes().all(|b| b == b'^') && m.starts_with(' ') {
                carets = m2.len();
            }
        }
    }
    Some((l.to_string(), c.to_string(), carets))
}

fn show_err(span: Option<Range<usize>>, message: &str, render: Result<String, ()>) -> String {
    let sp = match &span {
        Some(r) => format!("{}-{}", r.start, r.end),
        None => "none".to_string(),
    };
    let msg = if message.is_empty() { "empty" } else { "nonempty" };
    match render {
        Ok(text) => match parse_render(&text) {
            Some((l, c, hl)) => format!("err span={sp} msg={msg} line={l} col={c} hl={hl} render=ok"),
            None => format!("err span={sp} msg={msg} line=none col=none hl=none render=ok"),
        },
        Err(()) => format!("err span={sp} msg={msg} line=none col=none hl=none render=PANIC"),
    }
}

fn show_toml_error(e: &toml_edit::TomlError) -> String {
    let render = catch_unwind(AssertUnwindSafe(|| e.to_string())).map_err(|_| ());
    show_err(e.span(), e.message(), render)
}

fn text_of(args: &Args) -> Result<&str, String> {
    if args.len() != 1 {
        return Err("bad-args".into());
    }
    std::str::from_utf8(&args[0]).map_err(|_| "notutf8".to_string())
}

fn cmd_derr(args: &Args) -> String {
    let text = match text_of(args) {
        Ok(t) => t,
        Err(e) => return e,
    };
    match text.parse::<toml_edit::DocumentMut>() {
        Ok(_) => "ok".into(),
        Err(e) => show_toml_error(&e),
    }
}

fn cmd_verr(args: &Args) -> String {
    let text = match text_of(args) {
        Ok(t) => t,
        Err(e) => return e,
    };
    let line = match text.parse::<toml_edit::Value>() {
        Ok(_) => "ok".to_string(),
        Err(e) => show_toml_error(&e),
    };
    // the serde value deserializer from text (de::ValueDeserializer: FromStr) runs the same entry point: same verdict, and
    // on rejection the same span, message and rendering; nothing is appended when they agree (the model has one route)
    let same = match (text.parse::<toml_edit::Value>(), text.parse::<toml_edit::de::ValueDeserializer>()) {
        (Ok(_), Ok(_)) => true,
        (Err(a), Err(b)) => {
            a.span() == b.span()
                && a.message() == b.message()
                && catch_unwind(AssertUnwindSafe(|| a.to_string())).ok() == catch_unwind(AssertUnwindSafe(|| b.to_string())).ok()
        }
        _ => false,
    };
    if same { line } else { format!("{line} vd=differs") }
}

fn cmd_kerr(args: &Args) -> String {
    let text = match text_of(args) {
        Ok(t) => t,
        Err(e) => return e,
    };
    match text.parse::<toml_edit::Key>() {
        Ok(_) => "ok".into(),
        Err(e) => show_toml_error(&e),
    }
}

fn cmd_kperr(args: &Args) -> String {
    let text = match text_of(args) {
        Ok(t) => t,
        Err(e) => return e,
    };
    match toml_edit::Key::parse(text) {
        Ok(_) => "ok".into(),
        Err(e) => show_toml_error(&e),
    }
}

// ---------------------------------------------------------------------------------------------
// deserialization errors
// ---------------------------------------------------------------------------------------------
#[allow(dead_code)]
mod ty {
    use super::*;
    use std::collections::BTreeMap;

    #[derive(Deserialize, Debug)]
    pub struct SInt {
        pub a: i64,
    }
    #[derive(Deserialize, Debug)]
    pub struct SStr {
        pub a: String,
    }
    #[derive(Deserialize, Debug)]
    pub struct SBool {
        pub a: bool,
    }
    #[derive(Deserialize, Debug)]
    pub struct SFloat {
        pub a: f64,
    }
    #[derive(Deserialize, Debug)]
    pub struct SU8 {
        pub a: u8,
    }
    #[derive(Deserialize, Debug)]
    pub struct SChar {
        pub a: char,
    }
    #[derive(Deserialize, Debug)]
    pub struct Inner {
        pub b: i64,
        pub c: String,
    }
    #[derive(Deserialize, Debug)]
    pub struct Outer {
        pub t: Inner,
    }
    #[derive(Deserialize, Debug)]
    pub struct SVec {
        pub v: Vec<i64>,
    }
    #[derive(Deserialize, Debug)]
    pub enum E {
        A,
        B,
    }
    #[derive(Deserialize, Debug)]
    pub struct SEnum {
        pub e: E,
    }
    #[derive(Deserialize, Debug)]
    pub enum E2 {
        N(i64),
        S { x: i64 },
        U,
    }
    #[derive(Deserialize, Debug)]
    pub struct SEnum2 {
        pub e: E2,
    }
    #[derive(Deserialize, Debug)]
    pub struct SMiss {
        pub a: i64,
        pub b: i64,
    }
    #[derive(Deserialize, Debug)]
    pub struct SOpt {
        pub o: Option<i64>,
    }
    #[derive(Deserialize, Debug)]
    pub struct SOptNested {
        pub t: Option<Inner>,
    }
    #[derive(Deserialize, Debug)]
    pub struct SOptVec {
        pub v: Option<Vec<i64>>,
    }
    #[derive(Deserialize, Debug)]
    pub struct SOptMap {
        pub m: Option<BTreeMap<String, i64>>,
    }
    #[derive(Deserialize, Debug)]
    pub struct SOptEnum2 {
        pub e: Option<E2>,
    }
    #[derive(Deserialize, Debug)]
    pub struct NewInner(pub Inner);
    #[derive(Deserialize, Debug)]
    pub struct SNewNested {
        pub t: NewInner,
    }
    #[derive(Deserialize, Debug)]
    pub struct SOptOptless {
        pub t: Option<Outer2>,
    }
    #[derive(Deserialize, Debug)]
    pub struct Outer2 {
        pub u: Option<Inner>,
    }
    #[derive(Deserialize, Debug)]
    pub struct SMap {
        pub m: BTreeMap<String, i64>,
    }
    #[derive(Deserialize, Debug)]
    pub struct C1 {
        pub d: bool,
    }
    #[derive(Deserialize, Debug)]
    pub struct B1 {
        pub c: Vec<C1>,
    }
    #[derive(Deserialize, Debug)]
    pub struct A1 {
        pub b: B1,
    }
    #[derive(Deserialize, Debug)]
    pub struct Deep {
        pub a: A1,
    }
    #[derive(Deserialize, Debug)]
    pub struct STuple {
        pub p: (i64, String),
    }
    #[derive(Deserialize, Debug)]
    #[serde(deny_unknown_fields)]
    pub struct SDeny {
        pub a: i64,
    }
    #[derive(Deserialize, Debug)]
    pub struct SDenyOuter {
        pub t: SDeny,
    }
    #[derive(Deserialize, Debug)]
    pub struct SNewtype(pub i64);
    #[derive(Deserialize, Debug)]
    pub struct SNew {
        pub n: SNewtype,
    }
    #[derive(Deserialize, Debug)]
    pub struct RootNew(pub SInt);
    #[derive(Deserialize, Debug)]
    pub struct RootNewNested(pub Outer);
    #[derive(Deserialize, Debug)]
    pub struct SVecInner {
        pub v: Vec<Inner>,
    }
    #[derive(Deserialize, Debug)]
    pub struct SDt {
        pub d: toml_datetime::Datetime,
    }
}

#[derive(Clone, Debug)]
enum Seg {
    Key(String),
    Idx(usize),
}

/// path syntax: segments separated by '/'; `#n` = array index; a final `@` = the span of the
/// last key itself (not of its value).  `-` (empty) = the document root.
fn parse_path(p: &str) -> (Vec<Seg>, bool) {
    let mut want_key = false;
    let mut segs = Vec::new();
    for s in p.split('/').filter(|s| !s.is_empty()) {
        if s == "@" {
            want_key = true;
        } else if let Some(n) = s.strip_prefix('#') {
            segs.push(Seg::Idx(n.parse().unwrap_or(0)));
        } else {
            segs.push(Seg::Key(s.to_string()));
        }
    }
    (segs, want_key)
}

fn span_at(item: &toml_edit::Item, path: &[Seg], want_key: bool) -> Option<Range<usize>> {
    use toml_edit::{Item, Value};
    match path.split_first() {
        None => item.span(),
        Some((Seg::Key(k), rest)) => {
            let (key, child) = item.as_table_like()?.get_key_value(k)?;
            if rest.is_empty() && want_key {
                key.span()
            } else {
                span_at(child, rest, want_key)
            }
        }
        Some((Seg::Idx(n), rest)) => match item {
            Item::Value(Value::Array(a)) => span_at(&Item::Value(a.get(*n)?.clone()), rest, want_key),
            Item::ArrayOfTables(a) => span_at(&Item::Table(a.get(*n)?.clone()), rest, want_key),
            _ => None,
        },
    }
}

fn show_span(s: Option<Range<usize>>) -> String {
    match s {
        Some(r) => format!("{}-{}", r.start, r.end),
        None => "none".into(),
    }
}

/// one route's observation: ok | span:..,msg:..,keys:<hex|none>,line:..,col:..,render:..
fn show_route(span: Option<Range<usize>>, message: &str, render: Result<String, ()>) -> String {
    let msg = if message.is_empty() { "empty" } else { "nonempty" };
    match render {
        Err(()) => format!("span:{},msg:{msg},keys:none,line:none,col:none,render:PANIC", show_span(span)),
        Ok(text) => {
            let mut keys = "none".to_string();
            for ln in text.split('\n') {
                if let Some(k) = ln.strip_prefix("in `") {
                    if let Some(k) = k.strip_suffix('`') {
                        keys = hex(k.as_bytes());
                    }
                }
            }
            let (l, c) = match parse_render(&text) {
                Some((l, c, _)) => (l, c),
                None => ("none".into(), "none".into()),
            };
            format!("span:{},msg:{msg},keys:{keys},line:{l},col:{c},render:ok", show_span(span))
        }
    }
}

fn route_edit<T>(r: Result<T, toml_edit::de::Error>) -> String {
    match r {
        Ok(_) => "ok".into(),
        Err(e) => {
            let render = catch_unwind(AssertUnwindSafe(|| e.to_string())).map_err(|_| ());
            show_route(e.span(), e.message(), render)
        }
    }
}

fn route_toml<T>(r: Result<T, toml::de::Error>) -> String {
    match r {
        Ok(_) => "ok".into(),
        Err(e) => {
            let render = catch_unwind(AssertUnwindSafe(|| e.to_string())).map_err(|_| ());
            show_route(e.span(), e.message(), render)
        }
    }
}

fn routes<T: DeserializeOwned>(text: &str) -> String {
    // 1. toml::from_str (source text available)
    let r1 = route_toml(toml::from_str::<T>(text));
    // 2. toml_edit::de::from_str (source text available)
    let r2 = route_edit(toml_edit::de::from_str::<T>(text));
    // 3. toml_edit::de::from_document(ImDocument<String>) (source text available)
    let r3 = match toml_edit::ImDocument::parse(text.to_string()) {
        Ok(d) => route_edit(toml_edit::de::from_document::<T>(d)),
        Err(_) => "parse-error".into(),
    };
    // 4. toml_edit::de::from_document(DocumentMut) (no source text, no spans)
    let r4 = match text.parse::<toml_edit::DocumentMut>() {
        Ok(d) => route_edit(toml_edit::de::from_document::<T>(d)),
        Err(_) => "parse-error".into(),
    };
    // 5. toml::Value first, then try_into (no source text)
    let r5 = match text.parse::<toml::Value>() {
        Ok(v) => route_toml(v.try_into::<T>()),
        Err(_) => "parse-error".into(),
    };
    // 6. toml::Table first, then try_into
    let r6 = match text.parse::<toml::Table>() {
        Ok(v) => route_toml(v.try_into::<T>()),
        Err(_) => "parse-error".into(),
    };
    // 7. a DocumentMut rebuilt from the entries of an ImDocument: keys and items keep their spans, the text is gone
    //    (the same happens when a value is taken out of an ImDocument and deserialized on its own)
    let r7 = match toml_edit::ImDocument::parse(text.to_string()) {
        Ok(d) => {
            let mut dm = toml_edit::DocumentMut::new();
            for (k, _) in d.as_table().iter() {
                if let Some((key, item)) = d.as_table().get_key_value(k) {
                    dm.as_table_mut().insert_formatted(key, item.clone());
                }
            }
            route_edit(toml_edit::de::from_document::<T>(dm))
        }
        Err(_) => "parse-error".into(),
    };
    // 8. the byte entry point: offsets are into the bytes that were passed in (a BOM included)
    let r8 = route_edit(toml_edit::de::from_slice::<T>(text.as_bytes()));
    format!("toml_from_str={r1} edit_from_str={r2} from_imdoc={r3} from_docmut={r4} value_first={r5} table_first={r6} respanned={r7} edit_from_slice={r8}")
}

fn cmd_deerr(args: &Args) -> String {
    if args.len() < 3 {
        return "bad-args".into();
    }
    let tag = String::from_utf8_lossy(&args[0]).to_string();
    let Ok(text) = std::str::from_utf8(&args[1]) else { return "notutf8".into() };
    let Ok(path) = std::str::from_utf8(&args[2]) else { return "notutf8".into() };
    let (segs, want_key) = parse_path(path);
    let exp = match toml_edit::ImDocument::parse(text) {
        Ok(d) => show_span(span_at(d.as_item(), &segs, want_key)),
        Err(_) => return "parse-error".into(),
    };
    use ty::*;
    let r = match tag.as_str() {
        "int" => routes::<SInt>(text),
        "str" => routes::<SStr>(text),
        "bool" => routes::<SBool>(text),
        "float" => routes::<SFloat>(text),
        "u8" => routes::<SU8>(text),
        "char" => routes::<SChar>(text),
        "nested" => routes::<Outer>(text),
        "vec" => routes::<SVec>(text),
        "enum" => routes::<SEnum>(text),
        "enum2" => routes::<SEnum2>(text),
        "missing" => routes::<SMiss>(text),
        "opt" => routes::<SOpt>(text),
        "optnested" => routes::<SOptNested>(text),
        "optvec" => routes::<SOptVec>(text),
        "optmap" => routes::<SOptMap>(text),
        "optenum2" => routes::<SOptEnum2>(text),
        "newnested" => routes::<SNewNested>(text),
        "optopt" => routes::<SOptOptless>(text),
        "map" => routes::<SMap>(text),
        "deep" => routes::<Deep>(text),
        "tuple" => routes::<STuple>(text),
        "deny" => routes::<SDeny>(text),
        "denyouter" => routes::<SDenyOuter>(text),
        "newtype" => routes::<SNew>(text),
        "vecinner" => routes::<SVecInner>(text),
        "dt" => routes::<SDt>(text),
        "rootnew" => routes::<RootNew>(text),
        "rootnewnested" => routes::<RootNewNested>(text),
        "rootopt" => routes::<Option<SInt>>(text),
        "rootmap" => routes::<std::collections::BTreeMap<String, i64>>(text),
        _ => return "unknown-type".into(),
    };
    format!("exp={exp} {r}")
}

fn run_cmd(cmd: &str, args: &Args) -> String {
    match cmd {
        "derr" => cmd_derr(args),
        "verr" => cmd_verr(args),
        "kerr" => cmd_kerr(args),
        "kperr" => cmd_kperr(args),
        // tags `cmd_deerr` does not know are looked up in the additional types at the end of this file
        "deerr" => match cmd_deerr(args).as_str() {
            "unknown-type" => extra::cmd_deerr2(args),
            r => r.to_string(),
        },
        _ => "unknown-command".to_string(),
    }
}

fn main() {
    verif_harness::main_loop(run_cmd);
}

// =============================================================================================
// C15 serde half, additional target types for the located-error model (coq/Model/DeLoc.v,
// coq/Extract/Cmd_deloc.v tags vdate .. mapinner).  Same observation line as `deerr`.
// =============================================================================================
#[allow(dead_code)]
mod extra {
    use super::*;
    use std::collections::BTreeMap;

    #[derive(Deserialize, Debug)]
    pub struct VD {
        pub v: Vec<toml_datetime::Date>,
    }
    #[derive(Deserialize, Debug)]
    pub struct SD {
        pub d: toml_datetime::Date,
    }
    #[derive(Deserialize, Debug)]
    pub struct OD {
        pub d: Option<toml_datetime::Date>,
    }
    #[derive(Deserialize, Debug)]
    pub enum E3 {
        N(toml_datetime::Date),
        T(i64, i64),
        S { x: i64 },
        U,
    }
    #[derive(Deserialize, Debug)]
    pub struct SE3 {
        pub e: E3,
    }
    #[derive(Deserialize, Debug)]
    pub struct Sub4 {
        pub x: i64,
    }
    #[derive(Deserialize, Debug)]
    pub struct Inner4 {
        pub host: String,
        pub port: i64,
        pub sub: Option<Sub4>,
    }
    #[derive(Deserialize, Debug)]
    pub enum E4 {
        P(Inner4),
        L(Vec<Sub4>),
        U,
    }
    #[derive(Deserialize, Debug)]
    pub struct SE4 {
        pub e: E4,
    }
    #[derive(Deserialize, Debug)]
    pub struct VE4 {
        pub v: Vec<E4>,
    }
    #[derive(Deserialize, Debug)]
    pub struct TD {
        pub p: (i64, toml_datetime::Time),
    }
    #[derive(Deserialize, Debug)]
    pub struct VV {
        pub v: Vec<Vec<i64>>,
    }
    #[derive(Deserialize, Debug, PartialEq, Eq, PartialOrd, Ord)]
    pub enum EK {
        A,
        B,
    }
    #[derive(Deserialize, Debug)]
    pub struct ME {
        pub m: BTreeMap<EK, i64>,
    }
    #[derive(Deserialize, Debug)]
    pub struct MI {
        pub m: BTreeMap<String, super::ty::Inner>,
    }

    pub fn cmd_deerr2(args: &Args) -> String {
        if args.len() < 3 {
            return "bad-args".into();
        }
        let tag = String::from_utf8_lossy(&args[0]).to_string();
        let Ok(text) = std::str::from_utf8(&args[1]) else { return "notutf8".into() };
        let Ok(path) = std::str::from_utf8(&args[2]) else { return "notutf8".into() };
        let (segs, want_key) = parse_path(path);
        let exp = match toml_edit::ImDocument::parse(text) {
            Ok(d) => show_span(span_at(d.as_item(), &segs, want_key)),
            Err(_) => return "parse-error".into(),
        };
        let r = match tag.as_str() {
            "vdate" => routes::<VD>(text),
            "sdate" => routes::<SD>(text),
            "odate" => routes::<OD>(text),
            "enum3" => routes::<SE3>(text),
            "ttime" => routes::<TD>(text),
            "enum4" => routes::<SE4>(text),
            "venum4" => routes::<VE4>(text),
            "vecvec" => routes::<VV>(text),
            "mapenum" => routes::<ME>(text),
            "mapinner" => routes::<MI>(text),
            _ => return "unknown-type".into(),
        };
        format!("exp={exp} {r}")
    }
}
