//! C16 observations: a call sequence against the REAL containers
//! (`toml_edit::{Table, InlineTable, Array, ArrayOfTables}` and `toml::map::Map`).
//!
//! `ops <kind> <oplist>`; kind in table | inline | inline_tl | array | aot | map_sorted | map_ordered,
//! plus the kinds only the python oracle judges: table_tl (a Table through `dyn TableLike`) and doc (see `doc_op`).
//! oplist: ops joined by `;`, fields of an op joined by `,` (see lib/props/c16.py for the table).
//! Output: `<out1>;<out2>;...|<observation after the last call>`; a panic inside one call is
//! caught and printed as `P` for that call (the container is used on afterwards).
//! `toml::map::Map` exists in one configuration per build: the other map kind prints `skip`.
use std::panic::{catch_unwind, AssertUnwindSafe};
use toml_edit::{Array, ArrayOfTables, Entry, InlineEntry, InlineTable, Item, Table, TableLike, Value};
use verif_harness::{util, Args};

const ALPHABET: [&str; 3] = ["a", "b", "c"];

#[derive(Clone, Copy)]
enum Pay {
    Int(i64),
    Tab,
    Inl,
}

fn parse_pay(s: &str) -> Pay {
    match s {
        "T" => Pay::Tab,
        "I" => Pay::Inl,
        _ => Pay::Int(s[1..].parse().expect("payload")),
    }
}

/// payload as an `Item` (table kind)
fn item_of(p: Pay) -> Item {
    match p {
        Pay::Int(z) => toml_edit::value(z),
        Pay::Tab => Item::Table(Table::new()),
        Pay::Inl => Item::Value(Value::InlineTable(InlineTable::new())),
    }
}

/// payload as a `Value` (inline kinds): a table payload is the empty inline table
fn value_of(p: Pay) -> Value {
    match p {
        Pay::Int(z) => Value::from(z),
        Pay::Tab | Pay::Inl => Value::InlineTable(InlineTable::new()),
    }
}

fn show_value(v: &Value) -> String {
    match v {
        Value::Integer(f) => format!("i{}", f.value()),
        Value::InlineTable(_) => "I".to_string(),
        _ => "?".to_string(),
    }
}

fn show_item(i: &Item) -> String {
    match i {
        Item::None => "N".to_string(),
        Item::Value(v) => show_value(v),
        Item::Table(_) => "T".to_string(),
        Item::ArrayOfTables(_) => "A".to_string(),
    }
}

fn show_opt<T>(o: Option<T>, f: impl Fn(T) -> String) -> String {
    match o {
        Some(x) => f(x),
        None => "-".to_string(),
    }
}

fn list(v: Vec<String>) -> String {
    format!("[{}]", v.join(","))
}

fn pairs(f: &[&str]) -> Vec<(String, Pay)> {
    f.chunks(2).map(|c| (c[0].to_string(), parse_pay(c[1]))).collect()
}

/// rank used by the `vasc` comparator: placeholders, then non-integers, then integers by value
fn rank_item(i: &Item) -> (u8, i64) {
    match i {
        Item::None => (0, 0),
        Item::Value(Value::Integer(f)) => (2, *f.value()),
        _ => (1, 0),
    }
}
fn rank_value(v: &Value) -> (u8, i64) {
    match v {
        Value::Integer(f) => (2, *f.value()),
        _ => (1, 0),
    }
}

/// the retain predicates (user closures) on (key, item)
fn pred_item(f: &[&str], k: &str, i: &Item) -> bool {
    match f[0] {
        "kne" => k != f[1],
        "int" => i.is_integer(),
        "lt" => i.as_integer().map(|z| z < f[1].parse::<i64>().unwrap()).unwrap_or(false),
        "all" => true,
        _ => false,
    }
}
fn pred_value(f: &[&str], k: &str, v: &Value) -> bool {
    match f[0] {
        "kne" => k != f[1],
        "int" => v.is_integer(),
        "lt" => v.as_integer().map(|z| z < f[1].parse::<i64>().unwrap()).unwrap_or(false),
        "all" => true,
        _ => false,
    }
}

// ------------------------------------------------------------------------------------------
// Table
// ------------------------------------------------------------------------------------------
fn table_op(t: &mut Table, f: &[&str]) -> String {
    let k = || f[1];
    let p = || item_of(parse_pay(f[2]));
    match f[0] {
        "ins" => show_opt(t.insert(k(), p()), |i| show_item(&i)),
        "insf" => show_opt(t.insert_formatted(&toml_edit::Key::new(k()), p()), |i| show_item(&i)),
        "rm" => show_opt(t.remove(k()), |i| show_item(&i)),
        "rme" => show_opt(t.remove_entry(k()), |(key, i)| format!("{}={}", key.get(), show_item(&i))),
        "get" => show_opt(t.get(k()), show_item),
        "getm" => show_opt(t.get_mut(k()), |i| show_item(i)),
        "gkv" => show_opt(t.get_key_value(k()), |(key, i)| format!("{}={}", key.get(), show_item(i))),
        "gkvm" => show_opt(t.get_key_value_mut(k()), |(key, i)| format!("{}={}", key.get(), show_item(i))),
        "ck" => t.contains_key(k()).to_string(),
        "ct" => t.contains_table(k()).to_string(),
        "cv" => t.contains_value(k()).to_string(),
        "ca" => t.contains_array_of_tables(k()).to_string(),
        "key" => t.key(k()).is_some().to_string(),
        "len" => t.len().to_string(),
        "emp" => t.is_empty().to_string(),
        "iter" => list(t.iter().map(|(k, i)| format!("{}={}", k, show_item(i))).collect()),
        "iterm" => list(t.iter_mut().map(|(k, i)| format!("{}={}", k.get(), show_item(i))).collect()),
        "clr" => {
            t.clear();
            "u".into()
        }
        "ent" => match t.entry(k()) {
            Entry::Occupied(e) => format!("occ:{}", show_item(e.get())),
            Entry::Vacant(_) => "vac".into(),
        },
        "eoi" => show_item(t.entry(k()).or_insert(p())),
        "eins" => match t.entry(k()) {
            Entry::Occupied(mut e) => show_item(&e.insert(p())),
            Entry::Vacant(e) => {
                e.insert(p());
                "vac".into()
            }
        },
        "erm" => match t.entry(k()) {
            Entry::Occupied(e) => show_item(&e.remove()),
            Entry::Vacant(_) => "vac".into(),
        },
        "ret" => {
            t.retain(|k, i| pred_item(&f[1..], k, i));
            "u".into()
        }
        "sort" => {
            t.sort_values();
            "u".into()
        }
        "sortby" => {
            match f[1] {
                "kdesc" => t.sort_values_by(|k1, _, k2, _| k2.get().cmp(k1.get())),
                _ => t.sort_values_by(|_, a, _, b| rank_item(a).cmp(&rank_item(b))),
            }
            "u".into()
        }
        "idx" => show_item(&t[k()]),
        "idxm" => show_item(&mut t[k()]),
        "iset" => {
            t[k()] = p();
            "u".into()
        }
        "ioi" => show_item(t[k()].or_insert(p())),
        "ext" => {
            t.extend(pairs(&f[1..]).into_iter().map(|(k, p)| (k, item_of(p))));
            "u".into()
        }
        "from" => {
            *t = pairs(&f[1..]).into_iter().map(|(k, p)| (k, item_of(p))).collect();
            "u".into()
        }
        "into" => list(t.clone().into_iter().map(|(k, i)| format!("{}={}", k, show_item(&i))).collect()),
        // ---- judged by the python reference only (lib/props/c16.py ORACLE_ONLY) ----
        "entf" => show_item(t.entry_format(&toml_edit::Key::new(k())).or_insert(p())),
        "eoiw" => show_item(t.entry(k()).or_insert_with(p)),
        "ekey" => t.entry(k()).key().to_string(),
        "emut" => match t.entry(k()) {
            Entry::Occupied(mut e) => {
                let k1 = e.key().to_string();
                let key = format!("{}/{}", k1, e.key_mut().get());
                *e.get_mut() = p();
                let r = e.into_mut();
                format!("occ:{}:{}", key, show_item(r))
            }
            Entry::Vacant(e) => format!("vac:{}", e.key()),
        },
        "intor" => list((&*t).into_iter().map(|(k, i)| format!("{}={}", k, show_item(i))).collect()),
        "gv" => t.get_values().len().to_string(),
        _ => "na".into(),
    }
}

fn table_obs(t: &Table) -> String {
    format!(
        "len={} emp={} iter={} get={} ck={} print={}",
        t.len(),
        t.is_empty(),
        list(t.iter().map(|(k, i)| format!("{}={}", k, show_item(i))).collect()),
        list(ALPHABET.iter().map(|k| format!("{}:{}", k, show_opt(t.get(k), show_item))).collect()),
        list(ALPHABET.iter().map(|k| format!("{}:{}", k, t.contains_key(k))).collect()),
        util::hex(t.to_string().as_bytes())
    )
}

// ------------------------------------------------------------------------------------------
// InlineTable through its inherent API (held inside an Item for the Item-level index calls)
// ------------------------------------------------------------------------------------------
fn inl(item: &mut Item) -> &mut InlineTable {
    item.as_inline_table_mut().expect("inline table")
}

fn inline_op(item: &mut Item, f: &[&str]) -> String {
    let k = || f[1];
    let p = || value_of(parse_pay(f[2]));
    match f[0] {
        "ins" => show_opt(inl(item).insert(k(), p()), |v| show_value(&v)),
        "insf" => show_opt(inl(item).insert_formatted(&toml_edit::Key::new(k()), p()), |v| show_value(&v)),
        "rm" => show_opt(inl(item).remove(k()), |v| show_value(&v)),
        "rme" => show_opt(inl(item).remove_entry(k()), |(key, v)| format!("{}={}", key.get(), show_value(&v))),
        "get" => show_opt(inl(item).get(k()), show_value),
        "getm" => show_opt(inl(item).get_mut(k()), |v| show_value(v)),
        "gkv" => show_opt(inl(item).get_key_value(k()), |(key, i)| format!("{}={}", key.get(), show_item(i))),
        "gkvm" => show_opt(inl(item).get_key_value_mut(k()), |(key, i)| format!("{}={}", key.get(), show_item(i))),
        "ck" => inl(item).contains_key(k()).to_string(),
        "key" => inl(item).key(k()).is_some().to_string(),
        "len" => inl(item).len().to_string(),
        "emp" => inl(item).is_empty().to_string(),
        "iter" => list(inl(item).iter().map(|(k, v)| format!("{}={}", k, show_value(v))).collect()),
        "iterm" => list(inl(item).iter_mut().map(|(k, v)| format!("{}={}", k.get(), show_value(v))).collect()),
        "clr" => {
            inl(item).clear();
            "u".into()
        }
        "ent" => match inl(item).entry(k()) {
            InlineEntry::Occupied(e) => format!("occ:{}", show_value(e.get())),
            InlineEntry::Vacant(_) => "vac".into(),
        },
        "eoi" => show_value(inl(item).entry(k()).or_insert(p())),
        "eins" => match inl(item).entry(k()) {
            InlineEntry::Occupied(mut e) => show_value(&e.insert(p())),
            InlineEntry::Vacant(e) => {
                e.insert(p());
                "vac".into()
            }
        },
        "erm" => match inl(item).entry(k()) {
            InlineEntry::Occupied(e) => show_value(&e.remove()),
            InlineEntry::Vacant(_) => "vac".into(),
        },
        "goi" => show_value(inl(item).get_or_insert(k(), p())),
        "ret" => {
            inl(item).retain(|k, v| pred_value(&f[1..], k, v));
            "u".into()
        }
        "sort" => {
            inl(item).sort_values();
            "u".into()
        }
        "sortby" => {
            match f[1] {
                "kdesc" => inl(item).sort_values_by(|k1, _, k2, _| k2.get().cmp(k1.get())),
                _ => inl(item).sort_values_by(|_, a, _, b| rank_value(a).cmp(&rank_value(b))),
            }
            "u".into()
        }
        "idx" => show_value(&inl(item)[k()]),
        // the Item-level mutable index: the only way to auto-vivify inside an inline table
        "idxm" => show_item(&mut item[k()]),
        "iset" => {
            item[k()] = Item::Value(p());
            "u".into()
        }
        "ioi" => show_item(item[k()].or_insert(Item::Value(p()))),
        "ext" => {
            inl(item).extend(pairs(&f[1..]).into_iter().map(|(k, p)| (k, value_of(p))));
            "u".into()
        }
        "from" => {
            let t: InlineTable = pairs(&f[1..]).into_iter().map(|(k, p)| (k, value_of(p))).collect();
            *item = Item::Value(Value::InlineTable(t));
            "u".into()
        }
        "into" => list(inl(item).clone().into_iter().map(|(k, v)| format!("{}={}", k, show_value(&v))).collect()),
        // ---- judged by the python reference only ----
        "entf" => show_value(inl(item).entry_format(&toml_edit::Key::new(k())).or_insert(p())),
        "eoiw" => show_value(inl(item).entry(k()).or_insert_with(p)),
        "ekey" => inl(item).entry(k()).key().to_string(),
        "emut" => match inl(item).entry(k()) {
            InlineEntry::Occupied(mut e) => {
                let k1 = e.key().to_string();
                let key = format!("{}/{}", k1, e.key_mut().get());
                *e.get_mut() = p();
                let r = e.into_mut();
                format!("occ:{}:{}", key, show_value(r))
            }
            InlineEntry::Vacant(e) => format!("vac:{}", e.key()),
        },
        "intor" => list((&*inl(item)).into_iter().map(|(k, v)| format!("{}={}", k, show_value(v))).collect()),
        // IndexMut of the inline table itself: panics on a missing key
        "idxmi" => {
            inl(item)[k()] = p();
            "u".into()
        }
        "gv" => inl(item).get_values().len().to_string(),
        _ => "na".into(),
    }
}

fn inline_obs(item: &mut Item) -> String {
    let t = inl(item);
    format!(
        "len={} emp={} iter={} get={} ck={} print={}",
        t.len(),
        t.is_empty(),
        list(t.iter().map(|(k, v)| format!("{}={}", k, show_value(v))).collect()),
        list(ALPHABET.iter().map(|k| format!("{}:{}", k, show_opt(t.get(k), show_value))).collect()),
        list(ALPHABET.iter().map(|k| format!("{}:{}", k, t.contains_key(k))).collect()),
        util::hex(t.to_string().as_bytes())
    )
}

// ------------------------------------------------------------------------------------------
// InlineTable through `dyn TableLike`
// ------------------------------------------------------------------------------------------
fn tl(item: &mut Item) -> &mut dyn TableLike {
    item.as_table_like_mut().expect("table-like")
}

fn tl_op(item: &mut Item, f: &[&str]) -> String {
    let k = || f[1];
    let p = || Item::Value(value_of(parse_pay(f[2])));
    match f[0] {
        "ins" => show_opt(tl(item).insert(k(), p()), |i| show_item(&i)),
        "rm" => show_opt(tl(item).remove(k()), |i| show_item(&i)),
        "get" => show_opt(tl(item).get(k()), show_item),
        "getm" => show_opt(tl(item).get_mut(k()), |i| show_item(i)),
        "gkv" => show_opt(tl(item).get_key_value(k()), |(key, i)| format!("{}={}", key.get(), show_item(i))),
        "gkvm" => show_opt(tl(item).get_key_value_mut(k()), |(key, i)| format!("{}={}", key.get(), show_item(i))),
        "ck" => tl(item).contains_key(k()).to_string(),
        "key" => tl(item).key(k()).is_some().to_string(),
        "len" => tl(item).len().to_string(),
        "emp" => tl(item).is_empty().to_string(),
        "iter" => list(tl(item).iter().map(|(k, i)| format!("{}={}", k, show_item(i))).collect()),
        "iterm" => list(tl(item).iter_mut().map(|(k, i)| format!("{}={}", k.get(), show_item(i))).collect()),
        "clr" => {
            tl(item).clear();
            "u".into()
        }
        "ent" => match tl(item).entry(k()) {
            Entry::Occupied(e) => format!("occ:{}", show_item(e.get())),
            Entry::Vacant(_) => "vac".into(),
        },
        "eoi" => show_item(tl(item).entry(k()).or_insert(p())),
        "eins" => match tl(item).entry(k()) {
            Entry::Occupied(mut e) => show_item(&e.insert(p())),
            Entry::Vacant(e) => {
                e.insert(p());
                "vac".into()
            }
        },
        "erm" => match tl(item).entry(k()) {
            Entry::Occupied(e) => show_item(&e.remove()),
            Entry::Vacant(_) => "vac".into(),
        },
        "sort" => {
            tl(item).sort_values();
            "u".into()
        }
        "idxm" => show_item(&mut item[k()]),
        "iset" => {
            item[k()] = p();
            "u".into()
        }
        "ioi" => show_item(item[k()].or_insert(p())),
        // ---- judged by the python reference only ----
        "gv" => tl(item).get_values().len().to_string(),
        "fmt" => {
            tl(item).fmt();
            "u".into()
        }
        "dot" => tl(item).is_dotted().to_string(),
        _ => "na".into(),
    }
}

/// a standard Table seen through `dyn TableLike` (kind table_tl: the same calls as inline_tl)
fn ttl_obs(item: &mut Item) -> String {
    let print = util::hex(item.as_table().expect("table").to_string().as_bytes());
    let t = tl(item);
    format!(
        "len={} emp={} iter={} get={} ck={} print={}",
        t.len(),
        t.is_empty(),
        list(t.iter().map(|(k, i)| format!("{}={}", k, show_item(i))).collect()),
        list(ALPHABET.iter().map(|k| format!("{}:{}", k, show_opt(t.get(k), show_item))).collect()),
        list(ALPHABET.iter().map(|k| format!("{}:{}", k, t.contains_key(k))).collect()),
        print
    )
}

fn tl_obs(item: &mut Item) -> String {
    let print = util::hex(inl(item).to_string().as_bytes());
    let t = tl(item);
    format!(
        "len={} emp={} iter={} get={} ck={} print={}",
        t.len(),
        t.is_empty(),
        list(t.iter().map(|(k, i)| format!("{}={}", k, show_item(i))).collect()),
        list(ALPHABET.iter().map(|k| format!("{}:{}", k, show_opt(t.get(k), show_item))).collect()),
        list(ALPHABET.iter().map(|k| format!("{}:{}", k, t.contains_key(k))).collect()),
        print
    )
}

// ------------------------------------------------------------------------------------------
// toml::map::Map<String, toml::Value> (sorted, or insertion-ordered with feature `po`)
// ------------------------------------------------------------------------------------------
type TMap = toml::map::Map<String, toml::Value>;

fn tvalue_of(p: Pay) -> toml::Value {
    match p {
        // through the `From` impls of toml::Value (i64, BTreeMap, Vec)
        Pay::Int(z) => toml::Value::from(z),
        Pay::Tab => toml::Value::from(std::collections::BTreeMap::<String, toml::Value>::new()),
        Pay::Inl => toml::Value::from(Vec::<toml::Value>::new()),
    }
}
fn show_tvalue(v: &toml::Value) -> String {
    match v {
        toml::Value::Integer(z) => format!("i{z}"),
        toml::Value::Table(_) => "T".into(),
        toml::Value::Array(_) => "I".into(),
        _ => "?".into(),
    }
}
fn pred_tvalue(f: &[&str], k: &str, v: &toml::Value) -> bool {
    match f[0] {
        "kne" => k != f[1],
        "int" => v.is_integer(),
        "lt" => v.as_integer().map(|z| z < f[1].parse::<i64>().unwrap()).unwrap_or(false),
        "all" => true,
        _ => false,
    }
}

fn map_op(m: &mut TMap, f: &[&str]) -> String {
    use toml::map::Entry as E;
    let k = || f[1];
    let p = || tvalue_of(parse_pay(f[2]));
    match f[0] {
        "ins" => show_opt(m.insert(k().to_string(), p()), |v| show_tvalue(&v)),
        "rm" => show_opt(m.remove(k()), |v| show_tvalue(&v)),
        "get" => show_opt(m.get(k()), show_tvalue),
        "getm" => show_opt(m.get_mut(k()), |v| show_tvalue(v)),
        "gkv" => show_opt(m.get_key_value(k()), |(key, v)| format!("{}={}", key, show_tvalue(v))),
        "ck" => m.contains_key(k()).to_string(),
        "len" => m.len().to_string(),
        "emp" => m.is_empty().to_string(),
        "iter" => list(m.iter().map(|(k, v)| format!("{}={}", k, show_tvalue(v))).collect()),
        "iterm" => list(m.iter_mut().map(|(k, v)| format!("{}={}", k, show_tvalue(v))).collect()),
        "keys" => list(m.keys().map(|k| k.to_string()).collect()),
        "vals" => list(m.values().map(show_tvalue).collect()),
        "clr" => {
            m.clear();
            "u".into()
        }
        "ent" => match m.entry(k()) {
            E::Occupied(e) => format!("occ:{}", show_tvalue(e.get())),
            E::Vacant(_) => "vac".into(),
        },
        "eoi" => show_tvalue(m.entry(k()).or_insert(p())),
        "eins" => match m.entry(k()) {
            E::Occupied(mut e) => show_tvalue(&e.insert(p())),
            E::Vacant(e) => {
                e.insert(p());
                "vac".into()
            }
        },
        "erm" => match m.entry(k()) {
            E::Occupied(e) => show_tvalue(&e.remove()),
            E::Vacant(_) => "vac".into(),
        },
        "ret" => {
            m.retain(|k, v| pred_tvalue(&f[1..], k, v));
            "u".into()
        }
        "idx" => show_tvalue(&m[k()]),
        "idxm" => show_tvalue(&mut m[k()]),
        "iset" => {
            m[k()] = p();
            "u".into()
        }
        "ext" => {
            m.extend(pairs(&f[1..]).into_iter().map(|(k, p)| (k, tvalue_of(p))));
            "u".into()
        }
        "from" => {
            *m = pairs(&f[1..]).into_iter().map(|(k, p)| (k, tvalue_of(p))).collect();
            "u".into()
        }
        "into" => list(m.clone().into_iter().map(|(k, v)| format!("{}={}", k, show_tvalue(&v))).collect()),
        // ---- judged by the python reference only ----
        "eoiw" => show_tvalue(m.entry(k()).or_insert_with(p)),
        "ekey" => m.entry(k()).key().to_string(),
        "emut" => match m.entry(k()) {
            E::Occupied(mut e) => {
                let key = e.key().to_string();
                *e.get_mut() = p();
                let r = e.into_mut();
                format!("occ:{}:{}", key, show_tvalue(r))
            }
            E::Vacant(e) => format!("vac:{}", e.key()),
        },
        "intor" => list((&*m).into_iter().map(|(k, v)| format!("{}={}", k, show_tvalue(v))).collect()),
        "intom" => list((&mut *m).into_iter().map(|(k, v)| format!("{}={}", k, show_tvalue(v))).collect()),
        "cap" => {
            *m = TMap::with_capacity(ix(f[1]));
            "u".into()
        }
        // the map seen as a toml::Value::Table: Value::get / get_mut / as_table_mut / Index
        "vget" => {
            let v = toml::Value::Table(m.clone());
            // (the remaining `From` impls of toml::Value build the same values)
            let froms = toml::Value::from(std::collections::HashMap::<String, toml::Value>::new()) == toml::Value::Table(TMap::new())
                && toml::Value::from("s").as_str() == Some("s");
            format!(
                "{}/{}{}",
                show_opt(v.get(k()), show_tvalue),
                show_opt(v.as_table().and_then(|t| t.get(k())), show_tvalue),
                if froms { "" } else { "/BAD" }
            )
        }
        // the values as a toml::Value::Array: as_array_mut, Index / IndexMut<usize>
        "varr" => {
            let mut v = toml::Value::Array(m.values().cloned().collect());
            v.as_array_mut().expect("array").reverse();
            if !m.is_empty() {
                v[0] = p();
            }
            list((0..m.len()).map(|i| show_tvalue(&v[i])).collect())
        }
        "vset" => {
            let mut v = toml::Value::Table(std::mem::take(m));
            let r = match v.get_mut(k()) {
                Some(slot) => {
                    *slot = toml::Value::Boolean(true);
                    v[k()] = p();
                    show_tvalue(&v[k()])
                }
                None => "none".into(),
            };
            *m = std::mem::take(v.as_table_mut().expect("table"));
            r
        }
        _ => "na".into(),
    }
}

fn map_obs(m: &TMap) -> String {
    format!(
        "len={} emp={} iter={} get={} ck={}",
        m.len(),
        m.is_empty(),
        list(m.iter().map(|(k, v)| format!("{}={}", k, show_tvalue(v))).collect()),
        list(ALPHABET.iter().map(|k| format!("{}:{}", k, show_opt(m.get(*k), show_tvalue))).collect()),
        list(ALPHABET.iter().map(|k| format!("{}:{}", k, m.contains_key(*k))).collect()),
    )
}

// ------------------------------------------------------------------------------------------
// Array (held inside an Item for the Item-level `usize` index) and ArrayOfTables
// ------------------------------------------------------------------------------------------
fn z(s: &str) -> i64 {
    s.parse().expect("integer")
}
fn ix(s: &str) -> usize {
    s.parse().expect("index")
}
fn arr(item: &mut Item) -> &mut Array {
    item.as_array_mut().expect("array")
}
fn show_elem(v: &Value) -> String {
    match v {
        Value::Integer(f) => f.value().to_string(),
        _ => "?".into(),
    }
}
fn show_elem_item(i: &Item) -> String {
    match i {
        Item::Value(v) => show_elem(v),
        Item::Table(t) => show_tab(t),
        Item::None => "N".into(),
        _ => "?".into(),
    }
}
fn vpred(f: &[&str], x: i64) -> bool {
    match f[0] {
        "lt" => x < z(f[1]),
        "odd" => x.rem_euclid(2) == 1,
        "all" => true,
        _ => false,
    }
}
fn val_z(v: &Value) -> i64 {
    v.as_integer().expect("integer element")
}

fn array_op(item: &mut Item, f: &[&str]) -> String {
    match f[0] {
        "push" => {
            arr(item).push(z(f[1]));
            "u".into()
        }
        "pushf" => {
            arr(item).push_formatted(Value::from(z(f[1])));
            "u".into()
        }
        "ins" => {
            arr(item).insert(ix(f[1]), z(f[2]));
            "u".into()
        }
        "insf" => {
            arr(item).insert_formatted(ix(f[1]), Value::from(z(f[2])));
            "u".into()
        }
        "rep" => show_elem(&arr(item).replace(ix(f[1]), z(f[2]))),
        "repf" => show_elem(&arr(item).replace_formatted(ix(f[1]), Value::from(z(f[2])))),
        "rm" => show_elem(&arr(item).remove(ix(f[1]))),
        "get" => show_opt(arr(item).get(ix(f[1])), show_elem),
        "getm" => show_opt(arr(item).get_mut(ix(f[1])), |v| show_elem(v)),
        "len" => arr(item).len().to_string(),
        "emp" => arr(item).is_empty().to_string(),
        "iter" => list(arr(item).iter().map(show_elem).collect()),
        "iterm" => list(arr(item).iter_mut().map(|v| show_elem(v)).collect()),
        "clr" => {
            arr(item).clear();
            "u".into()
        }
        "ret" => {
            arr(item).retain(|v| vpred(&f[1..], val_z(v)));
            "u".into()
        }
        "sortby" => {
            match f[1] {
                "desc" => arr(item).sort_by(|a, b| val_z(b).cmp(&val_z(a))),
                // a comparator with ties: elements with the same residue must keep their order (stable sort)
                "mod3" => arr(item).sort_by(|a, b| val_z(a).rem_euclid(3).cmp(&val_z(b).rem_euclid(3))),
                _ => arr(item).sort_by(|a, b| val_z(a).cmp(&val_z(b))),
            }
            "u".into()
        }
        "sortkey" => {
            arr(item).sort_by_key(|v| val_z(v).rem_euclid(3));
            "u".into()
        }
        "ext" => {
            arr(item).extend(f[1..].iter().map(|s| z(s)));
            "u".into()
        }
        "from" => {
            let a: Array = f[1..].iter().map(|s| z(s)).collect();
            *item = Item::Value(Value::Array(a));
            "u".into()
        }
        "into" => list(arr(item).clone().into_iter().map(|v| show_elem(&v)).collect()),
        "intor" => list((&*arr(item)).into_iter().map(show_elem).collect()),
        // Item-level `usize` index
        "idx" => show_elem_item(&item[ix(f[1])]),
        "iget" => show_opt(item.get(ix(f[1])), show_elem_item),
        "iset" => {
            item[ix(f[1])] = toml_edit::value(z(f[2]));
            "u".into()
        }
        _ => "na".into(),
    }
}

fn array_obs(item: &mut Item) -> String {
    let a = arr(item);
    let n = a.len();
    format!(
        "len={} emp={} iter={} get={}",
        n,
        a.is_empty(),
        list(a.iter().map(show_elem).collect()),
        list((0..=n).map(|i| format!("{}:{}", i, show_opt(a.get(i), show_elem))).collect())
    )
}

fn mk_tab(x: i64) -> Table {
    let mut t = Table::new();
    t.insert("id", toml_edit::value(x));
    t
}
fn show_tab(t: &Table) -> String {
    show_opt(t.get("id").and_then(|i| i.as_integer()), |x| x.to_string())
}
fn aot(item: &mut Item) -> &mut ArrayOfTables {
    item.as_array_of_tables_mut().expect("array of tables")
}

fn aot_op(item: &mut Item, f: &[&str]) -> String {
    match f[0] {
        "push" => {
            aot(item).push(mk_tab(z(f[1])));
            "u".into()
        }
        "rm" => {
            aot(item).remove(ix(f[1]));
            "u".into()
        }
        "get" => show_opt(aot(item).get(ix(f[1])), show_tab),
        "getm" => show_opt(aot(item).get_mut(ix(f[1])), |t| show_tab(t)),
        "len" => aot(item).len().to_string(),
        "emp" => aot(item).is_empty().to_string(),
        "iter" => list(aot(item).iter().map(show_tab).collect()),
        "iterm" => list(aot(item).iter_mut().map(|t| show_tab(t)).collect()),
        "clr" => {
            aot(item).clear();
            "u".into()
        }
        "ret" => {
            aot(item).retain(|t| vpred(&f[1..], t.get("id").and_then(|i| i.as_integer()).expect("id")));
            "u".into()
        }
        "ext" => {
            aot(item).extend(f[1..].iter().map(|s| mk_tab(z(s))));
            "u".into()
        }
        "from" => {
            let a: ArrayOfTables = f[1..].iter().map(|s| mk_tab(z(s))).collect();
            *item = Item::ArrayOfTables(a);
            "u".into()
        }
        "into" => list(aot(item).clone().into_iter().map(|t| show_tab(&t)).collect()),
        "intor" => list((&*aot(item)).into_iter().map(show_tab).collect()),
        // Display for ArrayOfTables: the array of inline tables it converts to
        "disp" => util::hex(aot(item).to_string().as_bytes()),
        "idx" => show_elem_item(&item[ix(f[1])]),
        "iget" => show_opt(item.get(ix(f[1])), show_elem_item),
        "iset" => {
            item[ix(f[1])] = Item::Table(mk_tab(z(f[2])));
            "u".into()
        }
        _ => "na".into(),
    }
}

fn aot_obs(item: &mut Item) -> String {
    let a = aot(item);
    let n = a.len();
    format!(
        "len={} emp={} iter={} get={}",
        n,
        a.is_empty(),
        list(a.iter().map(show_tab).collect()),
        list((0..=n).map(|i| format!("{}:{}", i, show_opt(a.get(i), show_tab))).collect())
    )
}

// ------------------------------------------------------------------------------------------
// kind `doc`: entry points of the editing API that no other kind reaches, on a whole `DocumentMut`
// (judged by the python oracle only: lib/props/c16.py `doc_oracle`; the Coq driver is not asked).
//   paths: keys / `#n` indices joined by `/` below the root (`-` = the root), walked with `Item::get_mut`
//   payload X: i<z> | T | T1 ([x = 1]) | A | A1 ([[..]] x = 1) | N (Item::None) | I | I1 ({x = 1}) | Y ([1, "s", {}])
// ------------------------------------------------------------------------------------------
use toml_edit::{DocumentMut, Key};

fn raw_item(x: &str) -> Item {
    // `x = 1` through FromIterator with keys made by every `From` impl of Key (they must name the same key)
    let one = || {
        let keys = [
            Key::from("x"),
            Key::from(&String::from("x")),
            Key::from(String::from("x")),
            Key::from(toml_edit::InternalString::from("x")),
        ];
        let t: Table = keys.into_iter().map(|k| (k, toml_edit::value(1))).collect();
        t
    };
    match x {
        "T" => toml_edit::table(),
        "T1" => Item::from(one()),
        "A" => toml_edit::array(),
        "A1" => {
            let mut a = ArrayOfTables::new();
            a.push(one());
            Item::from(a)
        }
        "N" => Item::None,
        "I" => Item::Value(Value::InlineTable(InlineTable::new())),
        "I1" => Item::Value(Value::InlineTable(one().into_inline_table())),
        "Y" => {
            let mut a = Array::new();
            // "s" through every `From` impl of Value for string types, and From<&Value>
            let is = toml_edit::InternalString::from("s");
            let vs = [Value::from(&is), Value::from(is.clone()), Value::from(&String::from("s")), Value::from(String::from("s")), Value::from("s")];
            let same = vs.iter().all(|v| v.to_string() == vs[0].to_string());
            a.push(1);
            a.push(if same { Value::from(&vs[0]) } else { Value::from("MISMATCH") });
            a.push(InlineTable::new());
            Item::Value(Value::Array(a))
        }
        _ => Item::from(x[1..].parse::<i64>().expect("payload")),
    }
}

fn walk<'a>(root: &'a mut Item, path: &str) -> Option<&'a mut Item> {
    let mut cur = root;
    if path == "-" {
        return Some(cur);
    }
    for seg in path.split('/') {
        cur = match seg.strip_prefix('#') {
            Some(n) => cur.get_mut(n.parse::<usize>().ok()?)?,
            None => cur.get_mut(seg)?,
        };
    }
    Some(cur)
}

fn hex_text(h: &str) -> String {
    String::from_utf8(if h == "-" { Vec::new() } else { util::unhex(h) }).expect("utf-8 text")
}

fn doc_op(d: &mut DocumentMut, f: &[&str]) -> String {
    if f[0] == "new" {
        *d = hex_text(f[1]).parse::<DocumentMut>().expect("valid document");
        return "u".into();
    }
    if f[0] == "root" {
        *d.as_item_mut() = raw_item(f[1]);
        return "u".into();
    }
    if f[0] == "trail" {
        d.set_trailing(hex_text(f[1]));
        return "u".into();
    }
    let node = match walk(d.as_item_mut(), f[1]) {
        Some(n) => n,
        None => return "na".into(),
    };
    let flag = |s: &str| s == "1";
    match f[0] {
        "simp" => match node.as_table_mut() {
            Some(t) => {
                t.set_implicit(flag(f[2]));
                "u".into()
            }
            None => "na".into(),
        },
        "spos" => match node.as_table_mut() {
            Some(t) => {
                t.set_position(f[2].parse().expect("position"));
                "u".into()
            }
            None => "na".into(),
        },
        // through the trait: Table::set_dotted / InlineTable::set_dotted
        "sdot" => match node.as_table_like_mut() {
            Some(t) => {
                t.set_dotted(flag(f[2]));
                t.is_dotted().to_string()
            }
            None => "na".into(),
        },
        "kpre" => match node.as_table_like_mut().and_then(|t| t.key_mut(f[2])) {
            Some(mut k) => {
                k.leaf_decor_mut().set_prefix(hex_text(f[3]));
                let d = k.dotted_decor().clone();
                *k.dotted_decor_mut() = d;
                "u".into()
            }
            None => "na".into(),
        },
        #[allow(deprecated)]
        "kdecm" => match node.as_table_like_mut().and_then(|t| t.key_decor_mut(f[2])) {
            Some(dc) => {
                dc.set_suffix(hex_text(f[3]));
                "u".into()
            }
            None => "na".into(),
        },
        #[allow(deprecated)]
        "kdec" => match node.as_table_like().and_then(|t| t.key_decor(f[2])) {
            Some(dc) => format!(
                "{}~{}",
                show_opt(dc.prefix().and_then(|r| r.as_str()), |s| util::hex(s.as_bytes())),
                show_opt(dc.suffix().and_then(|r| r.as_str()), |s| util::hex(s.as_bytes()))
            ),
            None => "na".into(),
        },
        "insn" => match node.as_table_mut() {
            Some(t) => show_opt(t.insert(f[2], Item::None), |i| show_item(&i)),
            None => "na".into(),
        },
        "tlins" => match node.as_table_like_mut() {
            Some(t) => show_opt(t.insert(f[2], raw_item(f[3])), |i| show_item(&i)),
            None => "na".into(),
        },
        "tleoi" => match node.as_table_like_mut() {
            Some(t) => show_item(t.entry(f[2]).or_insert(raw_item(f[3]))),
            None => "na".into(),
        },
        "tlef" => match node.as_table_like_mut() {
            Some(t) => show_item(t.entry_format(&Key::new(f[2])).or_insert_with(|| raw_item(f[3]))),
            None => "na".into(),
        },
        // Item::or_insert on the (auto-vivified) entry
        "oi" => {
            if node.is_table_like() || node.is_none() {
                show_item(node[f[2]].or_insert(raw_item(f[3])))
            } else {
                "na".into()
            }
        }
        "intov" => {
            let it = std::mem::take(node);
            *node = match it.into_value() {
                Ok(v) => Item::Value(v),
                Err(i) => i,
            };
            node.type_name().into()
        }
        "intot" => {
            let it = std::mem::take(node);
            *node = match it.into_table() {
                Ok(t) => Item::Table(t),
                Err(i) => i,
            };
            node.type_name().into()
        }
        "intoa" => {
            let it = std::mem::take(node);
            *node = match it.into_array_of_tables() {
                Ok(a) => Item::ArrayOfTables(a),
                Err(i) => i,
            };
            node.type_name().into()
        }
        "mkval" => {
            node.make_value();
            node.type_name().into()
        }
        "afmt" => match node.as_array_mut() {
            Some(a) => {
                a.fmt();
                "u".into()
            }
            None => "na".into(),
        },
        // a comparator over elements of mixed kinds (ties: elements of one kind keep their order)
        "asort" => match node.as_array_mut() {
            Some(a) => {
                a.sort_by(|x, y| x.type_name().cmp(y.type_name()));
                list(a.iter().map(|v| v.type_name().to_string()).collect())
            }
            None => "na".into(),
        },
        "apush" => match node.as_array_mut() {
            Some(a) => match raw_item(f[2]).into_value() {
                Ok(v) => {
                    a.push_formatted(v);
                    "u".into()
                }
                Err(_) => "na".into(),
            },
            None => "na".into(),
        },
        "pre" => match node.as_inline_table_mut() {
            Some(t) => {
                t.set_preamble(hex_text(f[2]));
                "u".into()
            }
            None => "na".into(),
        },
        "atr" => match node.as_array_mut() {
            Some(a) => {
                a.set_trailing(hex_text(f[2]));
                a.set_trailing_comma(flag(f[3]));
                "u".into()
            }
            None => "na".into(),
        },
        // formatting setters (the texts handed in are white space / comments only)
        "dec" => {
            let (pre, suf) = (hex_text(f[2]), hex_text(f[3]));
            match node {
                Item::Table(t) => {
                    *t.decor_mut() = toml_edit::Decor::new(pre, suf);
                    "u".into()
                }
                Item::Value(v) => {
                    v.decor_mut().set_prefix(pre);
                    v.decor_mut().set_suffix(suf);
                    "u".into()
                }
                _ => "na".into(),
            }
        }
        "deco" => match node {
            Item::Value(v) => {
                *v = v.clone().decorated(hex_text(f[2]), hex_text(f[3]));
                "u".into()
            }
            _ => "na".into(),
        },
        "dclr" => match node {
            Item::Table(t) => {
                t.decor_mut().clear();
                "u".into()
            }
            Item::Value(v) => {
                v.decor_mut().clear();
                "u".into()
            }
            _ => "na".into(),
        },
        // Key::fmt / Formatted::fmt: back to the default spelling
        "kfmt" => match node.as_table_like_mut().and_then(|t| t.key_mut(f[2])) {
            Some(mut k) => {
                k.fmt();
                format!("{}~{}~{}", k.display_repr(), k.default_repr().as_raw().as_str().unwrap_or("?"), k)
            }
            None => "na".into(),
        },
        "vfmt" => match node {
            Item::Value(Value::Integer(x)) => {
                x.fmt();
                x.display_repr().to_string()
            }
            Item::Value(Value::String(x)) => {
                x.fmt();
                x.display_repr().to_string()
            }
            Item::Value(Value::Boolean(x)) => {
                x.fmt();
                x.display_repr().to_string()
            }
            _ => "na".into(),
        },
        // an entry under a key with formatting of its own: Key::parse, with_leaf_decor / with_dotted_decor, insert_formatted
        "insk" => match node.as_table_mut() {
            Some(t) => match Key::parse(&hex_text(f[2])) {
                Ok(mut ks) if ks.len() == 1 => {
                    let mut k = ks.remove(0).with_leaf_decor(toml_edit::Decor::new(" ", " ")).with_dotted_decor(toml_edit::Decor::default());
                    k.leaf_decor_mut().set_suffix("  ");
                    k.dotted_decor_mut().clear();
                    if f.len() > 4 {
                        k.fmt();
                    }
                    show_opt(t.insert_formatted(&k, raw_item(f[3])), |i| show_item(&i))
                }
                Ok(ks) => format!("keys:{}", ks.len()),
                Err(_) => "err".into(),
            },
            None => "na".into(),
        },
        "disp" => util::hex(node.to_string().as_bytes()),
        "icl" => {
            *node = Item::from(&*node);
            node.type_name().into()
        }
        "pitem" => match hex_text(f[2]).parse::<Item>() {
            Ok(i) => {
                *node = i;
                node.type_name().into()
            }
            Err(_) => "err".into(),
        },
        "aotret" => match node.as_array_of_tables_mut() {
            Some(a) => {
                a.retain(|t| t.contains_key(f[2]));
                a.len().to_string()
            }
            None => "na".into(),
        },
        "aotset" => match node.as_array_of_tables_mut() {
            Some(a) => {
                for t in a.iter_mut() {
                    t.insert(f[2], raw_item(f[3]));
                }
                if let Some(t) = a.get_mut(0) {
                    t.remove(f[2]);
                }
                a.len().to_string()
            }
            None => "na".into(),
        },
        _ => "na".into(),
    }
}

/// the tree as the `TableLike` / `Array` views show it (entries an inline table holds that are not values included);
/// the canonical dump of verif_harness::tree plus: `N` placeholder, `Tm` / `Td` implicit / dotted table, `{~` dotted inline table
fn show_tl(i: &Item) -> String {
    let entries = |t: &dyn TableLike| -> String {
        t.iter().map(|(k, i)| format!("{}={}", util::hex(k.as_bytes()), show_tl(i))).collect::<Vec<_>>().join(",")
    };
    match i {
        Item::None => "N".into(),
        Item::Value(Value::Array(a)) => list(a.iter().map(|v| show_tl(&Item::Value(v.clone()))).collect()),
        Item::Value(Value::InlineTable(t)) => format!("{{{}{}}}", if t.is_dotted() { "~" } else { "" }, entries(t)),
        Item::Value(v) => verif_harness::tree::show_value(v),
        Item::Table(t) => {
            let flags = format!("{}{}", if t.is_implicit() { "m" } else { "" }, if t.is_dotted() { "d" } else { "" });
            format!("T{}{{{}}}", flags, entries(t))
        }
        Item::ArrayOfTables(a) => format!("A{}", list(a.iter().map(|t| show_tl(&Item::Table(t.clone()))).collect())),
    }
}

/// the `TableLike` view of every table-like node agrees with itself: what `iter` shows is what `contains_key` / `get` /
/// `get_key_value` / `key` find, `len` counts it, and a key that is not there is not found
fn tl_consistent(i: &Item) -> Result<(), String> {
    if let Some(t) = i.as_table_like() {
        let mut n = 0usize;
        for (k, x) in t.iter() {
            n += 1;
            if !t.contains_key(k) || t.get(k).is_none() || t.get_key_value(k).is_none() || t.key(k).is_none() {
                return Err(format!(
                    "key:{}:contains_key={}:get={}:get_key_value={}:key={}",
                    util::hex(k.as_bytes()), t.contains_key(k), t.get(k).is_some(), t.get_key_value(k).is_some(), t.key(k).is_some()
                ));
            }
            tl_consistent(x)?;
        }
        if t.len() != n || t.is_empty() != (n == 0) {
            return Err(format!("len={}:iter={}:is_empty={}", t.len(), n, t.is_empty()));
        }
        let absent = "\u{1}never a key\u{1}";
        if t.contains_key(absent) || t.get(absent).is_some() {
            return Err("absent-key-found".into());
        }
    }
    match i {
        Item::ArrayOfTables(a) => {
            for t in a.iter() {
                tl_consistent(&Item::Table(t.clone()))?;
            }
        }
        Item::Value(Value::Array(a)) => {
            for v in a.iter() {
                tl_consistent(&Item::Value(v.clone()))?;
            }
        }
        _ => {}
    }
    Ok(())
}

fn doc_obs(d: &mut DocumentMut) -> String {
    let guard = |f: &dyn Fn() -> String| catch_unwind(AssertUnwindSafe(f)).unwrap_or_else(|_| "P".to_string());
    let tl = guard(&|| match tl_consistent(d.as_item()) {
        Ok(()) => "ok".to_string(),
        Err(e) => format!("BAD:{e}"),
    });
    let view = guard(&|| show_tl(d.as_item()));
    // the same tree through the inherent read API (InlineTable::iter ...)
    let built = guard(&|| match d.as_item() {
        Item::Table(t) => verif_harness::tree::show_table(t),
        _ => "-".into(),
    });
    let text = catch_unwind(AssertUnwindSafe(|| d.to_string()));
    match text {
        Err(_) => format!("view={view} built={built} text=P tl={tl}"),
        Ok(s) => {
            let (parse, got) = match s.parse::<DocumentMut>() {
                Ok(d2) => ("ok", verif_harness::tree::show_table(d2.as_table())),
                Err(_) => ("ERR", "-".into()),
            };
            format!("view={view} built={built} text={} parse={parse} got={got} tl={tl}", util::hex(s.as_bytes()))
        }
    }
}

// ------------------------------------------------------------------------------------------
fn run_ops<S>(st: &mut S, ops: &str, step: fn(&mut S, &[&str]) -> String, obs: fn(&mut S) -> String) -> String {
    let mut outs = Vec::new();
    for op in ops.split(';').filter(|s| !s.is_empty()) {
        let f: Vec<&str> = op.split(',').collect();
        let r = catch_unwind(AssertUnwindSafe(|| step(st, &f)));
        outs.push(r.unwrap_or_else(|_| "P".to_string()));
    }
    format!("{}|{}", outs.join(";"), obs(st))
}

fn cmd_ops(args: &Args) -> String {
    if args.len() != 2 {
        return "bad-args".into();
    }
    let kind = String::from_utf8_lossy(&args[0]).to_string();
    let ops = String::from_utf8_lossy(&args[1]).to_string();
    let po = cfg!(feature = "po");
    match kind.as_str() {
        "table" => run_ops(&mut Table::new(), &ops, table_op, |t| table_obs(t)),
        "inline" => run_ops(&mut Item::Value(Value::InlineTable(InlineTable::new())), &ops, inline_op, inline_obs),
        "inline_tl" => run_ops(&mut Item::Value(Value::InlineTable(InlineTable::new())), &ops, tl_op, tl_obs),
        "table_tl" => run_ops(&mut Item::Table(Table::new()), &ops, tl_op, ttl_obs),
        "array" => run_ops(&mut Item::Value(Value::Array(Array::new())), &ops, array_op, array_obs),
        "aot" => run_ops(&mut Item::ArrayOfTables(ArrayOfTables::new()), &ops, aot_op, aot_obs),
        "doc" => run_ops(&mut DocumentMut::new(), &ops, doc_op, doc_obs),
        "map_sorted" if !po => run_ops(&mut TMap::new(), &ops, map_op, |m| map_obs(m)),
        "map_ordered" if po => run_ops(&mut TMap::new(), &ops, map_op, |m| map_obs(m)),
        "map_sorted" | "map_ordered" => "skip".into(),
        _ => "bad-kind".into(),
    }
}

fn run_cmd(cmd: &str, args: &Args) -> String {
    match cmd {
        "ops" => cmd_ops(args),
        _ => "unknown-command".to_string(),
    }
}

fn main() {
    verif_harness::main_loop(run_cmd);
}
