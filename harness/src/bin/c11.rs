//! C11 observations: number writers, number literals, serde integer widths.
//! Same line format as coq/Extract/Cmd_c11.v.
use serde::{Deserialize, Serialize};
use toml_write::ToTomlValue;
use verif_harness::tree::show_f64;
use verif_harness::util::hex;
use verif_harness::Args;

fn text(a: &[u8]) -> Option<&str> {
    std::str::from_utf8(a).ok()
}

/// `ok:i:<z>` / `ok:f:..` / `ok:datetime` / `ok:other` / `err`
fn show_parsed(s: &str) -> (String, Option<toml_edit::Value>) {
    match s.parse::<toml_edit::Value>() {
        Ok(v) => {
            let t = match &v {
                toml_edit::Value::Integer(i) => format!("ok:i:{}", i.value()),
                toml_edit::Value::Float(f) => format!("ok:{}", show_f64(*f.value())),
                toml_edit::Value::Datetime(_) => "ok:datetime".to_string(),
                _ => "ok:other".to_string(),
            };
            (t, Some(v))
        }
        Err(_) => ("err".to_string(), None),
    }
}

fn cmd_i64(args: &Args) -> String {
    let z: i64 = match text(&args[0]).and_then(|s| s.parse().ok()) {
        Some(z) => z,
        None => return "bad-input".into(),
    };
    let lit = z.to_toml_value();
    let (shown, v) = show_parsed(&lit);
    let rt = matches!(&v, Some(toml_edit::Value::Integer(i)) if *i.value() == z);
    format!("lit={} val={} rt={}", hex(lit.as_bytes()), shown, if rt { "ok" } else { "BAD" })
}

fn same_f64(a: f64, b: f64) -> bool {
    if a.is_nan() || b.is_nan() {
        a.is_nan() && b.is_nan() && a.is_sign_negative() == b.is_sign_negative()
    } else {
        a.to_bits() == b.to_bits()
    }
}
fn same_f32(a: f32, b: f32) -> bool {
    if a.is_nan() || b.is_nan() {
        a.is_nan() && b.is_nan() && a.is_sign_negative() == b.is_sign_negative()
    } else {
        a.to_bits() == b.to_bits()
    }
}

fn bits64(a: &[u8]) -> Option<u64> {
    let s = text(a)?;
    if s.len() != 16 {
        return None;
    }
    u64::from_str_radix(s, 16).ok()
}
fn bits32(a: &[u8]) -> Option<u32> {
    let s = text(a)?;
    if s.len() != 8 {
        return None;
    }
    u32::from_str_radix(s, 16).ok()
}

fn cmd_f64print(args: &Args) -> String {
    match bits64(&args[0]) {
        Some(b) => format!("std={}", hex(format!("{}", f64::from_bits(b)).as_bytes())),
        None => "bad-input".into(),
    }
}
fn cmd_f32print(args: &Args) -> String {
    match bits32(&args[0]) {
        // the f32 writer prints the value widened to f64: that is the std text it needs
        Some(b) => format!("std={}", hex(format!("{}", f64::from(f32::from_bits(b))).as_bytes())),
        None => "bad-input".into(),
    }
}

fn cmd_f64w(args: &Args) -> String {
    let x = match bits64(&args[0]) {
        Some(b) => f64::from_bits(b),
        None => return "bad-input".into(),
    };
    if format!("{x}").as_bytes() != &args[1][..] {
        return "std-mismatch".into();
    }
    let lit = x.to_toml_value();
    let (shown, v) = show_parsed(&lit);
    let rt = matches!(&v, Some(toml_edit::Value::Float(f)) if same_f64(*f.value(), x));
    format!("lit={} val={} rt={}", hex(lit.as_bytes()), shown, if rt { "ok" } else { "BAD" })
}

fn cmd_f32w(args: &Args) -> String {
    let x = match bits32(&args[0]) {
        Some(b) => f32::from_bits(b),
        None => return "bad-input".into(),
    };
    let wide = f64::from(x);
    if format!("{wide}").as_bytes() != &args[1][..] {
        return "std-mismatch".into();
    }
    let lit = x.to_toml_value();
    let (shown, v) = show_parsed(&lit);
    // the re-parsed f64 narrowed to f32 must be the original
    let rt = matches!(&v, Some(toml_edit::Value::Float(f)) if same_f32(*f.value() as f32, x));
    // (the hardware conversion quiets signalling NaNs; the writer never looks at a widened NaN)
    let w = if x.is_nan() { "nan".to_string() } else { format!("{:016x}", wide.to_bits()) };
    format!(
        "w={} lit={} val={} rt={}",
        w,
        hex(lit.as_bytes()),
        shown,
        if rt { "ok" } else { "BAD" }
    )
}

fn cmd_lit(args: &Args) -> String {
    match text(&args[0]) {
        Some(s) => format!("val={}", show_parsed(s).0),
        None => "not-utf8".into(),
    }
}

#[derive(Serialize, Deserialize)]
struct S<T> {
    v: T,
}

fn ser_routes<T: Serialize + Copy>(v: T) -> String {
    // toml_edit::ser::ValueSerializer directly
    let edit = match v.serialize(toml_edit::ser::ValueSerializer::new()) {
        Ok(val) => format!("ok:{}", hex(val.to_string().as_bytes())),
        Err(_) => "err".to_string(),
    };
    // toml::to_string of `struct S { v: T }`
    let toml_ = match toml::to_string(&S { v }) {
        Ok(s) => match s.strip_prefix("v = ").and_then(|r| r.strip_suffix('\n')) {
            Some(x) => format!("ok:{}", hex(x.as_bytes())),
            None => format!("shape:{}", hex(s.as_bytes())),
        },
        Err(_) => "err".to_string(),
    };
    // toml::Value::try_from (toml/src/value.rs ValueSerializer)
    let value = match toml::Value::try_from(S { v }) {
        Ok(toml::Value::Table(t)) => match t.get("v") {
            Some(toml::Value::Integer(i)) => format!("ok:{i}"),
            _ => "shape".to_string(),
        },
        Ok(_) => "shape".to_string(),
        Err(_) => "err".to_string(),
    };
    format!("edit={edit} toml={toml_} value={value}")
}

fn de_routes<T: for<'de> Deserialize<'de> + std::fmt::Display>(doc: &str) -> String {
    let show = |r: Option<T>| match r {
        Some(x) => format!("ok:{x}"),
        None => "err".to_string(),
    };
    let edit = show(toml_edit::de::from_str::<S<T>>(doc).ok().map(|s| s.v));
    let toml_ = show(toml::from_str::<S<T>>(doc).ok().map(|s| s.v));
    let value = show(
        toml::from_str::<toml::Value>(doc)
            .ok()
            .and_then(|v| v.try_into::<S<T>>().ok())
            .map(|s| s.v),
    );
    format!("edit={edit} toml={toml_} value={value}")
}

macro_rules! width_dispatch {
    ($name:expr, $f:ident, $arg:expr, $($t:ident),*) => {
        match $name {
            $( stringify!($t) => $f!($t, $arg), )*
            _ => "bad-input".to_string(),
        }
    };
}

macro_rules! serw_one {
    ($t:ident, $arg:expr) => {
        match $arg.parse::<$t>() {
            Ok(v) => ser_routes::<$t>(v),
            Err(_) => "bad-input".to_string(),
        }
    };
}
macro_rules! dew_one {
    ($t:ident, $arg:expr) => {
        de_routes::<$t>($arg)
    };
}

/// a foreign serde source (a JSON-to-TOML converter, `x.into_deserializer()`) hands `toml::Value`'s visitor an integer of any
/// width: it must become `Value::Integer` when it fits i64 and an error otherwise (never a float, never a wrapped number)
fn viw_show(r: Result<toml::Value, serde::de::value::Error>) -> String {
    match r {
        Ok(toml::Value::Integer(i)) => format!("value=ok:{i}"),
        Ok(toml::Value::Float(f)) => format!("value=float:{:016x}", f.to_bits()),
        Ok(_) => "value=shape".to_string(),
        Err(_) => "value=err".to_string(),
    }
}

macro_rules! viw_one {
    ($t:ident, $arg:expr) => {
        match $arg.parse::<$t>() {
            Ok(v) => {
                use serde::de::IntoDeserializer;
                viw_show(<toml::Value as serde::Deserialize>::deserialize(IntoDeserializer::<serde::de::value::Error>::into_deserializer(v)))
            }
            Err(_) => "bad-input".to_string(),
        }
    };
}

fn cmd_viw(args: &Args) -> String {
    let (ty, a) = match (text(&args[0]), text(&args[1])) {
        (Some(t), Some(a)) => (t, a),
        _ => return "bad-input".into(),
    };
    width_dispatch!(ty, viw_one, a, i8, i16, i32, i64, i128, isize, u8, u16, u32, u64, u128, usize)
}

fn cmd_serw(args: &Args) -> String {
    let (ty, a) = match (text(&args[0]), text(&args[1])) {
        (Some(t), Some(a)) => (t, a),
        _ => return "bad-input".into(),
    };
    width_dispatch!(ty, serw_one, a, i8, i16, i32, i64, i128, isize, u8, u16, u32, u64, u128, usize)
}

fn cmd_dew(args: &Args) -> String {
    let (ty, a) = match (text(&args[0]), text(&args[1])) {
        (Some(t), Some(a)) => (t, a),
        _ => return "bad-input".into(),
    };
    let doc = format!("v = {a}\n");
    let doc = doc.as_str();
    width_dispatch!(ty, dew_one, doc, i8, i16, i32, i64, i128, isize, u8, u16, u32, u64, u128, usize)
}

fn run_cmd(cmd: &str, args: &Args) -> String {
    let need = match cmd {
        "f64w" | "f32w" | "serw" | "dew" | "viw" => 2,
        _ => 1,
    };
    if args.len() != need {
        return "bad-args".to_string();
    }
    match cmd {
        "i64" => cmd_i64(args),
        "f64print" => cmd_f64print(args),
        "f32print" => cmd_f32print(args),
        "f64w" => cmd_f64w(args),
        "f32w" => cmd_f32w(args),
        "lit" => cmd_lit(args),
        "serw" => cmd_serw(args),
        "dew" => cmd_dew(args),
        "viw" => cmd_viw(args),
        _ => "unknown-command".to_string(),
    }
}

fn main() {
    verif_harness::main_loop(run_cmd);
}
