//! A recording `Serializer`: turns any `T: Serialize` into the tree of serializer calls it makes
//! (`Tr`).  Used by the fidelity check: the call tree of a REAL derived value must equal the call
//! tree of the equivalent `Typed(DynType, Dyn)`; and `trace_to_dyn` reads a real value back as a
//! `Dyn` (so the equivalent Dyn value is obtained mechanically, not written by hand).
use crate::dynty::*;
use serde::ser::{self, Serialize};
use std::fmt;

#[derive(Debug, Clone, PartialEq)]
pub enum Tr {
    Bool(bool),
    I8(i8),
    I16(i16),
    I32(i32),
    I64(i64),
    I128(i128),
    U8(u8),
    U16(u16),
    U32(u32),
    U64(u64),
    U128(u128),
    F32(u32),
    F64(u64),
    Char(char),
    Str(String),
    Bytes(Vec<u8>),
    None,
    Some(Box<Tr>),
    Unit,
    UnitStruct(&'static str),
    UnitVariant(&'static str, u32, &'static str),
    NewtypeStruct(&'static str, Box<Tr>),
    NewtypeVariant(&'static str, u32, &'static str, Box<Tr>),
    Seq(Option<usize>, Vec<Tr>),
    Tuple(usize, Vec<Tr>),
    TupleStruct(&'static str, usize, Vec<Tr>),
    TupleVariant(&'static str, u32, &'static str, usize, Vec<Tr>),
    Map(Option<usize>, Vec<(Tr, Tr)>),
    Struct(&'static str, usize, Vec<(&'static str, Tr)>),
    StructVariant(&'static str, u32, &'static str, usize, Vec<(&'static str, Tr)>),
}

#[derive(Debug)]
pub struct RecErr(pub String);
impl fmt::Display for RecErr {
    fn fmt(&self, f: &mut fmt::Formatter<'_>) -> fmt::Result {
        f.write_str(&self.0)
    }
}
impl std::error::Error for RecErr {}
impl ser::Error for RecErr {
    fn custom<T: fmt::Display>(msg: T) -> Self {
        RecErr(msg.to_string())
    }
}

pub struct Rec;

pub fn record<T: Serialize + ?Sized>(v: &T) -> Result<Tr, RecErr> {
    v.serialize(Rec)
}

pub struct RecSeq(Tr);
pub struct RecMap(Tr, Option<Tr>);

impl ser::Serializer for Rec {
    type Ok = Tr;
    type Error = RecErr;
    type SerializeSeq = RecSeq;
    type SerializeTuple = RecSeq;
    type SerializeTupleStruct = RecSeq;
    type SerializeTupleVariant = RecSeq;
    type SerializeMap = RecMap;
    type SerializeStruct = RecMap;
    type SerializeStructVariant = RecMap;
    fn serialize_bool(self, v: bool) -> Result<Tr, RecErr> {
        Ok(Tr::Bool(v))
    }
    fn serialize_i8(self, v: i8) -> Result<Tr, RecErr> {
        Ok(Tr::I8(v))
    }
    fn serialize_i16(self, v: i16) -> Result<Tr, RecErr> {
        Ok(Tr::I16(v))
    }
    fn serialize_i32(self, v: i32) -> Result<Tr, RecErr> {
        Ok(Tr::I32(v))
    }
    fn serialize_i64(self, v: i64) -> Result<Tr, RecErr> {
        Ok(Tr::I64(v))
    }
    fn serialize_i128(self, v: i128) -> Result<Tr, RecErr> {
        Ok(Tr::I128(v))
    }
    fn serialize_u8(self, v: u8) -> Result<Tr, RecErr> {
        Ok(Tr::U8(v))
    }
    fn serialize_u16(self, v: u16) -> Result<Tr, RecErr> {
        Ok(Tr::U16(v))
    }
    fn serialize_u32(self, v: u32) -> Result<Tr, RecErr> {
        Ok(Tr::U32(v))
    }
    fn serialize_u64(self, v: u64) -> Result<Tr, RecErr> {
        Ok(Tr::U64(v))
    }
    fn serialize_u128(self, v: u128) -> Result<Tr, RecErr> {
        Ok(Tr::U128(v))
    }
    fn serialize_f32(self, v: f32) -> Result<Tr, RecErr> {
        Ok(Tr::F32(v.to_bits()))
    }
    fn serialize_f64(self, v: f64) -> Result<Tr, RecErr> {
        Ok(Tr::F64(v.to_bits()))
    }
    fn serialize_char(self, v: char) -> Result<Tr, RecErr> {
        Ok(Tr::Char(v))
    }
    fn serialize_str(self, v: &str) -> Result<Tr, RecErr> {
        Ok(Tr::Str(v.to_string()))
    }
    fn serialize_bytes(self, v: &[u8]) -> Result<Tr, RecErr> {
        Ok(Tr::Bytes(v.to_vec()))
    }
    fn serialize_none(self) -> Result<Tr, RecErr> {
        Ok(Tr::None)
    }
    fn serialize_some<T: Serialize + ?Sized>(self, v: &T) -> Result<Tr, RecErr> {
        Ok(Tr::Some(Box::new(record(v)?)))
    }
    fn serialize_unit(self) -> Result<Tr, RecErr> {
        Ok(Tr::Unit)
    }
    fn serialize_unit_struct(self, name: &'static str) -> Result<Tr, RecErr> {
        Ok(Tr::UnitStruct(name))
    }
    fn serialize_unit_variant(self, name: &'static str, idx: u32, variant: &'static str) -> Result<Tr, RecErr> {
        Ok(Tr::UnitVariant(name, idx, variant))
    }
    fn serialize_newtype_struct<T: Serialize + ?Sized>(self, name: &'static str, v: &T) -> Result<Tr, RecErr> {
        Ok(Tr::NewtypeStruct(name, Box::new(record(v)?)))
    }
    fn serialize_newtype_variant<T: Serialize + ?Sized>(
        self,
        name: &'static str,
        idx: u32,
        variant: &'static str,
        v: &T,
    ) -> Result<Tr, RecErr> {
        Ok(Tr::NewtypeVariant(name, idx, variant, Box::new(record(v)?)))
    }
    fn serialize_seq(self, len: Option<usize>) -> Result<RecSeq, RecErr> {
        Ok(RecSeq(Tr::Seq(len, Vec::new())))
    }
    fn serialize_tuple(self, len: usize) -> Result<RecSeq, RecErr> {
        Ok(RecSeq(Tr::Tuple(len, Vec::new())))
    }
    fn serialize_tuple_struct(self, name: &'static str, len: usize) -> Result<RecSeq, RecErr> {
        Ok(RecSeq(Tr::TupleStruct(name, len, Vec::new())))
    }
    fn serialize_tuple_variant(self, name: &'static str, idx: u32, variant: &'static str, len: usize) -> Result<RecSeq, RecErr> {
        Ok(RecSeq(Tr::TupleVariant(name, idx, variant, len, Vec::new())))
    }
    fn serialize_map(self, len: Option<usize>) -> Result<RecMap, RecErr> {
        Ok(RecMap(Tr::Map(len, Vec::new()), None))
    }
    fn serialize_struct(self, name: &'static str, len: usize) -> Result<RecMap, RecErr> {
        Ok(RecMap(Tr::Struct(name, len, Vec::new()), None))
    }
    fn serialize_struct_variant(self, name: &'static str, idx: u32, variant: &'static str, len: usize) -> Result<RecMap, RecErr> {
        Ok(RecMap(Tr::StructVariant(name, idx, variant, len, Vec::new()), None))
    }
}

impl RecSeq {
    fn push<T: Serialize + ?Sized>(&mut self, v: &T) -> Result<(), RecErr> {
        let t = record(v)?;
        match &mut self.0 {
            Tr::Seq(_, xs) | Tr::Tuple(_, xs) | Tr::TupleStruct(_, _, xs) | Tr::TupleVariant(_, _, _, _, xs) => xs.push(t),
            _ => unreachable!(),
        }
        Ok(())
    }
}
impl ser::SerializeSeq for RecSeq {
    type Ok = Tr;
    type Error = RecErr;
    fn serialize_element<T: Serialize + ?Sized>(&mut self, v: &T) -> Result<(), RecErr> {
        self.push(v)
    }
    fn end(self) -> Result<Tr, RecErr> {
        Ok(self.0)
    }
}
impl ser::SerializeTuple for RecSeq {
    type Ok = Tr;
    type Error = RecErr;
    fn serialize_element<T: Serialize + ?Sized>(&mut self, v: &T) -> Result<(), RecErr> {
        self.push(v)
    }
    fn end(self) -> Result<Tr, RecErr> {
        Ok(self.0)
    }
}
impl ser::SerializeTupleStruct for RecSeq {
    type Ok = Tr;
    type Error = RecErr;
    fn serialize_field<T: Serialize + ?Sized>(&mut self, v: &T) -> Result<(), RecErr> {
        self.push(v)
    }
    fn end(self) -> Result<Tr, RecErr> {
        Ok(self.0)
    }
}
impl ser::SerializeTupleVariant for RecSeq {
    type Ok = Tr;
    type Error = RecErr;
    fn serialize_field<T: Serialize + ?Sized>(&mut self, v: &T) -> Result<(), RecErr> {
        self.push(v)
    }
    fn end(self) -> Result<Tr, RecErr> {
        Ok(self.0)
    }
}
impl ser::SerializeMap for RecMap {
    type Ok = Tr;
    type Error = RecErr;
    fn serialize_key<T: Serialize + ?Sized>(&mut self, k: &T) -> Result<(), RecErr> {
        self.1 = Some(record(k)?);
        Ok(())
    }
    fn serialize_value<T: Serialize + ?Sized>(&mut self, v: &T) -> Result<(), RecErr> {
        let k = self.1.take().ok_or_else(|| RecErr("value before key".into()))?;
        let v = record(v)?;
        match &mut self.0 {
            Tr::Map(_, es) => es.push((k, v)),
            _ => unreachable!(),
        }
        Ok(())
    }
    fn end(self) -> Result<Tr, RecErr> {
        Ok(self.0)
    }
}
impl ser::SerializeStruct for RecMap {
    type Ok = Tr;
    type Error = RecErr;
    fn serialize_field<T: Serialize + ?Sized>(&mut self, name: &'static str, v: &T) -> Result<(), RecErr> {
        let v = record(v)?;
        match &mut self.0 {
            Tr::Struct(_, _, fs) => fs.push((name, v)),
            _ => unreachable!(),
        }
        Ok(())
    }
    fn end(self) -> Result<Tr, RecErr> {
        Ok(self.0)
    }
}
impl ser::SerializeStructVariant for RecMap {
    type Ok = Tr;
    type Error = RecErr;
    fn serialize_field<T: Serialize + ?Sized>(&mut self, name: &'static str, v: &T) -> Result<(), RecErr> {
        let v = record(v)?;
        match &mut self.0 {
            Tr::StructVariant(_, _, _, _, fs) => fs.push((name, v)),
            _ => unreachable!(),
        }
        Ok(())
    }
    fn end(self) -> Result<Tr, RecErr> {
        Ok(self.0)
    }
}

/// sort map entries (recursively) so that HashMap iteration order does not matter
pub fn canon(t: &Tr) -> Tr {
    let cs = |xs: &Vec<Tr>| xs.iter().map(canon).collect::<Vec<_>>();
    let cf = |xs: &Vec<(&'static str, Tr)>| xs.iter().map(|(n, x)| (*n, canon(x))).collect::<Vec<_>>();
    match t {
        Tr::Some(x) => Tr::Some(Box::new(canon(x))),
        Tr::NewtypeStruct(n, x) => Tr::NewtypeStruct(n, Box::new(canon(x))),
        Tr::NewtypeVariant(n, i, v, x) => Tr::NewtypeVariant(n, *i, v, Box::new(canon(x))),
        Tr::Seq(l, xs) => Tr::Seq(*l, cs(xs)),
        Tr::Tuple(l, xs) => Tr::Tuple(*l, cs(xs)),
        Tr::TupleStruct(n, l, xs) => Tr::TupleStruct(n, *l, cs(xs)),
        Tr::TupleVariant(n, i, v, l, xs) => Tr::TupleVariant(n, *i, v, *l, cs(xs)),
        Tr::Map(l, es) => {
            let mut es: Vec<(Tr, Tr)> = es.iter().map(|(k, v)| (canon(k), canon(v))).collect();
            es.sort_by(|a, b| format!("{:?}", a.0).cmp(&format!("{:?}", b.0)));
            Tr::Map(*l, es)
        }
        Tr::Struct(n, l, fs) => Tr::Struct(n, *l, cf(fs)),
        Tr::StructVariant(n, i, v, l, fs) => Tr::StructVariant(n, *i, v, *l, cf(fs)),
        x => x.clone(),
    }
}

// ------------------------------------------------------------------------------------------
// Tr -> Dyn, driven by the descriptor (a mismatch means the descriptor does not describe the type)
// ------------------------------------------------------------------------------------------
fn tr_to_tomlvalue(t: &Tr) -> Result<toml::Value, String> {
    Ok(match t {
        Tr::Str(s) => toml::Value::String(s.clone()),
        Tr::I64(i) => toml::Value::Integer(*i),
        Tr::F64(b) => toml::Value::Float(f64::from_bits(*b)),
        Tr::Bool(b) => toml::Value::Boolean(*b),
        Tr::Seq(_, xs) => toml::Value::Array(xs.iter().map(tr_to_tomlvalue).collect::<Result<_, _>>()?),
        Tr::Map(_, es) => {
            let mut m = toml::Table::new();
            for (k, v) in es {
                match k {
                    Tr::Str(k) => {
                        m.insert(k.clone(), tr_to_tomlvalue(v)?);
                    }
                    _ => return Err("non-string key in toml::Value trace".into()),
                }
            }
            toml::Value::Table(m)
        }
        Tr::Struct(n, 1, fs) if *n == toml_datetime::__unstable::NAME => match &fs[0].1 {
            Tr::Str(s) => toml::Value::Datetime(s.parse().map_err(|_| "bad datetime in trace")?),
            _ => return Err("bad datetime trace".into()),
        },
        x => return Err(format!("not a toml::Value trace: {x:?}")),
    })
}

pub fn trace_to_dyn(ty: &DynType, t: &Tr) -> Result<Dyn, String> {
    let bad = || Err(format!("descriptor {ty:?} does not match trace {t:?}"));
    let seq = |ts: &[DynType], xs: &[Tr]| -> Result<Dyn, String> {
        if ts.len() != xs.len() {
            return Err("length mismatch".into());
        }
        Ok(Dyn::Seq(ts.iter().zip(xs).map(|(t, x)| trace_to_dyn(t, x)).collect::<Result<_, _>>()?))
    };
    let rec = |fs: &Fields, xs: &[(&'static str, Tr)]| -> Result<Dyn, String> {
        if fs.tys.len() != xs.len() || fs.names.iter().zip(xs).any(|(n, x)| *n != x.0) {
            return Err(format!("field mismatch {:?} vs {:?}", fs.names, xs.iter().map(|x| x.0).collect::<Vec<_>>()));
        }
        Ok(Dyn::Rec(fs.tys.iter().zip(xs).map(|(t, x)| trace_to_dyn(t, &x.1)).collect::<Result<_, _>>()?))
    };
    Ok(match (ty, t) {
        (DynType::Bool, Tr::Bool(b)) => Dyn::Bool(*b),
        (DynType::Int(IntW::I8), Tr::I8(v)) => Dyn::Int(*v as i128),
        (DynType::Int(IntW::I16), Tr::I16(v)) => Dyn::Int(*v as i128),
        (DynType::Int(IntW::I32), Tr::I32(v)) => Dyn::Int(*v as i128),
        (DynType::Int(IntW::I64), Tr::I64(v)) => Dyn::Int(*v as i128),
        (DynType::Int(IntW::I128), Tr::I128(v)) => Dyn::Int(*v),
        (DynType::Int(IntW::U8), Tr::U8(v)) => Dyn::Int(*v as i128),
        (DynType::Int(IntW::U16), Tr::U16(v)) => Dyn::Int(*v as i128),
        (DynType::Int(IntW::U32), Tr::U32(v)) => Dyn::Int(*v as i128),
        (DynType::Int(IntW::U64), Tr::U64(v)) => Dyn::Int(*v as i128),
        (DynType::Int(IntW::U128), Tr::U128(v)) => match i128::try_from(*v) {
            Ok(i) => Dyn::Int(i),
            Err(_) => Dyn::UBig(*v),
        },
        (DynType::F32, Tr::F32(b)) => Dyn::F32(f32::from_bits(*b)),
        (DynType::F64, Tr::F64(b)) => Dyn::F64(f64::from_bits(*b)),
        (DynType::Char, Tr::Char(c)) => Dyn::Char(*c),
        (DynType::Str, Tr::Str(s)) => Dyn::Str(s.clone()),
        (DynType::Dt(_), Tr::Struct(n, 1, fs)) if *n == toml_datetime::__unstable::NAME => match &fs[0] {
            (f, Tr::Str(s)) if *f == toml_datetime::__unstable::FIELD => Dyn::Dt(s.parse().map_err(|_| "bad datetime")?),
            _ => return bad(),
        },
        (DynType::Unit, Tr::Unit) => Dyn::Unit,
        (DynType::Value, x) => Dyn::Value(tr_to_tomlvalue(x)?),
        (DynType::Opt(_), Tr::None) => Dyn::None,
        (DynType::Opt(t), Tr::Some(x)) => Dyn::Some(Box::new(trace_to_dyn(t, x)?)),
        (DynType::Seq(t), Tr::Seq(_, xs)) => Dyn::Seq(xs.iter().map(|x| trace_to_dyn(t, x)).collect::<Result<_, _>>()?),
        (DynType::Tuple(ts), Tr::Tuple(_, xs)) => seq(ts, xs)?,
        (DynType::Map(kt, vt), Tr::Map(_, es)) => Dyn::Map(
            es.iter()
                .map(|(k, v)| Ok((trace_to_dyn(kt, k)?, trace_to_dyn(vt, v)?)))
                .collect::<Result<_, String>>()?,
        ),
        (DynType::Struct(n, fs), Tr::Struct(m, _, xs)) if n == m => rec(fs, xs)?,
        (DynType::Newtype(n, t), Tr::NewtypeStruct(m, x)) if n == m => Dyn::Newtype(Box::new(trace_to_dyn(t, x)?)),
        (DynType::TupleStruct(n, ts), Tr::TupleStruct(m, _, xs)) if n == m => seq(ts, xs)?,
        (DynType::UnitStruct(n), Tr::UnitStruct(m)) if n == m => Dyn::Unit,
        (DynType::Enum(n, vnames, vs), tr) => {
            let (m, idx, vn) = match tr {
                Tr::UnitVariant(m, i, v) | Tr::NewtypeVariant(m, i, v, _) | Tr::TupleVariant(m, i, v, _, _) | Tr::StructVariant(m, i, v, _, _) => {
                    (m, *i as usize, v)
                }
                _ => return bad(),
            };
            if n != m || idx >= vs.len() || vnames[idx] != *vn {
                return bad();
            }
            let p = match (&vs[idx], tr) {
                (Variant::Unit, Tr::UnitVariant(..)) => Dyn::Unit,
                (Variant::Newtype(t), Tr::NewtypeVariant(_, _, _, x)) => trace_to_dyn(t, x)?,
                (Variant::Tuple(ts), Tr::TupleVariant(_, _, _, _, xs)) => seq(ts, xs)?,
                (Variant::Struct(fs), Tr::StructVariant(_, _, _, _, xs)) => rec(fs, xs)?,
                _ => return bad(),
            };
            Dyn::Variant(idx as u32, Box::new(p))
        }
        _ => return bad(),
    })
}
