//! FIDELITY CHECK: real `#[derive(Serialize, Deserialize)]` types, one family per constructor of
//! the type language, each with its descriptor and a fixed set of values.  For every value and
//! every route the REAL type and the equivalent `Dyn` value + descriptor must produce the same
//! serializer call tree, the same bytes / trees / error messages, and the same decoded results.
use crate::dynde::{with_type, DynOwned};
use crate::dynser::Typed;
use crate::dynty::*;
use crate::record::{canon, record, trace_to_dyn};
use crate::routes::*;
use serde::de::DeserializeOwned;
use serde::{Deserialize, Serialize};
use std::collections::{BTreeMap, HashMap};
use std::fmt::Debug;
use std::rc::Rc;
use toml::value::{Date, Datetime, Time};

// ---- descriptor builders -------------------------------------------------------------------
fn hx(s: &str) -> String {
    verif_harness::util::hex(s.as_bytes())
}
fn st(name: &str, fs: &[(&str, String)]) -> String {
    let mut v = vec![format!("S{}", fs.len()), hx(name)];
    for (f, t) in fs {
        v.push(hx(f));
        v.push(t.clone());
    }
    v.join(",")
}
fn s(x: &str) -> String {
    x.to_string()
}
fn opt(t: String) -> String {
    format!("O,{t}")
}
fn seq(t: String) -> String {
    format!("L,{t}")
}
fn tup(ts: &[String]) -> String {
    format!("T{},{}", ts.len(), ts.join(","))
}
fn map(k: String, v: String) -> String {
    format!("M,{k},{v}")
}
fn newt(name: &str, t: String) -> String {
    format!("N,{},{t}", hx(name))
}
fn tups(name: &str, ts: &[String]) -> String {
    format!("P{},{},{}", ts.len(), hx(name), ts.join(","))
}
fn units(name: &str) -> String {
    format!("Z,{}", hx(name))
}
fn en(name: &str, vs: &[String]) -> String {
    format!("E{},{},{}", vs.len(), hx(name), vs.join(","))
}
fn vu(name: &str) -> String {
    format!("vu,{}", hx(name))
}
fn vn(name: &str, t: String) -> String {
    format!("vn,{},{t}", hx(name))
}
fn vt(name: &str, ts: &[String]) -> String {
    format!("vt{},{},{}", ts.len(), hx(name), ts.join(","))
}
fn vs(name: &str, fs: &[(&str, String)]) -> String {
    let mut v = vec![format!("vs{}", fs.len()), hx(name)];
    for (f, t) in fs {
        v.push(hx(f));
        v.push(t.clone());
    }
    v.join(",")
}

// ---- the real types ----------------------------------------------------------------------------
#[derive(Serialize, Deserialize, PartialEq, Debug, Clone)]
struct Leafs {
    b: bool,
    i: i64,
    f: f64,
    c: char,
    s: String,
}
fn d_leafs() -> String {
    st("Leafs", &[("b", s("b")), ("i", s("i64")), ("f", s("f64")), ("c", s("c")), ("s", s("s"))])
}

#[derive(Serialize, Deserialize, PartialEq, Debug, Clone)]
struct Ints {
    a: i8,
    b: i16,
    c: i32,
    d: i64,
    e: u8,
    f: u16,
    g: u32,
    h: u64,
}
fn d_ints() -> String {
    st(
        "Ints",
        &[("a", s("i8")), ("b", s("i16")), ("c", s("i32")), ("d", s("i64")), ("e", s("u8")), ("f", s("u16")), ("g", s("u32")), ("h", s("u64"))],
    )
}

#[derive(Serialize, Deserialize, PartialEq, Debug, Clone)]
struct Big {
    x: i128,
    y: u128,
}
#[derive(Serialize, Deserialize, PartialEq, Debug, Clone)]
struct BigU {
    y: u128,
}

#[derive(Serialize, Deserialize, PartialEq, Debug, Clone)]
struct Floats {
    a: f32,
    b: f64,
}

#[derive(Serialize, Deserialize, PartialEq, Debug, Clone)]
struct Dates {
    dt: Datetime,
    d: Date,
    t: Time,
    o: Option<Datetime>,
    l: Vec<Date>,
}

#[derive(Serialize, Deserialize, PartialEq, Debug, Clone)]
struct Point {
    x: i32,
    y: i32,
}
fn d_point() -> String {
    st("Point", &[("x", s("i32")), ("y", s("i32"))])
}

#[derive(Serialize, Deserialize, PartialEq, Debug, Clone)]
struct Nested {
    inner: Leafs,
    name: String,
    p: Point,
}

#[derive(Serialize, Deserialize, PartialEq, Debug, Clone)]
struct VecStruct {
    items: Vec<Point>,
    n: Vec<i32>,
    e: Vec<String>,
}

#[derive(Serialize, Deserialize, PartialEq, Debug, Clone)]
struct Maps {
    h: HashMap<String, i32>,
    b: BTreeMap<String, Point>,
    s: BTreeMap<String, String>,
}

#[derive(Serialize, Deserialize, PartialEq, Debug, Clone)]
struct Opts {
    a: Option<i32>,
    b: Option<String>,
    c: Option<Point>,
    d: Option<Vec<i32>>,
    e: i32,
}

#[derive(Serialize, Deserialize, PartialEq, Debug, Clone)]
struct Tuples {
    t: (i32, String),
    u: (bool, f64, char),
    v: Vec<(i32, i32)>,
}

#[derive(Serialize, Deserialize, PartialEq, Debug, Clone)]
struct NewI(i32);
#[derive(Serialize, Deserialize, PartialEq, Debug, Clone)]
struct NewS(String);
#[derive(Serialize, Deserialize, PartialEq, Debug, Clone)]
struct NewP(Point);
#[derive(Serialize, Deserialize, PartialEq, Debug, Clone)]
struct NewO(Option<i32>);
#[derive(Serialize, Deserialize, PartialEq, Debug, Clone)]
struct Wrap {
    n: NewI,
    s: NewS,
    p: NewP,
    o: NewO,
}

#[derive(Serialize, Deserialize, PartialEq, Debug, Clone)]
struct TupS(i32, String);
#[derive(Serialize, Deserialize, PartialEq, Debug, Clone)]
struct HasTupS {
    p: TupS,
    l: Vec<TupS>,
}

#[derive(Serialize, Deserialize, PartialEq, Debug, Clone)]
struct UnitS;
#[derive(Serialize, Deserialize, PartialEq, Debug, Clone)]
struct HasUnitS {
    a: i32,
    u: UnitS,
}
#[derive(Serialize, Deserialize, PartialEq, Debug, Clone)]
struct HasUnit {
    a: i32,
    u: (),
}

#[derive(Serialize, Deserialize, PartialEq, Debug, Clone)]
enum E {
    Unit,
    Newtype(i32),
    Tuple(i32, String),
    Struct { a: i32, b: String },
    NewP(Point),
    NewV(Vec<i32>),
    NewO(Option<i32>),
}
fn d_e() -> String {
    en(
        "E",
        &[
            vu("Unit"),
            vn("Newtype", s("i32")),
            vt("Tuple", &[s("i32"), s("s")]),
            vs("Struct", &[("a", s("i32")), ("b", s("s"))]),
            vn("NewP", d_point()),
            vn("NewV", seq(s("i32"))),
            vn("NewO", opt(s("i32"))),
        ],
    )
}
fn e_values() -> Vec<E> {
    vec![
        E::Unit,
        E::Newtype(7),
        E::Tuple(-1, "t".into()),
        E::Struct { a: 1, b: "x".into() },
        E::NewP(Point { x: 1, y: 2 }),
        E::NewV(vec![1, 2]),
        E::NewV(vec![]),
        E::NewO(Some(3)),
        E::NewO(None),
    ]
}

#[derive(Serialize, Deserialize, PartialEq, Debug, Clone)]
struct HasEnum {
    e: E,
    o: Option<E>,
}
#[derive(Serialize, Deserialize, PartialEq, Debug, Clone)]
struct VecEnum {
    v: Vec<E>,
}

#[derive(Serialize, Deserialize, PartialEq, Eq, PartialOrd, Ord, Hash, Debug, Clone)]
enum Color {
    Red,
    Green,
    Blue,
}
fn d_color() -> String {
    en("Color", &[vu("Red"), vu("Green"), vu("Blue")])
}
#[derive(Serialize, Deserialize, PartialEq, Debug, Clone)]
struct EnumKeys {
    m: BTreeMap<Color, i32>,
    n: BTreeMap<Color, Point>,
}

#[derive(Serialize, Deserialize, PartialEq, Debug, Clone)]
struct SeqOpt {
    v: Vec<Option<i32>>,
}
#[derive(Serialize, Deserialize, PartialEq, Debug, Clone)]
struct OptSeqOpt {
    a: i32,
    v: Option<Vec<Option<i32>>>,
}
#[derive(Serialize, Deserialize, PartialEq, Debug, Clone)]
struct MapIntKey {
    m: BTreeMap<i32, String>,
}
#[derive(Serialize, Deserialize, PartialEq, Debug, Clone)]
struct MapCharKey {
    m: BTreeMap<char, i32>,
}
#[derive(Serialize, Deserialize, PartialEq, Eq, PartialOrd, Ord, Debug, Clone)]
struct KeyN(String);
#[derive(Serialize, Deserialize, PartialEq, Debug, Clone)]
struct MapNewKey {
    m: BTreeMap<KeyN, i32>,
}
#[derive(Serialize, Deserialize, PartialEq, Debug, Clone)]
struct MapOptVal {
    m: BTreeMap<String, Option<i32>>,
}

#[derive(Serialize, Deserialize, PartialEq, Debug, Clone)]
struct Deep {
    a: Vec<Vec<Point>>,
    m: BTreeMap<String, Vec<E>>,
    o: Option<BTreeMap<String, Vec<Option<Point>>>>,
}

#[derive(Serialize, Deserialize, PartialEq, Debug, Clone)]
struct WithValue {
    n: i32,
    v: toml::Value,
}

#[derive(Serialize, Deserialize, PartialEq, Debug, Clone)]
struct Renamed {
    #[serde(rename = "a b")]
    x: i32,
    #[serde(rename = "")]
    y: i32,
    #[serde(rename = "é.\"q\"")]
    z: String,
    #[serde(rename = "Type")]
    e: RenE,
}
#[derive(Serialize, Deserialize, PartialEq, Debug, Clone)]
#[serde(rename = "ren e")]
enum RenE {
    #[serde(rename = "a-b")]
    A,
    #[serde(rename = "1")]
    B(i32),
    #[serde(rename = "")]
    C { x: i32 },
}

#[derive(Serialize, Deserialize, PartialEq, Debug, Clone)]
enum Inner {
    X,
    Y(i32),
}
#[derive(Serialize, Deserialize, PartialEq, Debug, Clone)]
enum Outer {
    A(Inner),
    B { inner: Inner, o: Option<Inner> },
    C(Vec<Inner>),
    D(Inner, Inner),
}
#[derive(Serialize, Deserialize, PartialEq, Debug, Clone)]
struct EnumNested {
    e: Outer,
}

#[derive(Serialize, Deserialize, PartialEq, Debug, Clone)]
struct Mixed {
    t: BTreeMap<String, i32>,
    a: i32,
    l: Vec<Point>,
    b: String,
    p: Point,
    c: Vec<i32>,
}

// ---- the check ---------------------------------------------------------------------------------
const GENERIC_TEXTS: &[&str] = &[
    "",
    "a = 1",
    "x = 'str'",
    "[a]\nb = 1",
    "a = [1, 2]",
    "a = {b = 1}",
    "[[a]]\nb = 1",
    "e = 'Unit'",
    "e = 'Nope'",
    "e = 1",
    "e = {}",
    "e = {Newtype = 1}",
    "e = {Newtype = 'x'}",
    "e = {Tuple = [1, 's']}",
    "e = {Tuple = [1]}",
    "e = {Tuple = [1, 's', 3]}",
    "e = {Tuple = {0 = 1, 1 = 's'}}",
    "e = {Tuple = {1 = 1, 0 = 's'}}",
    "[e.Tuple]\n0 = 1\n1 = 's'",
    "e = {Struct = {a = 1, b = 's'}}",
    "e = {Struct = {a = 1, b = 's', zz = 1}}",
    "e = {Struct = {a = 1}}",
    "e = {Struct = [1, 's']}",
    "[e.Struct]\na = 1\nb = 's'",
    "e = {Unit = {}}",
    "e = {Unit = []}",
    "e = {Unit = 1}",
    "[e.Unit]",
    "[[e.Unit]]",
    "e = {Newtype = 1, Unit = {}}",
    "v = ['Unit', {Newtype = 1}, {Tuple = [1, 's']}, {Struct = {a = 1, b = 's'}}]",
    "Newtype = 1",
    "[Struct]\na = 1\nb = 's'",
    "Tuple = [1, 's']",
    "[NewP]\nx = 1\ny = 2",
    "x = 1\ny = 2",
    "x = 1\ny = 2\nz = 3",
    "x = 1",
    "x = 1.5\ny = 2",
    "x = 4294967296\ny = 0",
    "m = {Red = 1, Blue = 2}",
    "m = {Red = 1, Purple = 2}",
    "m = {1 = 'a', 2 = 'b'}",
    "m = {a = 1, bb = 2}",
    "m = {}",
    "v = []",
    "v = [1, 2]",
    "t = [1, 's']\nu = [true, 1.5, 'c']\nv = [[1, 2]]",
    "t = [1, 's', 3]\nu = [true, 1.5, 'c']\nv = []",
    "t = [1]\nu = [true, 1.5, 'c']\nv = []",
    "t = [1, 's']\nu = [true, 1, 'cc']\nv = []",
    "p = [1, 's']\nl = []",
    "p = {0 = 1}\nl = []",
    "a = 1\nu = {}",
    "a = 1\nu = []",
    "n = 1\ns = 's'\np = {x = 1, y = 2}\no = 3",
    "n = 1\ns = 's'\np = {x = 1, y = 2}",
    "n = [1]\ns = ['s']\np = [{x = 1, y = 2}]\no = [3]",
    "n = 1\nv = 1979-05-27",
    "n = 1\nv = {a = [1, {b = 2.5}], c = 1979-05-27T07:32:00Z}",
    "dt = 1979-05-27T07:32:00Z\nd = 1979-05-27\nt = 07:32:00\nl = []",
    "dt = 1979-05-27\nd = 1979-05-27\nt = 07:32:00\nl = [1979-05-27]",
    "dt = 1979-05-27T07:32:00Z\nd = 1979-05-27T07:32:00\nt = 07:32:00\nl = []",
    "dt = '1979-05-27T07:32:00Z'\nd = 1979-05-27\nt = 07:32:00\nl = []",
    "dt = {'$__toml_private_datetime' = '1979-05-27'}\nd = 1979-05-27\nt = 07:32:00\nl = []",
    "a = 1\nb = 2\nc = 3\nd = 4\ne = 5\nf = 6\ng = 7\nh = 8",
    "a = 128\nb = 2\nc = 3\nd = 4\ne = 5\nf = 6\ng = 7\nh = 8",
    "a = 1\nb = 2\nc = 3\nd = 4\ne = -5\nf = 6\ng = 7\nh = 8",
    "a = 1\nb = 2\nc = 3\nd = 4\ne = 5\nf = 6\ng = 7\nh = -1",
    "a = 1\nb = 2\nc = 3\nd = 4\ne = 5\nf = 6\ng = 7\nh = 1.0",
    "a = 1\nb = 2",
    "a = 1.5\nb = 2",
    "a = 'x'\nb = 2",
    "a = nan\nb = -nan",
    "x = 1\ny = 2\n",
    "x = 5\ny = 6",
    "y = 6",
    "b = true\ni = 1\nf = 1\nc = 'c'\ns = 's'",
    "b = true\ni = 1\nf = 1.0\nc = 'cc'\ns = 's'",
    "b = true\ni = 1\nf = 1.0\nc = ''\ns = 's'",
    "b = 1\ni = 1\nf = 1.0\nc = 'c'\ns = 's'",
    "b = true\ni = 1\nf = 1.0\nc = 'c'\ns = 1",
    "b = true\ni = 1\nf = 1.0\nc = 'c'\ns = 's'\nb2 = 1",
    "b = true\ni = 9223372036854775807\nf = 1e300\nc = 'é'\ns = ''",
    "e = 1\na = 2",
    "e = 1",
    "e = 1\nc = {x = 1, y = 2}\nd = []",
    "e = 1\na = 'x'",
    "'a b' = 1\n'' = 2\n'é.\"q\"' = 'z'\nType = 'a-b'",
    "'a b' = 1\n'' = 2\n'é.\"q\"' = 'z'\nType = {1 = 5}",
    "'a b' = 1\n'' = 2\n'é.\"q\"' = 'z'\nType = {'' = {x = 5}}",
    "x = 1\ny = 2\nz = 'z'\ne = 'A'",
    "e = {A = 'X'}",
    "e = {A = {Y = 1}}",
    "e = {B = {inner = 'X'}}",
    "e = {B = {inner = {Y = 2}, o = 'X'}}",
    "e = {C = ['X', {Y = 1}]}",
    "e = {D = ['X', {Y = 1}]}",
    "[e.A]\nY = 1",
    "[e.B]\ninner = 'X'",
    "[e.B.inner]\nY = 3",
    "[[e.C]]\nY = 1",
    "a = 1\nb = 'b'\nc = [1]\n[t]\nk = 1\n[[l]]\nx = 1\ny = 2\n[p]\nx = 3\ny = 4",
    "m = {a = 1}",
    "v = [1, 2]\na = 1",
    "a = 1",
    "items = [{x = 1, y = 2}]\nn = [1]\ne = ['a']",
    "[[items]]\nx = 1\ny = 2\n[[items]]\nx = 3\ny = 4",
    "items = []\nn = []\ne = []",
    "n = []\ne = []",
    "h = {a = 1}\nb = {p = {x = 1, y = 2}}\ns = {}",
    "[h]\n[b]\n[s]\nk = 'v'\n'' = ''",
    "inner = {b = true, i = 1, f = 1.0, c = 'c', s = 's'}\nname = 'n'\np = {x = 1, y = 2}",
    "name = 'n'\n[inner]\nb = true\ni = 1\nf = 1.0\nc = 'c'\ns = 's'\n[p]\nx = 1\ny = 2",
    "name = 'n'\np.x = 1\np.y = 2\ninner.b = true\ninner.i = 1\ninner.f = 1.0\ninner.c = 'c'\ninner.s = 's'",
    "a = []\n[m]\n[o]",
    "a = [[{x = 1, y = 2}], []]\nm = {k = ['Unit', {Newtype = 1}]}\no = {k = [{x = 1, y = 2}]}",
    "a = [[]]\nm = {}\n",
    "x = 170141183460469231731687303715884105727\ny = 1",
    "x = 1\ny = 2",
    "y = 5",
    "invalid = ",
    "a = 1\na = 2",
];

const GENERIC_VALUE_TEXTS: &[&str] = &[
    "1",
    "'s'",
    "'Unit'",
    "[]",
    "{}",
    "[1, 2]",
    "{x = 1, y = 2}",
    "{Newtype = 1}",
    "{Tuple = [1, 's']}",
    "{Struct = {a = 1, b = 's'}}",
    "{a = 1, b = 2}",
    "1979-05-27",
    "true",
    "1.5",
    "{ e = 'Unit' }",
    "{v = ['Unit', {Newtype = 1}]}",
    "[",
];

fn same_enc(a: &Result<Enc, String>, b: &Result<Enc, String>) -> bool {
    match (a, b) {
        (Err(x), Err(y)) => x == y,
        (Ok(Enc::Text(x)), Ok(Enc::Text(y))) => x == y,
        (Ok(Enc::Doc(x)), Ok(Enc::Doc(y))) => x.to_string() == y.to_string(),
        (Ok(Enc::Val(x)), Ok(Enc::Val(y))) => tomlvalue_string(x, false) == tomlvalue_string(y, false),
        (Ok(Enc::Tab(x)), Ok(Enc::Tab(y))) => {
            tomlvalue_string(&toml::Value::Table(x.clone()), false) == tomlvalue_string(&toml::Value::Table(y.clone()), false)
        }
        _ => false,
    }
}

fn show_enc(a: &Result<Enc, String>) -> String {
    match a {
        Err(x) => format!("Err({x})"),
        Ok(Enc::Text(x)) => format!("Text({x:?})"),
        Ok(Enc::Doc(x)) => format!("Doc({:?})", x.to_string()),
        Ok(Enc::Val(x)) => format!("Val({})", tomlvalue_string(x, false)),
        Ok(Enc::Tab(x)) => format!("Tab({})", tomlvalue_string(&toml::Value::Table(x.clone()), false)),
    }
}

fn same_dec<T: Serialize + Debug>(ty: &Rc<DynType>, what: &str, text: &str, a: Result<T, String>, b: Result<DynOwned, String>) -> Result<(), String> {
    match (a, b) {
        (Err(x), Err(y)) => {
            if x == y {
                Ok(())
            } else {
                Err(format!("de-message {what} on {text:?}: real {x:?} dyn {y:?}"))
            }
        }
        (Ok(x), Ok(y)) => {
            let tx = record(&x).map_err(|e| e.0)?;
            let tyy = record(&Typed(ty, &y.0)).map_err(|e| format!("decoded Dyn does not fit its type: {}", e.0))?;
            if canon(&tx) == canon(&tyy) {
                Ok(())
            } else {
                Err(format!("de-value {what} on {text:?}: real {x:?} dyn {:?}", y.0))
            }
        }
        (Ok(x), Err(y)) => Err(format!("de-verdict {what} on {text:?}: real Ok({x:?}) dyn Err({y})")),
        (Err(x), Ok(y)) => Err(format!("de-verdict {what} on {text:?}: real Err({x}) dyn Ok({:?})", y.0)),
    }
}

fn check<T>(desc: String, values: Vec<T>, stable_ser: bool) -> Result<String, String>
where
    T: Serialize + DeserializeOwned + Debug,
{
    let ty = Rc::new(parse_type(&desc)?);
    let mut doc_texts: Vec<String> = GENERIC_TEXTS.iter().map(|x| x.to_string()).collect();
    let mut val_texts: Vec<String> = GENERIC_VALUE_TEXTS.iter().map(|x| x.to_string()).collect();
    let mut n_ser = 0;
    for x in &values {
        let tr = record(x).map_err(|e| e.0)?;
        let dv = trace_to_dyn(&ty, &tr)?;
        // the textual form of Dyn values round-trips through the harness' own parser
        let dv2 = parse_value(&dyn_string(&dv)).map_err(|e| format!("dump/parse of Dyn: {e}"))?;
        let tr3 = record(&Typed(&ty, &dv2)).map_err(|e| e.0)?;
        if canon(&tr) != canon(&tr3) {
            return Err(format!("dump/parse of Dyn changes the value: real {tr:?} dyn {tr3:?}"));
        }
        let tr2 = record(&Typed(&ty, &dv)).map_err(|e| e.0)?;
        if tr != tr2 {
            return Err(format!("ser-trace: real {tr:?} dyn {tr2:?}"));
        }
        for r in 0..ENC_NAMES.len() {
            let a = encode(r, x);
            let b = encode(r, &Typed(&ty, &dv));
            if !same_enc(&a, &b) && stable_ser {
                return Err(format!("ser-bytes route {}: real {} dyn {}", ENC_NAMES[r], show_enc(&a), show_enc(&b)));
            }
            n_ser += 1;
            match (&a, &b) {
                (Ok(Enc::Text(t)), _) => doc_texts.push(t.clone()),
                (Ok(Enc::Val(v)), Ok(Enc::Val(w))) => {
                    let ra = v.clone().try_into::<T>().map_err(|e| e.to_string());
                    let rb = with_type(&ty, || w.clone().try_into::<DynOwned>().map_err(|e| e.to_string()));
                    same_dec(&ty, "Value::try_into", &tomlvalue_string(v, false), ra, rb)?;
                }
                (Ok(Enc::Tab(v)), Ok(Enc::Tab(w))) => {
                    let ra = v.clone().try_into::<T>().map_err(|e| e.to_string());
                    let rb = with_type(&ty, || w.clone().try_into::<DynOwned>().map_err(|e| e.to_string()));
                    same_dec(&ty, "Table::try_into", &format!("{v:?}"), ra, rb)?;
                }
                _ => {}
            }
        }
        let a = value_text(x);
        let b = value_text(&Typed(&ty, &dv));
        if a != b && stable_ser {
            return Err(format!("ser-bytes value text: real {a:?} dyn {b:?}"));
        }
        if let Ok(t) = a {
            val_texts.push(t);
        }
    }
    doc_texts.sort();
    doc_texts.dedup();
    val_texts.sort();
    val_texts.dedup();
    let mut n_de = 0;
    let mut n_ok = 0;
    for t in &doc_texts {
        for r in 0..DEC_DOC_NAMES.len() {
            let a = decode_doc::<T>(r, t);
            let b = with_type(&ty, || decode_doc::<DynOwned>(r, t));
            n_de += 1;
            n_ok += a.is_ok() as usize;
            same_dec(&ty, DEC_DOC_NAMES[r], t, a, b)?;
        }
    }
    for t in &val_texts {
        for r in 0..DEC_VAL_NAMES.len() {
            let a = decode_val::<T>(r, t);
            let b = with_type(&ty, || decode_val::<DynOwned>(r, t));
            n_de += 1;
            n_ok += a.is_ok() as usize;
            same_dec(&ty, DEC_VAL_NAMES[r], t, a, b)?;
        }
    }
    Ok(format!("values={} ser={} de={} de_ok={}", values.len(), n_ser, n_de, n_ok))
}

fn dt(x: &str) -> Datetime {
    x.parse().unwrap()
}
fn date(x: &str) -> Date {
    dt(x).date.unwrap()
}
fn time(x: &str) -> Time {
    dt(x).time.unwrap()
}
fn p(x: i32, y: i32) -> Point {
    Point { x, y }
}
fn bm<K: Ord, V>(es: Vec<(K, V)>) -> BTreeMap<K, V> {
    es.into_iter().collect()
}
fn leafs(b: bool, i: i64, f: f64, c: char, st: &str) -> Leafs {
    Leafs { b, i, f, c, s: st.to_string() }
}


pub fn fidelity(n: usize) -> Option<(&'static str, Result<String, String>)> {
    let pt = d_point;
    Some(match n {
        0 => (
            "Leafs",
            check(
                d_leafs(),
                vec![
                    leafs(true, 0, 0.0, 'a', ""),
                    leafs(false, i64::MIN, -0.0, '\u{0}', "hello\nworld"),
                    leafs(true, i64::MAX, f64::NAN, '\u{10ffff}', "\"q\" 'a' \\ \t é 日本 😀"),
                    leafs(true, -1, f64::INFINITY, '\'', "'''"),
                    leafs(true, 1, f64::NEG_INFINITY, '"', "\"\"\""),
                    leafs(true, 1, -f64::NAN, '\n', "\u{7f}\u{1f}"),
                    leafs(true, 1, 1e300, 'é', "x"),
                    leafs(true, 1, 5e-324, '\\', "x"),
                    leafs(true, 1, 1.0, ' ', " "),
                ],
                true,
            ),
        ),
        1 => (
            "Ints",
            check(
                d_ints(),
                vec![
                    Ints { a: 0, b: 0, c: 0, d: 0, e: 0, f: 0, g: 0, h: 0 },
                    Ints { a: i8::MIN, b: i16::MIN, c: i32::MIN, d: i64::MIN, e: u8::MAX, f: u16::MAX, g: u32::MAX, h: i64::MAX as u64 },
                    Ints { a: i8::MAX, b: i16::MAX, c: i32::MAX, d: i64::MAX, e: 1, f: 1, g: 1, h: u64::MAX },
                    Ints { a: -1, b: -1, c: -1, d: -1, e: 1, f: 1, g: 1, h: i64::MAX as u64 + 1 },
                ],
                true,
            ),
        ),
        2 => (
            "Big",
            check(
                st("Big", &[("x", s("i128")), ("y", s("u128"))]),
                vec![Big { x: 5, y: 5 }, Big { x: i128::MIN, y: u128::MAX }, Big { x: i128::MAX, y: 0 }],
                true,
            ),
        ),
        3 => ("BigU", check(st("BigU", &[("y", s("u128"))]), vec![BigU { y: 5 }, BigU { y: u128::MAX }], true)),
        4 => (
            "Floats",
            check(
                st("Floats", &[("a", s("f32")), ("b", s("f64"))]),
                vec![
                    Floats { a: 0.1, b: 0.1 },
                    Floats { a: f32::NAN, b: f64::NAN },
                    Floats { a: -f32::NAN, b: -f64::NAN },
                    Floats { a: f32::MAX, b: f64::MAX },
                    Floats { a: f32::MIN_POSITIVE, b: f64::MIN_POSITIVE },
                    Floats { a: -0.0, b: -0.0 },
                    Floats { a: f32::INFINITY, b: f64::NEG_INFINITY },
                    Floats { a: 1.0, b: 1e16 },
                    Floats { a: 16777216.0, b: 1e-7 },
                ],
                true,
            ),
        ),
        5 => (
            "Dates",
            check(
                st("Dates", &[("dt", s("dt")), ("d", s("da")), ("t", s("ti")), ("o", opt(s("dt"))), ("l", seq(s("da")))]),
                vec![
                    Dates { dt: dt("1979-05-27T07:32:00Z"), d: date("1979-05-27"), t: time("07:32:00"), o: None, l: vec![] },
                    Dates {
                        dt: dt("1979-05-27T00:32:00.999999-07:00"),
                        d: date("0000-01-01"),
                        t: time("23:59:60.999999999"),
                        o: Some(dt("1979-05-27")),
                        l: vec![date("9999-12-31"), date("2000-02-29")],
                    },
                    Dates { dt: dt("07:32:00"), d: date("1979-05-27"), t: time("00:00:00.5"), o: Some(dt("1979-05-27T07:32:00")), l: vec![] },
                ],
                true,
            ),
        ),
        6 => (
            "Nested",
            check(
                st("Nested", &[("inner", d_leafs()), ("name", s("s")), ("p", pt())]),
                vec![Nested { inner: leafs(true, 1, 1.5, 'c', "s"), name: "n".into(), p: p(1, 2) }],
                true,
            ),
        ),
        7 => (
            "VecStruct",
            check(
                st("VecStruct", &[("items", seq(pt())), ("n", seq(s("i32"))), ("e", seq(s("s")))]),
                vec![
                    VecStruct { items: vec![], n: vec![], e: vec![] },
                    VecStruct { items: vec![p(1, 2)], n: vec![1], e: vec!["".into()] },
                    VecStruct { items: vec![p(1, 2), p(3, 4), p(5, 6)], n: vec![1, 2, 3], e: vec!["a".into(), "b\n".into()] },
                ],
                true,
            ),
        ),
        8 => (
            "Maps",
            check(
                st("Maps", &[("h", map(s("s"), s("i32"))), ("b", map(s("s"), pt())), ("s", map(s("s"), s("s")))]),
                vec![
                    Maps { h: HashMap::new(), b: bm(vec![]), s: bm(vec![]) },
                    Maps {
                        h: [("k".to_string(), 1)].into_iter().collect(),
                        b: bm(vec![("p".into(), p(1, 2)), ("q".into(), p(3, 4)), ("".into(), p(0, 0))]),
                        s: bm(vec![("a b".into(), "x".into()), ("é".into(), "".into()), ("1".into(), "2".into()), ("a.b".into(), "c".into())]),
                    },
                ],
                true,
            ),
        ),
        9 => (
            "Maps(hash order)",
            check(
                st("Maps", &[("h", map(s("s"), s("i32"))), ("b", map(s("s"), pt())), ("s", map(s("s"), s("s")))]),
                vec![Maps {
                    h: [("k".to_string(), 1), ("l".to_string(), 2), ("m".to_string(), 3), ("".to_string(), 4)].into_iter().collect(),
                    b: bm(vec![]),
                    s: bm(vec![]),
                }],
                false,
            ),
        ),
        10 => (
            "Opts",
            check(
                st("Opts", &[("a", opt(s("i32"))), ("b", opt(s("s"))), ("c", opt(pt())), ("d", opt(seq(s("i32")))), ("e", s("i32"))]),
                vec![
                    Opts { a: None, b: None, c: None, d: None, e: 0 },
                    Opts { a: Some(1), b: Some("".into()), c: Some(p(1, 2)), d: Some(vec![]), e: 1 },
                    Opts { a: None, b: Some("x".into()), c: None, d: Some(vec![1, 2]), e: 2 },
                ],
                true,
            ),
        ),
        11 => (
            "Tuples",
            check(
                st(
                    "Tuples",
                    &[("t", tup(&[s("i32"), s("s")])), ("u", tup(&[s("b"), s("f64"), s("c")])), ("v", seq(tup(&[s("i32"), s("i32")])))],
                ),
                vec![
                    Tuples { t: (1, "s".into()), u: (true, 1.5, 'c'), v: vec![] },
                    Tuples { t: (-1, "".into()), u: (false, f64::NAN, 'é'), v: vec![(1, 2), (3, 4)] },
                ],
                true,
            ),
        ),
        12 => (
            "Wrap",
            check(
                st("Wrap", &[("n", newt("NewI", s("i32"))), ("s", newt("NewS", s("s"))), ("p", newt("NewP", pt())), ("o", newt("NewO", opt(s("i32"))))]),
                vec![
                    Wrap { n: NewI(1), s: NewS("s".into()), p: NewP(p(1, 2)), o: NewO(Some(3)) },
                    Wrap { n: NewI(-1), s: NewS("".into()), p: NewP(p(0, 0)), o: NewO(None) },
                ],
                true,
            ),
        ),
        13 => ("NewP(root)", check(newt("NewP", pt()), vec![NewP(p(1, 2))], true)),
        14 => (
            "HasTupS",
            check(
                st("HasTupS", &[("p", tups("TupS", &[s("i32"), s("s")])), ("l", seq(tups("TupS", &[s("i32"), s("s")])))]),
                vec![HasTupS { p: TupS(1, "s".into()), l: vec![] }, HasTupS { p: TupS(2, "".into()), l: vec![TupS(3, "x".into()), TupS(4, "y".into())] }],
                true,
            ),
        ),
        15 => ("HasUnitS", check(st("HasUnitS", &[("a", s("i32")), ("u", units("UnitS"))]), vec![HasUnitS { a: 1, u: UnitS }], true)),
        16 => ("HasUnit", check(st("HasUnit", &[("a", s("i32")), ("u", s("u"))]), vec![HasUnit { a: 1, u: () }], true)),
        17 => ("E(root)", check(d_e(), e_values(), true)),
        18 => (
            "HasEnum",
            check(
                st("HasEnum", &[("e", d_e()), ("o", opt(d_e()))]),
                e_values()
                    .into_iter()
                    .enumerate()
                    .map(|(i, e)| HasEnum { e: e.clone(), o: if i % 2 == 0 { Some(e) } else { None } })
                    .collect(),
                true,
            ),
        ),
        19 => (
            "VecEnum",
            check(
                st("VecEnum", &[("v", seq(d_e()))]),
                vec![
                    VecEnum { v: vec![] },
                    VecEnum { v: e_values() },
                    VecEnum { v: vec![E::Unit] },
                    VecEnum { v: vec![E::Struct { a: 1, b: "".into() }, E::Struct { a: 2, b: "x".into() }] },
                    // the F6 witness shape: a table-valued variant inside a mixed array
                    VecEnum { v: vec![E::Unit, E::NewP(p(1, 2))] },
                ],
                true,
            ),
        ),
        20 => (
            "EnumKeys",
            check(
                st("EnumKeys", &[("m", map(d_color(), s("i32"))), ("n", map(d_color(), pt()))]),
                vec![
                    EnumKeys { m: bm(vec![]), n: bm(vec![]) },
                    EnumKeys { m: bm(vec![(Color::Red, 1), (Color::Blue, 2)]), n: bm(vec![(Color::Green, p(1, 2))]) },
                ],
                true,
            ),
        ),
        21 => (
            "SeqOpt",
            check(
                st("SeqOpt", &[("v", seq(opt(s("i32"))))]),
                vec![SeqOpt { v: vec![] }, SeqOpt { v: vec![Some(1)] }, SeqOpt { v: vec![Some(1), None] }, SeqOpt { v: vec![None] }],
                true,
            ),
        ),
        22 => (
            "OptSeqOpt",
            check(
                st("OptSeqOpt", &[("a", s("i32")), ("v", opt(seq(opt(s("i32")))))]),
                vec![OptSeqOpt { a: 1, v: None }, OptSeqOpt { a: 1, v: Some(vec![Some(1)]) }, OptSeqOpt { a: 1, v: Some(vec![Some(1), None]) }],
                true,
            ),
        ),
        23 => (
            "MapIntKey",
            check(st("MapIntKey", &[("m", map(s("i32"), s("s")))]), vec![MapIntKey { m: bm(vec![]) }, MapIntKey { m: bm(vec![(1, "a".into())]) }], true),
        ),
        24 => (
            "MapCharKey",
            check(st("MapCharKey", &[("m", map(s("c"), s("i32")))]), vec![MapCharKey { m: bm(vec![]) }, MapCharKey { m: bm(vec![('a', 1), ('é', 2)]) }], true),
        ),
        25 => (
            "MapNewKey",
            check(
                st("MapNewKey", &[("m", map(newt("KeyN", s("s")), s("i32")))]),
                vec![MapNewKey { m: bm(vec![(KeyN("a".into()), 1), (KeyN("".into()), 2)]) }],
                true,
            ),
        ),
        26 => (
            "MapOptVal",
            check(
                st("MapOptVal", &[("m", map(s("s"), opt(s("i32"))))]),
                vec![MapOptVal { m: bm(vec![("a".into(), None), ("b".into(), Some(1))]) }],
                true,
            ),
        ),
        27 => (
            "Deep",
            check(
                st(
                    "Deep",
                    &[("a", seq(seq(pt()))), ("m", map(s("s"), seq(d_e()))), ("o", opt(map(s("s"), seq(opt(pt())))))],
                ),
                vec![
                    Deep { a: vec![], m: bm(vec![]), o: None },
                    Deep { a: vec![vec![], vec![p(1, 2)]], m: bm(vec![("k".into(), e_values()), ("e".into(), vec![])]), o: Some(bm(vec![])) },
                    Deep { a: vec![vec![p(1, 2), p(3, 4)]], m: bm(vec![]), o: Some(bm(vec![("k".into(), vec![Some(p(1, 2))])])) },
                    Deep { a: vec![], m: bm(vec![]), o: Some(bm(vec![("k".into(), vec![Some(p(1, 2)), None])])) },
                ],
                true,
            ),
        ),
        28 => (
            "WithValue",
            check(
                st("WithValue", &[("n", s("i32")), ("v", s("v"))]),
                vec![
                    WithValue { n: 1, v: toml::Value::Integer(1) },
                    WithValue { n: 1, v: toml::Value::String("s".into()) },
                    WithValue { n: 1, v: toml::Value::Datetime(dt("1979-05-27")) },
                    WithValue { n: 1, v: toml::Value::Array(vec![toml::Value::Integer(1), toml::Value::Table(toml::Table::new())]) },
                    WithValue {
                        n: 1,
                        v: "t = {a = 1}\nb = 1\n[[aot]]\nx = 1\n[s]\ny = [1.5, nan]".parse::<toml::Table>().unwrap().into(),
                    },
                ],
                true,
            ),
        ),
        29 => (
            "Renamed",
            check(
                st(
                    "Renamed",
                    &[
                        ("a b", s("i32")),
                        ("", s("i32")),
                        ("é.\"q\"", s("s")),
                        ("Type", en("ren e", &[vu("a-b"), vn("1", s("i32")), vs("", &[("x", s("i32"))])])),
                    ],
                ),
                vec![
                    Renamed { x: 1, y: 2, z: "z".into(), e: RenE::A },
                    Renamed { x: 1, y: 2, z: "z".into(), e: RenE::B(5) },
                    Renamed { x: 1, y: 2, z: "z".into(), e: RenE::C { x: 5 } },
                ],
                true,
            ),
        ),
        30 => {
            let inner = || en("Inner", &[vu("X"), vn("Y", s("i32"))]);
            (
                "EnumNested",
                check(
                    st(
                        "EnumNested",
                        &[(
                            "e",
                            en(
                                "Outer",
                                &[
                                    vn("A", inner()),
                                    vs("B", &[("inner", inner()), ("o", opt(inner()))]),
                                    vn("C", seq(inner())),
                                    vt("D", &[inner(), inner()]),
                                ],
                            ),
                        )],
                    ),
                    vec![
                        EnumNested { e: Outer::A(Inner::X) },
                        EnumNested { e: Outer::A(Inner::Y(1)) },
                        EnumNested { e: Outer::B { inner: Inner::X, o: None } },
                        EnumNested { e: Outer::B { inner: Inner::Y(2), o: Some(Inner::Y(3)) } },
                        EnumNested { e: Outer::C(vec![Inner::X, Inner::Y(1)]) },
                        EnumNested { e: Outer::C(vec![]) },
                        EnumNested { e: Outer::D(Inner::X, Inner::Y(1)) },
                    ],
                    true,
                ),
            )
        }
        31 => (
            "Mixed",
            check(
                st(
                    "Mixed",
                    &[("t", map(s("s"), s("i32"))), ("a", s("i32")), ("l", seq(pt())), ("b", s("s")), ("p", pt()), ("c", seq(s("i32")))],
                ),
                vec![
                    Mixed { t: bm(vec![("k".into(), 1)]), a: 1, l: vec![p(1, 2)], b: "b".into(), p: p(3, 4), c: vec![1] },
                    Mixed { t: bm(vec![]), a: 1, l: vec![], b: "".into(), p: p(3, 4), c: vec![] },
                ],
                true,
            ),
        ),
        32 => ("BTreeMap(root)", check(map(s("s"), pt()), vec![bm(vec![]), bm(vec![("a".to_string(), p(1, 2)), ("b".to_string(), p(3, 4))])], true)),
        33 => ("Vec(root)", check(seq(s("i32")), vec![vec![], vec![1, 2]], true)),
        34 => ("i32(root)", check(s("i32"), vec![1i32, -5], true)),
        35 => (
            "Option<Point>(root), Datetime(root)",
            check(opt(pt()), vec![None, Some(p(1, 2))], true).and_then(|a| check(s("dt"), vec![dt("1979-05-27T07:32:00Z")], true).map(|b| a + " " + &b)),
        ),
        _ => return None,
    })
}
