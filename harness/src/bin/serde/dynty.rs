//! dynserde, part 1: the runtime universe.  `DynType` is a type descriptor (the `ty` of
//! coq/Spec/SerdeData.v), `Dyn` a value.  Both have a compact ASCII form (tokens joined by `,`):
//!
//! types   b | i8 i16 i32 i64 i128 u8 u16 u32 u64 u128 | f32 f64 | c | s | dt da ti | u | v
//!         O ty | L ty | T<n> ty*n | M kty vty | Y ty (serde_spanned::Spanned<ty>)
//!         S<n> name (field ty)*n | N name ty | P<n> name ty*n | Z name
//!         E<n> name variant*n      variant := vu name | vn name ty | vt<n> name ty*n | vs<n> name (field ty)*n
//!         (names are hex, `-` = empty)
//! values  B0 B1 | I<dec> | D<16 hex f64 bits> | G<8 hex f32 bits> | C<dec code point> | S<hex utf8> |
//!         X<hex date-time text> | U | N | O val | L<n> val*n | M<n> (key val)*n | R<n> val*n | W val |
//!         E<idx> payload | Y<start>-<end> val (Spanned) | V tomlvalue         tomlvalue := S I D B X L<n> | T<n> (S<key> tomlvalue)*n
use std::collections::HashMap;
use std::sync::Mutex;

#[derive(Clone, Copy, PartialEq, Eq, Debug)]
pub enum IntW {
    I8,
    I16,
    I32,
    I64,
    I128,
    U8,
    U16,
    U32,
    U64,
    U128,
}

#[derive(Clone, Copy, PartialEq, Eq, Debug)]
pub enum DtKind {
    Datetime,
    Date,
    Time,
}

pub type Name = &'static str;

#[derive(Debug)]
pub struct Fields {
    pub names: &'static [&'static str],
    pub tys: Vec<DynType>,
}

#[derive(Debug)]
pub enum Variant {
    Unit,
    Newtype(DynType),
    Tuple(Vec<DynType>),
    Struct(Fields),
}

#[derive(Debug)]
pub enum DynType {
    Bool,
    Int(IntW),
    F32,
    F64,
    Char,
    Str,
    Dt(DtKind),
    Unit,
    Value,
    Opt(Box<DynType>),
    Spanned(Box<DynType>),
    Seq(Box<DynType>),
    Tuple(Vec<DynType>),
    Map(Box<DynType>, Box<DynType>),
    Struct(Name, Fields),
    Newtype(Name, Box<DynType>),
    TupleStruct(Name, Vec<DynType>),
    UnitStruct(Name),
    Enum(Name, &'static [&'static str], Vec<Variant>),
}

#[derive(Clone, Debug)]
pub enum Dyn {
    Bool(bool),
    Int(i128),
    UBig(u128),
    F32(f32),
    F64(f64),
    Char(char),
    Str(String),
    Dt(toml_datetime::Datetime),
    Unit,
    Value(toml::Value),
    None,
    Some(Box<Dyn>),
    Spanned(usize, usize, Box<Dyn>),
    Seq(Vec<Dyn>),
    Map(Vec<(Dyn, Dyn)>),
    Rec(Vec<Dyn>),
    Newtype(Box<Dyn>),
    Variant(u32, Box<Dyn>),
}

// ------------------------------------------------------------------------------------------
// interning of names: serde wants &'static str / &'static [&'static str]
// ------------------------------------------------------------------------------------------
static NAMES: Mutex<Option<HashMap<String, &'static str>>> = Mutex::new(None);
static LISTS: Mutex<Option<HashMap<Vec<&'static str>, &'static [&'static str]>>> = Mutex::new(None);

pub fn intern(s: &str) -> &'static str {
    let mut g = NAMES.lock().unwrap();
    let m = g.get_or_insert_with(HashMap::new);
    if let Some(r) = m.get(s) {
        return r;
    }
    let r: &'static str = Box::leak(s.to_string().into_boxed_str());
    m.insert(s.to_string(), r);
    r
}

pub fn intern_list(l: Vec<&'static str>) -> &'static [&'static str] {
    let mut g = LISTS.lock().unwrap();
    let m = g.get_or_insert_with(HashMap::new);
    if let Some(r) = m.get(&l) {
        return r;
    }
    let r: &'static [&'static str] = Box::leak(l.clone().into_boxed_slice());
    m.insert(l, r);
    r
}

// ------------------------------------------------------------------------------------------
// parsing
// ------------------------------------------------------------------------------------------
pub struct Toks<'a> {
    it: std::str::Split<'a, char>,
}

impl<'a> Toks<'a> {
    pub fn new(s: &'a str) -> Self {
        Toks { it: s.split(',') }
    }
    fn next(&mut self) -> Result<&'a str, String> {
        self.it.next().ok_or_else(|| "unexpected end".to_string())
    }
    pub fn done(&mut self) -> bool {
        self.it.next().is_none()
    }
}

fn unhex_str(s: &str) -> Result<String, String> {
    if s == "-" || s.is_empty() {
        return Ok(String::new());
    }
    if s.len() % 2 != 0 || !s.bytes().all(|c| c.is_ascii_hexdigit()) {
        return Err(format!("bad hex {s}"));
    }
    String::from_utf8(verif_harness::util::unhex(s)).map_err(|_| "bad utf8".to_string())
}

fn name(t: &mut Toks<'_>) -> Result<Name, String> {
    Ok(intern(&unhex_str(t.next()?)?))
}

fn count(s: &str) -> Result<usize, String> {
    s.parse::<usize>().map_err(|_| format!("bad count {s}"))
}

fn fields(t: &mut Toks<'_>, n: usize) -> Result<Fields, String> {
    let mut names = Vec::new();
    let mut tys = Vec::new();
    for _ in 0..n {
        names.push(name(t)?);
        tys.push(parse_ty(t)?);
    }
    Ok(Fields { names: intern_list(names), tys })
}

fn tys(t: &mut Toks<'_>, n: usize) -> Result<Vec<DynType>, String> {
    (0..n).map(|_| parse_ty(t)).collect()
}

pub fn parse_ty(t: &mut Toks<'_>) -> Result<DynType, String> {
    let tok = t.next()?;
    Ok(match tok {
        "b" => DynType::Bool,
        "i8" => DynType::Int(IntW::I8),
        "i16" => DynType::Int(IntW::I16),
        "i32" => DynType::Int(IntW::I32),
        "i64" => DynType::Int(IntW::I64),
        "i128" => DynType::Int(IntW::I128),
        "u8" => DynType::Int(IntW::U8),
        "u16" => DynType::Int(IntW::U16),
        "u32" => DynType::Int(IntW::U32),
        "u64" => DynType::Int(IntW::U64),
        "u128" => DynType::Int(IntW::U128),
        "f32" => DynType::F32,
        "f64" => DynType::F64,
        "c" => DynType::Char,
        "s" => DynType::Str,
        "dt" => DynType::Dt(DtKind::Datetime),
        "da" => DynType::Dt(DtKind::Date),
        "ti" => DynType::Dt(DtKind::Time),
        "u" => DynType::Unit,
        "v" => DynType::Value,
        "O" => DynType::Opt(Box::new(parse_ty(t)?)),
        "Y" => DynType::Spanned(Box::new(parse_ty(t)?)),
        "L" => DynType::Seq(Box::new(parse_ty(t)?)),
        "M" => {
            let k = parse_ty(t)?;
            let v = parse_ty(t)?;
            DynType::Map(Box::new(k), Box::new(v))
        }
        "N" => {
            let n = name(t)?;
            DynType::Newtype(n, Box::new(parse_ty(t)?))
        }
        "Z" => DynType::UnitStruct(name(t)?),
        _ => {
            let (h, rest) = tok.split_at(1);
            match h {
                "T" => DynType::Tuple(tys(t, count(rest)?)?),
                "S" => {
                    let n = name(t)?;
                    DynType::Struct(n, fields(t, count(rest)?)?)
                }
                "P" => {
                    let n = name(t)?;
                    DynType::TupleStruct(n, tys(t, count(rest)?)?)
                }
                "E" => {
                    let n = name(t)?;
                    let k = count(rest)?;
                    let mut names = Vec::new();
                    let mut vs = Vec::new();
                    for _ in 0..k {
                        let vt = t.next()?;
                        let vn = name(t)?;
                        names.push(vn);
                        if vt == "vu" {
                            vs.push(Variant::Unit);
                        } else if vt == "vn" {
                            vs.push(Variant::Newtype(parse_ty(t)?));
                        } else if let Some(r) = vt.strip_prefix("vt") {
                            vs.push(Variant::Tuple(tys(t, count(r)?)?));
                        } else if let Some(r) = vt.strip_prefix("vs") {
                            vs.push(Variant::Struct(fields(t, count(r)?)?));
                        } else {
                            return Err(format!("bad variant token {vt}"));
                        }
                    }
                    DynType::Enum(n, intern_list(names), vs)
                }
                _ => return Err(format!("bad type token {tok}")),
            }
        }
    })
}

pub fn parse_type(s: &str) -> Result<DynType, String> {
    let mut t = Toks::new(s);
    let r = parse_ty(&mut t)?;
    if !t.done() {
        return Err("trailing type tokens".into());
    }
    Ok(r)
}

fn vals(t: &mut Toks<'_>, n: usize) -> Result<Vec<Dyn>, String> {
    (0..n).map(|_| parse_val(t)).collect()
}

fn parse_dt(hex: &str) -> Result<toml_datetime::Datetime, String> {
    unhex_str(hex)?.parse::<toml_datetime::Datetime>().map_err(|_| "bad datetime".to_string())
}

pub fn parse_tomlvalue(t: &mut Toks<'_>) -> Result<toml::Value, String> {
    let tok = t.next()?;
    if tok.is_empty() {
        return Err("empty token".into());
    }
    let (h, rest) = tok.split_at(1);
    Ok(match h {
        "S" => toml::Value::String(unhex_str(rest)?),
        "I" => toml::Value::Integer(rest.parse::<i64>().map_err(|_| "bad int")?),
        "D" => toml::Value::Float(f64::from_bits(u64::from_str_radix(rest, 16).map_err(|_| "bad bits")?)),
        "B" => toml::Value::Boolean(rest == "1"),
        "X" => toml::Value::Datetime(parse_dt(rest)?),
        "L" => {
            let n = count(rest)?;
            let mut v = Vec::new();
            for _ in 0..n {
                v.push(parse_tomlvalue(t)?);
            }
            toml::Value::Array(v)
        }
        "T" => {
            let n = count(rest)?;
            let mut m = toml::Table::new();
            for _ in 0..n {
                let k = t.next()?;
                let k = unhex_str(k.strip_prefix('S').ok_or("key token")?)?;
                let v = parse_tomlvalue(t)?;
                m.insert(k, v);
            }
            toml::Value::Table(m)
        }
        _ => return Err(format!("bad toml value token {tok}")),
    })
}

pub fn parse_val(t: &mut Toks<'_>) -> Result<Dyn, String> {
    let tok = t.next()?;
    if tok.is_empty() {
        return Err("empty token".into());
    }
    let (h, rest) = tok.split_at(1);
    Ok(match h {
        "B" => Dyn::Bool(rest == "1"),
        "I" => match rest.parse::<i128>() {
            Ok(i) => Dyn::Int(i),
            Err(_) => Dyn::UBig(rest.parse::<u128>().map_err(|_| "bad int")?),
        },
        "D" => Dyn::F64(f64::from_bits(u64::from_str_radix(rest, 16).map_err(|_| "bad bits")?)),
        "G" => Dyn::F32(f32::from_bits(u32::from_str_radix(rest, 16).map_err(|_| "bad bits")?)),
        "C" => Dyn::Char(char::from_u32(rest.parse::<u32>().map_err(|_| "bad char")?).ok_or("bad char")?),
        "S" => Dyn::Str(unhex_str(rest)?),
        "X" => Dyn::Dt(parse_dt(rest)?),
        "U" => Dyn::Unit,
        "N" => Dyn::None,
        "O" => Dyn::Some(Box::new(parse_val(t)?)),
        "Y" => {
            let (a, b) = rest.split_once('-').ok_or("bad span")?;
            Dyn::Spanned(a.parse().map_err(|_| "bad span")?, b.parse().map_err(|_| "bad span")?, Box::new(parse_val(t)?))
        }
        "L" => Dyn::Seq(vals(t, count(rest)?)?),
        "R" => Dyn::Rec(vals(t, count(rest)?)?),
        "M" => {
            let n = count(rest)?;
            let mut v = Vec::new();
            for _ in 0..n {
                let k = parse_val(t)?;
                let x = parse_val(t)?;
                v.push((k, x));
            }
            Dyn::Map(v)
        }
        "W" => Dyn::Newtype(Box::new(parse_val(t)?)),
        "E" => {
            let idx = rest.parse::<u32>().map_err(|_| "bad variant index")?;
            Dyn::Variant(idx, Box::new(parse_val(t)?))
        }
        "V" => Dyn::Value(parse_tomlvalue(t)?),
        _ => return Err(format!("bad value token {tok}")),
    })
}

pub fn parse_value(s: &str) -> Result<Dyn, String> {
    let mut t = Toks::new(s);
    let r = parse_val(&mut t)?;
    if !t.done() {
        return Err("trailing value tokens".into());
    }
    Ok(r)
}

// ------------------------------------------------------------------------------------------
// canonical dump (same syntax as the input; map entries sorted by the dump of their key so that
// two maps with the same entries dump identically whatever order they were built in)
// ------------------------------------------------------------------------------------------
fn hexs(s: &str) -> String {
    let mut o = String::with_capacity(s.len() * 2);
    for b in s.bytes() {
        o.push_str(&format!("{b:02x}"));
    }
    o
}

pub fn dump_tomlvalue(v: &toml::Value, out: &mut Vec<String>, sorted: bool) {
    match v {
        toml::Value::String(s) => out.push(format!("S{}", hexs(s))),
        toml::Value::Integer(i) => out.push(format!("I{i}")),
        toml::Value::Float(f) => out.push(format!("D{:016x}", f.to_bits())),
        toml::Value::Boolean(b) => out.push(format!("B{}", *b as u8)),
        toml::Value::Datetime(d) => out.push(format!("X{}", hexs(&d.to_string()))),
        toml::Value::Array(a) => {
            out.push(format!("L{}", a.len()));
            for e in a {
                dump_tomlvalue(e, out, sorted);
            }
        }
        toml::Value::Table(t) => {
            out.push(format!("T{}", t.len()));
            let mut es: Vec<(&String, &toml::Value)> = t.iter().collect();
            if sorted {
                es.sort_by(|a, b| a.0.cmp(b.0));
            }
            for (k, e) in es {
                out.push(format!("S{}", hexs(k)));
                dump_tomlvalue(e, out, sorted);
            }
        }
    }
}

/// dump of a toml::Value: `sorted` = keys in sorted order (canonical), else iteration order
pub fn tomlvalue_string(v: &toml::Value, sorted: bool) -> String {
    let mut o = Vec::new();
    dump_tomlvalue(v, &mut o, sorted);
    o.join(",")
}

pub fn dump_val(v: &Dyn, out: &mut Vec<String>) {
    match v {
        Dyn::Bool(b) => out.push(format!("B{}", *b as u8)),
        Dyn::Int(i) => out.push(format!("I{i}")),
        Dyn::UBig(i) => out.push(format!("I{i}")),
        Dyn::F32(f) => out.push(format!("G{:08x}", f.to_bits())),
        Dyn::F64(f) => out.push(format!("D{:016x}", f.to_bits())),
        Dyn::Char(c) => out.push(format!("C{}", *c as u32)),
        Dyn::Str(s) => out.push(format!("S{}", hexs(s))),
        Dyn::Dt(d) => out.push(format!("X{}", hexs(&d.to_string()))),
        Dyn::Unit => out.push("U".into()),
        Dyn::Value(v) => {
            out.push("V".into());
            dump_tomlvalue(v, out, true);
        }
        Dyn::None => out.push("N".into()),
        Dyn::Some(v) => {
            out.push("O".into());
            dump_val(v, out);
        }
        Dyn::Spanned(a, b, v) => {
            out.push(format!("Y{a}-{b}"));
            dump_val(v, out);
        }
        Dyn::Seq(vs) => {
            out.push(format!("L{}", vs.len()));
            for v in vs {
                dump_val(v, out);
            }
        }
        Dyn::Rec(vs) => {
            out.push(format!("R{}", vs.len()));
            for v in vs {
                dump_val(v, out);
            }
        }
        Dyn::Map(es) => {
            out.push(format!("M{}", es.len()));
            let mut parts: Vec<(String, String)> = es.iter().map(|(k, v)| (dyn_string(k), dyn_string(v))).collect();
            parts.sort();
            for (k, v) in parts {
                out.push(k);
                out.push(v);
            }
        }
        Dyn::Newtype(v) => {
            out.push("W".into());
            dump_val(v, out);
        }
        Dyn::Variant(i, v) => {
            out.push(format!("E{i}"));
            dump_val(v, out);
        }
    }
}

pub fn dyn_string(v: &Dyn) -> String {
    let mut o = Vec::new();
    dump_val(v, &mut o);
    o.join(",")
}
