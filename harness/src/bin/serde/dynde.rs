//! dynserde, part 3: `impl DeserializeSeed for &DynType`, mirroring the code `serde_derive`
//! 1.0.219 generates (structs, enums) and serde's std impls (Option, Vec, tuples, maps).  Leaves
//! (integers, floats, bool, char, String, (), toml::Value, Datetime/Date/Time) call the REAL
//! `Deserialize` impls, so their visitors' range checks are serde's own.
use crate::dynty::*;
use serde::de::{
    self, Deserialize, DeserializeSeed, Deserializer, EnumAccess, Error as _, IgnoredAny, MapAccess, SeqAccess,
    VariantAccess, Visitor,
};
use std::cell::RefCell;
use std::fmt;
use std::rc::Rc;

fn int<'de, D: Deserializer<'de>>(w: IntW, d: D) -> Result<Dyn, D::Error> {
    Ok(match w {
        IntW::I8 => Dyn::Int(i8::deserialize(d)? as i128),
        IntW::I16 => Dyn::Int(i16::deserialize(d)? as i128),
        IntW::I32 => Dyn::Int(i32::deserialize(d)? as i128),
        IntW::I64 => Dyn::Int(i64::deserialize(d)? as i128),
        IntW::I128 => Dyn::Int(i128::deserialize(d)?),
        IntW::U8 => Dyn::Int(u8::deserialize(d)? as i128),
        IntW::U16 => Dyn::Int(u16::deserialize(d)? as i128),
        IntW::U32 => Dyn::Int(u32::deserialize(d)? as i128),
        IntW::U64 => Dyn::Int(u64::deserialize(d)? as i128),
        IntW::U128 => {
            let v = u128::deserialize(d)?;
            match i128::try_from(v) {
                Ok(i) => Dyn::Int(i),
                Err(_) => Dyn::UBig(v),
            }
        }
    })
}

impl<'de> DeserializeSeed<'de> for &DynType {
    type Value = Dyn;
    fn deserialize<D: Deserializer<'de>>(self, d: D) -> Result<Dyn, D::Error> {
        match self {
            DynType::Bool => bool::deserialize(d).map(Dyn::Bool),
            DynType::Int(w) => int(*w, d),
            DynType::F32 => f32::deserialize(d).map(Dyn::F32),
            DynType::F64 => f64::deserialize(d).map(Dyn::F64),
            DynType::Char => char::deserialize(d).map(Dyn::Char),
            DynType::Str => String::deserialize(d).map(Dyn::Str),
            DynType::Dt(DtKind::Datetime) => toml_datetime::Datetime::deserialize(d).map(Dyn::Dt),
            DynType::Dt(DtKind::Date) => toml_datetime::Date::deserialize(d).map(|x| Dyn::Dt(x.into())),
            DynType::Dt(DtKind::Time) => toml_datetime::Time::deserialize(d).map(|x| Dyn::Dt(x.into())),
            DynType::Unit => <()>::deserialize(d).map(|_| Dyn::Unit),
            DynType::Value => toml::Value::deserialize(d).map(Dyn::Value),
            DynType::Opt(t) => d.deserialize_option(OptVisitor(t)),
            DynType::Spanned(t) => d.deserialize_struct(
                serde_spanned::__unstable::NAME,
                &SPANNED_FIELDS,
                SpannedVisitor(t),
            ),
            DynType::Seq(t) => d.deserialize_seq(SeqVisitor(t)),
            DynType::Tuple(ts) => d.deserialize_tuple(ts.len(), TupleVisitor(ts, Expect::Tuple(ts.len()))),
            DynType::Map(k, v) => d.deserialize_map(MapVisitor(k, v)),
            DynType::Struct(name, fs) => {
                d.deserialize_struct(name, fs.names, StructVisitor(fs, Expect::Struct(name), Expect::StructN(name, fs.tys.len())))
            }
            DynType::Newtype(name, t) => d.deserialize_newtype_struct(name, NewtypeVisitor(name, t)),
            DynType::TupleStruct(name, ts) => {
                d.deserialize_tuple_struct(name, ts.len(), TupleVisitor(ts, Expect::TupleStruct(name, ts.len())))
            }
            DynType::UnitStruct(name) => d.deserialize_unit_struct(name, UnitStructVisitor(name)),
            DynType::Enum(name, vnames, vs) => d.deserialize_enum(name, vnames, EnumVisitor(name, vnames, vs)),
        }
    }
}

// ---- expecting strings, as derive / serde write them -------------------------------------
#[derive(Clone, Copy)]
enum Expect {
    Tuple(usize),
    Struct(Name),
    StructN(Name, usize),
    TupleStruct(Name, usize),
    TupleVariant(Name, Name, usize),
    StructVariant(Name, Name),
    StructVariantN(Name, Name, usize),
}

fn elems(n: usize) -> String {
    if n == 1 {
        "with 1 element".to_string()
    } else {
        format!("with {n} elements")
    }
}

impl fmt::Display for Expect {
    fn fmt(&self, f: &mut fmt::Formatter<'_>) -> fmt::Result {
        match self {
            Expect::Tuple(n) => write!(f, "a tuple of size {n}"),
            Expect::Struct(n) => write!(f, "struct {n}"),
            Expect::StructN(n, k) => write!(f, "struct {n} {}", elems(*k)),
            Expect::TupleStruct(n, k) => write!(f, "tuple struct {n} {}", elems(*k)),
            Expect::TupleVariant(e, v, k) => write!(f, "tuple variant {e}::{v} {}", elems(*k)),
            Expect::StructVariant(e, v) => write!(f, "struct variant {e}::{v}"),
            Expect::StructVariantN(e, v, k) => write!(f, "struct variant {e}::{v} {}", elems(*k)),
        }
    }
}

impl de::Expected for Expect {
    fn fmt(&self, f: &mut fmt::Formatter<'_>) -> fmt::Result {
        fmt::Display::fmt(self, f)
    }
}

// ---- impl Deserialize for Option<T> ------------------------------------------------------
struct OptVisitor<'a>(&'a DynType);
impl<'de> Visitor<'de> for OptVisitor<'_> {
    type Value = Dyn;
    fn expecting(&self, f: &mut fmt::Formatter<'_>) -> fmt::Result {
        f.write_str("option")
    }
    fn visit_unit<E: de::Error>(self) -> Result<Dyn, E> {
        Ok(Dyn::None)
    }
    fn visit_none<E: de::Error>(self) -> Result<Dyn, E> {
        Ok(Dyn::None)
    }
    fn visit_some<D: Deserializer<'de>>(self, d: D) -> Result<Dyn, D::Error> {
        self.0.deserialize(d).map(|v| Dyn::Some(Box::new(v)))
    }
}

// ---- impl Deserialize for serde_spanned::Spanned<T> (serde_spanned/src/spanned.rs) ----------
static SPANNED_FIELDS: [&str; 3] = [
    serde_spanned::__unstable::START_FIELD,
    serde_spanned::__unstable::END_FIELD,
    serde_spanned::__unstable::VALUE_FIELD,
];
struct SpannedVisitor<'a>(&'a DynType);
impl<'de> Visitor<'de> for SpannedVisitor<'_> {
    type Value = Dyn;
    fn expecting(&self, f: &mut fmt::Formatter<'_>) -> fmt::Result {
        f.write_str("a spanned value")
    }
    fn visit_map<A: MapAccess<'de>>(self, mut map: A) -> Result<Dyn, A::Error> {
        use serde_spanned::__unstable::{END_FIELD, START_FIELD, VALUE_FIELD};
        let mut start: Option<usize> = None;
        let mut end: Option<usize> = None;
        let mut value: Option<Dyn> = None;
        while let Some(key) = map.next_key::<&str>()? {
            if key == START_FIELD {
                if start.is_some() {
                    return Err(A::Error::duplicate_field(START_FIELD));
                }
                start = Some(map.next_value()?);
            } else if key == END_FIELD {
                if end.is_some() {
                    return Err(A::Error::duplicate_field(END_FIELD));
                }
                end = Some(map.next_value()?);
            } else if key == VALUE_FIELD {
                if value.is_some() {
                    return Err(A::Error::duplicate_field(VALUE_FIELD));
                }
                value = Some(map.next_value_seed(self.0)?);
            } else {
                return Err(A::Error::unknown_field(key, &SPANNED_FIELDS));
            }
        }
        match (start, end, value) {
            (Some(a), Some(b), Some(v)) => Ok(Dyn::Spanned(a, b, Box::new(v))),
            (None, _, _) => Err(A::Error::missing_field(START_FIELD)),
            (_, None, _) => Err(A::Error::missing_field(END_FIELD)),
            (_, _, None) => Err(A::Error::missing_field(VALUE_FIELD)),
        }
    }
}

// ---- impl Deserialize for Vec<T> ---------------------------------------------------------
struct SeqVisitor<'a>(&'a DynType);
impl<'de> Visitor<'de> for SeqVisitor<'_> {
    type Value = Dyn;
    fn expecting(&self, f: &mut fmt::Formatter<'_>) -> fmt::Result {
        f.write_str("a sequence")
    }
    fn visit_seq<A: SeqAccess<'de>>(self, mut seq: A) -> Result<Dyn, A::Error> {
        let mut out = Vec::new();
        while let Some(v) = seq.next_element_seed(self.0)? {
            out.push(v);
        }
        Ok(Dyn::Seq(out))
    }
}

// ---- tuples, tuple structs, tuple variants: visit_seq with exactly n next_element calls -----
struct TupleVisitor<'a>(&'a [DynType], Expect);
impl<'de> Visitor<'de> for TupleVisitor<'_> {
    type Value = Dyn;
    fn expecting(&self, f: &mut fmt::Formatter<'_>) -> fmt::Result {
        match self.1 {
            Expect::TupleStruct(n, _) => write!(f, "tuple struct {n}"),
            Expect::TupleVariant(e, v, _) => write!(f, "tuple variant {e}::{v}"),
            x => fmt::Display::fmt(&x, f),
        }
    }
    fn visit_seq<A: SeqAccess<'de>>(self, mut seq: A) -> Result<Dyn, A::Error> {
        let mut out = Vec::new();
        for (i, t) in self.0.iter().enumerate() {
            match seq.next_element_seed(t)? {
                Some(v) => out.push(v),
                None => return Err(A::Error::invalid_length(i, &self.1)),
            }
        }
        Ok(Dyn::Seq(out))
    }
}

// ---- impl Deserialize for BTreeMap<K, V> / HashMap<K, V> -----------------------------------
struct MapVisitor<'a>(&'a DynType, &'a DynType);
impl<'de> Visitor<'de> for MapVisitor<'_> {
    type Value = Dyn;
    fn expecting(&self, f: &mut fmt::Formatter<'_>) -> fmt::Result {
        f.write_str("a map")
    }
    fn visit_map<A: MapAccess<'de>>(self, mut map: A) -> Result<Dyn, A::Error> {
        let mut out: Vec<(String, Dyn, Dyn)> = Vec::new();
        while let Some((k, v)) = map.next_entry_seed(self.0, self.1)? {
            let ks = dyn_string(&k);
            // `insert`: a later equal key replaces the earlier value
            if let Some(e) = out.iter_mut().find(|e| e.0 == ks) {
                e.2 = v;
            } else {
                out.push((ks, k, v));
            }
        }
        Ok(Dyn::Map(out.into_iter().map(|(_, k, v)| (k, v)).collect()))
    }
}

// ---- derive: field identifier ------------------------------------------------------------
struct FieldSeed(&'static [&'static str]);
impl<'de> DeserializeSeed<'de> for FieldSeed {
    type Value = Option<usize>; // None = __ignore
    fn deserialize<D: Deserializer<'de>>(self, d: D) -> Result<Self::Value, D::Error> {
        d.deserialize_identifier(self)
    }
}
impl<'de> Visitor<'de> for FieldSeed {
    type Value = Option<usize>;
    fn expecting(&self, f: &mut fmt::Formatter<'_>) -> fmt::Result {
        f.write_str("field identifier")
    }
    fn visit_u64<E: de::Error>(self, v: u64) -> Result<Self::Value, E> {
        Ok(if (v as usize) < self.0.len() { Some(v as usize) } else { None })
    }
    fn visit_str<E: de::Error>(self, v: &str) -> Result<Self::Value, E> {
        // derive emits a `match` on the names: the first arm with that name wins
        Ok(self.0.iter().position(|n| *n == v))
    }
    fn visit_bytes<E: de::Error>(self, v: &[u8]) -> Result<Self::Value, E> {
        Ok(self.0.iter().position(|n| n.as_bytes() == v))
    }
}

// ---- serde::__private::de::missing_field -------------------------------------------------
struct MissingFieldDeserializer<E>(&'static str, std::marker::PhantomData<E>);
impl<'de, E: de::Error> Deserializer<'de> for MissingFieldDeserializer<E> {
    type Error = E;
    fn deserialize_any<V: Visitor<'de>>(self, _visitor: V) -> Result<V::Value, E> {
        Err(E::missing_field(self.0))
    }
    fn deserialize_option<V: Visitor<'de>>(self, visitor: V) -> Result<V::Value, E> {
        visitor.visit_none()
    }
    serde::forward_to_deserialize_any! {
        bool i8 i16 i32 i64 i128 u8 u16 u32 u64 u128 f32 f64 char str string
        bytes byte_buf unit unit_struct newtype_struct seq tuple
        tuple_struct map struct enum identifier ignored_any
    }
}

fn missing_field<E: de::Error>(t: &DynType, name: &'static str) -> Result<Dyn, E> {
    t.deserialize(MissingFieldDeserializer(name, std::marker::PhantomData))
}

// ---- derive: struct / struct variant visitor ---------------------------------------------
struct StructVisitor<'a>(&'a Fields, Expect, Expect);
impl<'de> Visitor<'de> for StructVisitor<'_> {
    type Value = Dyn;
    fn expecting(&self, f: &mut fmt::Formatter<'_>) -> fmt::Result {
        fmt::Display::fmt(&self.1, f)
    }
    fn visit_seq<A: SeqAccess<'de>>(self, mut seq: A) -> Result<Dyn, A::Error> {
        let mut out = Vec::new();
        for (i, t) in self.0.tys.iter().enumerate() {
            match seq.next_element_seed(t)? {
                Some(v) => out.push(v),
                None => return Err(A::Error::invalid_length(i, &self.2)),
            }
        }
        Ok(Dyn::Rec(out))
    }
    fn visit_map<A: MapAccess<'de>>(self, mut map: A) -> Result<Dyn, A::Error> {
        let fs = self.0;
        let mut slots: Vec<Option<Dyn>> = fs.tys.iter().map(|_| None).collect();
        while let Some(key) = map.next_key_seed(FieldSeed(fs.names))? {
            match key {
                Some(i) => {
                    if slots[i].is_some() {
                        return Err(A::Error::duplicate_field(fs.names[i]));
                    }
                    slots[i] = Some(map.next_value_seed(&fs.tys[i])?);
                }
                None => {
                    let _ = map.next_value::<IgnoredAny>()?;
                }
            }
        }
        let mut out = Vec::new();
        for (i, s) in slots.into_iter().enumerate() {
            out.push(match s {
                Some(v) => v,
                None => missing_field::<A::Error>(&fs.tys[i], fs.names[i])?,
            });
        }
        Ok(Dyn::Rec(out))
    }
}

// ---- derive: newtype struct ----------------------------------------------------------------
struct NewtypeVisitor<'a>(Name, &'a DynType);
impl<'de> Visitor<'de> for NewtypeVisitor<'_> {
    type Value = Dyn;
    fn expecting(&self, f: &mut fmt::Formatter<'_>) -> fmt::Result {
        write!(f, "tuple struct {}", self.0)
    }
    fn visit_newtype_struct<D: Deserializer<'de>>(self, d: D) -> Result<Dyn, D::Error> {
        self.1.deserialize(d).map(|v| Dyn::Newtype(Box::new(v)))
    }
    fn visit_seq<A: SeqAccess<'de>>(self, mut seq: A) -> Result<Dyn, A::Error> {
        match seq.next_element_seed(self.1)? {
            Some(v) => Ok(Dyn::Newtype(Box::new(v))),
            None => Err(A::Error::invalid_length(0, &Expect::TupleStruct(self.0, 1))),
        }
    }
}

// ---- derive: unit struct -------------------------------------------------------------------
struct UnitStructVisitor(Name);
impl<'de> Visitor<'de> for UnitStructVisitor {
    type Value = Dyn;
    fn expecting(&self, f: &mut fmt::Formatter<'_>) -> fmt::Result {
        write!(f, "unit struct {}", self.0)
    }
    fn visit_unit<E: de::Error>(self) -> Result<Dyn, E> {
        Ok(Dyn::Unit)
    }
}

// ---- derive: enum ----------------------------------------------------------------------------
struct VariantSeed(&'static [&'static str]);
impl<'de> DeserializeSeed<'de> for VariantSeed {
    type Value = usize;
    fn deserialize<D: Deserializer<'de>>(self, d: D) -> Result<usize, D::Error> {
        d.deserialize_identifier(self)
    }
}
struct VariantIndexExpected(usize);
impl de::Expected for VariantIndexExpected {
    fn fmt(&self, f: &mut fmt::Formatter<'_>) -> fmt::Result {
        write!(f, "variant index 0 <= i < {}", self.0)
    }
}
impl<'de> Visitor<'de> for VariantSeed {
    type Value = usize;
    fn expecting(&self, f: &mut fmt::Formatter<'_>) -> fmt::Result {
        f.write_str("variant identifier")
    }
    fn visit_u64<E: de::Error>(self, v: u64) -> Result<usize, E> {
        if (v as usize) < self.0.len() {
            Ok(v as usize)
        } else {
            Err(E::invalid_value(de::Unexpected::Unsigned(v), &VariantIndexExpected(self.0.len())))
        }
    }
    fn visit_str<E: de::Error>(self, v: &str) -> Result<usize, E> {
        match self.0.iter().position(|n| *n == v) {
            Some(i) => Ok(i),
            None => Err(E::unknown_variant(v, self.0)),
        }
    }
    fn visit_bytes<E: de::Error>(self, v: &[u8]) -> Result<usize, E> {
        match self.0.iter().position(|n| n.as_bytes() == v) {
            Some(i) => Ok(i),
            None => Err(E::unknown_variant(&String::from_utf8_lossy(v), self.0)),
        }
    }
}

struct EnumVisitor<'a>(Name, &'static [&'static str], &'a [Variant]);
impl<'de> Visitor<'de> for EnumVisitor<'_> {
    type Value = Dyn;
    fn expecting(&self, f: &mut fmt::Formatter<'_>) -> fmt::Result {
        write!(f, "enum {}", self.0)
    }
    fn visit_enum<A: EnumAccess<'de>>(self, data: A) -> Result<Dyn, A::Error> {
        let (idx, variant) = data.variant_seed(VariantSeed(self.1))?;
        let vn = self.1[idx];
        let payload = match &self.2[idx] {
            Variant::Unit => {
                variant.unit_variant()?;
                Dyn::Unit
            }
            Variant::Newtype(t) => variant.newtype_variant_seed(t)?,
            Variant::Tuple(ts) => variant.tuple_variant(ts.len(), TupleVisitor(ts, Expect::TupleVariant(self.0, vn, ts.len())))?,
            Variant::Struct(fs) => variant.struct_variant(
                fs.names,
                StructVisitor(fs, Expect::StructVariant(self.0, vn), Expect::StructVariantN(self.0, vn, fs.tys.len())),
            )?,
        };
        Ok(Dyn::Variant(idx as u32, Box::new(payload)))
    }
}

// ------------------------------------------------------------------------------------------
// `DynOwned`: lets the harness call the library's generic entry points (`toml::from_str::<T>`,
// `from_slice`, `from_document`, `Value::try_into`), which want `T: Deserialize`: the type
// descriptor is taken from a thread-local set by `with_type`.
// ------------------------------------------------------------------------------------------
thread_local! {
    static CURRENT: RefCell<Option<Rc<DynType>>> = const { RefCell::new(None) };
}

pub struct DynOwned(pub Dyn);

impl<'de> Deserialize<'de> for DynOwned {
    fn deserialize<D: Deserializer<'de>>(d: D) -> Result<Self, D::Error> {
        let ty = CURRENT.with(|c| c.borrow().clone()).ok_or_else(|| D::Error::custom("no current DynType"))?;
        (&*ty).deserialize(d).map(DynOwned)
    }
}

pub fn with_type<R>(ty: &Rc<DynType>, f: impl FnOnce() -> R) -> R {
    CURRENT.with(|c| *c.borrow_mut() = Some(ty.clone()));
    let r = f();
    CURRENT.with(|c| *c.borrow_mut() = None);
    r
}
