use serde::{Deserialize, Serialize};
use toml::value::Datetime;
#[derive(Serialize, Deserialize, PartialEq, Debug)]
struct S { d: Datetime }
#[derive(Serialize, Deserialize, PartialEq, Debug)]
struct V { v: Option<Vec<Option<i32>>> }
#[derive(Serialize, Deserialize, PartialEq, Debug)]
struct M { m: std::collections::BTreeMap<String, Option<i32>> }
#[derive(Serialize, Deserialize, PartialEq, Debug)]
struct I { i: i128 }
fn main() {
    let s = S { d: "1979-05-27T07:32:00Z".parse().unwrap() };
    println!("to_string: {:?}", toml::to_string(&s));
    let v = toml::Value::try_from(&s);
    println!("try_from: {:?}", v);
    let parsed: toml::Value = toml::from_str(&toml::to_string(&s).unwrap()).unwrap();
    println!("parsed: {:?}", parsed);
    println!("parsed.try_into: {:?}", parsed.clone().try_into::<S>());
    println!("tryfrom.try_into: {:?}", v.unwrap().try_into::<S>());
    println!("table try_from: {:?}", toml::Table::try_from(&s));
    println!("root dt: {:?}", toml::to_string(&s.d));
    println!("root dt edit: {:?}", toml_edit::ser::to_string(&s.d));
    let x = V { v: Some(vec![Some(1), None]) };
    println!("V to_string {:?}", toml::to_string(&x));
    println!("V try_from {:?}", toml::Value::try_from(&x));
    let m = M { m: [("a".to_string(), None), ("b".to_string(), Some(1))].into_iter().collect() };
    println!("M to_string {:?}", toml::to_string(&m));
    println!("M try_from {:?}", toml::Value::try_from(&m));
    println!("I to_string {:?}", toml::to_string(&I{i:5}));
    println!("I from {:?}", toml::from_str::<I>("i = 5"));
}
