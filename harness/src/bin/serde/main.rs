//! serde observations (C07, C13, C17) on the real crates, driven by the runtime-typed `dynserde`.
//!
//!   fidelity <n>                 real derived family n vs its Dyn twin (must print fidelity=ok)
//!   ser <type> <value>           the 7 encoding routes + round trip of each result          (C07)
//!   consts                       the reserved names of the in-band tunnels                  (C07)
//!   spanned <type> <doc>         a type with Spanned<..> wrappers against its erasure, with the
//!                                document's own span tree                                   (C14, serde half)
//!   spanned_fidelity <doc>       real `Spanned<T>` fields against their dynserde twin        (C14, serde half)
//!   spanned_key_fidelity <doc>   real map keys Spanned<Newtype> / Spanned<Spanned<String>> / Newtype(Spanned<String>) / .. against their twin
//!   routes <type> <doc> <val>    every decoding route on a document / single-value text    (C13)
//!   routes_ser <type> <value>    the same on the text obtained by serializing the value    (C13)
//!   slice <type> <bytes>         toml_edit::de::from_slice on any byte string              (C13, text level)
//!   tryfrom <type> <value>       Value/Table::try_from vs parse(to_string)                 (C13)
//!   canon <type> <value>         determinism / fixpoint / plain vs pretty / Table twice    (C17)
//!   display <tomlvalue>          toml::Value built with an explicit key insertion order     (C17)
mod dynde;
mod dynser;
mod dynty;
mod real;
mod record;
mod routes;

use dynde::{with_type, DynOwned};
use dynser::Typed;
use dynty::*;
use routes::*;
use std::rc::Rc;
use verif_harness::util::hex;
use verif_harness::Args;

fn arg_str(a: &[u8]) -> Result<&str, String> {
    std::str::from_utf8(a).map_err(|_| "BADCASE utf8".to_string())
}

fn ty_val(args: &Args) -> Result<(Rc<DynType>, Dyn), String> {
    if args.len() < 2 {
        return Err("BADCASE args".into());
    }
    let ty = parse_type(arg_str(&args[0])?).map_err(|e| format!("BADCASE type {e}"))?;
    let v = parse_value(arg_str(&args[1])?).map_err(|e| format!("BADCASE value {e}"))?;
    Ok((Rc::new(ty), v))
}

fn valid_doc(s: &str) -> bool {
    toml_edit::ImDocument::parse(s.to_string()).is_ok()
}

/// `=` when the dump is byte-identical to the reference, else the dump itself
fn rel(dump: &str, reference: &str) -> String {
    if dump == reference {
        "=".to_string()
    } else {
        dump.to_string()
    }
}

fn show_dec(r: Result<DynOwned, String>, reference: &mut Option<String>) -> String {
    match r {
        Ok(d) => {
            let s = dyn_string(&d.0);
            match reference {
                Some(r) => format!("ok:{}", rel(&s, r)),
                None => {
                    *reference = Some(s.clone());
                    format!("ok:{s}")
                }
            }
        }
        Err(_) => "err".to_string(),
    }
}

fn cmd_fidelity(args: &Args) -> String {
    let n: usize = match args.first().and_then(|a| std::str::from_utf8(a).ok()).and_then(|s| s.parse().ok()) {
        Some(n) => n,
        None => return "BADCASE".into(),
    };
    match real::fidelity(n) {
        None => "fidelity=none".into(),
        Some((name, Ok(stats))) => format!("fidelity=ok family={} {}", name.replace(' ', "_"), stats),
        Some((name, Err(e))) => format!("fidelity=BAD family={} detail={}", name.replace(' ', "_"), hex(e.as_bytes())),
    }
}

/// the value tree of a document (token syntax of `tomlvalue_string`, keys in document order): what
/// the Coq model of the serializers computes
fn dump_item(item: &toml_edit::Item, out: &mut Vec<String>) {
    match item {
        toml_edit::Item::None => out.push("NONE".into()),
        toml_edit::Item::Value(v) => dump_value(v, out),
        toml_edit::Item::Table(t) => {
            out.push(format!("T{}", t.len()));
            for (k, v) in t.iter() {
                out.push(format!("S{}", hex_nodash(k)));
                dump_item(v, out);
            }
        }
        toml_edit::Item::ArrayOfTables(a) => {
            out.push(format!("L{}", a.len()));
            for t in a.iter() {
                out.push(format!("T{}", t.len()));
                for (k, v) in t.iter() {
                    out.push(format!("S{}", hex_nodash(k)));
                    dump_item(v, out);
                }
            }
        }
    }
}

fn hex_nodash(s: &str) -> String {
    if s.is_empty() {
        String::new()
    } else {
        hex(s.as_bytes())
    }
}

fn dump_value(v: &toml_edit::Value, out: &mut Vec<String>) {
    match v {
        toml_edit::Value::String(s) => out.push(format!("S{}", hex_nodash(s.value()))),
        toml_edit::Value::Integer(i) => out.push(format!("I{}", i.value())),
        toml_edit::Value::Float(f) => out.push(format!("D{:016x}", f.value().to_bits())),
        toml_edit::Value::Boolean(b) => out.push(format!("B{}", *b.value() as u8)),
        toml_edit::Value::Datetime(d) => out.push(format!("X{}", hex_nodash(&d.value().to_string()))),
        toml_edit::Value::Array(a) => {
            out.push(format!("L{}", a.len()));
            for e in a.iter() {
                dump_value(e, out);
            }
        }
        toml_edit::Value::InlineTable(t) => {
            out.push(format!("T{}", t.len()));
            for (k, e) in t.iter() {
                out.push(format!("S{}", hex_nodash(k)));
                dump_value(e, out);
            }
        }
    }
}

/// the layout of a document: like `dump_item`, but telling [header] tables (H) and [[arrays of
/// tables]] (A) from inline tables (T) and arrays (L)
fn lay_item(item: &toml_edit::Item, out: &mut Vec<String>) {
    match item {
        toml_edit::Item::None => out.push("NONE".into()),
        toml_edit::Item::Value(v) => lay_value(v, out),
        toml_edit::Item::Table(t) => {
            out.push(format!("H{}", t.len()));
            for (k, v) in t.iter() {
                out.push(format!("S{}", hex_nodash(k)));
                lay_item(v, out);
            }
        }
        toml_edit::Item::ArrayOfTables(a) => {
            out.push(format!("A{}", a.len()));
            for t in a.iter() {
                out.push(format!("H{}", t.len()));
                for (k, v) in t.iter() {
                    out.push(format!("S{}", hex_nodash(k)));
                    lay_item(v, out);
                }
            }
        }
    }
}

fn lay_value(v: &toml_edit::Value, out: &mut Vec<String>) {
    match v {
        toml_edit::Value::Array(a) => {
            out.push(format!("L{}", a.len()));
            for e in a.iter() {
                lay_value(e, out);
            }
        }
        toml_edit::Value::InlineTable(t) => {
            out.push(format!("T{}", t.len()));
            for (k, e) in t.iter() {
                out.push(format!("S{}", hex_nodash(k)));
                lay_value(e, out);
            }
        }
        other => dump_value(other, out),
    }
}

fn doc_layout(d: &toml_edit::DocumentMut) -> String {
    let mut out = Vec::new();
    lay_item(d.as_item(), &mut out);
    out.join(",")
}

fn doc_tree(d: &toml_edit::DocumentMut) -> String {
    let mut out = Vec::new();
    dump_item(d.as_item(), &mut out);
    out.join(",")
}

fn cmd_consts() -> String {
    format!(
        "dt_name={} dt_field={} spanned_name={}",
        hex(toml_datetime::__unstable::NAME.as_bytes()),
        hex(toml_datetime::__unstable::FIELD.as_bytes()),
        hex(serde_spanned::__unstable::NAME.as_bytes())
    )
}

fn cmd_ser(args: &Args) -> String {
    let (ty, v) = match ty_val(args) {
        Ok(x) => x,
        Err(e) => return e,
    };
    let v0 = dyn_string(&v);
    let mut out = Vec::new();
    for r in 0..ENC_NAMES.len() {
        let name = ENC_NAMES[r];
        match encode(r, &Typed(&ty, &v)) {
            Err(m) => out.push(format!("{name}=err({})", ser_kind(&m))),
            Ok(enc) => {
                let payload = match &enc {
                    Enc::Text(s) => hex(s.as_bytes()),
                    Enc::Doc(d) => hex(d.to_string().as_bytes()),
                    Enc::Val(x) => tomlvalue_string(x, false),
                    Enc::Tab(x) => tomlvalue_string(&toml::Value::Table(x.clone()), false),
                };
                let mut parts = vec![format!("{name}=ok:{payload}")];
                let invalid = match &enc {
                    Enc::Text(s) => !valid_doc(s),
                    Enc::Doc(d) => !valid_doc(&d.to_string()),
                    _ => false,
                };
                if invalid {
                    parts.push("INVALID".into());
                }
                // the value tree of the output (for the correspondence with the Coq model)
                match &enc {
                    Enc::Text(s) => {
                        if let Ok(d) = s.parse::<toml_edit::DocumentMut>() {
                            parts.push(format!("tree:{}", doc_tree(&d)));
                            parts.push(format!("lay:{}", doc_layout(&d)));
                        }
                    }
                    Enc::Doc(d) => {
                        parts.push(format!("tree:{}", doc_tree(d)));
                        parts.push(format!("lay:{}", doc_layout(d)));
                    }
                    _ => {}
                }
                for (tag, res) in with_type(&ty, || decode_enc::<DynOwned>(&enc)) {
                    parts.push(match res {
                        Ok(d) => format!("{tag}:{}", rel(&dyn_string(&d.0), &v0)),
                        Err(m) => format!("{tag}:ERR:{}", hex(m.as_bytes())),
                    });
                }
                out.push(parts.join(";"));
            }
        }
    }
    out.join(" ")
}

fn routes_line(ty: &Rc<DynType>, doc: Option<&str>, val: Option<&str>, reference: &mut Option<String>) -> String {
    let mut out = Vec::new();
    match doc {
        Some(doc) => {
            out.push(format!("valid={}", valid_doc(doc) as u8));
            for r in 0..DEC_DOC_NAMES.len() {
                let res = with_type(ty, || decode_doc::<DynOwned>(r, doc));
                out.push(format!("{}={}", DEC_DOC_NAMES[r], show_dec(res, reference)));
            }
        }
        None => out.push("valid=na".into()),
    }
    if let Some(val) = val {
        for r in 0..DEC_VAL_NAMES.len() {
            let res = with_type(ty, || decode_val::<DynOwned>(r, val));
            out.push(format!("{}={}", DEC_VAL_NAMES[r], show_dec(res, reference)));
        }
    }
    out.join(" ")
}

fn cmd_routes(args: &Args) -> String {
    if args.len() < 3 {
        return "BADCASE args".into();
    }
    let ty = match arg_str(&args[0]).and_then(|s| parse_type(s).map_err(|e| format!("BADCASE type {e}"))) {
        Ok(t) => Rc::new(t),
        Err(e) => return e,
    };
    let doc = match arg_str(&args[1]) {
        Ok(s) => s,
        Err(_) => return "BADCASE utf8".into(),
    };
    let val = std::str::from_utf8(&args[2]).ok().filter(|s| !s.is_empty());
    let mut reference = None;
    routes_line(&ty, Some(doc), val, &mut reference)
}

/// toml_edit::de::from_slice on ANY byte string (C13, text level): `utf8=` is std's verdict on the bytes, `valid=` the
/// parser's on the text (na when it is no text), `esl=ok:<dump>|utf8err|err` (utf8err: the error is the Utf8Error's message)
fn cmd_slice(args: &Args) -> String {
    if args.len() < 2 {
        return "BADCASE args".into();
    }
    let ty = match arg_str(&args[0]).and_then(|s| parse_type(s).map_err(|e| format!("BADCASE type {e}"))) {
        Ok(t) => Rc::new(t),
        Err(e) => return e,
    };
    let bytes: &[u8] = &args[1];
    let text = std::str::from_utf8(bytes).ok();
    let res = with_type(&ty, || toml_edit::de::from_slice::<DynOwned>(bytes).map_err(|e| e.to_string()));
    let esl = match res {
        Ok(d) => format!("ok:{}", dyn_string(&d.0)),
        Err(m) if m.starts_with("invalid utf-8") || m.starts_with("incomplete utf-8") => "utf8err".to_string(),
        Err(_) => "err".to_string(),
    };
    format!(
        "utf8={} valid={} esl={}",
        text.is_some() as u8,
        match text {
            Some(s) => (valid_doc(s) as u8).to_string(),
            None => "na".to_string(),
        },
        esl
    )
}

fn cmd_routes_ser(args: &Args) -> String {
    let (ty, v) = match ty_val(args) {
        Ok(x) => x,
        Err(e) => return e,
    };
    let mut reference = Some(dyn_string(&v));
    let doc = toml::to_string(&Typed(&ty, &v));
    let val = value_text(&Typed(&ty, &v));
    let head = format!(
        "doc={} val={}",
        match &doc {
            Ok(s) => format!("ok:{}", hex(s.as_bytes())),
            Err(e) => format!("err({})", ser_kind(&e.to_string())),
        },
        match &val {
            Ok(s) => format!("ok:{}", hex(s.as_bytes())),
            Err(e) => format!("err({})", ser_kind(e)),
        }
    );
    format!("{head} {}", routes_line(&ty, doc.as_deref().ok(), val.as_deref().ok(), &mut reference))
}

fn cmd_tryfrom(args: &Args) -> String {
    let (ty, v) = match ty_val(args) {
        Ok(x) => x,
        Err(e) => return e,
    };
    let tv = Typed(&ty, &v);
    let text = toml::to_string(&tv);
    let show = |r: Result<String, String>, reference: Option<&String>| match r {
        Ok(d) => match reference {
            Some(x) => format!("ok:{}", rel(&d, x)),
            None => format!("ok:{d}"),
        },
        Err(m) => format!("err({})", ser_kind(&m)),
    };
    let val = toml::Value::try_from(&tv).map(|x| tomlvalue_string(&x, true)).map_err(|e| e.to_string());
    let txt = match &text {
        Ok(s) => toml::from_str::<toml::Value>(s).map(|x| tomlvalue_string(&x, true)).map_err(|e| format!("REPARSE {e}")),
        Err(e) => Err(e.to_string()),
    };
    let tab = toml::Table::try_from(&tv).map(|x| tomlvalue_string(&toml::Value::Table(x), true)).map_err(|e| e.to_string());
    let ttxt = match &text {
        Ok(s) => s.parse::<toml::Table>().map(|x| tomlvalue_string(&toml::Value::Table(x), true)).map_err(|e| format!("REPARSE {e}")),
        Err(e) => Err(e.to_string()),
    };
    let vref = val.as_ref().ok().cloned();
    let tref = tab.as_ref().ok().cloned();
    format!("val={} txt={} tab={} ttxt={}", show(val, None), show(txt, vref.as_ref()), show(tab, None), show(ttxt, tref.as_ref()))
}

fn cmd_canon(args: &Args) -> String {
    let (ty, v) = match ty_val(args) {
        Ok(x) => x,
        Err(e) => return e,
    };
    let tv = Typed(&ty, &v);
    let s1 = match toml::to_string(&tv) {
        Ok(s) => s,
        Err(e) => return format!("s1=err({})", ser_kind(&e.to_string())),
    };
    let mut out = vec![format!("s1=ok:{}", hex(s1.as_bytes()))];
    let heq = |a: &str, b: &str| if a == b { "=".to_string() } else { hex(b.as_bytes()) };
    // determinism
    out.push(match toml::to_string(&tv) {
        Ok(s) => format!("det={}", heq(&s1, &s)),
        Err(_) => "det=err".into(),
    });
    // to_string(from_str(to_string(v))) == to_string(v)
    let v1 = toml::from_str::<toml::Value>(&s1);
    let d1 = v1.as_ref().ok().map(|x| tomlvalue_string(x, true));
    out.push(match &v1 {
        Ok(x) => match toml::to_string(x) {
            Ok(s2) => format!("s2={}", heq(&s1, &s2)),
            Err(_) => "s2=err".into(),
        },
        Err(_) => "s2=noparse".into(),
    });
    // plain and pretty (both crates) decode to equal values
    let dec = |name: &str, r: Result<String, String>| -> String {
        match r {
            Err(_) => format!("{name}=err"),
            Ok(s) => match toml::from_str::<toml::Value>(&s) {
                Err(_) => format!("{name}=noparse:{}", hex(s.as_bytes())),
                Ok(x) => {
                    let d = tomlvalue_string(&x, true);
                    match &d1 {
                        Some(r) => format!("{name}={}", rel(&d, r)),
                        None => format!("{name}={d}"),
                    }
                }
            },
        }
    };
    out.push(format!("d1={}", d1.clone().unwrap_or_else(|| "noparse".into())));
    let sp = toml::to_string_pretty(&tv).map_err(|e| e.to_string());
    out.push(dec("dp", sp.clone()));
    out.push(dec("de", toml_edit::ser::to_string(&tv).map_err(|e| e.to_string())));
    out.push(dec("dep", toml_edit::ser::to_string_pretty(&tv).map_err(|e| e.to_string())));
    // pretty fixpoint
    if let Ok(sp) = &sp {
        out.push(match toml::from_str::<toml::Value>(sp).map_err(|e| e.to_string()).and_then(|x| toml::to_string_pretty(&x).map_err(|e| e.to_string())) {
            Ok(s) => format!("sp2={}", heq(sp, &s)),
            Err(_) => "sp2=err".into(),
        });
    }
    // parsing a toml::Table and printing it twice gives the same text
    out.push(match s1.parse::<toml::Table>() {
        Err(_) => "tt=noparse".into(),
        Ok(t) => {
            let p1 = t.to_string();
            match p1.parse::<toml::Table>() {
                Err(_) => format!("tt=noparse2:{}", hex(p1.as_bytes())),
                Ok(t2) => {
                    let p2 = t2.to_string();
                    if p1 == p2 {
                        format!("tt=ok:{}", heq(&s1, &p1))
                    } else {
                        format!("tt=DIFF:{}/{}", hex(p1.as_bytes()), hex(p2.as_bytes()))
                    }
                }
            }
        }
    });
    out.join(" ")
}

/// does the text list each table's own key/values before its sub-tables and arrays of tables?
/// Checked on the parsed document: a header-defined table's `position` must be larger than its
/// parent's, and a table holding values must not be implicit/dotted-only by accident.  The
/// second, independent check (on the decoded value) is the python oracle's.
fn values_first(doc: &toml_edit::DocumentMut) -> bool {
    fn walk(t: &toml_edit::Table, parent_pos: Option<usize>) -> bool {
        let my = t.position().or(parent_pos);
        for (_, item) in t.iter() {
            match item {
                toml_edit::Item::Table(c) => {
                    if let (Some(p), Some(q)) = (my, c.position()) {
                        if q <= p && !t.is_implicit() && !c.is_dotted() {
                            return false;
                        }
                    }
                    if !walk(c, my) {
                        return false;
                    }
                }
                toml_edit::Item::ArrayOfTables(a) => {
                    for c in a.iter() {
                        if let (Some(p), Some(q)) = (my, c.position()) {
                            if q <= p && !t.is_implicit() {
                                return false;
                            }
                        }
                        if !walk(c, my) {
                            return false;
                        }
                    }
                }
                _ => {}
            }
        }
        true
    }
    walk(doc.as_table(), None)
}

fn cmd_display(args: &Args) -> String {
    let v = match args.first().ok_or("BADCASE args".to_string()).and_then(|a| arg_str(a)).and_then(|s| {
        let mut t = Toks::new(s);
        parse_tomlvalue(&mut t).map_err(|e| format!("BADCASE value {e}"))
    }) {
        Ok(v) => v,
        Err(e) => return e,
    };
    let d0 = tomlvalue_string(&v, true);
    let mut out = vec![format!("order={}", tomlvalue_string(&v, false))];
    let mut doc_route = |name: &str, r: Result<String, String>| match r {
        Err(m) => out.push(format!("{name}=err({})", ser_kind(&m))),
        Ok(s) => {
            let back = match toml::from_str::<toml::Value>(&s) {
                Ok(x) => rel(&tomlvalue_string(&x, true), &d0),
                Err(_) => "noparse".into(),
            };
            let vb = match s.parse::<toml_edit::DocumentMut>() {
                Ok(d) => {
                    if values_first(&d) {
                        "vf"
                    } else {
                        "VALUES-AFTER-TABLES"
                    }
                }
                Err(_) => "noparse",
            };
            out.push(format!("{name}=ok:{};{};{}", hex(s.as_bytes()), back, vb));
        }
    };
    doc_route("doc", toml::to_string(&v).map_err(|e| e.to_string()));
    doc_route("pretty", toml::to_string_pretty(&v).map_err(|e| e.to_string()));
    doc_route("edit", toml_edit::ser::to_string(&v).map_err(|e| e.to_string()));
    doc_route("editp", toml_edit::ser::to_string_pretty(&v).map_err(|e| e.to_string()));
    if let toml::Value::Table(t) = &v {
        let p1 = t.to_string();
        let p2 = t.to_string();
        doc_route("tab", if p1 == p2 { Ok(p1) } else { Err("nondeterministic".into()) });
    }
    // Display of the Value itself: an inline value
    let inl = v.to_string();
    let back = {
        use serde::Deserialize;
        match toml::Value::deserialize(toml::de::ValueDeserializer::new(&inl)) {
            Ok(x) => rel(&tomlvalue_string(&x, true), &d0),
            Err(_) => "noparse".into(),
        }
    };
    out.push(format!("inl=ok:{};{}", hex(inl.as_bytes()), back));
    out.join(" ")
}

// ---- C14, serde half -------------------------------------------------------------------------
/// the type without its Spanned wrappers
fn erase_ty(t: &DynType) -> DynType {
    let fields = |f: &Fields| Fields { names: f.names, tys: f.tys.iter().map(erase_ty).collect() };
    match t {
        DynType::Spanned(x) => erase_ty(x),
        DynType::Opt(x) => DynType::Opt(Box::new(erase_ty(x))),
        DynType::Seq(x) => DynType::Seq(Box::new(erase_ty(x))),
        DynType::Tuple(xs) => DynType::Tuple(xs.iter().map(erase_ty).collect()),
        DynType::Map(k, v) => DynType::Map(Box::new(erase_ty(k)), Box::new(erase_ty(v))),
        DynType::Struct(n, f) => DynType::Struct(n, fields(f)),
        DynType::Newtype(n, x) => DynType::Newtype(n, Box::new(erase_ty(x))),
        DynType::TupleStruct(n, xs) => DynType::TupleStruct(n, xs.iter().map(erase_ty).collect()),
        DynType::Enum(n, names, vs) => DynType::Enum(
            n,
            names,
            vs.iter()
                .map(|v| match v {
                    Variant::Unit => Variant::Unit,
                    Variant::Newtype(x) => Variant::Newtype(erase_ty(x)),
                    Variant::Tuple(xs) => Variant::Tuple(xs.iter().map(erase_ty).collect()),
                    Variant::Struct(f) => Variant::Struct(fields(f)),
                })
                .collect(),
        ),
        DynType::Bool => DynType::Bool,
        DynType::Int(w) => DynType::Int(*w),
        DynType::F32 => DynType::F32,
        DynType::F64 => DynType::F64,
        DynType::Char => DynType::Char,
        DynType::Str => DynType::Str,
        DynType::Dt(k) => DynType::Dt(*k),
        DynType::Unit => DynType::Unit,
        DynType::Value => DynType::Value,
        DynType::UnitStruct(n) => DynType::UnitStruct(n),
    }
}

fn span_str(r: Option<std::ops::Range<usize>>) -> String {
    match r {
        Some(r) => format!("{}-{}", r.start, r.end),
        None => "none".into(),
    }
}

/// the document's own spans as a tree: v<span> | L<n>:<span> node*n | T<n>:<span> (K<hexkey>:<span> node)*n
fn span_item(item: &toml_edit::Item, out: &mut Vec<String>) {
    match item {
        toml_edit::Item::None => out.push("vnone".into()),
        toml_edit::Item::Value(v) => span_value(v, out),
        toml_edit::Item::Table(t) => {
            out.push(format!("T{}:{}", t.len(), span_str(t.span())));
            for (k, v) in t.iter() {
                out.push(format!("K{}:{}", hex_nodash(k), span_str(t.key(k).and_then(|k| k.span()))));
                span_item(v, out);
            }
        }
        toml_edit::Item::ArrayOfTables(a) => {
            out.push(format!("L{}:{}", a.len(), span_str(a.span())));
            for t in a.iter() {
                out.push(format!("T{}:{}", t.len(), span_str(t.span())));
                for (k, v) in t.iter() {
                    out.push(format!("K{}:{}", hex_nodash(k), span_str(t.key(k).and_then(|k| k.span()))));
                    span_item(v, out);
                }
            }
        }
    }
}

fn span_value(v: &toml_edit::Value, out: &mut Vec<String>) {
    match v {
        toml_edit::Value::Array(a) => {
            out.push(format!("L{}:{}", a.len(), span_str(a.span())));
            for e in a.iter() {
                span_value(e, out);
            }
        }
        toml_edit::Value::InlineTable(t) => {
            out.push(format!("T{}:{}", t.len(), span_str(t.span())));
            for (k, e) in t.iter() {
                out.push(format!("K{}:{}", hex_nodash(k), span_str(t.key(k).and_then(|k| k.span()))));
                span_value(e, out);
            }
        }
        other => out.push(format!("v{}", span_str(other.span()))),
    }
}

fn cmd_spanned(args: &Args) -> String {
    if args.len() < 2 {
        return "BADCASE args".into();
    }
    let ty = match arg_str(&args[0]).and_then(|s| parse_type(s).map_err(|e| format!("BADCASE type {e}"))) {
        Ok(t) => Rc::new(t),
        Err(e) => return e,
    };
    let doc = match arg_str(&args[1]) {
        Ok(s) => s,
        Err(_) => return "BADCASE utf8".into(),
    };
    let plain = Rc::new(erase_ty(&ty));
    let show = |r: Result<DynOwned, String>| match r {
        Ok(d) => format!("ok:{}", dyn_string(&d.0)),
        Err(_) => "err".to_string(),
    };
    let im = toml_edit::ImDocument::parse(doc.to_string());
    let mut out = vec![format!("valid={}", im.is_ok() as u8)];
    out.push(format!("w_t={}", show(with_type(&ty, || decode_doc::<DynOwned>(0, doc)))));
    out.push(format!("w_e={}", show(with_type(&ty, || decode_doc::<DynOwned>(1, doc)))));
    out.push(format!("p_t={}", show(with_type(&plain, || decode_doc::<DynOwned>(0, doc)))));
    out.push(format!("p_e={}", show(with_type(&plain, || decode_doc::<DynOwned>(1, doc)))));
    // a DocumentMut has no spans: Spanned<..> cannot be delivered through from_document(DocumentMut)
    out.push(format!("w_edoc={}", show(with_type(&ty, || decode_doc::<DynOwned>(3, doc)))));
    if let Ok(d) = &im {
        let mut toks = Vec::new();
        span_item(d.as_item(), &mut toks);
        out.push(format!("doc={}", toks.join(",")));
    }
    out.join(" ")
}

/// real `Spanned<T>` fields (the family of harness/src/spanned.rs) against their dynserde twin
mod spanned_real {
    use serde::Deserialize;
    use serde_spanned::Spanned;
    #[derive(Deserialize, Debug)]
    pub struct InnerS {
        pub x: Spanned<i64>,
        #[serde(default)]
        pub y: Option<Spanned<String>>,
    }
    #[derive(Deserialize, Debug)]
    pub struct Wrapped {
        pub a: Spanned<i64>,
        pub b: Spanned<String>,
        pub c: Spanned<Vec<Spanned<i64>>>,
        pub t: Spanned<InnerS>,
        #[serde(default)]
        pub u: Vec<Spanned<InnerS>>,
        #[serde(default)]
        pub f: Option<Spanned<i64>>,
    }
}

fn cmd_spanned_fidelity(args: &Args) -> String {
    use spanned_real::*;
    let doc = match args.first().map(|a| arg_str(a)) {
        Some(Ok(s)) => s,
        _ => return "BADCASE args".into(),
    };
    // the twin: S{a: Y i64, b: Y s, c: Y L Y i64, t: Y S{x: Y i64, y: O Y s}, u: L Y S{..} (default), f: O Y i64}
    // `#[serde(default)]` on a Vec field is written here as an Option around it (missing => None)
    let inner = "S2,496e6e657253,78,Y,i64,79,O,Y,s";
    let tys = format!("S6,57726170706564,61,Y,i64,62,Y,s,63,Y,L,Y,i64,74,Y,{inner},75,O,L,Y,{inner},66,O,Y,i64");
    let ty = Rc::new(parse_type(&tys).expect("twin type"));
    let sp = |a: usize, b: usize, v: Dyn| Dyn::Spanned(a, b, Box::new(v));
    let inner_dyn = |i: &InnerS| {
        Dyn::Rec(vec![
            sp(i.x.span().start, i.x.span().end, Dyn::Int(*i.x.get_ref() as i128)),
            match &i.y {
                None => Dyn::None,
                Some(y) => Dyn::Some(Box::new(sp(y.span().start, y.span().end, Dyn::Str(y.get_ref().clone())))),
            },
        ])
    };
    let to_dyn = |w: &Wrapped, u_present: bool| {
        Dyn::Rec(vec![
            sp(w.a.span().start, w.a.span().end, Dyn::Int(*w.a.get_ref() as i128)),
            sp(w.b.span().start, w.b.span().end, Dyn::Str(w.b.get_ref().clone())),
            sp(
                w.c.span().start,
                w.c.span().end,
                Dyn::Seq(w.c.get_ref().iter().map(|x| sp(x.span().start, x.span().end, Dyn::Int(*x.get_ref() as i128))).collect()),
            ),
            sp(w.t.span().start, w.t.span().end, inner_dyn(w.t.get_ref())),
            if u_present {
                Dyn::Some(Box::new(Dyn::Seq(w.u.iter().map(|x| sp(x.span().start, x.span().end, inner_dyn(x.get_ref()))).collect())))
            } else {
                Dyn::None
            },
            match &w.f {
                None => Dyn::None,
                Some(f) => Dyn::Some(Box::new(sp(f.span().start, f.span().end, Dyn::Int(*f.get_ref() as i128)))),
            },
        ])
    };
    let mut out = Vec::new();
    for (name, route) in [("t", 0usize), ("e", 1usize)] {
        let real: Result<Wrapped, String> = decode_doc::<Wrapped>(route, doc);
        let twin = with_type(&ty, || decode_doc::<DynOwned>(route, doc));
        let verdict = match (&real, &twin) {
            (Err(a), Err(b)) => {
                if a == b {
                    "same-err".to_string()
                } else {
                    format!("DIFF-ERR:{}/{}", hex(a.as_bytes()), hex(b.as_bytes()))
                }
            }
            (Ok(w), Ok(d)) => {
                let u_present = matches!(&d.0, Dyn::Rec(v) if !matches!(v[4], Dyn::None));
                let a = dyn_string(&to_dyn(w, u_present));
                let b = dyn_string(&d.0);
                if a == b {
                    "same-ok".to_string()
                } else {
                    format!("DIFF:{a}/{b}")
                }
            }
            (Ok(_), Err(b)) => format!("DIFF:real-ok/twin-err:{}", hex(b.as_bytes())),
            (Err(a), Ok(_)) => format!("DIFF:real-err:{}/twin-ok", hex(a.as_bytes())),
        };
        out.push(format!("{name}={verdict}"));
    }
    out.join(" ")
}

/// real map KEY types with Spanned / newtype wrappers nested in every order, against their dynserde twin
mod spanned_key_real {
    use serde::Deserialize;
    use serde_spanned::Spanned;
    use std::collections::BTreeMap;
    #[derive(Deserialize, Debug, PartialEq, Eq, PartialOrd, Ord)]
    pub struct KW(pub String);
    #[derive(Deserialize, Debug, PartialEq, Eq, PartialOrd, Ord)]
    pub struct KWS(pub Spanned<String>);
    #[derive(Deserialize, Debug)]
    pub struct KeyFam {
        pub m1: Option<BTreeMap<Spanned<KW>, i64>>,
        pub m2: Option<BTreeMap<Spanned<Spanned<String>>, i64>>,
        pub m3: Option<BTreeMap<KWS, i64>>,
        pub m4: Option<BTreeMap<Spanned<KWS>, i64>>,
    }
}

fn cmd_spanned_key_fidelity(args: &Args) -> String {
    use spanned_key_real::*;
    let doc = match args.first().map(|a| arg_str(a)) {
        Some(Ok(s)) => s,
        _ => return "BADCASE args".into(),
    };
    // the twin: S{m1: O M (Y N KW s) i64, m2: O M (Y Y s) i64, m3: O M (N KWS Y s) i64, m4: O M (Y N KWS Y s) i64}
    let tys = "S4,4b657946616d,6d31,O,M,Y,N,4b57,s,i64,6d32,O,M,Y,Y,s,i64,6d33,O,M,N,4b5753,Y,s,i64,6d34,O,M,Y,N,4b5753,Y,s,i64";
    let ty = Rc::new(parse_type(tys).expect("twin type"));
    fn sp<T>(s: &serde_spanned::Spanned<T>, v: Dyn) -> Dyn {
        Dyn::Spanned(s.span().start, s.span().end, Box::new(v))
    }
    let opt = |m: Option<Vec<(Dyn, Dyn)>>| match m {
        None => Dyn::None,
        Some(es) => Dyn::Some(Box::new(Dyn::Map(es))),
    };
    let to_dyn = |w: &KeyFam| {
        Dyn::Rec(vec![
            opt(w.m1.as_ref().map(|m| {
                m.iter().map(|(k, v)| (sp(k, Dyn::Newtype(Box::new(Dyn::Str(k.get_ref().0.clone())))), Dyn::Int(*v as i128))).collect()
            })),
            opt(w.m2.as_ref().map(|m| {
                m.iter().map(|(k, v)| (sp(k, sp(k.get_ref(), Dyn::Str(k.get_ref().get_ref().clone()))), Dyn::Int(*v as i128))).collect()
            })),
            opt(w.m3.as_ref().map(|m| {
                m.iter().map(|(k, v)| (Dyn::Newtype(Box::new(sp(&k.0, Dyn::Str(k.0.get_ref().clone())))), Dyn::Int(*v as i128))).collect()
            })),
            opt(w.m4.as_ref().map(|m| {
                m.iter()
                    .map(|(k, v)| {
                        let inner = &k.get_ref().0;
                        (sp(k, Dyn::Newtype(Box::new(sp(inner, Dyn::Str(inner.get_ref().clone()))))), Dyn::Int(*v as i128))
                    })
                    .collect()
            })),
        ])
    };
    let mut out = Vec::new();
    for (name, route) in [("t", 0usize), ("e", 1usize)] {
        let real: Result<KeyFam, String> = decode_doc::<KeyFam>(route, doc);
        let twin = with_type(&ty, || decode_doc::<DynOwned>(route, doc));
        let verdict = match (&real, &twin) {
            (Err(a), Err(b)) => {
                if a == b {
                    "same-err".to_string()
                } else {
                    format!("DIFF-ERR:{}/{}", hex(a.as_bytes()), hex(b.as_bytes()))
                }
            }
            (Ok(w), Ok(d)) => {
                let a = dyn_string(&to_dyn(w));
                let b = dyn_string(&d.0);
                if a == b {
                    "same-ok".to_string()
                } else {
                    format!("DIFF:{a}/{b}")
                }
            }
            (Ok(_), Err(b)) => format!("DIFF:real-ok/twin-err:{}", hex(b.as_bytes())),
            (Err(a), Ok(_)) => format!("DIFF:real-err:{}/twin-ok", hex(a.as_bytes())),
        };
        out.push(format!("{name}={verdict}"));
    }
    out.join(" ")
}

fn run_cmd(cmd: &str, args: &Args) -> String {
    match cmd {
        "fidelity" => cmd_fidelity(args),
        "ser" => cmd_ser(args),
        "consts" => cmd_consts(),
        "spanned" => cmd_spanned(args),
        "spanned_fidelity" => cmd_spanned_fidelity(args),
        "spanned_key_fidelity" => cmd_spanned_key_fidelity(args),
        "routes" => cmd_routes(args),
        "slice" => cmd_slice(args),
        "routes_ser" => cmd_routes_ser(args),
        "tryfrom" => cmd_tryfrom(args),
        "canon" => cmd_canon(args),
        "display" => cmd_display(args),
        _ => "unknown-command".to_string(),
    }
}

fn main() {
    verif_harness::main_loop(run_cmd);
}
