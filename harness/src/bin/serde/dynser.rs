//! dynserde, part 2: `impl Serialize` for a (type descriptor, value) pair, making exactly the
//! calls `serde_derive` (structs, enums) and serde's std impls (Option, Vec, tuples, maps,
//! primitives) make.  Checked against real derived types by the `fidelity` command.
use crate::dynty::*;
use serde::ser::{
    Serialize, SerializeStruct, SerializeStructVariant, SerializeTuple, SerializeTupleStruct,
    SerializeTupleVariant, Serializer,
};

pub struct Typed<'a>(pub &'a DynType, pub &'a Dyn);

fn mismatch<E: serde::ser::Error>(t: &DynType, v: &Dyn) -> E {
    E::custom(format!("DYN-TYPE-MISMATCH {t:?} / {v:?}"))
}

impl Serialize for Typed<'_> {
    fn serialize<S: Serializer>(&self, s: S) -> Result<S::Ok, S::Error> {
        let (ty, v) = (self.0, self.1);
        match (ty, v) {
            (DynType::Bool, Dyn::Bool(b)) => s.serialize_bool(*b),
            (DynType::Int(w), Dyn::Int(i)) => {
                let i = *i;
                match w {
                    IntW::I8 => s.serialize_i8(i8::try_from(i).map_err(|_| mismatch::<S::Error>(ty, v))?),
                    IntW::I16 => s.serialize_i16(i16::try_from(i).map_err(|_| mismatch::<S::Error>(ty, v))?),
                    IntW::I32 => s.serialize_i32(i32::try_from(i).map_err(|_| mismatch::<S::Error>(ty, v))?),
                    IntW::I64 => s.serialize_i64(i64::try_from(i).map_err(|_| mismatch::<S::Error>(ty, v))?),
                    IntW::I128 => s.serialize_i128(i),
                    IntW::U8 => s.serialize_u8(u8::try_from(i).map_err(|_| mismatch::<S::Error>(ty, v))?),
                    IntW::U16 => s.serialize_u16(u16::try_from(i).map_err(|_| mismatch::<S::Error>(ty, v))?),
                    IntW::U32 => s.serialize_u32(u32::try_from(i).map_err(|_| mismatch::<S::Error>(ty, v))?),
                    IntW::U64 => s.serialize_u64(u64::try_from(i).map_err(|_| mismatch::<S::Error>(ty, v))?),
                    IntW::U128 => s.serialize_u128(u128::try_from(i).map_err(|_| mismatch::<S::Error>(ty, v))?),
                }
            }
            (DynType::Int(IntW::U128), Dyn::UBig(i)) => s.serialize_u128(*i),
            (DynType::F32, Dyn::F32(f)) => s.serialize_f32(*f),
            (DynType::F64, Dyn::F64(f)) => s.serialize_f64(*f),
            (DynType::Char, Dyn::Char(c)) => s.serialize_char(*c),
            (DynType::Str, Dyn::Str(x)) => s.serialize_str(x),
            // date-time leaves: the real types' own Serialize
            (DynType::Dt(DtKind::Datetime), Dyn::Dt(d)) => d.serialize(s),
            (DynType::Dt(DtKind::Date), Dyn::Dt(d)) => match (d.date, d.time, d.offset) {
                (Some(date), None, None) => date.serialize(s),
                _ => Err(mismatch::<S::Error>(ty, v)),
            },
            (DynType::Dt(DtKind::Time), Dyn::Dt(d)) => match (d.date, d.time, d.offset) {
                (None, Some(time), None) => time.serialize(s),
                _ => Err(mismatch::<S::Error>(ty, v)),
            },
            (DynType::Unit, Dyn::Unit) => s.serialize_unit(),
            (DynType::Value, Dyn::Value(x)) => x.serialize(s),
            // impl Serialize for Option<T>
            (DynType::Opt(_), Dyn::None) => s.serialize_none(),
            (DynType::Opt(t), Dyn::Some(x)) => s.serialize_some(&Typed(t, x)),
            // impl Serialize for Spanned<T>: self.value.serialize(serializer)
            (DynType::Spanned(t), Dyn::Spanned(_, _, x)) => Typed(t, x).serialize(s),
            // impl Serialize for Vec<T>: serializer.collect_seq(self)
            (DynType::Seq(t), Dyn::Seq(xs)) => s.collect_seq(xs.iter().map(|x| Typed(t, x))),
            // impl Serialize for (T0, T1, ..)
            (DynType::Tuple(ts), Dyn::Seq(xs)) if ts.len() == xs.len() => {
                let mut q = s.serialize_tuple(ts.len())?;
                for (t, x) in ts.iter().zip(xs) {
                    q.serialize_element(&Typed(t, x))?;
                }
                q.end()
            }
            // impl Serialize for BTreeMap / HashMap: serializer.collect_map(self)
            (DynType::Map(kt, vt), Dyn::Map(es)) => s.collect_map(es.iter().map(|(k, x)| (Typed(kt, k), Typed(vt, x)))),
            // #[derive(Serialize)] struct
            (DynType::Struct(name, fs), Dyn::Rec(xs)) if fs.tys.len() == xs.len() => {
                let mut q = s.serialize_struct(name, fs.tys.len())?;
                for ((n, t), x) in fs.names.iter().zip(&fs.tys).zip(xs) {
                    q.serialize_field(n, &Typed(t, x))?;
                }
                q.end()
            }
            (DynType::Newtype(name, t), Dyn::Newtype(x)) => s.serialize_newtype_struct(name, &Typed(t, x)),
            (DynType::TupleStruct(name, ts), Dyn::Seq(xs)) if ts.len() == xs.len() => {
                let mut q = s.serialize_tuple_struct(name, ts.len())?;
                for (t, x) in ts.iter().zip(xs) {
                    q.serialize_field(&Typed(t, x))?;
                }
                q.end()
            }
            (DynType::UnitStruct(name), Dyn::Unit) => s.serialize_unit_struct(name),
            // #[derive(Serialize)] enum
            (DynType::Enum(name, vnames, vs), Dyn::Variant(idx, p)) if (*idx as usize) < vs.len() => {
                let vn = vnames[*idx as usize];
                match (&vs[*idx as usize], &**p) {
                    (Variant::Unit, Dyn::Unit) => s.serialize_unit_variant(name, *idx, vn),
                    (Variant::Newtype(t), x) => s.serialize_newtype_variant(name, *idx, vn, &Typed(t, x)),
                    (Variant::Tuple(ts), Dyn::Seq(xs)) if ts.len() == xs.len() => {
                        let mut q = s.serialize_tuple_variant(name, *idx, vn, ts.len())?;
                        for (t, x) in ts.iter().zip(xs) {
                            q.serialize_field(&Typed(t, x))?;
                        }
                        q.end()
                    }
                    (Variant::Struct(fs), Dyn::Rec(xs)) if fs.tys.len() == xs.len() => {
                        let mut q = s.serialize_struct_variant(name, *idx, vn, fs.tys.len())?;
                        for ((n, t), x) in fs.names.iter().zip(&fs.tys).zip(xs) {
                            q.serialize_field(n, &Typed(t, x))?;
                        }
                        q.end()
                    }
                    _ => Err(mismatch::<S::Error>(ty, v)),
                }
            }
            _ => Err(mismatch::<S::Error>(ty, v)),
        }
    }
}
