//! the encoding and decoding routes of the two crates, generic over the (real or dynamic) type
use serde::de::DeserializeOwned;
use serde::Serialize;

pub const ENC_NAMES: [&str; 7] = ["tp", "tpp", "ep", "epp", "doc", "val", "tab"];

pub enum Enc {
    Text(String),
    Doc(toml_edit::DocumentMut),
    Val(toml::Value),
    Tab(toml::Table),
}

/// the 7 encoding routes of C07
pub fn encode<T: Serialize + ?Sized>(route: usize, v: &T) -> Result<Enc, String> {
    match route {
        0 => toml::to_string(v).map(Enc::Text).map_err(|e| e.to_string()),
        1 => toml::to_string_pretty(v).map(Enc::Text).map_err(|e| e.to_string()),
        2 => toml_edit::ser::to_string(v).map(Enc::Text).map_err(|e| e.to_string()),
        3 => toml_edit::ser::to_string_pretty(v).map(Enc::Text).map_err(|e| e.to_string()),
        4 => toml_edit::ser::to_document(v).map(Enc::Doc).map_err(|e| e.to_string()),
        5 => toml::Value::try_from(v).map(Enc::Val).map_err(|e| e.to_string()),
        6 => toml::Table::try_from(v).map(Enc::Tab).map_err(|e| e.to_string()),
        _ => unreachable!(),
    }
}

/// small enum of serialization error kinds, derived from the message
pub fn ser_kind(msg: &str) -> &'static str {
    if msg.contains("DYN-TYPE-MISMATCH") {
        "BADCASE"
    } else if msg == "unsupported None value" {
        "unsupported-none"
    } else if msg == "unsupported unit type" {
        "unsupported-unit"
    } else if msg == "unsupported rust type" {
        "root-not-table"
    } else if msg.starts_with("unsupported ") && msg.ends_with(" type") {
        "unsupported-type"
    } else if msg == "map key was not a string" {
        "key-not-string"
    } else if msg.starts_with("out-of-range value") || msg == "u64 value was too large" {
        "out-of-range"
    } else if msg == "i128 is not supported" || msg == "u128 is not supported" {
        "int128"
    } else if msg == "a serialized date was invalid" {
        "date-invalid"
    } else {
        "other"
    }
}

pub const DEC_DOC_NAMES: [&str; 8] = ["t", "e", "esl", "edoc", "eim", "tval", "ttab", "efs"];
pub const DEC_VAL_NAMES: [&str; 3] = ["tvd", "evd", "tvdval"];

/// the decoding routes of C13 that take a document
pub fn decode_doc<T: DeserializeOwned>(route: usize, s: &str) -> Result<T, String> {
    match route {
        0 => toml::from_str::<T>(s).map_err(|e| e.to_string()),
        1 => toml_edit::de::from_str::<T>(s).map_err(|e| e.to_string()),
        2 => toml_edit::de::from_slice::<T>(s.as_bytes()).map_err(|e| e.to_string()),
        3 => {
            let d = s.parse::<toml_edit::DocumentMut>().map_err(|e| e.to_string())?;
            toml_edit::de::from_document::<T>(d).map_err(|e| e.to_string())
        }
        4 => {
            let d = toml_edit::ImDocument::parse(s.to_string()).map_err(|e| e.to_string())?;
            toml_edit::de::from_document::<T>(d).map_err(|e| e.to_string())
        }
        5 => {
            let v = toml::from_str::<toml::Value>(s).map_err(|e| e.to_string())?;
            v.try_into::<T>().map_err(|e| e.to_string())
        }
        6 => {
            let v = s.parse::<toml::Table>().map_err(|e| e.to_string())?;
            v.try_into::<T>().map_err(|e| e.to_string())
        }
        7 => {
            let d = s.parse::<toml_edit::de::Deserializer>().map_err(|e| e.to_string())?;
            T::deserialize(d).map_err(|e| e.to_string())
        }
        _ => unreachable!(),
    }
}

/// the decoding routes of C13 that take the text of a single value
pub fn decode_val<T: DeserializeOwned>(route: usize, s: &str) -> Result<T, String> {
    match route {
        0 => T::deserialize(toml::de::ValueDeserializer::new(s)).map_err(|e| e.to_string()),
        1 => {
            let d = s.parse::<toml_edit::de::ValueDeserializer>().map_err(|e| e.to_string())?;
            T::deserialize(d).map_err(|e| e.to_string())
        }
        2 => {
            use serde::Deserialize;
            let v = toml::Value::deserialize(toml::de::ValueDeserializer::new(s)).map_err(|e| e.to_string())?;
            v.try_into::<T>().map_err(|e| e.to_string())
        }
        _ => unreachable!(),
    }
}

/// round trip of an encoding result through the matching decoder(s)
pub fn decode_enc<T: DeserializeOwned>(e: &Enc) -> Vec<(&'static str, Result<T, String>)> {
    match e {
        Enc::Text(s) => vec![("T", decode_doc::<T>(0, s)), ("E", decode_doc::<T>(1, s))],
        Enc::Doc(d) => vec![("D", toml_edit::de::from_document::<T>(d.clone()).map_err(|e| e.to_string()))],
        Enc::Val(v) => vec![("V", v.clone().try_into::<T>().map_err(|e| e.to_string()))],
        Enc::Tab(t) => vec![("V", t.clone().try_into::<T>().map_err(|e| e.to_string()))],
    }
}

/// the inline text of a single value (what toml::ser::ValueSerializer writes)
pub fn value_text<T: Serialize + ?Sized>(v: &T) -> Result<String, String> {
    let mut s = String::new();
    v.serialize(toml::ser::ValueSerializer::new(&mut s)).map_err(|e| e.to_string())?;
    Ok(s)
}
