//! core observations: date-times, documents, values.
use verif_harness::{dt, tree, Args};

fn run_cmd(cmd: &str, args: &Args) -> String {
    match cmd {
        "dt" => dt::cmd_dt(args),
        "dtp" => dt::cmd_dtp(args),
        "doc" => tree::cmd_doc(args),
        "val" => tree::cmd_val(args),
        "acc" => tree::cmd_acc(args),
        "accv" => tree::cmd_accv(args),
        "docf" => tree::cmd_docf(args),
        "spanned" => verif_harness::spanned::cmd_spanned(args),
        "spans" => verif_harness::spans::cmd_spans(args),
        "fuzz" => verif_harness::fuzz::cmd_fuzz(args),
        "depth" => verif_harness::depth::cmd_depth(args),
        "rt" => tree::cmd_rt(args),
        "docv" => tree::cmd_docv(args),
        _ => "unknown-command".to_string(),
    }
}

fn main() {
    if std::env::args().nth(1).as_deref() == Some("--depth-child") {
        verif_harness::depth::child_main();
        return;
    }
    verif_harness::main_loop(run_cmd);
}
