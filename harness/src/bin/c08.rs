//! C08 observations: structural edits through the public API of `toml_edit`, printed after every step.
//!
//! `edit <document> <ops>`: parse the document as `DocumentMut`, apply each operation with the real
//! API, print after EVERY step.  Steps are joined by `|`; step 0 is the unedited document:
//!   a@<hex of to_string()>@<ok|err>@<canonical dump of the re-parsed text | ->@<fragments>   applied
//!   s                                                                                       skipped
//! An operation is tried on a clone of the document; when a typed accessor on the way returns `None`
//! (the operation is not offered there) or the call panics, the clone is dropped and the step prints `s`.
//! The fragment field (5th) is only printed here, not by the model: for every entry of the re-parsed
//! text its path and its own formatting (key decor/repr, value decor/repr, table header decor),
//! `path=piece~piece~...` joined by `;` (hex pieces, `_` = absent).
//!
//! ops: see coq/Extract/Cmd_c08.v (same syntax).
use std::panic::{catch_unwind, AssertUnwindSafe};
use toml_edit::{Array, ArrayOfTables, DocumentMut, InlineTable, Item, Key, RawString, Table, Value};
use verif_harness::dt::show_datetime;
use verif_harness::tree::show_f64;
use verif_harness::util::{hex, unhex};
use verif_harness::Args;

// ---------------------------------------------------------------------------------------------
// decoding
// ---------------------------------------------------------------------------------------------
#[derive(Clone, Debug)]
enum Seg {
    Key(String),
    Idx(usize),
}

#[derive(Clone, Debug)]
enum Pv {
    Int(i64),
    Str(String),
    Bool(bool),
    Arr(Vec<Pv>),
    Inl(Vec<(String, Pv)>),
}

fn ustr(h: &str) -> Option<String> {
    String::from_utf8(unhex_plain(h)).ok()
}
fn unhex_plain(h: &str) -> Vec<u8> {
    if h.is_empty() {
        Vec::new()
    } else {
        unhex(h)
    }
}

fn parse_pv(s: &[u8], pos: &mut usize) -> Option<Pv> {
    let c = *s.get(*pos)?;
    *pos += 1;
    let until = |pos: &mut usize, stop: u8| -> Option<String> {
        let start = *pos;
        while *s.get(*pos)? != stop {
            *pos += 1;
        }
        let out = std::str::from_utf8(&s[start..*pos]).ok()?.to_string();
        *pos += 1;
        Some(out)
    };
    match c {
        b'I' => Some(Pv::Int(until(pos, b'.')?.parse().ok()?)),
        b'S' => Some(Pv::Str(ustr(&until(pos, b'.')?)?)),
        b'T' => Some(Pv::Bool(true)),
        b'F' => Some(Pv::Bool(false)),
        b'A' => {
            let mut v = Vec::new();
            loop {
                if *s.get(*pos)? == b']' {
                    *pos += 1;
                    return Some(Pv::Arr(v));
                }
                v.push(parse_pv(s, pos)?);
            }
        }
        b'M' => {
            let mut v = Vec::new();
            loop {
                if *s.get(*pos)? == b'}' {
                    *pos += 1;
                    return Some(Pv::Inl(v));
                }
                let k = ustr(&until(pos, b'=')?)?;
                v.push((k, parse_pv(s, pos)?));
            }
        }
        _ => None,
    }
}
fn parse_pv_all(s: &str) -> Option<Pv> {
    let mut pos = 0;
    let v = parse_pv(s.as_bytes(), &mut pos)?;
    if pos == s.len() {
        Some(v)
    } else {
        None
    }
}

fn parse_key(s: &str) -> Option<String> {
    ustr(s.strip_prefix('k')?)
}
fn parse_path(s: &str) -> Option<Vec<Seg>> {
    let mut it = s.split('/');
    if it.next()? != "r" {
        return None;
    }
    let mut out = Vec::new();
    for seg in it {
        if let Some(h) = seg.strip_prefix('k') {
            out.push(Seg::Key(ustr(h)?));
        } else if let Some(n) = seg.strip_prefix('i') {
            out.push(Seg::Idx(n.parse().ok()?));
        } else {
            return None;
        }
    }
    Some(out)
}

/// value.rs `From<i64 / &str / bool>`, `Array::from_iter`, `InlineTable::from_iter`
fn build_value(p: &Pv) -> Value {
    match p {
        Pv::Int(z) => Value::from(*z),
        Pv::Str(s) => Value::from(s.as_str()),
        Pv::Bool(b) => Value::from(*b),
        Pv::Arr(l) => Value::Array(l.iter().map(build_value).collect::<Array>()),
        Pv::Inl(l) => Value::InlineTable(l.iter().map(|(k, v)| (k.as_str(), build_value(v))).collect::<InlineTable>()),
    }
}

// ---------------------------------------------------------------------------------------------
// walking to the place of an operation with the typed accessors (nothing is created on the way)
// ---------------------------------------------------------------------------------------------
enum Node<'a> {
    Item(&'a mut Item),
    Value(&'a mut Value),
    Table(&'a mut Table),
}

/// rank used by the `rank` comparator: placeholders, then non-integers (all tied), then integers by value
fn rank_item(i: &Item) -> (u8, i64) {
    match i {
        Item::None => (0, 0),
        Item::Value(Value::Integer(f)) => (2, *f.value()),
        _ => (1, 0),
    }
}
fn rank_value(v: &Value) -> (u8, i64) {
    match v {
        Value::Integer(f) => (2, *f.value()),
        _ => (1, 0),
    }
}

/// the table-like / array-like views of a node
enum View<'a> {
    Table(&'a mut Table),
    Inline(&'a mut InlineTable),
    Array(&'a mut Array),
    Aot(&'a mut ArrayOfTables),
    Other,
}

fn view(n: Node<'_>) -> View<'_> {
    match n {
        Node::Table(t) => View::Table(t),
        Node::Item(Item::Table(t)) => View::Table(t),
        Node::Item(Item::ArrayOfTables(a)) => View::Aot(a),
        Node::Item(Item::Value(v)) | Node::Value(v) => match v {
            Value::InlineTable(t) => View::Inline(t),
            Value::Array(a) => View::Array(a),
            _ => View::Other,
        },
        Node::Item(Item::None) => View::Other,
    }
}

fn step<'a>(n: Node<'a>, s: &Seg) -> Option<Node<'a>> {
    match (view(n), s) {
        (View::Table(t), Seg::Key(k)) => t.get_mut(k).map(Node::Item),
        (View::Inline(t), Seg::Key(k)) => t.get_mut(k).map(Node::Value),
        (View::Array(a), Seg::Idx(i)) => a.get_mut(*i).map(Node::Value),
        (View::Aot(a), Seg::Idx(i)) => a.get_mut(*i).map(Node::Table),
        _ => None,
    }
}

fn walk<'a>(doc: &'a mut DocumentMut, p: &[Seg]) -> Option<Node<'a>> {
    let mut n = Node::Table(doc.as_table_mut());
    for s in p {
        n = step(n, s)?;
    }
    Some(n)
}

// ---------------------------------------------------------------------------------------------
// the operations
// ---------------------------------------------------------------------------------------------
/// Some(()) = the call was made and returned; None = not offered at that place
fn do_op(doc: &mut DocumentMut, f: &[&str]) -> Option<()> {
    let name = f[0];
    if name == "iset" {
        // doc[k1][k2]...[kn] = x
        let keys = parse_path(f[1])?;
        let keys: Vec<String> = keys
            .into_iter()
            .map(|s| match s {
                Seg::Key(k) => Some(k),
                Seg::Idx(_) => None,
            })
            .collect::<Option<_>>()?;
        if keys.is_empty() {
            return None;
        }
        let x = if f[2] == "N" { toml_edit::table() } else { Item::Value(build_value(&parse_pv_all(f[2])?)) };
        let mut slot: &mut Item = &mut doc[keys[0].as_str()];
        for k in &keys[1..] {
            slot = &mut slot[k.as_str()];
        }
        *slot = x;
        return Some(());
    }
    let p = parse_path(f[1])?;
    let node = walk(doc, &p)?;
    match name {
        "ins" => {
            let k = parse_key(f[2])?;
            let v = build_value(&parse_pv_all(f[3])?);
            match view(node) {
                View::Table(t) => {
                    t.insert(&k, Item::Value(v));
                }
                View::Inline(t) => {
                    t.insert(&k, v);
                }
                _ => return None,
            }
        }
        "instab" | "insaot" => {
            let k = parse_key(f[2])?;
            let it = if name == "instab" {
                Item::Table(Table::new())
            } else {
                let mut a = ArrayOfTables::new();
                a.push(Table::new());
                Item::ArrayOfTables(a)
            };
            match view(node) {
                View::Table(t) => {
                    t.insert(&k, it);
                }
                _ => return None,
            }
        }
        "rm" => {
            let k = parse_key(f[2])?;
            match view(node) {
                View::Table(t) => {
                    t.remove(&k);
                }
                View::Inline(t) => {
                    t.remove(&k);
                }
                _ => return None,
            }
        }
        "push" | "ains" | "arep" | "arm" => match view(node) {
            View::Array(a) => match name {
                "push" => a.push(build_value(&parse_pv_all(f[2])?)),
                "ains" => a.insert(f[2].parse().ok()?, build_value(&parse_pv_all(f[3])?)),
                "arep" => {
                    a.replace(f[2].parse().ok()?, build_value(&parse_pv_all(f[3])?));
                }
                _ => {
                    a.remove(f[2].parse().ok()?);
                }
            },
            _ => return None,
        },
        "tpush" | "trm" => match view(node) {
            View::Aot(a) => {
                if name == "tpush" {
                    a.push(Table::new())
                } else {
                    a.remove(f[2].parse().ok()?)
                }
            }
            _ => return None,
        },
        "sort" => match view(node) {
            View::Table(t) => t.sort_values(),
            View::Inline(t) => t.sort_values(),
            _ => return None,
        },
        // the caller's closures of coq/Model/Edit.v `tcmp_le` / `icmp_le` (the vocabulary of c16.rs `sortby`)
        "sortby" => {
            let kdesc = match f[2] {
                "kdesc" => true,
                "rank" => false,
                _ => return None,
            };
            match view(node) {
                View::Table(t) => {
                    if kdesc {
                        t.sort_values_by(|k1, _, k2, _| k2.get().cmp(k1.get()))
                    } else {
                        t.sort_values_by(|_, a, _, b| rank_item(a).cmp(&rank_item(b)))
                    }
                }
                View::Inline(t) => {
                    if kdesc {
                        t.sort_values_by(|k1, _, k2, _| k2.get().cmp(k1.get()))
                    } else {
                        t.sort_values_by(|_, a, _, b| rank_value(a).cmp(&rank_value(b)))
                    }
                }
                _ => return None,
            }
        }
        "fmt" => match view(node) {
            View::Table(t) => t.fmt(),
            View::Inline(t) => t.fmt(),
            View::Array(a) => a.fmt(),
            _ => return None,
        },
        "mkval" | "intotab" | "intoaot" => {
            let k = parse_key(f[2])?;
            let t = match view(node) {
                View::Table(t) => t,
                _ => return None,
            };
            let slot: &mut Item = t.get_mut(&k)?;
            match name {
                "mkval" => slot.make_value(),
                "intotab" => {
                    let it = std::mem::take(slot);
                    *slot = match it.into_table() {
                        Ok(t) => Item::Table(t),
                        Err(i) => i,
                    };
                }
                _ => {
                    let it = std::mem::take(slot);
                    *slot = match it.into_array_of_tables() {
                        Ok(a) => Item::ArrayOfTables(a),
                        Err(i) => i,
                    };
                }
            }
        }
        _ => panic!("unknown op {name}"),
    }
    Some(())
}

// ---------------------------------------------------------------------------------------------
// canonical dump (format of Extract/Show.v: show_tbl), robust against items the typed iterators
// would panic on (a table stored under an inline table)
// ---------------------------------------------------------------------------------------------
fn show_value(v: &Value) -> String {
    match v {
        Value::String(s) => format!("s:{}", hex(s.value().as_bytes())),
        Value::Integer(i) => format!("i:{}", i.value()),
        Value::Float(f) => show_f64(*f.value()),
        Value::Boolean(b) => format!("b:{}", b.value()),
        Value::Datetime(d) => show_datetime(d.value()),
        Value::Array(a) => {
            let parts: Vec<String> = a.iter().map(show_value).collect();
            format!("[{}]", parts.join(","))
        }
        Value::InlineTable(t) => {
            let mut parts = Vec::new();
            for (k, it) in toml_edit::TableLike::iter(t) {
                if let Item::Value(v) = it {
                    parts.push(format!("{}={}", hex(k.as_bytes()), show_value(v)));
                }
            }
            format!("{{{}}}", parts.join(","))
        }
    }
}

fn show_table(t: &Table) -> String {
    let mut parts = Vec::new();
    for (k, it) in t.iter() {
        let k = hex(k.as_bytes());
        match it {
            Item::None => {}
            Item::Value(v) => parts.push(format!("{k}={}", show_value(v))),
            Item::Table(s) => parts.push(format!("{k}={}", show_table(s))),
            Item::ArrayOfTables(a) => {
                let ts: Vec<String> = a.iter().map(show_table).collect();
                parts.push(format!("{k}=A[{}]", ts.join(",")))
            }
        }
    }
    format!("T{{{}}}", parts.join(","))
}

// ---------------------------------------------------------------------------------------------
// fragments: the own formatting of every entry of a (re-parsed, despanned) document
// ---------------------------------------------------------------------------------------------
fn raw(r: Option<&RawString>) -> String {
    match r {
        None => "_".to_string(),
        Some(r) => match r.as_str() {
            Some(s) => hex(s.as_bytes()),
            None => "?".to_string(),
        },
    }
}
fn key_frag(k: &Key) -> String {
    format!(
        "{}~{}~{}~{}~{}",
        raw(k.leaf_decor().prefix()),
        match k.as_repr() {
            Some(r) => raw(Some(r.as_raw())),
            None => "_".to_string(),
        },
        raw(k.leaf_decor().suffix()),
        raw(k.dotted_decor().prefix()),
        raw(k.dotted_decor().suffix())
    )
}
fn value_own(v: &Value) -> String {
    let d = v.decor();
    let repr = |r: Option<&toml_edit::Repr>| match r {
        Some(r) => raw(Some(r.as_raw())),
        None => "_".to_string(),
    };
    let body = match v {
        Value::String(f) => repr(f.as_repr()),
        Value::Integer(f) => repr(f.as_repr()),
        Value::Float(f) => repr(f.as_repr()),
        Value::Boolean(f) => repr(f.as_repr()),
        Value::Datetime(f) => repr(f.as_repr()),
        Value::Array(a) => format!("A{}{}", raw(Some(a.trailing())), if a.trailing_comma() { "c" } else { "n" }),
        Value::InlineTable(t) => format!("I{}{}", if t.is_dotted() { "d" } else { "s" }, raw(Some(t.preamble()))),
    };
    format!("{}~{}~{}", raw(d.prefix()), body, raw(d.suffix()))
}
fn table_own(t: &Table) -> String {
    format!(
        "{}~T{}{}~{}",
        raw(t.decor().prefix()),
        if t.is_implicit() { "i" } else { "e" },
        if t.is_dotted() { "d" } else { "s" },
        raw(t.decor().suffix())
    )
}

fn frags_value(path: &str, v: &Value, out: &mut Vec<String>) {
    match v {
        Value::Array(a) => {
            for (i, e) in a.iter().enumerate() {
                let p = format!("{path}/i{i}");
                out.push(format!("{p}={}", value_own(e)));
                frags_value(&p, e, out);
            }
        }
        Value::InlineTable(t) => {
            for (k, e) in t.iter() {
                let p = format!("{path}/k{}", if k.is_empty() { String::new() } else { hex(k.as_bytes()) });
                let key = t.key(k).expect("key");
                out.push(format!("{p}={}~{}", key_frag(key), value_own(e)));
                frags_value(&p, e, out);
            }
        }
        _ => {}
    }
}
fn frags_table(path: &str, t: &Table, out: &mut Vec<String>) {
    for (k, it) in t.iter() {
        let p = format!("{path}/k{}", if k.is_empty() { String::new() } else { hex(k.as_bytes()) });
        let key = t.key(k).expect("key");
        match it {
            Item::None => {}
            Item::Value(v) => {
                out.push(format!("{p}={}~{}", key_frag(key), value_own(v)));
                frags_value(&p, v, out);
            }
            Item::Table(s) => {
                out.push(format!("{p}={}~{}", key_frag(key), table_own(s)));
                frags_table(&p, s, out);
            }
            Item::ArrayOfTables(a) => {
                out.push(format!("{p}={}~AOT", key_frag(key)));
                for (i, s) in a.iter().enumerate() {
                    let q = format!("{p}/i{i}");
                    out.push(format!("{q}={}", table_own(s)));
                    frags_table(&q, s, out);
                }
            }
        }
    }
}

fn show_step(doc: &DocumentMut) -> String {
    let text = doc.to_string();
    match text.parse::<DocumentMut>() {
        Ok(d2) => {
            let mut fr = Vec::new();
            fr.push(format!("r={}~{}", table_own(d2.as_table()), raw(Some(d2.trailing()))));
            frags_table("r", d2.as_table(), &mut fr);
            format!("a@{}@ok@{}@{}", hex(text.as_bytes()), show_table(d2.as_table()), fr.join(";"))
        }
        Err(_) => format!("a@{}@err@-@-", hex(text.as_bytes())),
    }
}

fn cmd_edit(args: &Args) -> String {
    let s = match std::str::from_utf8(&args[0]) {
        Ok(s) => s,
        Err(_) => return "not-utf8".into(),
    };
    let ops = String::from_utf8_lossy(&args[1]).to_string();
    let mut doc = match s.parse::<DocumentMut>() {
        Ok(d) => d,
        Err(_) => return "err".into(),
    };
    let mut out = vec![show_step(&doc)];
    for o in ops.split(';').filter(|o| !o.is_empty()) {
        let f: Vec<&str> = o.split(',').collect();
        let mut trial = doc.clone();
        let r = catch_unwind(AssertUnwindSafe(|| do_op(&mut trial, &f).map(|_| trial)));
        match r {
            Ok(Some(d)) => {
                doc = d;
                out.push(show_step(&doc));
            }
            _ => out.push("s".to_string()),
        }
    }
    out.join("|")
}

fn run_cmd(cmd: &str, args: &Args) -> String {
    match cmd {
        "edit" if args.len() == 2 => cmd_edit(args),
        "edit" => "bad-args".into(),
        _ => "unknown-command".into(),
    }
}

fn main() {
    verif_harness::main_loop(run_cmd);
}
