//! C20 observations: the default `Visit` / `VisitMut` walks of toml_edit.
//!
//! `visit <document>`: parse; walk with
//!   (a) a `Visit` that overrides every hook to log the call and continue with the default
//!       free function,
//!   (b) the same for `VisitMut`,
//!   (c) a `VisitMut` that additionally overrides `visit_integer_mut` (adds 1000) or
//!       `visit_string_mut` (appends "!"),
//! and compare the call log with an independent walk through the public accessors
//! (`Table::iter`, `Item::as_*`, `Array::iter`, `InlineTable::iter`, `ArrayOfTables::iter`).
//! `ph <document> <key1> <key2>`: `&mut doc[key1][key2]`, then (a) and the independent walk.
//!
//! Log format (the same as coq/Extract/Cmd_c20.v): events joined by ','
//!   D document   T<n> table   N<n> inline table   L<n> table_like   K<hex key> table_like_kv
//!   In|Iv|It|Ia item   Vs|Vi|Vf|Vb|Vd|Va|Vt value   A<n> array   O<n> array of tables
//!   scalars as in tree::show_value
use toml_edit::visit::{self, Visit};
use toml_edit::visit_mut::{self, VisitMut};
use toml_edit::{
    Array, ArrayOfTables, Datetime, DocumentMut, Formatted, InlineTable, Item, KeyMut, Table, TableLike, Value,
};
use verif_harness::dt::show_datetime;
use verif_harness::tree::{show_f64, show_table, show_value};
use verif_harness::util::hex;
use verif_harness::Args;

fn item_tag(i: &Item) -> &'static str {
    match i {
        Item::None => "In",
        Item::Value(_) => "Iv",
        Item::Table(_) => "It",
        Item::ArrayOfTables(_) => "Ia",
    }
}

fn value_tag(v: &Value) -> &'static str {
    match v {
        Value::String(_) => "Vs",
        Value::Integer(_) => "Vi",
        Value::Float(_) => "Vf",
        Value::Boolean(_) => "Vb",
        Value::Datetime(_) => "Vd",
        Value::Array(_) => "Va",
        Value::InlineTable(_) => "Vt",
    }
}

// ---- (a) logging Visit -----------------------------------------------------------------------
#[derive(Default)]
struct LogVisit {
    log: Vec<String>,
}

impl<'doc> Visit<'doc> for LogVisit {
    fn visit_document(&mut self, node: &'doc DocumentMut) {
        self.log.push("D".into());
        visit::visit_document(self, node);
    }
    fn visit_item(&mut self, node: &'doc Item) {
        self.log.push(item_tag(node).into());
        visit::visit_item(self, node);
    }
    fn visit_table(&mut self, node: &'doc Table) {
        self.log.push(format!("T{}", node.iter().count()));
        visit::visit_table(self, node);
    }
    fn visit_inline_table(&mut self, node: &'doc InlineTable) {
        self.log.push(format!("N{}", node.iter().count()));
        visit::visit_inline_table(self, node);
    }
    fn visit_table_like(&mut self, node: &'doc dyn TableLike) {
        self.log.push(format!("L{}", node.iter().count()));
        visit::visit_table_like(self, node);
    }
    fn visit_table_like_kv(&mut self, key: &'doc str, node: &'doc Item) {
        self.log.push(format!("K{}", hex(key.as_bytes())));
        visit::visit_table_like_kv(self, key, node);
    }
    fn visit_array(&mut self, node: &'doc Array) {
        self.log.push(format!("A{}", node.iter().count()));
        visit::visit_array(self, node);
    }
    fn visit_array_of_tables(&mut self, node: &'doc ArrayOfTables) {
        self.log.push(format!("O{}", node.iter().count()));
        visit::visit_array_of_tables(self, node);
    }
    fn visit_value(&mut self, node: &'doc Value) {
        self.log.push(value_tag(node).into());
        visit::visit_value(self, node);
    }
    fn visit_boolean(&mut self, node: &'doc Formatted<bool>) {
        self.log.push(format!("b:{}", node.value()));
        // the default body (visit::visit_boolean, a private empty function) does nothing
    }
    fn visit_datetime(&mut self, node: &'doc Formatted<Datetime>) {
        self.log.push(show_datetime(node.value()));
        // the default body (visit::visit_datetime, a private empty function) does nothing
    }
    fn visit_float(&mut self, node: &'doc Formatted<f64>) {
        self.log.push(show_f64(*node.value()));
        // the default body (visit::visit_float, a private empty function) does nothing
    }
    fn visit_integer(&mut self, node: &'doc Formatted<i64>) {
        self.log.push(format!("i:{}", node.value()));
        // the default body (visit::visit_integer, a private empty function) does nothing
    }
    fn visit_string(&mut self, node: &'doc Formatted<String>) {
        self.log.push(format!("s:{}", hex(node.value().as_bytes())));
        // the default body (visit::visit_string, a private empty function) does nothing
    }
}

// ---- (b), (c) logging VisitMut, optionally rewriting integers / strings -------------------------
#[derive(Default)]
struct LogVisitMut {
    log: Vec<String>,
    add_to_integers: Option<i64>,
    append_to_strings: Option<&'static str>,
}

impl VisitMut for LogVisitMut {
    fn visit_document_mut(&mut self, node: &mut DocumentMut) {
        self.log.push("D".into());
        visit_mut::visit_document_mut(self, node);
    }
    fn visit_item_mut(&mut self, node: &mut Item) {
        self.log.push(item_tag(node).into());
        visit_mut::visit_item_mut(self, node);
    }
    fn visit_table_mut(&mut self, node: &mut Table) {
        self.log.push(format!("T{}", node.iter().count()));
        visit_mut::visit_table_mut(self, node);
    }
    fn visit_inline_table_mut(&mut self, node: &mut InlineTable) {
        self.log.push(format!("N{}", node.iter().count()));
        visit_mut::visit_inline_table_mut(self, node);
    }
    fn visit_table_like_mut(&mut self, node: &mut dyn TableLike) {
        self.log.push(format!("L{}", node.iter().count()));
        visit_mut::visit_table_like_mut(self, node);
    }
    fn visit_table_like_kv_mut(&mut self, key: KeyMut<'_>, node: &mut Item) {
        self.log.push(format!("K{}", hex(key.get().as_bytes())));
        visit_mut::visit_table_like_kv_mut(self, key, node);
    }
    fn visit_array_mut(&mut self, node: &mut Array) {
        self.log.push(format!("A{}", node.iter().count()));
        visit_mut::visit_array_mut(self, node);
    }
    fn visit_array_of_tables_mut(&mut self, node: &mut ArrayOfTables) {
        self.log.push(format!("O{}", node.iter().count()));
        visit_mut::visit_array_of_tables_mut(self, node);
    }
    fn visit_value_mut(&mut self, node: &mut Value) {
        self.log.push(value_tag(node).into());
        visit_mut::visit_value_mut(self, node);
    }
    fn visit_boolean_mut(&mut self, node: &mut Formatted<bool>) {
        self.log.push(format!("b:{}", node.value()));
        // the default body (private, empty) does nothing
    }
    fn visit_datetime_mut(&mut self, node: &mut Formatted<Datetime>) {
        self.log.push(show_datetime(node.value()));
        // the default body (private, empty) does nothing
    }
    fn visit_float_mut(&mut self, node: &mut Formatted<f64>) {
        self.log.push(show_f64(*node.value()));
        // the default body (private, empty) does nothing
    }
    fn visit_integer_mut(&mut self, node: &mut Formatted<i64>) {
        self.log.push(format!("i:{}", node.value()));
        if let Some(n) = self.add_to_integers {
            let decor = node.decor().clone();
            *node = Formatted::new(node.value().wrapping_add(n));
            *node.decor_mut() = decor;
        } else {
            // the default body (private, empty) does nothing
        }
    }
    fn visit_string_mut(&mut self, node: &mut Formatted<String>) {
        self.log.push(format!("s:{}", hex(node.value().as_bytes())));
        if let Some(tail) = self.append_to_strings {
            let decor = node.decor().clone();
            *node = Formatted::new(format!("{}{}", node.value(), tail));
            *node.decor_mut() = decor;
        } else {
            // the default body (private, empty) does nothing
        }
    }
}

// ---- the independent walk through the public accessors ------------------------------------------
fn walk_table(t: &Table, out: &mut Vec<String>) {
    let n = t.iter().count();
    out.push(format!("T{n}"));
    out.push(format!("L{n}"));
    for (k, item) in t.iter() {
        out.push(format!("K{}", hex(k.as_bytes())));
        walk_item(item, out);
    }
}

fn walk_item(item: &Item, out: &mut Vec<String>) {
    if let Some(v) = item.as_value() {
        out.push("Iv".into());
        walk_value(v, out);
    } else if let Some(t) = item.as_table() {
        out.push("It".into());
        walk_table(t, out);
    } else if let Some(a) = item.as_array_of_tables() {
        out.push("Ia".into());
        out.push(format!("O{}", a.iter().count()));
        for t in a.iter() {
            walk_table(t, out);
        }
    } else {
        out.push("In".into());
    }
}

fn walk_value(v: &Value, out: &mut Vec<String>) {
    if let Some(a) = v.as_array() {
        out.push("Va".into());
        out.push(format!("A{}", a.iter().count()));
        for e in a.iter() {
            walk_value(e, out);
        }
    } else if let Some(t) = v.as_inline_table() {
        let n = t.iter().count();
        out.push("Vt".into());
        out.push(format!("N{n}"));
        out.push(format!("L{n}"));
        for (k, e) in t.iter() {
            // InlineTable::iter yields values: the entry is an Item::Value
            out.push(format!("K{}", hex(k.as_bytes())));
            out.push("Iv".into());
            walk_value(e, out);
        }
    } else {
        let tag = if v.is_str() {
            "Vs"
        } else if v.is_integer() {
            "Vi"
        } else if v.is_float() {
            "Vf"
        } else if v.is_bool() {
            "Vb"
        } else if v.is_datetime() {
            "Vd"
        } else {
            "V?"
        };
        out.push(tag.into());
        out.push(show_value(v));
    }
}

fn walk_document(doc: &DocumentMut) -> String {
    let mut out = vec!["D".to_string()];
    walk_table(doc.as_table(), &mut out);
    out.join(",")
}

fn same_or_diff(reference: &str, other: &str) -> String {
    if reference == other {
        "same".into()
    } else {
        format!("DIFF:{other}")
    }
}

fn parse(args: &Args) -> Result<DocumentMut, String> {
    let s = std::str::from_utf8(&args[0]).map_err(|_| "not-utf8".to_string())?;
    s.parse::<DocumentMut>().map_err(|_| "err".to_string())
}

fn cmd_visit(args: &Args) -> String {
    let doc = match parse(args) {
        Ok(d) => d,
        Err(e) => return e,
    };
    // (a)
    let mut a = LogVisit::default();
    a.visit_document(&doc);
    let vlog = a.log.join(",");
    let wlog = walk_document(&doc);
    // (b)
    let text0 = doc.to_string();
    let tree = show_table(doc.as_table());
    let mut doc_b = doc.clone();
    let mut b = LogVisitMut::default();
    b.visit_document_mut(&mut doc_b);
    let text1 = doc_b.to_string();
    // (c) integers
    let mut doc_i = doc.clone();
    let mut ci = LogVisitMut { add_to_integers: Some(1000), ..Default::default() };
    ci.visit_document_mut(&mut doc_i);
    // (c) strings
    let mut doc_s = doc.clone();
    let mut cs = LogVisitMut { append_to_strings: Some("!"), ..Default::default() };
    cs.visit_document_mut(&mut doc_s);
    format!(
        "ok visit={} walk={} mut={} text0={} text1={} tree={} rwi={} rwilog={} rwiprint={} rws={} rwslog={} rwsprint={}",
        vlog,
        same_or_diff(&vlog, &wlog),
        same_or_diff(&vlog, &b.log.join(",")),
        hex(text0.as_bytes()),
        hex(text1.as_bytes()),
        tree,
        show_table(doc_i.as_table()),
        same_or_diff(&vlog, &ci.log.join(",")),
        hex(doc_i.to_string().as_bytes()),
        show_table(doc_s.as_table()),
        same_or_diff(&vlog, &cs.log.join(",")),
        hex(doc_s.to_string().as_bytes()),
    )
}

fn cmd_ph(args: &Args) -> String {
    let mut doc = match parse(args) {
        Ok(d) => d,
        Err(e) => return e,
    };
    let (k1, k2) = match (std::str::from_utf8(&args[1]), std::str::from_utf8(&args[2])) {
        (Ok(a), Ok(b)) => (a, b),
        _ => return "not-utf8".into(),
    };
    match doc.as_table().get(k1) {
        Some(Item::Table(_)) | Some(Item::Value(Value::InlineTable(_))) => {}
        _ => return "bad-args".into(),
    }
    {
        let _placeholder: &mut Item = &mut doc[k1][k2];
    }
    let mut a = LogVisit::default();
    a.visit_document(&doc);
    let vlog = a.log.join(",");
    format!("ok visit={} walk={}", vlog, same_or_diff(&vlog, &walk_document(&doc)))
}

fn run_cmd(cmd: &str, args: &Args) -> String {
    match (cmd, args.len()) {
        ("visit", 1) => cmd_visit(args),
        ("ph", 3) => cmd_ph(args),
        ("visit", _) | ("ph", _) => "bad-args".to_string(),
        _ => "unknown-command".to_string(),
    }
}

fn main() {
    verif_harness::main_loop(run_cmd);
}
