//! C06 observations: structures assembled through the construction API from a script, printed,
//! re-parsed and compared.
//!
//! Script (bytes; the same script drives the Coq model, Extract/Cmd_c06.v):
//!   doc    := mode tbody            mode 'n': DocumentMut::new() + as_table_mut().insert(..)
//!                                   mode 'f': DocumentMut::from(Table::new() + inserts)
//!   tbody  := n:u8 (key item)*n     Table::new(); insert(key, item) in order
//!   key    := len:u16be bytes
//!   item   := 'V' value             Item::Value(v)
//!           | 'T' tbody             Item::Table(t)
//!           | 'O' n:u8 tbody*n      ArrayOfTables::new(); push(t)...; Item::ArrayOfTables(a)
//!   value  := 's' len:u16be bytes   Value::from(&str)
//!           | 'i' i64be             Value::from(i64)
//!           | 'f' bits:u64be neg:u8 mlen:u8 m:mlen bytes be e:i16be   Value::from(f64::from_bits(bits))
//!                                   (neg, m, e: the shortest decimal, used by the model only)
//!           | 'b' u8                Value::from(bool)
//!           | 'd' flags:u8 [year:u16be month day] [hour minute second nanos:u32be] [minutes:i16be]
//!                                   flags: 1 date, 2 time, 4 offset Z, 8 offset custom
//!           | 'A' mode n:u8 value*n mode 'p': Array::new() + push;  'c': FromIterator (collect)
//!           | 'I' mode n:u8 (key value)*n   mode 'i': InlineTable::new() + insert;  'c': FromIterator
//!
//! build <doc script>:  t=<hex of to_string()> parse=ok|ERR got=<dump of the re-parsed tree>
//!                      built=<dump of the built tree> twice=ok|BAD clone=ok|BAD
//! val <value script>:  Display of the lone Value, Value::from_str, dumps; for arrays and inline
//!                      tables also the Display of the Array / InlineTable itself
//! key <bytes>:         Key::new(k).to_string(), Key::from_str
use std::str::FromStr;
use toml_edit::{Array, ArrayOfTables, Date, Datetime, DocumentMut, InlineTable, Item, Key, Offset, Table, Time, Value};
use verif_harness::tree::{show_table, show_value};
use verif_harness::util::hex;
use verif_harness::Args;

struct Rd<'a> {
    b: &'a [u8],
    i: usize,
}

impl<'a> Rd<'a> {
    fn u8(&mut self) -> u8 {
        let x = self.b[self.i];
        self.i += 1;
        x
    }
    fn take(&mut self, n: usize) -> &'a [u8] {
        let s = &self.b[self.i..self.i + n];
        self.i += n;
        s
    }
    fn be(&mut self, n: usize) -> u64 {
        let mut v = 0u64;
        for x in self.take(n) {
            v = (v << 8) | u64::from(*x);
        }
        v
    }
    fn key(&mut self) -> String {
        let n = self.be(2) as usize;
        String::from_utf8(self.take(n).to_vec()).expect("script: key not UTF-8")
    }
}

fn rd_value(r: &mut Rd<'_>) -> Value {
    match r.u8() {
        b's' => {
            let s = r.key();
            Value::from(s.as_str())
        }
        b'i' => Value::from(r.be(8) as i64),
        b'f' => {
            let bits = r.be(8);
            let _neg = r.u8();
            let mlen = r.u8() as usize;
            r.take(mlen);
            r.take(2);
            Value::from(f64::from_bits(bits))
        }
        b'b' => Value::from(r.u8() != 0),
        b'd' => {
            let flags = r.u8();
            let date = if flags & 1 != 0 {
                let year = r.be(2) as u16;
                let month = r.u8();
                let day = r.u8();
                Some(Date { year, month, day })
            } else {
                None
            };
            let time = if flags & 2 != 0 {
                let hour = r.u8();
                let minute = r.u8();
                let second = r.u8();
                let nanosecond = r.be(4) as u32;
                Some(Time { hour, minute, second, nanosecond })
            } else {
                None
            };
            let offset = if flags & 4 != 0 {
                Some(Offset::Z)
            } else if flags & 8 != 0 {
                Some(Offset::Custom { minutes: r.be(2) as u16 as i16 })
            } else {
                None
            };
            match (date, time, offset) {
                (Some(d), None, None) => Value::from(d),
                (None, Some(t), None) => Value::from(t),
                _ => Value::from(Datetime { date, time, offset }),
            }
        }
        b'A' => {
            let mode = r.u8();
            let n = r.u8();
            if mode == b'p' {
                let mut a = Array::new();
                for _ in 0..n {
                    a.push(rd_value(r));
                }
                Value::from(a)
            } else {
                let vs: Vec<Value> = (0..n).map(|_| rd_value(r)).collect();
                vs.into_iter().collect::<Value>()
            }
        }
        b'I' => {
            let mode = r.u8();
            let n = r.u8();
            if mode == b'i' {
                let mut t = InlineTable::new();
                for _ in 0..n {
                    let k = r.key();
                    let v = rd_value(r);
                    t.insert(k, v);
                }
                Value::from(t)
            } else {
                let mut kvs: Vec<(String, Value)> = Vec::new();
                for _ in 0..n {
                    let k = r.key();
                    let v = rd_value(r);
                    kvs.push((k, v));
                }
                kvs.into_iter().collect::<Value>()
            }
        }
        c => panic!("script: bad value tag {c}"),
    }
}

fn rd_tbody(r: &mut Rd<'_>, t: &mut Table) {
    let n = r.u8();
    for _ in 0..n {
        let k = r.key();
        let it = rd_item(r);
        t.insert(&k, it);
    }
}

fn rd_item(r: &mut Rd<'_>) -> Item {
    match r.u8() {
        b'V' => Item::Value(rd_value(r)),
        b'T' => {
            let mut t = Table::new();
            rd_tbody(r, &mut t);
            Item::Table(t)
        }
        b'O' => {
            let n = r.u8();
            let mut a = ArrayOfTables::new();
            for _ in 0..n {
                let mut t = Table::new();
                rd_tbody(r, &mut t);
                a.push(t);
            }
            Item::ArrayOfTables(a)
        }
        c => panic!("script: bad item tag {c}"),
    }
}

fn verdict(b: bool) -> &'static str {
    if b {
        "ok"
    } else {
        "BAD"
    }
}

fn cmd_build(args: &Args) -> String {
    let mut r = Rd { b: &args[0], i: 0 };
    let mode = r.u8();
    let doc = if mode == b'f' {
        let mut t = Table::new();
        rd_tbody(&mut r, &mut t);
        DocumentMut::from(t)
    } else {
        let mut d = DocumentMut::new();
        rd_tbody(&mut r, d.as_table_mut());
        d
    };
    assert!(r.i == r.b.len(), "script: trailing bytes");
    let text = doc.to_string();
    let twice = doc.to_string() == text;
    let clone = doc.clone().to_string() == text;
    let built = show_table(doc.as_table());
    let (parse, got) = match text.parse::<DocumentMut>() {
        Ok(d) => ("ok", show_table(d.as_table())),
        Err(_) => ("ERR", "-".to_string()),
    };
    format!(
        "t={} parse={parse} got={got} built={built} twice={} clone={}",
        hex(text.as_bytes()),
        verdict(twice),
        verdict(clone)
    )
}

fn reparse_value(text: &str) -> (&'static str, String) {
    match Value::from_str(text) {
        Ok(v) => ("ok", show_value(&v)),
        Err(_) => ("ERR", "-".to_string()),
    }
}

fn cmd_val(args: &Args) -> String {
    let mut r = Rd { b: &args[0], i: 0 };
    let v = rd_value(&mut r);
    assert!(r.i == r.b.len(), "script: trailing bytes");
    let text = v.to_string();
    let twice = v.to_string() == text;
    let clone = v.clone().to_string() == text;
    let (parse, got) = reparse_value(&text);
    // the container's own Display (Array / InlineTable) prints the same text
    let own = match &v {
        Value::Array(a) => verdict(a.to_string() == text),
        Value::InlineTable(t) => verdict(t.to_string() == text),
        _ => "ok",
    };
    format!(
        "t={} parse={parse} got={got} built={} twice={} clone={} own={own}",
        hex(text.as_bytes()),
        show_value(&v),
        verdict(twice),
        verdict(clone)
    )
}

fn cmd_key(args: &Args) -> String {
    let Ok(s) = std::str::from_utf8(&args[0]) else {
        return "bad-args".to_string();
    };
    let k = Key::new(s);
    let text = k.to_string();
    let twice = k.to_string() == text && k.clone().to_string() == text;
    let (parse, got) = match Key::from_str(&text) {
        Ok(k2) => ("ok", hex(k2.get().as_bytes())),
        Err(_) => ("ERR", "-".to_string()),
    };
    format!("t={} parse={parse} got={got} twice={}", hex(text.as_bytes()), verdict(twice))
}

fn run_cmd(cmd: &str, args: &Args) -> String {
    if args.len() != 1 {
        return "bad-args".to_string();
    }
    match cmd {
        "build" => cmd_build(args),
        "val" => cmd_val(args),
        "key" => cmd_key(args),
        _ => "unknown-command".to_string(),
    }
}

fn main() {
    verif_harness::main_loop(run_cmd);
}
