//! C06 observations: structures assembled through the construction API from a script, printed,
//! re-parsed and compared.
//!
//! Script (bytes; the same script drives the Coq model, Extract/Cmd_c06.v):
//!   doc    := mode tbody            mode 'n': DocumentMut::new() + as_table_mut().insert(..)
//!                                   mode 'f': DocumentMut::from(Table::new() + inserts)
//!   tbody  := n:u8 (key item)*n     Table::new(); insert(key, item) in order
//!   key    := len:u16be bytes
//!   item   := 'V' value             Item::Value(v)
//!           | 'T' tbody             Item::Table(t)
//!           | 'O' n:u8 tbody*n      ArrayOfTables::new(); push(t)...; Item::ArrayOfTables(a)
//!   value  := 's' len:u16be bytes   Value::from(&str)
//!           | 'i' i64be             Value::from(i64)
//!           | 'f' bits:u64be neg:u8 mlen:u8 m:mlen bytes be e:i16be   Value::from(f64::from_bits(bits))
//!                                   (neg, m, e: the shortest decimal, used by the model only)
//!           | 'b' u8                Value::from(bool)
//!           | 'd' flags:u8 [year:u16be month day] [hour minute second nanos:u32be] [minutes:i16be]
//!                                   flags: 1 date, 2 time, 4 offset Z, 8 offset custom
//!           | 'A' mode n:u8 value*n mode 'p': Array::new() + push;  'c': FromIterator (collect)
//!           | 'I' mode n:u8 (key value)*n   mode 'i': InlineTable::new() + insert;  'c': FromIterator
//!
//! build <doc script>:  t=<hex of to_string()> parse=ok|ERR got=<dump of the re-parsed tree>
//!                      built=<dump of the built tree> twice=ok|BAD clone=ok|BAD
//! val <value script>:  Display of the lone Value, Value::from_str, dumps; for arrays and inline
//!                      tables also the Display of the Array / InlineTable itself
//! key <bytes>:         Key::new(k).to_string(), Key::from_str
//! toml <kind> <value script> [key]:  the same value script read as a toml::Value (arrays -> Value::Array, inline
//!                      tables -> toml::Table filled with `insert` in script order: BTreeMap, or IndexMap under the
//!                      harness feature `po`; the construction modes of the script are ignored) and printed by toml's
//!                      own entry points:
//!     kind 'V'  a lone value of any kind:  vd = `Display for toml::Value`, read back through
//!               toml::de::ValueDeserializer
//!     kind 'X'  the entry `table[key]` of a root table (Index of Value and of Table): printed and read back like 'V'
//!     kind 'T'  a root table:  vd as above;  vs / vp = toml::to_string / to_string_pretty (&Value::Table);
//!               td = `Display for toml::Table`; ts / tp = toml::to_string / to_string_pretty (&Table)
//!               (ts must equal td); documents are read back with toml::from_str::<Value> (td: str::parse::<Table>)
//!     every text: <name>=<hex> got_<name>=<dump of what toml's own reader makes of it | ERR>
//!                 e_<name>=<dump of what toml_edit's parser makes of it (Value::from_str / DocumentMut), in text order:
//!                 no serde layer in between | ERR>; built=<dump>; twice=ok|BAD; map=bt|po
use std::str::FromStr;
use toml_edit::{Array, ArrayOfTables, Date, Datetime, DocumentMut, InlineTable, Item, Key, Offset, Table, Time, Value};
use verif_harness::tree::{show_table, show_value};
use verif_harness::util::hex;
use verif_harness::Args;

struct Rd<'a> {
    b: &'a [u8],
    i: usize,
}

impl<'a> Rd<'a> {
    fn u8(&mut self) -> u8 {
        let x = self.b[self.i];
        self.i += 1;
        x
    }
    fn take(&mut self, n: usize) -> &'a [u8] {
        let s = &self.b[self.i..self.i + n];
        self.i += n;
        s
    }
    fn be(&mut self, n: usize) -> u64 {
        let mut v = 0u64;
        for x in self.take(n) {
            v = (v << 8) | u64::from(*x);
        }
        v
    }
    fn key(&mut self) -> String {
        let n = self.be(2) as usize;
        String::from_utf8(self.take(n).to_vec()).expect("script: key not UTF-8")
    }
}

fn rd_value(r: &mut Rd<'_>) -> Value {
    match r.u8() {
        b's' => {
            let s = r.key();
            Value::from(s.as_str())
        }
        b'i' => Value::from(r.be(8) as i64),
        b'f' => {
            let bits = r.be(8);
            let _neg = r.u8();
            let mlen = r.u8() as usize;
            r.take(mlen);
            r.take(2);
            Value::from(f64::from_bits(bits))
        }
        b'b' => Value::from(r.u8() != 0),
        b'd' => {
            let flags = r.u8();
            let date = if flags & 1 != 0 {
                let year = r.be(2) as u16;
                let month = r.u8();
                let day = r.u8();
                Some(Date { year, month, day })
            } else {
                None
            };
            let time = if flags & 2 != 0 {
                let hour = r.u8();
                let minute = r.u8();
                let second = r.u8();
                let nanosecond = r.be(4) as u32;
                Some(Time { hour, minute, second, nanosecond })
            } else {
                None
            };
            let offset = if flags & 4 != 0 {
                Some(Offset::Z)
            } else if flags & 8 != 0 {
                Some(Offset::Custom { minutes: r.be(2) as u16 as i16 })
            } else {
                None
            };
            match (date, time, offset) {
                (Some(d), None, None) => Value::from(d),
                (None, Some(t), None) => Value::from(t),
                _ => Value::from(Datetime { date, time, offset }),
            }
        }
        b'A' => {
            let mode = r.u8();
            let n = r.u8();
            if mode == b'p' {
                let mut a = Array::new();
                for _ in 0..n {
                    a.push(rd_value(r));
                }
                Value::from(a)
            } else {
                let vs: Vec<Value> = (0..n).map(|_| rd_value(r)).collect();
                vs.into_iter().collect::<Value>()
            }
        }
        b'I' => {
            let mode = r.u8();
            let n = r.u8();
            if mode == b'i' {
                let mut t = InlineTable::new();
                for _ in 0..n {
                    let k = r.key();
                    let v = rd_value(r);
                    t.insert(k, v);
                }
                Value::from(t)
            } else {
                let mut kvs: Vec<(String, Value)> = Vec::new();
                for _ in 0..n {
                    let k = r.key();
                    let v = rd_value(r);
                    kvs.push((k, v));
                }
                kvs.into_iter().collect::<Value>()
            }
        }
        c => panic!("script: bad value tag {c}"),
    }
}

fn rd_tbody(r: &mut Rd<'_>, t: &mut Table) {
    let n = r.u8();
    for _ in 0..n {
        let k = r.key();
        let it = rd_item(r);
        t.insert(&k, it);
    }
}

fn rd_item(r: &mut Rd<'_>) -> Item {
    match r.u8() {
        b'V' => Item::Value(rd_value(r)),
        b'T' => {
            let mut t = Table::new();
            rd_tbody(r, &mut t);
            Item::Table(t)
        }
        b'O' => {
            let n = r.u8();
            let mut a = ArrayOfTables::new();
            for _ in 0..n {
                let mut t = Table::new();
                rd_tbody(r, &mut t);
                a.push(t);
            }
            Item::ArrayOfTables(a)
        }
        c => panic!("script: bad item tag {c}"),
    }
}

fn verdict(b: bool) -> &'static str {
    if b {
        "ok"
    } else {
        "BAD"
    }
}

fn cmd_build(args: &Args) -> String {
    let mut r = Rd { b: &args[0], i: 0 };
    let mode = r.u8();
    let doc = if mode == b'f' {
        let mut t = Table::new();
        rd_tbody(&mut r, &mut t);
        DocumentMut::from(t)
    } else {
        let mut d = DocumentMut::new();
        rd_tbody(&mut r, d.as_table_mut());
        d
    };
    assert!(r.i == r.b.len(), "script: trailing bytes");
    let text = doc.to_string();
    let twice = doc.to_string() == text;
    let clone = doc.clone().to_string() == text;
    let built = show_table(doc.as_table());
    let (parse, got) = match text.parse::<DocumentMut>() {
        Ok(d) => ("ok", show_table(d.as_table())),
        Err(_) => ("ERR", "-".to_string()),
    };
    format!(
        "t={} parse={parse} got={got} built={built} twice={} clone={}",
        hex(text.as_bytes()),
        verdict(twice),
        verdict(clone)
    )
}

fn reparse_value(text: &str) -> (&'static str, String) {
    match Value::from_str(text) {
        Ok(v) => ("ok", show_value(&v)),
        Err(_) => ("ERR", "-".to_string()),
    }
}

fn cmd_val(args: &Args) -> String {
    let mut r = Rd { b: &args[0], i: 0 };
    let v = rd_value(&mut r);
    assert!(r.i == r.b.len(), "script: trailing bytes");
    let text = v.to_string();
    let twice = v.to_string() == text;
    let clone = v.clone().to_string() == text;
    let (parse, got) = reparse_value(&text);
    // the container's own Display (Array / InlineTable) prints the same text
    let own = match &v {
        Value::Array(a) => verdict(a.to_string() == text),
        Value::InlineTable(t) => verdict(t.to_string() == text),
        _ => "ok",
    };
    format!(
        "t={} parse={parse} got={got} built={} twice={} clone={} own={own}",
        hex(text.as_bytes()),
        show_value(&v),
        verdict(twice),
        verdict(clone)
    )
}

fn cmd_key(args: &Args) -> String {
    let Ok(s) = std::str::from_utf8(&args[0]) else {
        return "bad-args".to_string();
    };
    let k = Key::new(s);
    let text = k.to_string();
    let twice = k.to_string() == text && k.clone().to_string() == text;
    let (parse, got) = match Key::from_str(&text) {
        Ok(k2) => ("ok", hex(k2.get().as_bytes())),
        Err(_) => ("ERR", "-".to_string()),
    };
    format!("t={} parse={parse} got={got} twice={}", hex(text.as_bytes()), verdict(twice))
}

// ---- toml::Value / toml::Table (crates/toml): Display, to_string, to_string_pretty ----
fn rd_tv(r: &mut Rd<'_>) -> toml::Value {
    use toml::Value as TV;
    match r.u8() {
        b's' => TV::String(r.key()),
        b'i' => TV::Integer(r.be(8) as i64),
        b'f' => {
            let bits = r.be(8);
            let _neg = r.u8();
            let mlen = r.u8() as usize;
            r.take(mlen);
            r.take(2);
            TV::Float(f64::from_bits(bits))
        }
        b'b' => TV::Boolean(r.u8() != 0),
        b'd' => {
            let flags = r.u8();
            let date = if flags & 1 != 0 {
                let year = r.be(2) as u16;
                let month = r.u8();
                let day = r.u8();
                Some(Date { year, month, day })
            } else {
                None
            };
            let time = if flags & 2 != 0 {
                let hour = r.u8();
                let minute = r.u8();
                let second = r.u8();
                let nanosecond = r.be(4) as u32;
                Some(Time { hour, minute, second, nanosecond })
            } else {
                None
            };
            let offset = if flags & 4 != 0 {
                Some(Offset::Z)
            } else if flags & 8 != 0 {
                Some(Offset::Custom { minutes: r.be(2) as u16 as i16 })
            } else {
                None
            };
            TV::Datetime(Datetime { date, time, offset })
        }
        b'A' => {
            let _mode = r.u8();
            let n = r.u8();
            TV::Array((0..n).map(|_| rd_tv(r)).collect())
        }
        b'I' => {
            let _mode = r.u8();
            let n = r.u8();
            let mut t = toml::Table::new();
            for _ in 0..n {
                let k = r.key();
                let v = rd_tv(r);
                t.insert(k, v);
            }
            TV::Table(t)
        }
        c => panic!("script: bad value tag {c}"),
    }
}

fn show_tv(v: &toml::Value) -> String {
    use toml::Value as TV;
    match v {
        TV::String(s) => format!("s:{}", hex(s.as_bytes())),
        TV::Integer(i) => format!("i:{i}"),
        TV::Float(f) => verif_harness::tree::show_f64(*f),
        TV::Boolean(b) => format!("b:{b}"),
        TV::Datetime(d) => verif_harness::dt::show_datetime(d),
        TV::Array(a) => {
            let parts: Vec<String> = a.iter().map(show_tv).collect();
            format!("[{}]", parts.join(","))
        }
        TV::Table(t) => show_tt(t),
    }
}

fn show_tt(t: &toml::Table) -> String {
    let parts: Vec<String> = t.iter().map(|(k, v)| format!("{}={}", hex(k.as_bytes()), show_tv(v))).collect();
    format!("{{{}}}", parts.join(","))
}

fn got_value_text(text: &str) -> String {
    use serde::Deserialize;
    match toml::Value::deserialize(toml::de::ValueDeserializer::new(text)) {
        Ok(v) => show_tv(&v),
        Err(_) => "ERR".to_string(),
    }
}

fn got_doc_text(text: &str) -> String {
    match toml::from_str::<toml::Value>(text) {
        Ok(v) => show_tv(&v),
        Err(_) => "ERR".to_string(),
    }
}

fn edit_value_text(text: &str) -> String {
    match Value::from_str(text) {
        Ok(v) => show_value(&v),
        Err(_) => "ERR".to_string(),
    }
}

fn edit_doc_text(text: &str) -> String {
    match text.parse::<DocumentMut>() {
        Ok(d) => show_table(d.as_table()),
        Err(_) => "ERR".to_string(),
    }
}

fn cmd_toml(args: &Args) -> String {
    let mut r = Rd { b: &args[0], i: 0 };
    let kind = r.u8();
    let v = rd_tv(&mut r);
    let map = if cfg!(feature = "po") { "po" } else { "bt" };
    match kind {
        b'V' | b'X' => {
            let (target, ix) = if kind == b'X' {
                let k = r.key();
                let via_value = &v[k.as_str()];
                let via_table = &v.as_table().expect("script: X needs a table")[k.as_str()];
                (via_value.clone(), verdict(via_value.to_string() == via_table.to_string()))
            } else {
                (v.clone(), "ok")
            };
            assert!(r.i == r.b.len(), "script: trailing bytes");
            let text = target.to_string();
            let twice = target.to_string() == text && format!("{target}") == text && target.clone().to_string() == text;
            format!(
                "vd={} got_vd={} e_vd={} built={} twice={} ix={ix} map={map}",
                hex(text.as_bytes()),
                got_value_text(&text),
                edit_value_text(&text),
                show_tv(&target),
                verdict(twice)
            )
        }
        b'T' => {
            assert!(r.i == r.b.len(), "script: trailing bytes");
            let t = v.as_table().expect("script: T needs a table").clone();
            let vd = v.to_string();
            let vs = toml::to_string(&v);
            let vp = toml::to_string_pretty(&v);
            let td = t.to_string();
            let ts = toml::to_string(&t);
            let tp = toml::to_string_pretty(&t);
            let (Ok(vs), Ok(vp), Ok(ts), Ok(tp)) = (vs, vp, ts, tp) else {
                return format!("SERERR map={map}");
            };
            let twice = v.to_string() == vd
                && toml::to_string(&v).ok().as_deref() == Some(&vs)
                && toml::to_string_pretty(&v).ok().as_deref() == Some(&vp)
                && t.to_string() == td
                && toml::to_string_pretty(&t).ok().as_deref() == Some(&tp)
                && v.clone().to_string() == vd
                && t.clone().to_string() == td;
            let got_td = match td.parse::<toml::Table>() {
                Ok(t2) => show_tt(&t2),
                Err(_) => "ERR".to_string(),
            };
            format!(
                "vd={} got_vd={} e_vd={} vs={} got_vs={} e_vs={} vp={} got_vp={} e_vp={} td={} got_td={} e_td={} tp={} got_tp={} e_tp={} tseq={} built={} twice={} map={map}",
                hex(vd.as_bytes()),
                got_value_text(&vd),
                edit_value_text(&vd),
                hex(vs.as_bytes()),
                got_doc_text(&vs),
                edit_doc_text(&vs),
                hex(vp.as_bytes()),
                got_doc_text(&vp),
                edit_doc_text(&vp),
                hex(td.as_bytes()),
                got_td,
                edit_doc_text(&td),
                hex(tp.as_bytes()),
                got_doc_text(&tp),
                edit_doc_text(&tp),
                verdict(ts == td),
                show_tv(&v),
                verdict(twice)
            )
        }
        c => panic!("script: bad toml kind {c}"),
    }
}

fn run_cmd(cmd: &str, args: &Args) -> String {
    if args.len() != 1 {
        return "bad-args".to_string();
    }
    match cmd {
        "build" => cmd_build(args),
        "val" => cmd_val(args),
        "key" => cmd_key(args),
        "toml" => cmd_toml(args),
        _ => "unknown-command".to_string(),
    }
}

fn main() {
    verif_harness::main_loop(run_cmd);
}
