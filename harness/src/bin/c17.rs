//! C17 observations: serialization of a `toml::Value` tree is deterministic, canonical and
//! insensitive to map order.
//!
//! `val <ord> <tree>`  ord = `s` (toml::Map = BTreeMap, default build) | `i` (IndexMap, feature `po`:
//!                     insertion order = the order of the description); a build answers `skip` for
//!                     the order it does not have.
//!   tree  := value, ASCII:
//!   value := 'L' desc ';' | 'A' value* ']' | 'T' ( 'K' hexkey ';' value )* '}'
//!   desc  := 'i' decimal | 'bt' | 'bf' | 'f' 16 hex digits (f64 bits) | 's' hex(utf8) | 'd' hex(datetime text)
//!   (hex of the empty string is `-`).  The root must be a table.
//!   Output (one line):
//!     vdoc=<doc> pdoc=<doc> tdoc=<doc> sdoc=<doc> vdisp=<shape> rb=<value> fix=.. pp=.. dec=.. tfix=.. sdec=.. s2fix=.. det=.. # text=<hex> ptext=<hex> ttext=<hex> stext=<hex>
//!   vdoc  : section structure of toml::to_string(&Value::Table(t))      read off the TEXT
//!   pdoc  : section structure of toml::to_string_pretty(&Value::Table(t))
//!   tdoc  : section structure of t.to_string()  (Display for Table = to_string(&t): no three-pass at the root)
//!   sdoc  : section structure of toml::to_string(&Plain(v)) where `Plain` serializes the same tree like a
//!           struct / map that keeps its own order at every level (no three loops anywhere)
//!   sdec  : from_str(that text) == v;  s2fix: the Value read from it prints to a text that is a fixed point
//!   vdisp : shape of Value::Table(t).to_string() (Display for Value: one inline value)
//!   rb    : toml::from_str::<Value>(text) in the map's iteration order, in the tree encoding
//!   fix   : to_string(from_str(text)) == text;  pp: from_str(plain) == from_str(pretty);
//!   dec   : from_str(text) == v;  tfix: parse Table / print / parse / print gives the same text twice;
//!   det   : every printer called twice gives the same text
//!   doc     := section ('/' section)*          the root section `R` is always listed first
//!   section := ('R' | 'S' path | 'A' path) ':' line (',' line)*      S = [path], A = [[path]]
//!   path    := hexkey ('.' hexkey)*
//!   line    := hexkey '=' shape
//!   shape   := 'L' desc ';' | ('A' | 'M') shape* ']' | 'T' ('K' hexkey ';' shape)* '}'      M = multi-line array
//! `txt <text>`: text.parse::<toml::Table>() printed, parsed and printed again:
//!     `invalid` | tdoc=<doc of the first print> twice=ok|BAD # ttext=<hex>
use toml::value::Datetime;
use toml::{Table, Value};
use verif_harness::util::hex;
use verif_harness::Args;

// ---------------------------------------------------------------------------------------------
// tree description -> toml::Value
// ---------------------------------------------------------------------------------------------
struct Rd<'a> {
    s: &'a [u8],
    i: usize,
}

impl Rd<'_> {
    fn peek(&self) -> Option<u8> {
        self.s.get(self.i).copied()
    }
    fn until_semi(&mut self) -> Option<&[u8]> {
        let st = self.i;
        while self.i < self.s.len() && self.s[self.i] != b';' {
            self.i += 1;
        }
        if self.i >= self.s.len() {
            return None;
        }
        let r = &self.s[st..self.i];
        self.i += 1;
        Some(r)
    }
}

fn unhex(b: &[u8]) -> Option<Vec<u8>> {
    if b == b"-" {
        return Some(Vec::new());
    }
    if b.len() % 2 != 0 {
        return None;
    }
    let v = |c: u8| -> Option<u8> {
        match c {
            b'0'..=b'9' => Some(c - b'0'),
            b'a'..=b'f' => Some(c - b'a' + 10),
            _ => None,
        }
    };
    let mut out = Vec::new();
    for p in b.chunks(2) {
        out.push(v(p[0])? * 16 + v(p[1])?);
    }
    Some(out)
}

fn leaf_of(desc: &[u8]) -> Option<Value> {
    let (k, rest) = desc.split_first()?;
    let rest_s = std::str::from_utf8(rest).ok()?;
    match k {
        b'i' => rest_s.parse::<i64>().ok().map(Value::Integer),
        b'b' => match rest {
            b"t" => Some(Value::Boolean(true)),
            b"f" => Some(Value::Boolean(false)),
            _ => None,
        },
        b'f' => u64::from_str_radix(rest_s, 16).ok().map(|b| Value::Float(f64::from_bits(b))),
        b's' => String::from_utf8(unhex(rest)?).ok().map(Value::String),
        b'd' => String::from_utf8(unhex(rest)?).ok()?.parse::<Datetime>().ok().map(Value::Datetime),
        _ => None,
    }
}

fn read_value(r: &mut Rd<'_>) -> Option<Value> {
    match r.peek()? {
        b'L' => {
            r.i += 1;
            let d = r.until_semi()?.to_vec();
            leaf_of(&d)
        }
        b'A' => {
            r.i += 1;
            let mut v = Vec::new();
            while r.peek()? != b']' {
                v.push(read_value(r)?);
            }
            r.i += 1;
            Some(Value::Array(v))
        }
        b'T' => {
            r.i += 1;
            let mut t = Table::new();
            while r.peek()? != b'}' {
                if r.peek()? != b'K' {
                    return None;
                }
                r.i += 1;
                let k = String::from_utf8(unhex(r.until_semi()?)?).ok()?;
                let v = read_value(r)?;
                t.insert(k, v);
            }
            r.i += 1;
            Some(Value::Table(t))
        }
        _ => None,
    }
}

/// the same tree serialized the way a derived struct / a plain map does it: one `serialize_entry`
/// per entry in the container's own order, at every level (no `impl Serialize for Value` anywhere
/// but at the leaves)
struct Plain<'a>(&'a Value);

impl serde::Serialize for Plain<'_> {
    fn serialize<S: serde::Serializer>(&self, s: S) -> Result<S::Ok, S::Error> {
        use serde::ser::{SerializeMap, SerializeSeq};
        match self.0 {
            Value::Table(t) => {
                let mut m = s.serialize_map(Some(t.len()))?;
                for (k, v) in t {
                    m.serialize_entry(k, &Plain(v))?;
                }
                m.end()
            }
            Value::Array(a) => {
                let mut q = s.serialize_seq(Some(a.len()))?;
                for v in a {
                    q.serialize_element(&Plain(v))?;
                }
                q.end()
            }
            leaf => leaf.serialize(s),
        }
    }
}

// ---------------------------------------------------------------------------------------------
// toml::Value -> tree encoding (iteration order of the map)
// ---------------------------------------------------------------------------------------------
fn leaf_desc(v: &Value) -> String {
    match v {
        Value::Integer(i) => format!("i{i}"),
        Value::Boolean(b) => (if *b { "bt" } else { "bf" }).to_string(),
        Value::Float(f) => format!("f{:016x}", f.to_bits()),
        Value::String(s) => format!("s{}", hex(s.as_bytes())),
        Value::Datetime(d) => format!("d{}", hex(d.to_string().as_bytes())),
        _ => "?".to_string(),
    }
}

fn enc_value(v: &Value, out: &mut String) {
    match v {
        Value::Array(a) => {
            out.push('A');
            for e in a {
                enc_value(e, out);
            }
            out.push(']');
        }
        Value::Table(t) => {
            out.push('T');
            for (k, e) in t {
                out.push('K');
                out.push_str(&hex(k.as_bytes()));
                out.push(';');
                enc_value(e, out);
            }
            out.push('}');
        }
        leaf => {
            out.push('L');
            out.push_str(&leaf_desc(leaf));
            out.push(';');
        }
    }
}

// ---------------------------------------------------------------------------------------------
// the section structure of a TEXT (headers, key names and value shapes in order of appearance)
// ---------------------------------------------------------------------------------------------
fn shape_of(v: &toml_edit::Value, out: &mut String) {
    use toml_edit::Value as V;
    match v {
        V::String(f) => out.push_str(&format!("Ls{};", hex(f.value().as_bytes()))),
        V::Integer(f) => out.push_str(&format!("Li{};", f.value())),
        V::Float(f) => out.push_str(&format!("Lf{:016x};", f.value().to_bits())),
        V::Boolean(f) => out.push_str(if *f.value() { "Lbt;" } else { "Lbf;" }),
        V::Datetime(f) => out.push_str(&format!("Ld{};", hex(f.value().to_string().as_bytes()))),
        V::Array(a) => {
            let multi = a.trailing().as_str().map(|s| s.contains('\n')).unwrap_or(false)
                || a.iter().any(|e| {
                    e.decor()
                        .prefix()
                        .and_then(|p| p.as_str())
                        .map(|s| s.contains('\n'))
                        .unwrap_or(false)
                });
            out.push(if multi { 'M' } else { 'A' });
            for e in a.iter() {
                shape_of(e, out);
            }
            out.push(']');
        }
        V::InlineTable(t) => {
            out.push('T');
            for (k, e) in t.iter() {
                out.push('K');
                out.push_str(&hex(k.as_bytes()));
                out.push(';');
                if e.as_inline_table().map(|x| x.is_dotted()).unwrap_or(false) {
                    out.push('?'); // a dotted key inside an inline table: never written by the serializer
                }
                shape_of(e, out);
            }
            out.push('}');
        }
    }
}

fn path_of(inner: &str) -> Option<String> {
    let keys = toml_edit::Key::parse(inner).ok()?;
    Some(keys.iter().map(|k| hex(k.get().as_bytes())).collect::<Vec<_>>().join("."))
}

/// `None` = the text does not have the line structure a printer of this crate writes
fn doc_structure(text: &str) -> Option<String> {
    let mut sections: Vec<(String, Vec<String>)> = vec![("R".to_string(), Vec::new())];
    let lines: Vec<&str> = text.split('\n').collect();
    // the text ends with '\n' (or is empty): the last piece of the split is empty
    if lines.last().map(|l| !l.is_empty()).unwrap_or(false) {
        return None;
    }
    let n = lines.len() - 1;
    let mut i = 0;
    while i < n {
        let l = lines[i];
        if l.is_empty() {
            i += 1;
            continue;
        }
        if let Some(rest) = l.strip_prefix("[[") {
            let inner = rest.strip_suffix("]]")?;
            sections.push((format!("A{}", path_of(inner)?), Vec::new()));
            i += 1;
            continue;
        }
        if let Some(rest) = l.strip_prefix('[') {
            let inner = rest.strip_suffix(']')?;
            sections.push((format!("S{}", path_of(inner)?), Vec::new()));
            i += 1;
            continue;
        }
        // a key/value entry: the shortest run of lines that is a document on its own
        let mut chunk = String::new();
        let mut done = false;
        while i < n {
            chunk.push_str(lines[i]);
            chunk.push('\n');
            i += 1;
            if let Ok(d) = chunk.parse::<toml_edit::DocumentMut>() {
                let t = d.as_table();
                let mut it = t.iter();
                match (it.next(), it.next()) {
                    (Some((k, toml_edit::Item::Value(v))), None) => {
                        let mut s = format!("{}=", hex(k.as_bytes()));
                        shape_of(v, &mut s);
                        sections.last_mut().unwrap().1.push(s);
                    }
                    _ => return None,
                }
                done = true;
                break;
            }
        }
        if !done {
            return None;
        }
    }
    Some(
        sections
            .into_iter()
            .map(|(h, ls)| format!("{h}:{}", ls.join(",")))
            .collect::<Vec<_>>()
            .join("/"),
    )
}

fn show_doc(text: &str) -> String {
    doc_structure(text).unwrap_or_else(|| "UNREADABLE".to_string())
}

fn flag(b: bool) -> &'static str {
    if b {
        "ok"
    } else {
        "BAD"
    }
}

// ---------------------------------------------------------------------------------------------
// commands
// ---------------------------------------------------------------------------------------------
#[cfg(feature = "po")]
const MY_ORDER: &[u8] = b"i";
#[cfg(not(feature = "po"))]
const MY_ORDER: &[u8] = b"s";

/// the shape of a text printed by `Display for toml::Value`, read as a toml_edit value
fn disp_shape(text: &str) -> String {
    match text.parse::<toml_edit::Value>() {
        Ok(x) => {
            let mut s = String::new();
            shape_of(&x, &mut s);
            s
        }
        Err(_) => "UNREADABLE".to_string(),
    }
}

fn cmd_val(args: &Args) -> String {
    if args.len() != 2 {
        return "bad-args".to_string();
    }
    if args[0] != MY_ORDER {
        return "skip".to_string();
    }
    let mut rd = Rd { s: &args[1], i: 0 };
    let v = match read_value(&mut rd) {
        Some(v) if rd.i == args[1].len() => v,
        _ => return "bad-tree".to_string(),
    };
    let Value::Table(t) = &v else {
        // a lone value: no document (a document is a table); Display for Value prints the value itself
        return format!(
            "not-a-table:{} vdisp={}",
            if toml::to_string(&v).is_ok() { "ok" } else { "err" },
            disp_shape(&v.to_string())
        );
    };
    let (Ok(text), Ok(ptext)) = (toml::to_string(&v), toml::to_string_pretty(&v)) else {
        return "ser-error".to_string();
    };
    let ttext = t.to_string();
    let Ok(stext) = toml::to_string(&Plain(&v)) else {
        return "ser-error".to_string();
    };
    let vdisp = v.to_string();
    let det = toml::to_string(&v).ok().as_deref() == Some(&text)
        && toml::to_string_pretty(&v).ok().as_deref() == Some(&ptext)
        && t.to_string() == ttext
        && v.to_string() == vdisp
        && toml::to_string(t).ok().as_deref() == Some(&ttext)
        && toml::to_string(&Plain(&v)).ok().as_deref() == Some(&stext);
    let sback = toml::from_str::<Value>(&stext);
    let sdec = match &sback {
        Ok(b) => *b == v,
        Err(_) => false,
    };
    let s2fix = match &sback {
        Ok(b) => match toml::to_string(b) {
            Ok(t2) => match toml::from_str::<Value>(&t2) {
                Ok(b2) => toml::to_string(&b2).ok().as_deref() == Some(&t2),
                Err(_) => false,
            },
            Err(_) => false,
        },
        Err(_) => false,
    };
    let back = toml::from_str::<Value>(&text);
    let pback = toml::from_str::<Value>(&ptext);
    let rb = match &back {
        Ok(b) => {
            let mut s = String::new();
            enc_value(b, &mut s);
            s
        }
        Err(_) => "ERR".to_string(),
    };
    let fix = match &back {
        Ok(b) => toml::to_string(b).ok().as_deref() == Some(&text),
        Err(_) => false,
    };
    let pp = match (&back, &pback) {
        (Ok(a), Ok(b)) => a == b,
        _ => false,
    };
    let dec = match &back {
        Ok(b) => *b == v,
        Err(_) => false,
    };
    let tfix = match ttext.parse::<Table>() {
        Ok(t2) => {
            let s2 = t2.to_string();
            *t == t2 && s2 == ttext
        }
        Err(_) => false,
    };
    let vd = disp_shape(&vdisp);
    // Display of every entry of the root table taken by itself (`table["k"].to_string()`), in the map's order
    let ed: Vec<String> = t.iter().map(|(_, e)| disp_shape(&e.to_string())).collect();
    format!(
        "vdoc={} pdoc={} tdoc={} sdoc={} vdisp={} edisp={} rb={} fix={} pp={} dec={} tfix={} sdec={} s2fix={} det={} # text={} ptext={} ttext={} stext={}",
        show_doc(&text),
        show_doc(&ptext),
        show_doc(&ttext),
        show_doc(&stext),
        vd,
        ed.join(","),
        rb,
        flag(fix),
        flag(pp),
        flag(dec),
        flag(tfix),
        flag(sdec),
        flag(s2fix),
        flag(det),
        hex(text.as_bytes()),
        hex(ptext.as_bytes()),
        hex(ttext.as_bytes()),
        hex(stext.as_bytes())
    )
}

fn cmd_txt(args: &Args) -> String {
    if args.len() != 1 {
        return "bad-args".to_string();
    }
    let Ok(src) = std::str::from_utf8(&args[0]) else {
        return "invalid".to_string();
    };
    let Ok(t) = src.parse::<Table>() else {
        return "invalid".to_string();
    };
    let s1 = t.to_string();
    let twice = match s1.parse::<Table>() {
        Ok(t2) => t2.to_string() == s1 && t.to_string() == s1,
        Err(_) => false,
    };
    format!("tdoc={} twice={} # ttext={}", show_doc(&s1), flag(twice), hex(s1.as_bytes()))
}

fn run_cmd(cmd: &str, args: &Args) -> String {
    match cmd {
        "val" => cmd_val(args),
        "txt" => cmd_txt(args),
        _ => "unknown-command".to_string(),
    }
}

fn main() {
    verif_harness::main_loop(run_cmd);
}
