//! verif-harness — runs the real library (path dependencies on /repo's working tree) on the
//! cases of the correspondence protocol and prints one canonical observation line per case.
//!
//! stdin:  `<cmd> <hex> <hex> ...` per line ("-" = empty byte string)
//! stdout: one line per case, the same canonical text the extracted model prints.
use std::io::{BufRead, Write};

mod util;
mod dt;
mod tree;

pub type Args = Vec<Vec<u8>>;

fn run_cmd(cmd: &str, args: &Args) -> String {
    match cmd {
        "dt" => dt::cmd_dt(args),
        "dtp" => dt::cmd_dtp(args),
        "doc" => tree::cmd_doc(args),
        "val" => tree::cmd_val(args),
        _ => "unknown-command".to_string(),
    }
}

fn main() {
    // panics are observations, not crashes: keep the default hook quiet
    std::panic::set_hook(Box::new(|_| {}));
    let stdin = std::io::stdin();
    let stdout = std::io::stdout();
    let mut out = std::io::BufWriter::new(stdout.lock());
    for line in stdin.lock().lines() {
        let line = line.expect("read");
        let mut it = line.split(' ').filter(|s| !s.is_empty());
        let cmd = match it.next() {
            Some(c) => c.to_string(),
            None => {
                writeln!(out).unwrap();
                continue;
            }
        };
        let args: Args = it.map(util::unhex).collect();
        let res = std::panic::catch_unwind(|| run_cmd(&cmd, &args));
        match res {
            Ok(s) => writeln!(out, "{s}").unwrap(),
            Err(p) => {
                let msg = if let Some(s) = p.downcast_ref::<&str>() {
                    s.to_string()
                } else if let Some(s) = p.downcast_ref::<String>() {
                    s.clone()
                } else {
                    "?".to_string()
                };
                writeln!(out, "PANIC {}", util::hex(msg.as_bytes())).unwrap()
            }
        }
    }
    out.flush().unwrap();
}
