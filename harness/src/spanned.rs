//! `spanned`: spans delivered through serde (`Spanned<T>` fields and map keys) are the document's
//! spans, and wrapping a target type in `Spanned` never changes success or values (C14, serde half).
use serde::Deserialize;
use serde_spanned::Spanned;
use std::collections::BTreeMap;
use toml_edit::Item;

#[derive(Deserialize, Debug, PartialEq, Clone)]
struct Inner {
    x: i64,
    #[serde(default)]
    y: Option<String>,
}
#[derive(Deserialize, Debug, PartialEq)]
struct Plain {
    a: i64,
    b: String,
    c: Vec<i64>,
    t: Inner,
    #[serde(default)]
    u: Vec<Inner>,
    #[serde(default)]
    f: Option<f64>,
}
#[derive(Deserialize, Debug)]
struct InnerS {
    x: Spanned<i64>,
    #[serde(default)]
    y: Option<Spanned<String>>,
}
#[derive(Deserialize, Debug)]
struct Wrapped {
    a: Spanned<i64>,
    b: Spanned<String>,
    c: Spanned<Vec<Spanned<i64>>>,
    t: Spanned<InnerS>,
    #[serde(default)]
    u: Vec<Spanned<InnerS>>,
    #[serde(default)]
    f: Option<Spanned<f64>>,
}

fn erase_inner(i: &InnerS) -> Inner {
    Inner { x: *i.x.get_ref(), y: i.y.as_ref().map(|s| s.get_ref().clone()) }
}
fn erase(w: &Wrapped) -> Plain {
    Plain {
        a: *w.a.get_ref(),
        b: w.b.get_ref().clone(),
        c: w.c.get_ref().iter().map(|x| *x.get_ref()).collect(),
        t: erase_inner(w.t.get_ref()),
        u: w.u.iter().map(|x| erase_inner(x.get_ref())).collect(),
        f: w.f.as_ref().map(|x| *x.get_ref()),
    }
}

fn sp<T>(s: &Spanned<T>) -> String {
    format!("{}-{}", s.span().start, s.span().end)
}
fn isp(i: Option<&Item>) -> String {
    match i.and_then(|i| i.span()) {
        Some(r) => format!("{}-{}", r.start, r.end),
        None => "none".into(),
    }
}

/// struct family: transparency + span equality with the document's own spans
fn fixed(s: &str) -> String {
    let plain = toml::from_str::<Plain>(s);
    let wrapped = toml::from_str::<Wrapped>(s);
    let plain_e = toml_edit::de::from_str::<Plain>(s);
    let wrapped_e = toml_edit::de::from_str::<Wrapped>(s);
    let v = |b: bool| if b { "ok" } else { "err" };
    let mut out = format!(
        "plain={} wrapped={} plain_edit={} wrapped_edit={}",
        v(plain.is_ok()), v(wrapped.is_ok()), v(plain_e.is_ok()), v(wrapped_e.is_ok())
    );
    if let (Ok(p), Ok(w)) = (&plain, &wrapped) {
        out += if erase(w) == *p { " values=same" } else { " values=DIFF" };
        // compare with the document's spans
        if let Ok(d) = toml_edit::ImDocument::parse(s) {
            let t = d.as_table();
            let mut same = true;
            same &= sp(&w.a) == isp(t.get("a"));
            same &= sp(&w.b) == isp(t.get("b"));
            same &= sp(&w.c) == isp(t.get("c"));
            if let Some(Item::Value(toml_edit::Value::Array(arr))) = t.get("c") {
                for (e, x) in arr.iter().zip(w.c.get_ref().iter()) {
                    same &= Some(x.span()) == e.span();
                }
            }
            same &= sp(&w.t) == isp(t.get("t"));
            let tx = t.get("t").and_then(|i| i.as_table_like()).and_then(|tl| tl.get("x"));
            same &= sp(&w.t.get_ref().x) == isp(tx);
            out += if same { " spans=same" } else { " spans=DIFF" };
        }
    }
    out
}

/// any document: top-level keys and values through a map with Spanned keys and values
fn generic(s: &str) -> String {
    let plain = toml::from_str::<BTreeMap<String, toml::Value>>(s);
    let wrapped = toml::from_str::<BTreeMap<Spanned<String>, Spanned<toml::Value>>>(s);
    let v = |b: bool| if b { "ok" } else { "err" };
    let mut out = format!("plain={} wrapped={}", v(plain.is_ok()), v(wrapped.is_ok()));
    // classifier input for the known finding C14-implicit-table-span: top-level tables that exist only
    // because a longer header mentions them have no span
    if let Ok(d) = toml_edit::ImDocument::parse(s) {
        let n = d.as_table().iter().filter(|(_, i)| i.span().is_none()).count();
        // ... of which: entries that are NOT implicit tables (an explicit [header] table, a value, an array of tables)
        let ne = d
            .as_table()
            .iter()
            .filter(|(_, i)| i.span().is_none() && !matches!(i, Item::Table(t) if t.is_implicit()))
            .count();
        out += &format!(" nospan={n} nospan_explicit={ne}");
    }
    if let (Ok(p), Ok(w)) = (&plain, &wrapped) {
        let erased: BTreeMap<String, toml::Value> =
            w.iter().map(|(k, v)| (k.get_ref().clone(), v.get_ref().clone())).collect();
        // NaN != NaN: compare through Debug text
        out += if format!("{erased:?}") == format!("{p:?}") { " values=same" } else { " values=DIFF" };
        if let Ok(d) = toml_edit::ImDocument::parse(s) {
            let t = d.as_table();
            let mut same = true;
            let mut n = 0;
            for (k, val) in w.iter() {
                let key = t.key(k.get_ref());
                let ks = key.and_then(|k| k.span());
                same &= ks == Some(k.span());
                same &= t.get(k.get_ref()).and_then(|i| i.span()) == Some(val.span());
                n += 1;
            }
            out += &format!(" spans={} n={}", if same { "same" } else { "DIFF" }, n);
        }
        // the byte entry point must deliver the same spans (offsets into the bytes that were passed in, BOM included)
        match toml_edit::de::from_slice::<BTreeMap<Spanned<String>, Spanned<toml::Value>>>(s.as_bytes()) {
            Ok(ws) => {
                let a: Vec<_> = w.iter().map(|(k, v)| (k.span(), v.span())).collect();
                let b: Vec<_> = ws.iter().map(|(k, v)| (k.span(), v.span())).collect();
                out += if a == b { " slice=same" } else { " slice=DIFF" };
            }
            Err(_) => out += " slice=err",
        }
    }
    out
}

pub fn cmd_spanned(args: &crate::Args) -> String {
    let s = match std::str::from_utf8(&args[1]) {
        Ok(s) => s,
        Err(_) => return "not-utf8".into(),
    };
    match args[0].as_slice() {
        b"fixed" => fixed(s),
        b"generic" => generic(s),
        _ => "bad-args".into(),
    }
}
