//! `dt`: the standalone date-time parser, the document grammar's date-time (through
//! `Value::from_str`) and the printer on the same string.
use crate::util::*;
use crate::Args;
use toml_datetime::{Datetime, Offset};

pub fn show_datetime(d: &Datetime) -> String {
    let date = show_opt(d.date, |x| format!("{}-{}-{}", x.year, x.month, x.day));
    let time = show_opt(d.time, |t| format!("{}:{}:{}.{}", t.hour, t.minute, t.second, t.nanosecond));
    let off = show_opt(d.offset, |o| match o {
        Offset::Z => "Z".to_string(),
        Offset::Custom { minutes } => format!("C{minutes}"),
    });
    format!("dt({date};{time};{off})")
}

pub fn std_parse(s: &[u8]) -> Option<Datetime> {
    let s = std::str::from_utf8(s).ok()?;
    s.parse::<Datetime>().ok()
}

pub fn doc_parse(s: &[u8]) -> Option<Datetime> {
    let s = std::str::from_utf8(s).ok()?;
    match s.parse::<toml_edit::Value>() {
        Ok(toml_edit::Value::Datetime(f)) => Some(*f.value()),
        _ => None,
    }
}

pub fn cmd_dt(args: &Args) -> String {
    let s = &args[0];
    let std = std_parse(s);
    let doc = doc_parse(s);
    let v = std.or(doc);
    let disp = v.map(|d| d.to_string());
    format!(
        "std={} doc={} disp={} rstd={} rdoc={}",
        show_opt(std.as_ref(), show_datetime),
        show_opt(doc.as_ref(), show_datetime),
        show_opt(disp.as_ref(), |d| hex(d.as_bytes())),
        show_opt(disp.as_ref(), |d| show_opt(std_parse(d.as_bytes()).as_ref(), show_datetime)),
        show_opt(disp.as_ref(), |d| show_opt(doc_parse(d.as_bytes()).as_ref(), show_datetime)),
    )
}

fn num<T: std::str::FromStr>(a: &[u8]) -> T
where
    T::Err: std::fmt::Debug,
{
    std::str::from_utf8(a).unwrap().parse::<T>().unwrap()
}

pub fn cmd_dtp(args: &Args) -> String {
    use toml_datetime::{Date, Time};
    if args.len() != 12 {
        return "bad-args".into();
    }
    let date = if args[0] == b"1" {
        Some(Date { year: num(&args[1]), month: num(&args[2]), day: num(&args[3]) })
    } else {
        None
    };
    let time = if args[4] == b"1" {
        Some(Time { hour: num(&args[5]), minute: num(&args[6]), second: num(&args[7]), nanosecond: num(&args[8]) })
    } else {
        None
    };
    let offset = if args[9] == b"Z" {
        Some(Offset::Z)
    } else if args[9] == b"C" {
        let m: i16 = num(&args[11]);
        Some(Offset::Custom { minutes: if args[10] == b"1" { -m } else { m } })
    } else {
        None
    };
    let v = Datetime { date, time, offset };
    let disp = v.to_string();
    format!(
        "val={} disp={} rstd={} rdoc={}",
        show_datetime(&v),
        hex(disp.as_bytes()),
        show_opt(std_parse(disp.as_bytes()).as_ref(), show_datetime),
        show_opt(doc_parse(disp.as_bytes()).as_ref(), show_datetime),
    )
}
