pub fn unhex(s: &str) -> Vec<u8> {
    if s == "-" {
        return Vec::new();
    }
    let b = s.as_bytes();
    let mut out = Vec::with_capacity(b.len() / 2);
    let v = |c: u8| -> u8 {
        match c {
            b'0'..=b'9' => c - b'0',
            b'a'..=b'f' => c - b'a' + 10,
            b'A'..=b'F' => c - b'A' + 10,
            _ => panic!("bad hex"),
        }
    };
    let mut i = 0;
    while i + 1 < b.len() {
        out.push(v(b[i]) * 16 + v(b[i + 1]));
        i += 2;
    }
    out
}

pub fn hex(b: &[u8]) -> String {
    if b.is_empty() {
        return "-".to_string();
    }
    let mut s = String::with_capacity(b.len() * 2);
    for x in b {
        s.push_str(&format!("{x:02x}"));
    }
    s
}

pub fn show_opt<T>(o: Option<T>, f: impl Fn(T) -> String) -> String {
    match o {
        Some(x) => f(x),
        None => "none".to_string(),
    }
}
