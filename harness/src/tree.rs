//! canonical dump of the decoded tree through the public accessors (same format as
//! Extract/Show.v: show_tbl / show_value)
use crate::dt::show_datetime;
use crate::util::*;
use toml_edit::{Item, Table, Value};

pub fn show_f64(f: f64) -> String {
    if f.is_nan() {
        if f.is_sign_negative() { "f:-nan".into() } else { "f:nan".into() }
    } else if f.is_infinite() {
        if f < 0.0 { "f:-inf".into() } else { "f:inf".into() }
    } else {
        format!("f:bits:{:016x}", f.to_bits())
    }
}

pub fn show_value(v: &Value) -> String {
    match v {
        Value::String(s) => format!("s:{}", hex(s.value().as_bytes())),
        Value::Integer(i) => format!("i:{}", i.value()),
        Value::Float(f) => show_f64(*f.value()),
        Value::Boolean(b) => format!("b:{}", b.value()),
        Value::Datetime(d) => show_datetime(d.value()),
        Value::Array(a) => {
            let parts: Vec<String> = a.iter().map(show_value).collect();
            format!("[{}]", parts.join(","))
        }
        Value::InlineTable(t) => {
            let parts: Vec<String> = t
                .iter()
                .map(|(k, v)| format!("{}={}", hex(k.as_bytes()), show_value(v)))
                .collect();
            format!("{{{}}}", parts.join(","))
        }
    }
}

pub fn show_table(t: &Table) -> String {
    let mut parts = Vec::new();
    for (k, it) in t.iter() {
        let k = hex(k.as_bytes());
        match it {
            Item::None => {}
            Item::Value(v) => parts.push(format!("{k}={}", show_value(v))),
            Item::Table(s) => parts.push(format!("{k}={}", show_table(s))),
            Item::ArrayOfTables(a) => {
                let ts: Vec<String> = a.iter().map(show_table).collect();
                parts.push(format!("{k}=A[{}]", ts.join(",")))
            }
        }
    }
    format!("T{{{}}}", parts.join(","))
}

pub fn cmd_doc(args: &crate::Args) -> String {
    let s = match std::str::from_utf8(&args[0]) {
        Ok(s) => s,
        Err(_) => return "not-utf8".into(),
    };
    match toml_edit::ImDocument::parse(s) {
        Ok(d) => {
            let tree = show_table(d.as_table());
            let text = d.into_mut().to_string();
            format!("ok tree={} print={}", tree, hex(text.as_bytes()))
        }
        Err(_) => "err".into(),
    }
}

pub fn cmd_val(args: &crate::Args) -> String {
    let s = match std::str::from_utf8(&args[0]) {
        Ok(s) => s,
        Err(_) => return "not-utf8".into(),
    };
    match s.parse::<Value>() {
        Ok(v) => format!("ok val={} print={}", show_value(&v), hex(v.to_string().as_bytes())),
        Err(_) => "err".into(),
    }
}

/// `docf`: the verdicts of every front end on the same bytes (C01 "the format-preserving
/// parser and the serde front end give the same verdict"); the argument may be invalid UTF-8.
pub fn cmd_docf(args: &crate::Args) -> String {
    let b = &args[0];
    let v = |ok: bool| if ok { "ok" } else { "err" };
    let slice = toml_edit::de::from_slice::<toml::Table>(b).is_ok();
    match std::str::from_utf8(b) {
        Err(_) => format!("utf8=no slice={}", v(slice)),
        Ok(s) => {
            let edit = s.parse::<toml_edit::DocumentMut>().is_ok();
            let im = toml_edit::ImDocument::parse(s).is_ok();
            let table = toml::from_str::<toml::Table>(s).is_ok();
            let value = s.parse::<toml::Table>().is_ok();
            let de = toml_edit::de::from_str::<toml::Table>(s).is_ok();
            format!(
                "utf8=yes edit={} im={} toml_table={} toml_parse={} edit_de={} slice={}",
                v(edit), v(im), v(table), v(value), v(de), v(slice)
            )
        }
    }
}

// ---- type-erased, key-sorted dumps to compare toml_edit trees with toml::Value -------------
fn erased_value(v: &Value) -> String {
    match v {
        Value::Array(a) => format!("[{}]", a.iter().map(erased_value).collect::<Vec<_>>().join(",")),
        Value::InlineTable(t) => {
            let mut parts: Vec<(String, String)> =
                t.iter().map(|(k, v)| (hex(k.as_bytes()), erased_value(v))).collect();
            parts.sort();
            format!("{{{}}}", parts.iter().map(|(k, v)| format!("{k}={v}")).collect::<Vec<_>>().join(","))
        }
        other => show_value(other),
    }
}

pub fn erased_table(t: &Table) -> String {
    let mut parts: Vec<(String, String)> = Vec::new();
    for (k, it) in t.iter() {
        let k = hex(k.as_bytes());
        match it {
            Item::None => {}
            Item::Value(v) => parts.push((k, erased_value(v))),
            Item::Table(s) => parts.push((k, erased_table(s))),
            Item::ArrayOfTables(a) => {
                parts.push((k, format!("[{}]", a.iter().map(erased_table).collect::<Vec<_>>().join(","))))
            }
        }
    }
    parts.sort();
    format!("{{{}}}", parts.iter().map(|(k, v)| format!("{k}={v}")).collect::<Vec<_>>().join(","))
}

pub fn erased_toml(v: &toml::Value) -> String {
    match v {
        toml::Value::String(s) => format!("s:{}", hex(s.as_bytes())),
        toml::Value::Integer(i) => format!("i:{i}"),
        toml::Value::Float(f) => show_f64(*f),
        toml::Value::Boolean(b) => format!("b:{b}"),
        toml::Value::Datetime(d) => show_datetime(d),
        toml::Value::Array(a) => format!("[{}]", a.iter().map(erased_toml).collect::<Vec<_>>().join(",")),
        toml::Value::Table(t) => {
            let mut parts: Vec<(String, String)> =
                t.iter().map(|(k, v)| (hex(k.as_bytes()), erased_toml(v))).collect();
            parts.sort();
            format!("{{{}}}", parts.iter().map(|(k, v)| format!("{k}={v}")).collect::<Vec<_>>().join(","))
        }
    }
}

/// `docv`: the serde front end decodes to the same data as the format-preserving parser
pub fn cmd_docv(args: &crate::Args) -> String {
    let s = match std::str::from_utf8(&args[0]) {
        Ok(s) => s,
        Err(_) => return "not-utf8".into(),
    };
    let edit = match toml_edit::ImDocument::parse(s) {
        Ok(d) => d,
        Err(_) => return "err".into(),
    };
    let tv = match toml::from_str::<toml::Value>(s) {
        Ok(v) => v,
        Err(_) => return format!("err-toml edit={}", show_table(edit.as_table())),
    };
    let a = erased_table(edit.as_table());
    let b = erased_toml(&tv);
    let tt = match s.parse::<toml::Table>() {
        Ok(t) => erased_toml(&toml::Value::Table(t)),
        Err(_) => "err".into(),
    };
    format!(
        "ok edit={} same={}",
        show_table(edit.as_table()),
        if a == b && a == tt { "yes" } else { "no" }
    )
}

/// `rt`: parse, print without edits, re-parse the printed text, print again (C03)
pub fn cmd_rt(args: &crate::Args) -> String {
    let s = match std::str::from_utf8(&args[0]) {
        Ok(s) => s,
        Err(_) => return "not-utf8".into(),
    };
    let d = match s.parse::<toml_edit::DocumentMut>() {
        Ok(d) => d,
        Err(_) => return "err".into(),
    };
    let p1 = d.to_string();
    let t1 = show_table(d.as_table());
    let (reparse, fix) = match p1.parse::<toml_edit::DocumentMut>() {
        Ok(d2) => (
            if show_table(d2.as_table()) == t1 { "same" } else { "DIFF" },
            if d2.to_string() == p1 { "yes" } else { "no" },
        ),
        Err(_) => ("ERR", "no"),
    };
    format!("ok print={} reparse={} fix={}", hex(p1.as_bytes()), reparse, fix)
}

// ---- `acc`: every node of a parsed document looked at through the public read API only ------
// (Item / Value type_name, is_x, as_x, as_table_like, Item::get by key / index / String / &T,
//  Array::get / len, InlineTable::get, doc["k"]); same format as Model/Accessors.v acc_doc.
fn bit(b: bool) -> char {
    if b { '1' } else { '0' }
}
fn us(s: &str) -> String {
    s.replace(' ', "_")
}
fn plus_join(l: Vec<String>) -> String {
    if l.is_empty() { "-".into() } else { l.join("+") }
}
fn show_tn(o: Option<&str>) -> String {
    match o {
        Some(t) => us(t),
        None => "NONE".into(),
    }
}

fn value_head(v: &Value) -> String {
    let flags: String = [v.is_str(), v.is_integer(), v.is_float(), v.is_bool(), v.is_datetime(), v.is_array(), v.is_inline_table()]
        .iter().map(|b| bit(*b)).collect();
    let mut pl = Vec::new();
    if let Some(s) = v.as_str() { pl.push(format!("s:{}", hex(s.as_bytes()))); }
    if let Some(i) = v.as_integer() { pl.push(format!("i:{i}")); }
    if let Some(f) = v.as_float() { pl.push(show_f64(f)); }
    if let Some(b) = v.as_bool() { pl.push(format!("b:{b}")); }
    if let Some(d) = v.as_datetime() { pl.push(show_datetime(d)); }
    if let Some(a) = v.as_array() { pl.push(format!("n:{}", a.len())); }
    format!("{}/{}/{}", us(v.type_name()), flags, plus_join(pl))
}

fn item_head(it: &Item) -> String {
    let flags: String = [
        it.is_none(), it.is_value(), it.is_table(), it.is_array_of_tables(), it.is_table_like(),
        it.is_str(), it.is_integer(), it.is_float(), it.is_bool(), it.is_datetime(), it.is_array(), it.is_inline_table(),
    ].iter().map(|b| bit(*b)).collect();
    let mut pl = Vec::new();
    if let Some(s) = it.as_str() { pl.push(format!("s:{}", hex(s.as_bytes()))); }
    if let Some(i) = it.as_integer() { pl.push(format!("i:{i}")); }
    if let Some(f) = it.as_float() { pl.push(show_f64(f)); }
    if let Some(b) = it.as_bool() { pl.push(format!("b:{b}")); }
    if let Some(d) = it.as_datetime() { pl.push(show_datetime(d)); }
    if let Some(a) = it.as_array() { pl.push(format!("n:{}", a.len())); }
    if let Some(tl) = it.as_table_like() {
        // the view's len / is_empty next to the container's own len
        let own = match (it.as_table(), it.as_inline_table()) {
            (Some(t), _) => t.len(),
            (_, Some(t)) => t.len(),
            _ => usize::MAX,
        };
        pl.push(format!("l:{}:{}{}", tl.len(), own, if tl.is_empty() { "e" } else { "" }));
    }
    format!("{}/{}/{}", us(it.type_name()), flags, plus_join(pl))
}

fn acc_value(v: &Value) -> String {
    let mut s = value_head(v);
    if let Some(a) = v.as_array() {
        let mut parts = Vec::new();
        for i in 0..a.len() {
            if let Some(e) = a.get(i) {
                parts.push(format!("{}@{}", acc_value(e), show_tn(a.get(i).map(|x| x.type_name()))));
            }
        }
        s.push_str(&format!("[{}]", parts.join(",")));
    }
    if let Some(t) = v.as_inline_table() {
        let parts: Vec<String> = t
            .iter()
            .map(|(k, e)| format!("{}={}@{}", hex(k.as_bytes()), acc_value(e), show_tn(t.get(k).map(|x| x.type_name()))))
            .collect();
        s.push_str(&format!("{{{}}}", parts.join(",")));
    }
    s
}

/// what `Item::get` answers for a key, asked four ways (str, String, &str, &String): they must agree
fn get_key<'a>(it: &'a Item, k: &str) -> Option<&'a Item> {
    let a = it.get(k);
    let owned = k.to_string();
    let b = it.get(owned.clone());
    let c = it.get(&k);
    let d = it.get(&owned);
    let same = |x: Option<&Item>, y: Option<&Item>| match (x, y) {
        (Some(p), Some(q)) => std::ptr::eq(p, q),
        (None, None) => true,
        _ => false,
    };
    assert!(same(a, b) && same(a, c) && same(a, d), "Item::get disagrees between str / String / &T");
    a
}

fn acc_item(it: &Item) -> String {
    let mut s = item_head(it);
    if let Some(v) = it.as_value() {
        s.push_str(&format!("V({})", acc_value(v)));
    }
    if let Some(t) = it.as_table() {
        // the table-like view must hand out the same entries
        let tl = it.as_table_like().expect("a table is table-like");
        assert_eq!(tl.iter().count(), t.iter().count());
        let parts: Vec<String> = t
            .iter()
            .map(|(k, child)| format!("{}={}@{}", hex(k.as_bytes()), acc_item(child), show_tn(get_key(it, k).map(|x| x.type_name()))))
            .collect();
        s.push_str(&format!("T{{{}}}", parts.join(",")));
    }
    if let Some(a) = it.as_array_of_tables() {
        let mut parts = Vec::new();
        for (i, _t) in a.iter().enumerate() {
            let e = it.get(i);
            let inner = match e {
                Some(x) => acc_item(x),
                None => "MISSING".into(),
            };
            parts.push(format!("{}@{}", inner, show_tn(e.map(|x| x.type_name()))));
        }
        s.push_str(&format!("A[{}]{}", parts.join(","), show_tn(it.get(a.len()).map(|x| x.type_name()))));
    }
    s
}

fn acc_item_indices(it: &Item) -> String {
    match it.as_array() {
        Some(a) => (0..=a.len()).map(|i| show_tn(it.get(i).map(|x| x.type_name()))).collect::<Vec<_>>().join(","),
        None => "-".into(),
    }
}

pub fn cmd_acc(args: &crate::Args) -> String {
    let s = match std::str::from_utf8(&args[0]) {
        Ok(s) => s,
        Err(_) => return "not-utf8".into(),
    };
    match s.parse::<toml_edit::DocumentMut>() {
        Ok(d) => {
            let root = d.as_item();
            let mut idx = Vec::new();
            for (k, it) in d.as_table().iter() {
                // Index<&str> for DocumentMut (panics on a missing key: these keys are present)
                let via_doc: &Item = &d[k];
                idx.push(format!("{}:{}", show_tn(Some(via_doc.type_name())), acc_item_indices(it)));
            }
            format!("ok acc={} idx={}", acc_item(root), plus_join(idx))
        }
        Err(_) => "err".into(),
    }
}

// ---- `accv`: toml::Value looked at through its read API only (Model/AccessorsToml.v acc_tv) ----
fn tv_head(v: &toml::Value) -> String {
    use toml::Value as V;
    let flags: String = [v.is_str(), v.is_integer(), v.is_float(), v.is_bool(), v.is_datetime(), v.is_array(), v.is_table()]
        .iter().map(|b| bit(*b)).collect();
    let probes = [
        V::String(String::new()), V::Integer(0), V::Float(0.0), V::Boolean(false),
        V::Datetime("00:00:00".parse().unwrap()), V::Array(Vec::new()), V::Table(toml::Table::new()),
    ];
    let same: String = probes.iter().map(|p| bit(v.same_type(p))).collect();
    let mut pl = Vec::new();
    if let Some(s) = v.as_str() { pl.push(format!("s:{}", hex(s.as_bytes()))); }
    if let Some(i) = v.as_integer() { pl.push(format!("i:{i}")); }
    if v.as_float().is_some() { pl.push("f:?".to_string()); }
    if let Some(b) = v.as_bool() { pl.push(format!("b:{b}")); }
    if let Some(d) = v.as_datetime() { pl.push(show_datetime(d)); }
    if let Some(a) = v.as_array() { pl.push(format!("n:{}", a.len())); }
    if let Some(t) = v.as_table() { pl.push(format!("m:{}", t.len())); }
    format!("{}/{}/{}/{}", us(v.type_str()), flags, same, plus_join(pl))
}

fn acc_tv(v: &toml::Value) -> String {
    let mut s = tv_head(v);
    if let Some(a) = v.as_array() {
        let parts: Vec<String> = a
            .iter()
            .enumerate()
            .map(|(i, e)| format!("{}@{}", acc_tv(e), show_tn(v.get(i).map(|x| x.type_str()))))
            .collect();
        s.push_str(&format!("[{}]{}", parts.join(","), show_tn(v.get(a.len()).map(|x| x.type_str()))));
    }
    if let Some(t) = v.as_table() {
        let parts: Vec<String> = t
            .iter()
            .map(|(k, e)| {
                // str, String, &str, &String must answer alike
                let g = v.get(k.as_str());
                let g2 = v.get(k.clone());
                let g3 = v.get(&k.as_str());
                let g4 = v.get(k);
                let same = |x: Option<&toml::Value>, y: Option<&toml::Value>| match (x, y) {
                    (Some(p), Some(q)) => std::ptr::eq(p, q),
                    (None, None) => true,
                    _ => false,
                };
                assert!(same(g, g2) && same(g, g3) && same(g, g4), "Value::get disagrees between str / String / &T");
                format!("{}={}@{}", hex(k.as_bytes()), acc_tv(e), show_tn(g.map(|x| x.type_str())))
            })
            .collect();
        s.push_str(&format!("{{{}}}", parts.join(",")));
        // the double-ended iterators of toml::Map: every one of them read from the back, and alternately from both ends
        let back: Vec<String> = t.iter().rev().map(|(k, _)| hex(k.as_bytes())).collect();
        let back_keys: Vec<String> = t.keys().rev().map(|k| hex(k.as_bytes())).collect();
        let back_vals: Vec<&str> = t.values().rev().map(|x| x.type_str()).collect();
        let fwd_vals: Vec<&str> = t.values().map(|x| x.type_str()).collect();
        let back_owned: Vec<String> = t.clone().into_iter().rev().map(|(k, _)| hex(k.as_bytes())).collect();
        let mut tm = t.clone();
        let back_mut: Vec<String> = tm.iter_mut().rev().map(|(k, _)| hex(k.as_bytes())).collect();
        assert!(back == back_keys && back == back_owned && back == back_mut, "Map iterators disagree when read from the back");
        assert!(back_vals.iter().rev().eq(fwd_vals.iter()), "Map::values read from the back is not the reverse");
        assert_eq!(t.iter().len(), t.len());
        let mut it = t.iter();
        let mut alt = Vec::new();
        loop {
            match it.next() {
                Some((k, _)) => alt.push(hex(k.as_bytes())),
                None => break,
            }
            match it.next_back() {
                Some((k, _)) => alt.push(hex(k.as_bytes())),
                None => break,
            }
        }
        s.push_str(&format!("r={}x={}", plus_join(back), plus_join(alt)));
    }
    s
}

pub fn cmd_accv(args: &crate::Args) -> String {
    let s = match std::str::from_utf8(&args[0]) {
        Ok(s) => s,
        Err(_) => return "not-utf8".into(),
    };
    match toml::from_str::<toml::Value>(s) {
        Ok(v) => format!("ok accv={}", acc_tv(&v)),
        Err(_) => "err".into(),
    }
}
