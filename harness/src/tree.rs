//! canonical dump of the decoded tree through the public accessors (same format as
//! Extract/Show.v: show_tbl / show_value)
use crate::dt::show_datetime;
use crate::util::*;
use toml_edit::{Item, Table, Value};

pub fn show_f64(f: f64) -> String {
    if f.is_nan() {
        if f.is_sign_negative() { "f:-nan".into() } else { "f:nan".into() }
    } else if f.is_infinite() {
        if f < 0.0 { "f:-inf".into() } else { "f:inf".into() }
    } else {
        format!("f:bits:{:016x}", f.to_bits())
    }
}

pub fn show_value(v: &Value) -> String {
    match v {
        Value::String(s) => format!("s:{}", hex(s.value().as_bytes())),
        Value::Integer(i) => format!("i:{}", i.value()),
        Value::Float(f) => show_f64(*f.value()),
        Value::Boolean(b) => format!("b:{}", b.value()),
        Value::Datetime(d) => show_datetime(d.value()),
        Value::Array(a) => {
            let parts: Vec<String> = a.iter().map(show_value).collect();
            format!("[{}]", parts.join(","))
        }
        Value::InlineTable(t) => {
            let parts: Vec<String> = t
                .iter()
                .map(|(k, v)| format!("{}={}", hex(k.as_bytes()), show_value(v)))
                .collect();
            format!("{{{}}}", parts.join(","))
        }
    }
}

pub fn show_table(t: &Table) -> String {
    let mut parts = Vec::new();
    for (k, it) in t.iter() {
        let k = hex(k.as_bytes());
        match it {
            Item::None => {}
            Item::Value(v) => parts.push(format!("{k}={}", show_value(v))),
            Item::Table(s) => parts.push(format!("{k}={}", show_table(s))),
            Item::ArrayOfTables(a) => {
                let ts: Vec<String> = a.iter().map(show_table).collect();
                parts.push(format!("{k}=A[{}]", ts.join(",")))
            }
        }
    }
    format!("T{{{}}}", parts.join(","))
}

pub fn cmd_doc(args: &crate::Args) -> String {
    let s = match std::str::from_utf8(&args[0]) {
        Ok(s) => s,
        Err(_) => return "not-utf8".into(),
    };
    match toml_edit::ImDocument::parse(s) {
        Ok(d) => {
            let tree = show_table(d.as_table());
            let text = d.into_mut().to_string();
            format!("ok tree={} print={}", tree, hex(text.as_bytes()))
        }
        Err(_) => "err".into(),
    }
}

pub fn cmd_val(args: &crate::Args) -> String {
    let s = match std::str::from_utf8(&args[0]) {
        Ok(s) => s,
        Err(_) => return "not-utf8".into(),
    };
    match s.parse::<Value>() {
        Ok(v) => format!("ok val={} print={}", show_value(&v), hex(v.to_string().as_bytes())),
        Err(_) => "err".into(),
    }
}

/// `docf`: the verdicts of every front end on the same bytes (C01 "the format-preserving
/// parser and the serde front end give the same verdict"); the argument may be invalid UTF-8.
pub fn cmd_docf(args: &crate::Args) -> String {
    let b = &args[0];
    let v = |ok: bool| if ok { "ok" } else { "err" };
    let slice = toml_edit::de::from_slice::<toml::Table>(b).is_ok();
    match std::str::from_utf8(b) {
        Err(_) => format!("utf8=no slice={}", v(slice)),
        Ok(s) => {
            let edit = s.parse::<toml_edit::DocumentMut>().is_ok();
            let im = toml_edit::ImDocument::parse(s).is_ok();
            let table = toml::from_str::<toml::Table>(s).is_ok();
            let value = s.parse::<toml::Table>().is_ok();
            let de = toml_edit::de::from_str::<toml::Table>(s).is_ok();
            format!(
                "utf8=yes edit={} im={} toml_table={} toml_parse={} edit_de={} slice={}",
                v(edit), v(im), v(table), v(value), v(de), v(slice)
            )
        }
    }
}

// ---- type-erased, key-sorted dumps to compare toml_edit trees with toml::Value -------------
fn erased_value(v: &Value) -> String {
    match v {
        Value::Array(a) => format!("[{}]", a.iter().map(erased_value).collect::<Vec<_>>().join(",")),
        Value::InlineTable(t) => {
            let mut parts: Vec<(String, String)> =
                t.iter().map(|(k, v)| (hex(k.as_bytes()), erased_value(v))).collect();
            parts.sort();
            format!("{{{}}}", parts.iter().map(|(k, v)| format!("{k}={v}")).collect::<Vec<_>>().join(","))
        }
        other => show_value(other),
    }
}

pub fn erased_table(t: &Table) -> String {
    let mut parts: Vec<(String, String)> = Vec::new();
    for (k, it) in t.iter() {
        let k = hex(k.as_bytes());
        match it {
            Item::None => {}
            Item::Value(v) => parts.push((k, erased_value(v))),
            Item::Table(s) => parts.push((k, erased_table(s))),
            Item::ArrayOfTables(a) => {
                parts.push((k, format!("[{}]", a.iter().map(erased_table).collect::<Vec<_>>().join(","))))
            }
        }
    }
    parts.sort();
    format!("{{{}}}", parts.iter().map(|(k, v)| format!("{k}={v}")).collect::<Vec<_>>().join(","))
}

pub fn erased_toml(v: &toml::Value) -> String {
    match v {
        toml::Value::String(s) => format!("s:{}", hex(s.as_bytes())),
        toml::Value::Integer(i) => format!("i:{i}"),
        toml::Value::Float(f) => show_f64(*f),
        toml::Value::Boolean(b) => format!("b:{b}"),
        toml::Value::Datetime(d) => show_datetime(d),
        toml::Value::Array(a) => format!("[{}]", a.iter().map(erased_toml).collect::<Vec<_>>().join(",")),
        toml::Value::Table(t) => {
            let mut parts: Vec<(String, String)> =
                t.iter().map(|(k, v)| (hex(k.as_bytes()), erased_toml(v))).collect();
            parts.sort();
            format!("{{{}}}", parts.iter().map(|(k, v)| format!("{k}={v}")).collect::<Vec<_>>().join(","))
        }
    }
}

/// `docv`: the serde front end decodes to the same data as the format-preserving parser
pub fn cmd_docv(args: &crate::Args) -> String {
    let s = match std::str::from_utf8(&args[0]) {
        Ok(s) => s,
        Err(_) => return "not-utf8".into(),
    };
    let edit = match toml_edit::ImDocument::parse(s) {
        Ok(d) => d,
        Err(_) => return "err".into(),
    };
    let tv = match toml::from_str::<toml::Value>(s) {
        Ok(v) => v,
        Err(_) => return format!("err-toml edit={}", show_table(edit.as_table())),
    };
    let a = erased_table(edit.as_table());
    let b = erased_toml(&tv);
    let tt = match s.parse::<toml::Table>() {
        Ok(t) => erased_toml(&toml::Value::Table(t)),
        Err(_) => "err".into(),
    };
    format!(
        "ok edit={} same={}",
        show_table(edit.as_table()),
        if a == b && a == tt { "yes" } else { "no" }
    )
}

/// `rt`: parse, print without edits, re-parse the printed text, print again (C03)
pub fn cmd_rt(args: &crate::Args) -> String {
    let s = match std::str::from_utf8(&args[0]) {
        Ok(s) => s,
        Err(_) => return "not-utf8".into(),
    };
    let d = match s.parse::<toml_edit::DocumentMut>() {
        Ok(d) => d,
        Err(_) => return "err".into(),
    };
    let p1 = d.to_string();
    let t1 = show_table(d.as_table());
    let (reparse, fix) = match p1.parse::<toml_edit::DocumentMut>() {
        Ok(d2) => (
            if show_table(d2.as_table()) == t1 { "same" } else { "DIFF" },
            if d2.to_string() == p1 { "yes" } else { "no" },
        ),
        Err(_) => ("ERR", "no"),
    };
    format!("ok print={} reparse={} fix={}", hex(p1.as_bytes()), reparse, fix)
}
