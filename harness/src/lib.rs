//! shared pieces of the correspondence harness: hex I/O, the line-protocol main loop,
//! canonical printers.  Each binary under src/bin/ serves one family of observations.
pub mod depth;
pub mod dt;
pub mod fuzz;
pub mod spanned;
pub mod spans;
pub mod tree;
pub mod util;

pub type Args = Vec<Vec<u8>>;

/// the protocol loop: one case per stdin line, one observation line per case; a panic in
/// the library is reported as `PANIC <hex of message>`.
pub fn main_loop(run_cmd: fn(&str, &Args) -> String) {
    use std::io::{BufRead, Write};
    std::panic::set_hook(Box::new(|_| {}));
    let stdin = std::io::stdin();
    let stdout = std::io::stdout();
    let mut out = std::io::BufWriter::new(stdout.lock());
    for line in stdin.lock().lines() {
        let line = line.expect("read");
        let mut it = line.split(' ').filter(|s| !s.is_empty());
        let cmd = match it.next() {
            Some(c) => c.to_string(),
            None => {
                writeln!(out).unwrap();
                continue;
            }
        };
        let args: Args = it.map(util::unhex).collect();
        let res = std::panic::catch_unwind(|| run_cmd(&cmd, &args));
        match res {
            Ok(s) => writeln!(out, "{s}").unwrap(),
            Err(p) => {
                let msg = if let Some(s) = p.downcast_ref::<&str>() {
                    s.to_string()
                } else if let Some(s) = p.downcast_ref::<String>() {
                    s.clone()
                } else {
                    "?".to_string()
                };
                writeln!(out, "PANIC {}", util::hex(msg.as_bytes())).unwrap()
            }
        }
    }
    out.flush().unwrap();
}
