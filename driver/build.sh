#!/bin/sh
# build the OCaml driver <name> from the freshly extracted model coq/model_<name>.ml{,i}
set -e
name="${1:-core}"
cd "$(dirname "$0")"
mkdir -p "_build_$name"
cp "../coq/model_$name.ml" "_build_$name/model.ml"
cp "../coq/model_$name.mli" "_build_$name/model.mli"
cp main.ml "_build_$name/main.ml"
cd "_build_$name"
ocamlfind ocamlopt -O2 -w -a -package str model.mli model.ml main.ml -o "../driver_$name" 2>&1 | grep -v 'options -O2 is only relevant\|^$' || true
test -x "../driver_$name"
