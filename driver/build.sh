#!/bin/sh
# build the OCaml driver from the freshly extracted model (coq/model.ml{,i})
set -e
cd "$(dirname "$0")"
cp ../coq/model.ml ../coq/model.mli .
ocamlfind ocamlopt -O2 -w -a -package str model.mli model.ml main.ml -o driver 2>&1 | grep -v 'options -O2 is only relevant\|^$' || true
test -x driver
