(* driver/main.ml — line protocol around the extracted model.
   stdin:  one case per line:  <cmd> <hex> <hex> ...   ("-" = empty byte string)
   stdout: one canonical observation line per case (text produced by Model.run_cmd). *)

let rec pos_of_int (n : int) : Model.positive =
  if n = 1 then Model.XH
  else if n land 1 = 0 then Model.XO (pos_of_int (n lsr 1))
  else Model.XI (pos_of_int (n lsr 1))
let n_of_int (n : int) : Model.n = if n = 0 then Model.N0 else Model.Npos (pos_of_int n)
let rec int_of_pos = function Model.XH -> 1 | Model.XO p -> 2 * int_of_pos p | Model.XI p -> 2 * int_of_pos p + 1
let int_of_n = function Model.N0 -> 0 | Model.Npos p -> int_of_pos p

let byte_tbl : Model.byte array = Array.init 256 (fun i -> Model.n2b (n_of_int i))
let int_of_byte (b : Model.byte) : int = int_of_n (Model.b2n b)

let bytes_of_string (s : string) : Model.byte list =
  let r = ref [] in
  for i = String.length s - 1 downto 0 do r := byte_tbl.(Char.code s.[i]) :: !r done; !r

let string_of_bytes (l : Model.byte list) : string =
  let b = Buffer.create 64 in
  List.iter (fun x -> Buffer.add_char b (Char.chr (int_of_byte x))) l; Buffer.contents b

let hexval c = match c with
  | '0'..'9' -> Char.code c - 48 | 'a'..'f' -> Char.code c - 87 | 'A'..'F' -> Char.code c - 55
  | _ -> failwith "bad hex"

let unhex (s : string) : Model.byte list =
  if s = "-" then [] else begin
    let n = String.length s / 2 in
    let r = ref [] in
    for i = n - 1 downto 0 do
      r := byte_tbl.(hexval s.[2*i] * 16 + hexval s.[2*i+1]) :: !r
    done; !r
  end

let () =
  let out = Buffer.create 65536 in
  (try
    while true do
      let line = input_line stdin in
      match String.split_on_char ' ' line with
      | [] | [""] -> Buffer.add_string out "\n"
      | cmd :: args ->
        let args = List.filter (fun a -> a <> "") args in
        let res =
          try string_of_bytes (Model.run_cmd (bytes_of_string cmd) (List.map unhex args))
          with Stack_overflow -> "model-stack-overflow" in
        Buffer.add_string out res; Buffer.add_char out '\n';
        if Buffer.length out > 60000 then begin print_string (Buffer.contents out); Buffer.clear out end
    done
  with End_of_file -> ());
  print_string (Buffer.contents out)
