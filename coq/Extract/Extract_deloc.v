(* Extract/Extract_deloc.v — extraction of the serde-error observation command of C15 (ExtrOcamlBasic only). *)
From TV Require Import Base.Prelude Extract.Cmd_deloc.
Require Import ExtrOcamlBasic.
Extraction Language OCaml.
Extraction "model_deloc.ml" run_cmd n2b b2n.
