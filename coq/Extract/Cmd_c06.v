(* Extract/Cmd_c06.v — observation commands of property C06 (construction API -> text -> tree).
   The script grammar is described in harness/src/bin/c06.rs; the same script is run there
   against the real API and here against Model/Build.v.

   build <doc script> / val <value script> / key <bytes>:
     t=<hex of the printed text>  (floats without repr as the marker of Model/Encode.v)
     rt=ok|BAD|ERR|PANIC-model     the statement of C06_document / C06_value / C06_key evaluated on
                                   this case: the model's parser on the model's text (floats rendered
                                   by Build.float_text), abstract trees compared *)
From TV Require Import Base.Prelude Base.Utf8 Base.Winnow Gen.Consts Extract.Show.
From TV Require Import Model.Datetime Model.Numbers Model.Tree Model.Parse Model.Document Model.Write Model.Encode Model.Build Model.TomlDisplay.
Require Import String.

(* ---- reading the script ------------------------------------------------------------------ *)
Fixpoint rd_be (n : nat) (acc : N) (s : bytes) : option (N * bytes) :=
  match n with
  | O => Some (acc, s)
  | S n' => match s with b :: r => rd_be n' (acc * 256 + b2n b)%N r | [] => None end
  end.
Definition rd_bytes (n : nat) (s : bytes) : option (bytes * bytes) :=
  if Nat.ltb (List.length s) n then None else Some (firstn n s, skipn n s).
Definition rd_key (s : bytes) : option (bytes * bytes) :=
  match rd_be 2 0 s with Some (n, r) => rd_bytes (N.to_nat n) r | None => None end.
Definition signed (bits : N) (n : N) : Z :=
  if (n <? 2 ^ (bits - 1))%N then Z.of_N n else (Z.of_N n - Z.of_N (2 ^ bits))%Z.

Definition obind {A B} (o : option A) (f : A -> option B) : option B :=
  match o with Some a => f a | None => None end.
Notation "' pat <-? p ;; q" := (obind p (fun x => match x with pat => q end))
  (at level 61, pat pattern, p at next level, right associativity).

Definition rd_datetime (s : bytes) : option (datetime * bytes) :=
  '(flags, r0) <-? rd_be 1 0 s ;;
  '(date, r1) <-? (if N.testbit flags 0
                   then '(y, a) <-? rd_be 2 0 r0 ;; '(m, b) <-? rd_be 1 0 a ;; '(d, c) <-? rd_be 1 0 b ;;
                        Some (Some (mkDate y m d), c)
                   else Some (None, r0)) ;;
  '(time, r2) <-? (if N.testbit flags 1
                   then '(h, a) <-? rd_be 1 0 r1 ;; '(mi, b) <-? rd_be 1 0 a ;; '(sc, c) <-? rd_be 1 0 b ;;
                        '(ns, d) <-? rd_be 4 0 c ;;
                        Some (Some (mkTime h mi sc ns), d)
                   else Some (None, r1)) ;;
  '(off, r3) <-? (if N.testbit flags 2 then Some (Some OffZ, r2)
                  else if N.testbit flags 3
                       then '(m, a) <-? rd_be 2 0 r2 ;; Some (Some (OffCustom (signed 16 m)), a)
                       else Some (None, r2)) ;;
  Some (mkDT date time off, r3).

Definition rd_float (s : bytes) : option (fval * bytes) :=
  '(bits, r0) <-? rd_be 8 0 s ;;
  '(neg, r1) <-? rd_be 1 0 r0 ;;
  '(mlen, r2) <-? rd_be 1 0 r1 ;;
  '(m, r3) <-? rd_be (N.to_nat mlen) 0 r2 ;;
  '(e, r4) <-? rd_be 2 0 r3 ;;
  let ex := ((bits / 2 ^ 52) mod 2 ^ 11)%N in
  let mant := (bits mod 2 ^ 52)%N in
  let n := negb (neg =? 0)%N in
  Some (if (ex =? 2047)%N then (if (mant =? 0)%N then FInf n else FNan n) else FDec n m (signed 16 e), r4).

Definition tag_is (b : byte) (c : string) : bool := bytes_eqb [b] (str c).

Fixpoint rd_value (fuel : nat) (s : bytes) : option (cval * bytes) :=
  match fuel with
  | O => None
  | S f =>
    match s with
    | [] => None
    | tag :: r =>
      if tag_is tag "s" then '(k, r') <-? rd_key r ;; Some (CScalar (SString k), r')
      else if tag_is tag "i" then '(n, r') <-? rd_be 8 0 r ;; Some (CScalar (SInt (signed 64 n)), r')
      else if tag_is tag "f" then '(x, r') <-? rd_float r ;; Some (CScalar (SFloat x), r')
      else if tag_is tag "b" then '(n, r') <-? rd_be 1 0 r ;; Some (CScalar (SBool (negb (n =? 0)%N)), r')
      else if tag_is tag "d" then '(d, r') <-? rd_datetime r ;; Some (CScalar (SDatetime d), r')
      else if tag_is tag "A" then
        '(mode, r0) <-? rd_be 1 0 r ;;
        '(n, r1) <-? rd_be 1 0 r0 ;;
        '(vs, r2) <-? (fix loop (n : nat) (s : bytes) (acc : list cval) : option (list cval * bytes) :=
                         match n with
                         | O => Some (rev acc, s)
                         | S n' => '(v, s') <-? rd_value f s ;; loop n' s' (v :: acc)
                         end) (N.to_nat n) r1 [] ;;
        Some (if (mode =? 112)%N (* 'p' *) then CArrPush vs else CArrCollect vs, r2)
      else if tag_is tag "I" then
        '(mode, r0) <-? rd_be 1 0 r ;;
        '(n, r1) <-? rd_be 1 0 r0 ;;
        '(kvl, r2) <-? (fix loop (n : nat) (s : bytes) (acc : list (bytes * cval)) : option (list (bytes * cval) * bytes) :=
                          match n with
                          | O => Some (rev acc, s)
                          | S n' => '(k, s0) <-? rd_key s ;; '(v, s') <-? rd_value f s0 ;; loop n' s' ((k, v) :: acc)
                          end) (N.to_nat n) r1 [] ;;
        Some (if (mode =? 105)%N (* 'i' *) then CInlInsert kvl else CInlCollect kvl, r2)
      else None
    end
  end.

Fixpoint rd_item (fuel : nat) (s : bytes) : option (citem * bytes) :=
  match fuel with
  | O => None
  | S f =>
    let tbody (s : bytes) : option (list (bytes * citem) * bytes) :=
        '(n, r1) <-? rd_be 1 0 s ;;
        (fix loop (n : nat) (s : bytes) (acc : list (bytes * citem)) : option (list (bytes * citem) * bytes) :=
           match n with
           | O => Some (rev acc, s)
           | S n' => '(k, s0) <-? rd_key s ;; '(it, s') <-? rd_item f s0 ;; loop n' s' ((k, it) :: acc)
           end) (N.to_nat n) r1 [] in
    match s with
    | [] => None
    | tag :: r =>
      if tag_is tag "V" then '(v, r') <-? rd_value (List.length r) r ;; Some (CValue v, r')
      else if tag_is tag "T" then '(l, r') <-? tbody r ;; Some (CTable l, r')
      else if tag_is tag "O" then
        '(n, r1) <-? rd_be 1 0 r ;;
        '(ts, r2) <-? (fix loop (n : nat) (s : bytes) (acc : list (list (bytes * citem)))
                         : option (list (list (bytes * citem)) * bytes) :=
                         match n with
                         | O => Some (rev acc, s)
                         | S n' => '(l, s') <-? tbody s ;; loop n' s' (l :: acc)
                         end) (N.to_nat n) r1 [] ;;
        Some (CAot ts, r2)
      else None
    end
  end.

(* doc := mode tbody: the root table of the document *)
Definition rd_doc (s : bytes) : option tbl :=
  match s with
  | mode :: r =>
    match rd_item (S (List.length r)) (x54 :: r) with      (* the body has the syntax of a 'T' item *)
    | Some (CTable l, []) => Some (eval_doc (tag_is mode "f") l)
    | _ => None
    end
  | [] => None
  end.

(* ---- decidable equality of abstract trees ---------------------------------------------------- *)
Definition opt_eqb {A} (f : A -> A -> bool) (a b : option A) : bool :=
  match a, b with Some x, Some y => f x y | None, None => true | _, _ => false end.
Definition date_eqb (a b : date) := ((year a =? year b) && (month a =? month b) && (day a =? day b))%N.
Definition time_eqb (a b : time) :=
  ((hour a =? hour b) && (minute a =? minute b) && (second a =? second b) && (nanosecond a =? nanosecond b))%N.
Definition offset_eqb (a b : offset) :=
  match a, b with OffZ, OffZ => true | OffCustom x, OffCustom y => (x =? y)%Z | _, _ => false end.
Definition datetime_eqb (a b : datetime) :=
  opt_eqb date_eqb (d_date a) (d_date b) && opt_eqb time_eqb (d_time a) (d_time b) && opt_eqb offset_eqb (d_offset a) (d_offset b).
Definition fval_eqb (a b : fval) :=
  match a, b with
  | FNan x, FNan y => Bool.eqb x y
  | FInf x, FInf y => Bool.eqb x y
  | FDec n m e, FDec n' m' e' => Bool.eqb n n' && (m =? m')%N && (e =? e')%Z
  | _, _ => false
  end.
Definition scalar_eqb (a b : scalar) :=
  match a, b with
  | SString x, SString y => bytes_eqb x y
  | SInt x, SInt y => (x =? y)%Z
  | SFloat x, SFloat y => fval_eqb x y
  | SBool x, SBool y => Bool.eqb x y
  | SDatetime x, SDatetime y => datetime_eqb x y
  | _, _ => false
  end.
Fixpoint list_eqb {A} (f : A -> A -> bool) (a b : list A) : bool :=
  match a, b with
  | [], [] => true
  | x :: a', y :: b' => f x y && list_eqb f a' b'
  | _, _ => false
  end.
Fixpoint aval_eqb (a b : aval) : bool :=
  match a, b with
  | AScalar x, AScalar y => scalar_eqb x y
  | AArr x, AArr y =>
    (fix go (x y : list aval) : bool :=
       match x, y with
       | [], [] => true
       | v :: x', v' :: y' => aval_eqb v v' && go x' y'
       | _, _ => false
       end) x y
  | AInl x, AInl y =>
    (fix go (x y : list (bytes * aval)) : bool :=
       match x, y with
       | [], [] => true
       | (k, v) :: x', (k', v') :: y' => bytes_eqb k k' && aval_eqb v v' && go x' y'
       | _, _ => false
       end) x y
  | _, _ => false
  end.
Fixpoint anode_eqb (a b : anode) : bool :=
  let kvs_eqb := fix go (x y : list (bytes * anode)) : bool :=
                   match x, y with
                   | [], [] => true
                   | (k, v) :: x', (k', v') :: y' => bytes_eqb k k' && anode_eqb v v' && go x' y'
                   | _, _ => false
                   end in
  match a, b with
  | AVal x, AVal y => aval_eqb x y
  | ATbl x, ATbl y => kvs_eqb x y
  | AAot x, AAot y =>
    (fix go2 (x y : list (list (bytes * anode))) : bool :=
       match x, y with
       | [], [] => true
       | t :: x', t' :: y' => kvs_eqb t t' && go2 x' y'
       | _, _ => false
       end) x y
  | _, _ => false
  end.

(* the abstract tree a printed document carries: values before tables, empty arrays of tables dropped *)
Definition expected_tbl (t : tbl) : anode := ATbl (printed_entries (abs_tbl t)).

(* ---- commands --------------------------------------------------------------------------------- *)
Definition cmd_build (script : bytes) : bytes :=
  match rd_doc script with
  | None => str "bad-script"
  | Some t =>
    let text := display_document t REmpty in
    let real := display_document (render_tbl float_text t) REmpty in
    str "t=" ++ show_hex text ++ str " rt=" ++
    match parse_document real with
    | POk d => if anode_eqb (ATbl (abs_tbl (doc_root d))) (expected_tbl t) then str "ok" else str "BAD"
    | PErr _ _ => str "ERR"
    | PPanic _ => str "PANIC-model"
    end
  end.

Definition cmd_val (script : bytes) : bytes :=
  match rd_value (List.length script) script with
  | Some (c, []) =>
    let v := eval_value c in
    let text := display_value v in
    let real := display_value (render_value float_text v) in
    str "t=" ++ show_hex text ++ str " rt=" ++
    match parse_value_raw real with
    | POk v' => if aval_eqb (abs_value v') (abs_value v) then str "ok" else str "BAD"
    | PErr _ _ => str "ERR"
    | PPanic _ => str "PANIC-model"
    end
  | _ => str "bad-script"
  end.

(* Display for Key: encode_key(self, f, None) = display_repr; Key::from_str = parse_key *)
Definition cmd_key (k : bytes) : bytes :=
  let text := key_display_repr (key_new k) in
  str "t=" ++ show_hex text ++ str " rt=" ++
  match parse_key text with
  | POk (_, k') => if bytes_eqb k k' then str "ok" else str "BAD"
  | PErr _ _ => str "ERR"
  | PPanic _ => str "PANIC-model"
  end.

(* toml <kind> <value script> [key]  (harness/src/bin/c06.rs `toml`): the same script read as a toml::Value — arrays ->
   Value::Array, inline tables -> toml::Table filled with `insert` in script order, a repeated key replacing the value;
   toml::Table is a BTreeMap in the default build, so a table lists its keys in byte order (`canon`) — and printed by
   toml's own entry points as Model/TomlDisplay.v builds their trees:
     kind 'V' / 'X'   vd=<hex>   Display for toml::Value on the lone value / on the entry table[key]  (tv_value)
     kind 'T'         vd=<hex> vs=<hex> td=<hex>   Display of the table as a Value; toml::to_string(&Value::Table)
                      (tv_doc true); Display for toml::Table = toml::to_string(&Table) (tv_doc false)
   rt_<name>=ok|BAD|ERR|PANIC-model per text: C06_toml_value_built + C06_value / C06_toml_display evaluated on the case *)
Fixpoint tvc_of_cval (c : cval) : tvc :=
  match c with
  | CScalar s => TvLeaf s
  | CArrPush es | CArrCollect es => TvArr (map tvc_of_cval es)
  | CInlInsert l | CInlCollect l => TvTab (map (fun kv => (fst kv, tvc_of_cval (snd kv))) l)
  end.
Fixpoint tvc_eqb (a b : tvc) : bool :=
  match a, b with
  | TvLeaf x, TvLeaf y => scalar_eqb x y
  | TvArr x, TvArr y =>
    (fix go (x y : list tvc) : bool :=
       match x, y with [], [] => true | v :: x', v' :: y' => tvc_eqb v v' && go x' y' | _, _ => false end) x y
  | TvTab x, TvTab y =>
    (fix go (x y : list (bytes * tvc)) : bool :=
       match x, y with
       | [], [] => true
       | (k, v) :: x', (k', v') :: y' => bytes_eqb k k' && tvc_eqb v v' && go x' y'
       | _, _ => false
       end) x y
  | _, _ => false
  end.

(* BTreeMap<String, Value>::insert: keys in byte order (String's Ord), an equal key gets the new value *)
Fixpoint blt (a b : bytes) : bool :=
  match a, b with
  | [], [] => false
  | [], _ :: _ => true
  | _ :: _, [] => false
  | x :: a', y :: b' => (b2n x <? b2n y)%N || ((b2n x =? b2n y)%N && blt a' b')
  end.
Fixpoint bt_insert (k : bytes) (x : tvc) (es : list (bytes * tvc)) : list (bytes * tvc) :=
  match es with
  | [] => [(k, x)]
  | (k', x') :: es' =>
    if bytes_eqb k' k then (k', x) :: es'
    else if blt k k' then (k, x) :: (k', x') :: es'
    else (k', x') :: bt_insert k x es'
  end.
Fixpoint canon (v : tvc) : tvc :=
  match v with
  | TvLeaf s => TvLeaf s
  | TvArr l => TvArr (map canon l)
  | TvTab m => TvTab (fold_left (fun acc kv => bt_insert (fst kv) (snd kv) acc) (map (fun kv => (fst kv, canon (snd kv))) m) [])
  end.
Fixpoint tv_lookup (k : bytes) (m : list (bytes * tvc)) : option tvc :=
  match m with
  | [] => None
  | (k', x) :: m' => if bytes_eqb k' k then Some x else tv_lookup k m'
  end.

Definition show_rt_value (v : tvc) : bytes :=
  match parse_value_raw (display_value (render_value float_text (tv_value v))) with
  | POk x => if tvc_eqb (tvc_of_aval (abs_value x)) (val_order v) then str "ok" else str "BAD"
  | PErr _ _ => str "ERR"
  | PPanic _ => str "PANIC-model"
  end.
Definition show_lone (v : tvc) : bytes :=
  str "vd=" ++ show_hex (display_value (tv_value v)) ++ str " rt_vd=" ++ show_rt_value v.
Definition show_doc (name : string) (three : bool) (m : list (bytes * tvc)) : bytes :=
  let t := tv_doc three m in
  str " " ++ str name ++ str "=" ++ show_hex (display_document t REmpty) ++ str " rt_" ++ str name ++ str "=" ++
  match parse_document (display_document (render_tbl float_text t) REmpty) with
  | POk d => if tvc_eqb (TvTab (tvc_of_entries (abs_tbl (doc_root d)))) (TvTab (root_order three m)) then str "ok" else str "BAD"
  | PErr _ _ => str "ERR"
  | PPanic _ => str "PANIC-model"
  end.

Definition cmd_toml (script : bytes) : bytes :=
  match script with
  | kind :: body =>
    match rd_value (List.length body) body with
    | Some (c, rest_) =>
      let v := canon (tvc_of_cval c) in
      if tag_is kind "V" then match rest_ with [] => show_lone v | _ => str "bad-script" end
      else if tag_is kind "X" then
        match rd_key rest_, v with
        | Some (k, []), TvTab m => match tv_lookup k m with Some x => show_lone x | None => str "no-such-key" end
        | _, _ => str "bad-script"
        end
      else if tag_is kind "T" then
        match rest_, v with
        | [], TvTab m => show_lone v ++ show_doc "vs" true m ++ show_doc "td" false m
        | _, _ => str "not-a-table"
        end
      else str "bad-script"
    | None => str "bad-script"
    end
  | [] => str "bad-script"
  end.

Definition run_cmd (name : bytes) (args : list bytes) : bytes :=
  match args with
  | [a] =>
    if bytes_eqb name (str "build") then cmd_build a
    else if bytes_eqb name (str "val") then cmd_val a
    else if bytes_eqb name (str "key") then cmd_key a
    else if bytes_eqb name (str "toml") then cmd_toml a
    else str "unknown-command"
  | _ => str "bad-args"
  end.
