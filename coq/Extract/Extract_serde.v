(* Extract/Extract_serde.v — extraction of the serde commands (ExtrOcamlBasic only). *)
From TV Require Import Base.Prelude Extract.Cmd_serde.
Require Import ExtrOcamlBasic.
Extraction Language OCaml.
Extraction "model_serde.ml" run_cmd n2b b2n.
