(* Extract/Extract_c15.v — extraction of the C15 observation commands (ExtrOcamlBasic only). *)
From TV Require Import Base.Prelude Extract.Cmd_c15.
Require Import ExtrOcamlBasic.
Extraction Language OCaml.
Extraction "model_c15.ml" run_cmd n2b b2n.
