(* Extract/Extract_c16.v — extraction of the C16 commands (ExtrOcamlBasic only). *)
From TV Require Import Base.Prelude Extract.Cmd_c16.
Require Import ExtrOcamlBasic.
Extraction Language OCaml.
Extraction "model_c16.ml" run_cmd n2b b2n.
