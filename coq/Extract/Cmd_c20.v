(* Extract/Cmd_c20.v — observation commands for property C20 (visitors).
     visit <document text>
         parse, walk with the logging Visit, the logging VisitMut, the integer-rewriting and the
         string-rewriting VisitMut; print the call log, its comparison with the independent
         listing, the printed text before/after the default mutable walk, the dumps and printed
         texts of the rewritten documents.
     ph <document text> <key1> <key2>
         parse, evaluate `&mut doc[key1][key2]` (auto-vivifies an Item::None placeholder when
         doc[key1] is a table or an inline table without key2), walk with the logging Visit.
   Call log format: events joined by ','
     D document   T<n> table (n = iter().count())   N<n> inline table   L<n> table_like
     K<hex key> table_like_kv   In|Iv|It|Ia item   Vs|Vi|Vf|Vb|Vd|Va|Vt value
     A<n> array   O<n> array of tables   scalars as in Show.show_scalar *)
From TV Require Import Base.Prelude Base.Utf8 Base.Winnow Gen.Consts Extract.Show.
From TV Require Import Model.Datetime Model.DatetimeStd Model.Numbers Model.Tree Model.Parse Model.Document
  Model.Write Model.Encode.
From TV Require Import Model.Visit Spec.Nodes Proofs.VisitComplete.
Require Import String.

Definition count_live (items : kvs) : nat :=
  List.length (filter (fun kv => negb (item_is_none (snd kv))) items).
Definition count_values (vals : list item) : nat :=
  List.length (filter (fun it => match it with IValue _ => true | _ => false end) vals).

Definition show_event (e : event) : bytes :=
  match e with
  | (MDocument, ADoc _) => str "D"
  | (MTable, ATable t) => str "T" ++ show_nat (count_live (t_items t))
  | (MInlineTable, AValue (VInline items _ _ _ _ _)) => str "N" ++ show_nat (count_live items)
  | (MTableLike, ALike inline items) =>
    (* node.iter().count() through the &dyn TableLike: both impls skip placeholders *)
    str "L" ++ show_nat (count_live items)
  | (MTableLikeKv, AKv k _) => str "K" ++ show_hex (k_key k)
  | (MItem, AItem i) =>
    str (match i with INone => "In" | IValue _ => "Iv" | ITable _ => "It" | IAot _ _ => "Ia" end)
  | (MValue, AValue v) =>
    str (match v with
         | VScalar (SString _) _ _ => "Vs"
         | VScalar (SInt _) _ _ => "Vi"
         | VScalar (SFloat _) _ _ => "Vf"
         | VScalar (SBool _) _ _ => "Vb"
         | VScalar (SDatetime _) _ _ => "Vd"
         | VArray _ _ _ _ _ => "Va"
         | VInline _ _ _ _ _ _ => "Vt"
         end)
  | (MArray, AValue (VArray vals _ _ _ _)) => str "A" ++ show_nat (count_values vals)
  | (MArrayOfTables, AAot ts _) => str "O" ++ show_nat (List.length ts)
  | (MString, AValue (VScalar (SString x) _ _)) => show_scalar (SString x)
  | (MInteger, AValue (VScalar (SInt z) _ _)) => show_scalar (SInt z)
  | (MFloat, AValue (VScalar (SFloat f) _ _)) => show_scalar (SFloat f)
  | (MBoolean, AValue (VScalar (SBool b) _ _)) => show_scalar (SBool b)
  | (MDatetime, AValue (VScalar (SDatetime d) _ _)) => show_scalar (SDatetime d)
  | _ => str "?"
  end.

Definition show_log (l : list event) : bytes := join (str ",") (map show_event l).

Definition same_or_diff (reference other : bytes) : bytes :=
  if bytes_eqb reference other then str "same" else str "DIFF:" ++ other.

(* i64::wrapping_add(1000) *)
Definition wrap_i64 (z : Z) : Z := ((z + 9223372036854775808) mod 18446744073709551616 - 9223372036854775808)%Z.
Definition add1000 (z : Z) : Z := wrap_i64 (z + 1000)%Z.
(* format!("{}!", s) *)
Definition bang (s : bytes) : bytes := s ++ [x21].

Definition with_document (s : bytes) (k : tbl -> raw -> bytes) : bytes :=
  match parse_document s with
  | POk d =>
    match tbl_despan s (doc_root d), raw_despan s (doc_trailing d) with
    | Some root, Some tr => k root tr
    | _, _ => str "PANIC-despan"
    end
  | PErr _ _ => str "err"
  | PPanic _ => str "PANIC-model"
  end.

Definition cmd_visit (s : bytes) : bytes :=
  with_document s (fun root tr =>
    let vlog := show_log (visit_document root) in
    let wlog := show_log (expected_log root) in
    let '(mev, root1) := visit_document_mut hook_default root in
    let '(iev, rooti) := visit_document_mut (hook_integer add1000) root in
    let '(sev, roots) := visit_document_mut (hook_string bang) root in
    str "ok visit=" ++ vlog
    ++ str " walk=" ++ same_or_diff vlog wlog
    ++ str " mut=" ++ same_or_diff vlog (show_log mev)
    ++ str " text0=" ++ show_hex (display_document root tr)
    ++ str " text1=" ++ show_hex (display_document root1 tr)
    ++ str " tree=" ++ show_tbl root
    ++ str " rwi=" ++ show_tbl rooti
    ++ str " rwilog=" ++ same_or_diff vlog (show_log iev)
    ++ str " rwiprint=" ++ show_hex (display_document rooti tr)
    ++ str " rws=" ++ show_tbl roots
    ++ str " rwslog=" ++ same_or_diff vlog (show_log sev)
    ++ str " rwsprint=" ++ show_hex (display_document roots tr)).

(* index.rs: `impl Index for str`, index_mut on the item stored under k1, with key k2:
     Item::Table(t)              => t.entry(k2).or_insert(Item::None)
     Item::Value(InlineTable t)  => t.items.entry(Key::new(k2)).or_insert_with(|| Item::None)
   (the other cases — absent key1, other values — are not used by the command) *)
Definition key_new (k : bytes) : key := mkKey k None decor_default decor_default.
Definition vivify (items : kvs) (k2 : bytes) : kvs :=
  match kv_get items k2 with
  | Some _ => items
  | None => kv_push items (key_new k2) INone
  end.
Definition index_mut2 (root : tbl) (k1 k2 : bytes) : option tbl :=
  match kv_get (t_items root) k1 with
  | Some (_, ITable (Tbl items d im dt p sp)) =>
    Some (t_set_items root (kv_set (t_items root) k1 (ITable (Tbl (vivify items k2) d im dt p sp))))
  | Some (_, IValue (VInline items pre im dt d sp)) =>
    Some (t_set_items root (kv_set (t_items root) k1 (IValue (VInline (vivify items k2) pre im dt d sp))))
  | _ => None
  end.

Definition cmd_ph (s k1 k2 : bytes) : bytes :=
  with_document s (fun root _ =>
    match index_mut2 root k1 k2 with
    | Some root' =>
      let vlog := show_log (visit_document root') in
      str "ok visit=" ++ vlog ++ str " walk=" ++ same_or_diff vlog (show_log (expected_log root'))
    | None => str "bad-args"
    end).

Definition run_cmd (name : bytes) (args : list bytes) : bytes :=
  if bytes_eqb name (str "visit") then
    match args with [s] => cmd_visit s | _ => str "bad-args" end
  else if bytes_eqb name (str "ph") then
    match args with [s; k1; k2] => cmd_ph s k1 k2 | _ => str "bad-args" end
  else str "unknown-command".
