(* Extract/Cmd_deloc.v — model side of the `deerr` cases of lib/props/c15.py (serde half of C15).
     deerr <tag> <text> <lookup>
   The text is parsed by the document model (Extract/SpannedTree.v parse_stree: the tree with the spans
   the parser records), deserialized at the type the tag names (the types of harness/src/bin/c15.rs
   `mod ty`) by Model/DeLoc.v, once as it is (routes that have the source text) and once without spans
   (`despan`: DocumentMut, toml::Value).  Answer:
     wt=<ok | a-b | none> nt=<ok | keys as hex | none> kind=<..> at=<ghost path>
   wt = the span of the error with source text, nt = the key path of the error without;
   `-` = not modelled (a float in the document, an unknown tag, not a document). *)
From TV Require Import Base.Prelude Model.Datetime Model.SerNum Spec.SerdeData Model.De Model.SerdeSpanned.
From TV Require Import Extract.SpannedTree Model.DeLoc Extract.Show.
Require Import String.

Definition S (s : string) : bytes := str s.
Definition st (name : string) (fs : list (string * ty)) : ty :=
  TStruct (S name) (map (fun ft => (S (fst ft), snd ft)) fs).
Definition i64 := TInt TI64.

Definition t_inner : ty := st "Inner" [("b", i64); ("c", TStr)]%string.
Definition t_outer : ty := st "Outer" [("t", t_inner)]%string.
Definition t_e : ty := TEnum (S "E") [(S "A", VUnit); (S "B", VUnit)].
Definition t_e2 : ty := TEnum (S "E2") [(S "N", VNewtype i64); (S "S", VStruct [(S "x", i64)]); (S "U", VUnit)].
Definition t_e3 : ty :=
  TEnum (S "E3") [(S "N", VNewtype (TDatetime KDate)); (S "T", VTuple [i64; i64]); (S "S", VStruct [(S "x", i64)]); (S "U", VUnit)].
(* round 5: a newtype variant whose payload is a TABLE (header, inline or dotted form) with a struct nested in it,
   and the same payload inside a sequence: an error deep inside the payload must keep its own span *)
Definition t_sub4 : ty := st "Sub4" [("x", i64)]%string.
Definition t_inner4 : ty := st "Inner4" [("host", TStr); ("port", i64); ("sub", TOpt t_sub4)]%string.
Definition t_e4 : ty := TEnum (S "E4") [(S "P", VNewtype t_inner4); (S "L", VNewtype (TSeq t_sub4)); (S "U", VUnit)].
Definition t_sdeny : ty := st "SDeny" [("a", i64)]%string.
Definition t_outer2 : ty := st "Outer2" [("u", TOpt t_inner)]%string.
Definition t_c1 : ty := st "C1" [("d", TBool)]%string.
Definition t_b1 : ty := st "B1" [("c", TSeq t_c1)]%string.
Definition t_a1 : ty := st "A1" [("b", t_b1)]%string.

Definition ty_of_tag (tag : bytes) : option ty :=
  let is name := bytes_eqb tag (S name) in
  if is "int"%string then Some (st "SInt" [("a", i64)]%string)
  else if is "str"%string then Some (st "SStr" [("a", TStr)]%string)
  else if is "bool"%string then Some (st "SBool" [("a", TBool)]%string)
  else if is "float"%string then Some (st "SFloat" [("a", TFloat F64)]%string)
  else if is "u8"%string then Some (st "SU8" [("a", TInt TU8)]%string)
  else if is "char"%string then Some (st "SChar" [("a", TChar)]%string)
  else if is "nested"%string then Some t_outer
  else if is "vec"%string then Some (st "SVec" [("v", TSeq i64)]%string)
  else if is "enum"%string then Some (st "SEnum" [("e", t_e)]%string)
  else if is "enum2"%string then Some (st "SEnum2" [("e", t_e2)]%string)
  else if is "missing"%string then Some (st "SMiss" [("a", i64); ("b", i64)]%string)
  else if is "opt"%string then Some (st "SOpt" [("o", TOpt i64)]%string)
  else if is "optnested"%string then Some (st "SOptNested" [("t", TOpt t_inner)]%string)
  else if is "optvec"%string then Some (st "SOptVec" [("v", TOpt (TSeq i64))]%string)
  else if is "optmap"%string then Some (st "SOptMap" [("m", TOpt (TMap TStr i64))]%string)
  else if is "optenum2"%string then Some (st "SOptEnum2" [("e", TOpt t_e2)]%string)
  else if is "newnested"%string then Some (st "SNewNested" [("t", TNewtype (S "NewInner") t_inner)]%string)
  else if is "optopt"%string then Some (st "SOptOptless" [("t", TOpt t_outer2)]%string)
  else if is "map"%string then Some (st "SMap" [("m", TMap TStr i64)]%string)
  else if is "deep"%string then Some (st "Deep" [("a", t_a1)]%string)
  else if is "tuple"%string then Some (st "STuple" [("p", TTuple [i64; TStr])]%string)
  else if is "deny"%string then Some t_sdeny
  else if is "denyouter"%string then Some (st "SDenyOuter" [("t", t_sdeny)]%string)
  else if is "newtype"%string then Some (st "SNew" [("n", TNewtype (S "SNewtype") i64)]%string)
  else if is "vecinner"%string then Some (st "SVecInner" [("v", TSeq t_inner)]%string)
  else if is "dt"%string then Some (st "SDt" [("d", TDatetime KDatetime)]%string)
  (* types whose ROOT is not a struct: Deserializer::deserialize_newtype_struct / _option / _any (de/mod.rs) *)
  else if is "rootnew"%string then Some (TNewtype (S "RootNew") (st "SInt" [("a", i64)]%string))
  else if is "rootnewnested"%string then Some (TNewtype (S "RootNewNested") t_outer)
  else if is "rootopt"%string then Some (TOpt (st "SInt" [("a", i64)]%string))
  else if is "rootmap"%string then Some (TMap TStr i64)
  (* the additional types of `mod ty_extra` (command deerr2) *)
  else if is "vdate"%string then Some (st "VD" [("v", TSeq (TDatetime KDate))]%string)
  else if is "sdate"%string then Some (st "SD" [("d", TDatetime KDate)]%string)
  else if is "odate"%string then Some (st "OD" [("d", TOpt (TDatetime KDate))]%string)
  else if is "enum3"%string then Some (st "SE3" [("e", t_e3)]%string)
  else if is "ttime"%string then Some (st "TD" [("p", TTuple [i64; TDatetime KTime])]%string)
  else if is "vecvec"%string then Some (st "VV" [("v", TSeq (TSeq i64))]%string)
  else if is "mapenum"%string then Some (st "ME" [("m", TMap t_e i64)]%string)
  else if is "mapinner"%string then Some (st "MI" [("m", TMap TStr t_inner)]%string)
  else if is "enum4"%string then Some (st "SE4" [("e", t_e4)]%string)
  else if is "venum4"%string then Some (st "VE4" [("v", TSeq t_e4)]%string)
  else None.

(* #[serde(deny_unknown_fields)] in `mod ty` *)
Definition cfg_c15 : cfg := mkCfg (fun n => bytes_eqb n (S "SDeny")) false.

Definition show_kind (k : ekind) : bytes :=
  match k with
  | KWrongType => str "wrong-type" | KOutOfRange => str "out-of-range" | KMissing _ => str "missing-field"
  | KUnknownVariant => str "unknown-variant" | KUnknownField => str "unknown-field" | KLength => str "length"
  | KDupField => str "duplicate-field" | KEnumShape => str "enum-shape" | KDtKind => str "datetime-kind"
  | KOther => str "other" | KUnmodelled => str "unmodelled"
  end.
Definition show_step (x : step) : bytes :=
  match x with
  | SKey _ k => show_hex k
  | SIdx i => str "#" ++ show_nat i
  | SVar k => str "!" ++ show_hex k
  | SPos _ k => str "~" ++ show_hex k
  end.
Definition show_ospan (o : ospan) : bytes :=
  match o with Some (a, b) => show_N a ++ str "-" ++ show_N b | None => str "none" end.
Definition show_keys (ks : list bytes) : bytes :=
  match ks with [] => str "none" | _ => show_hex (join (str ".") ks) end.

Definition unmodelled {A} (r : lres A) : bool :=
  match r with LErr e => match e_kind e with KUnmodelled => true | _ => false end | LOk _ => false end.

Definition cmd_deerr (tag text : bytes) : bytes :=
  match ty_of_tag tag, parse_stree text with
  | Some t, Some (Some s) =>
    let r1 := de_root cfg_c15 t s in
    let r2 := de_root cfg_c15 t (despan s) in
    if unmodelled r1 || unmodelled r2 then str "-"
    else
      str "wt=" ++ (match r1 with LOk _ => str "ok" | LErr e => show_ospan (e_span e) end) ++
      str " nt=" ++ (match r2 with LOk _ => str "ok" | LErr e => show_keys (e_keys e) end) ++
      str " kind=" ++ (match r1 with LOk _ => str "ok" | LErr e => show_kind (e_kind e) end) ++
      str " at=" ++ (match r1 with
                     | LOk _ => str "ok"
                     | LErr e => join (str "/") (map show_step (e_at e)) ++ (if e_onkey e then str "/@" else [])
                     end)
  | _, _ => str "-"
  end.

Definition run_cmd (name : bytes) (args : list bytes) : bytes :=
  if bytes_eqb name (str "deerr") || bytes_eqb name (str "deerr2") then
    match args with
    | tag :: text :: _ => cmd_deerr tag text
    | _ => str "bad-args"
    end
  else str "-".
