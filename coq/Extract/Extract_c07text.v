(* Extract/Extract_c07text.v — extraction of the C07 text command (ExtrOcamlBasic only). *)
From TV Require Import Base.Prelude Extract.Cmd_c07text.
Require Import ExtrOcamlBasic.
Extraction Language OCaml.
Extraction "model_c07text.ml" run_cmd n2b b2n.
