(* Extract/Extract_c17.v — extraction of the C17 observation commands (ExtrOcamlBasic only). *)
From TV Require Import Base.Prelude Extract.Cmd_c17.
Require Import ExtrOcamlBasic.
Extraction Language OCaml.
Extraction "model_c17.ml" run_cmd n2b b2n.
