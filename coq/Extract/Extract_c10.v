(* Extract/Extract_c10.v — extraction of the C10 observation commands (ExtrOcamlBasic only). *)
From TV Require Import Base.Prelude Extract.Cmd_c10.
Require Import ExtrOcamlBasic.
Extraction Language OCaml.
Extraction "model_c10.ml" run_cmd n2b b2n.
