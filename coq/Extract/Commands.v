(* Extract/Commands.v — the observation commands of the correspondence protocol.
   `run_cmd name args` returns the canonical observation line for one case. *)
From TV Require Import Base.Prelude Base.Utf8 Base.Winnow Gen.Consts Extract.Show.
From TV Require Import Model.Datetime Model.DatetimeStd Model.Numbers Model.Tree Model.Parse Model.Document Model.Write Model.Encode.
From TV Require Spec.Norm Proofs.PrintBackDTop.
From TV Require Extract.Cmd_front.
From TV Require Model.Accessors.
Require Import String.

Definition first_some {A} (a b : option A) : option A := match a with Some _ => a | None => b end.

Definition cmd_dt (s : bytes) : bytes :=
  let sd := std_from_str s in
  let dd := doc_datetime s in
  let v := first_some sd dd in
  let disp := optmap display_datetime v in
  str "std=" ++ show_option show_datetime sd
  ++ str " doc=" ++ show_option show_datetime dd
  ++ str " disp=" ++ show_option show_hex disp
  ++ str " rstd=" ++ show_option (fun t => show_option show_datetime (std_from_str t)) disp
  ++ str " rdoc=" ++ show_option (fun t => show_option show_datetime (doc_datetime t)) disp.

(* dtp: build a Datetime from fields (decimal ASCII arguments; "-" = absent), print it,
   and read the text back with both parsers *)
Definition arg_N (a : bytes) : N := dec_value a.
Definition cmd_dtp (args : list bytes) : bytes :=
  match args with
  | [hasd; y; m; d; hast; h; mi; sec; ns; offk; offneg; offm] =>
    let dte := if bytes_eqb hasd (str "1") then Some (mkDate (arg_N y) (arg_N m) (arg_N d)) else None in
    let tme := if bytes_eqb hast (str "1") then Some (mkTime (arg_N h) (arg_N mi) (arg_N sec) (arg_N ns)) else None in
    let off := if bytes_eqb offk (str "Z") then Some OffZ
               else if bytes_eqb offk (str "C")
                    then Some (OffCustom (if bytes_eqb offneg (str "1") then - Z.of_N (arg_N offm) else Z.of_N (arg_N offm))%Z)
                    else None in
    let v := mkDT dte tme off in
    let disp := display_datetime v in
    str "val=" ++ show_datetime v
    ++ str " disp=" ++ show_hex disp
    ++ str " rstd=" ++ show_option show_datetime (std_from_str disp)
    ++ str " rdoc=" ++ show_option show_datetime (doc_datetime disp)
  | _ => str "bad-args"
  end.

(* doc: parse a document; verdict, decoded tree, printed text of the unedited document *)
Definition cmd_doc (s : bytes) : bytes :=
  match parse_document s with
  | POk d =>
    str "ok tree=" ++ show_tbl (doc_root d)
    ++ str " print=" ++ (match tbl_despan s (doc_root d), raw_despan s (doc_trailing d) with
                         | Some r, Some t => show_hex (display_document r t)
                         | _, _ => str "PANIC-despan"
                         end)
  | PErr _ _ => str "err"
  | PPanic _ => str "PANIC-model"
  end.

(* docf: verdicts of every front end (toml::from_str, toml_edit::de::from_str, from_slice, ...):
   all of them run parse_document; from_slice checks UTF-8 first (de/mod.rs: from_slice) *)
Definition cmd_docf (s : bytes) : bytes :=
  if utf8_valid_b s then
    let v := match parse_document s with POk _ => str "ok" | PErr _ _ => str "err" | PPanic _ => str "PANIC-model" end in
    str "utf8=yes edit=" ++ v ++ str " im=" ++ v ++ str " toml_table=" ++ v ++ str " toml_parse=" ++ v
    ++ str " edit_de=" ++ v ++ str " slice=" ++ v
  else str "utf8=no slice=err".

(* docv: toml::from_str::<Value> / str::parse::<toml::Table> decode the same data (de/*.rs walk the tree) *)
Definition cmd_docv (s : bytes) : bytes :=
  match parse_document s with
  | POk d => str "ok edit=" ++ show_tbl (doc_root d) ++ str " same=yes"
  | PErr _ _ => str "err"
  | PPanic _ => str "PANIC-model"
  end.

(* rt: parse, print without edits, re-parse the printed text, print again *)
Definition print_doc (s : bytes) (d : doc) : option bytes :=
  match tbl_despan s (doc_root d), raw_despan s (doc_trailing d) with
  | Some r, Some t => Some (display_document r t)
  | _, _ => None
  end.
Definition cmd_rt (s : bytes) : bytes :=
  match parse_document s with
  | POk d =>
    match print_doc s d with
    | None => str "PANIC-despan"
    | Some p1 =>
      str "ok print=" ++ show_hex p1 ++
      (match parse_document p1 with
       | POk d2 =>
         str " reparse=" ++ (if bytes_eqb (show_tbl (doc_root d2)) (show_tbl (doc_root d)) then str "same" else str "DIFF")
         ++ str " fix=" ++ (match print_doc p1 d2 with
                            | Some p2 => if bytes_eqb p2 p1 then str "yes" else str "no"
                            | None => str "no" end)
       | _ => str " reparse=ERR fix=no"
       end)
    end
  | PErr _ _ => str "err"
  | PPanic _ => str "PANIC-model"
  end.

(* depth: nesting depth of the decoded structure (root table = 1, array-of-tables elements count
   two levels: the array and the table) *)
Fixpoint tbl_depth (t : tbl) : nat :=
  match t with
  | Tbl items _ _ _ _ _ =>
    S (fold_right (fun kv acc =>
                     match kv with
                     | (_, IValue v) => Nat.max (value_depth v) acc
                     | (_, ITable s) => Nat.max (tbl_depth s) acc
                     | (_, IAot ts _) => Nat.max (S (fold_right (fun e a => Nat.max (tbl_depth e) a) 0 ts)) acc
                     | (_, INone) => acc
                     end) 0 items)
  end.
Definition cmd_depth (s : bytes) : bytes :=
  match parse_document s with
  | POk d => str "ok depth=" ++ show_nat (tbl_depth (doc_root d))
             ++ str " same_print=yes consumers=survived toml=ok edit_de=ok dbg=ok"
  | PErr e _ => str "err kind=" ++ (match e_cause e with Some RecursionLimit => str "recursion" | _ => str "other" end)
                ++ str " toml=err"
  | PPanic _ => str "PANIC-model"
  end.

(* fuzz: verdict of every entry point (C04); a model panic shows as PANIC-model *)
Definition verdict_of {A} (r : presult A) : bytes :=
  match r with POk _ => str "ok" | PErr _ _ => str "err" | PPanic _ => str "PANIC-model" end.
Definition cmd_fuzz (s : bytes) : bytes :=
  if utf8_valid_b s then
    let d := verdict_of (parse_document s) in
    str "utf8=yes doc=" ++ d
    ++ str " val=" ++ verdict_of (parse_value_raw s)
    ++ str " key=" ++ verdict_of (parse_key s)
    ++ str " kp=" ++ verdict_of (parse_key_path s)
    ++ str " dt=" ++ (match std_from_str s with Some _ => str "ok" | None => str "err" end)
    ++ str " slice=" ++ d ++ str " toml=" ++ d ++ str " table=" ++ d ++ str " edit_de=" ++ d
  else str "utf8=no slice=err".

(* spans: every span of the immutable document in traversal order (C14) *)
Definition show_sp (o : ospan) : bytes :=
  match o with Some (a, b) => show_N a ++ str "-" ++ show_N b | None => str "none" end.
Definition key_sp (k : key) : ospan := match k_repr k with Some r => raw_span r | None => None end.
Fixpoint spans_value (v : value) : list bytes :=
  (str "v" ++ show_sp (value_span v)) ::
  match v with
  | VScalar _ _ _ => []
  | VArray vals _ _ _ _ => flat_map (fun it => match it with IValue e => spans_value e | _ => [] end) vals
  | VInline items _ _ _ _ _ =>
    flat_map (fun kv => match kv with
                        | (k, IValue e) => (str "k" ++ show_sp (key_sp k)) :: spans_value e
                        | _ => [] end) items
  end.
Fixpoint spans_tbl (t : tbl) : list bytes :=
  match t with
  | Tbl items _ _ _ _ sp =>
    (str "T" ++ show_sp sp) ::
    flat_map (fun kv => match kv with
                        | (_, INone) => []
                        | (k, IValue v) => (str "k" ++ show_sp (key_sp k)) :: spans_value v
                        | (k, ITable sub) => (str "k" ++ show_sp (key_sp k)) :: spans_tbl sub
                        | (k, IAot ts asp) => (str "k" ++ show_sp (key_sp k)) :: (str "A" ++ show_sp asp) :: flat_map spans_tbl ts
                        end) items
  end.
Definition cmd_spans (s : bytes) : bytes :=
  match parse_document s with
  | POk d => str "ok spans=" ++ (match spans_tbl (doc_root d) with [] => str "-" | l => join (str ",") l end)
             ++ str " bounds=ok boundary=ok nest=ok reparse=ok despan=ok"
  | PErr _ _ => str "err"
  | PPanic _ => str "PANIC-model"
  end.

(* val: Value::from_str; decoded value and its Display *)
Definition cmd_val (s : bytes) : bytes :=
  match parse_value_raw s with
  | POk v =>
    str "ok val=" ++ show_value v
    ++ str " print=" ++ (match value_despan s (value_decorate v REmpty REmpty) with
                         | Some v' => show_hex (display_value (match v' with
                                                               | VScalar x r _ => VScalar x r decor_default
                                                               | VArray a t c _ sp => VArray a t c decor_default sp
                                                               | VInline i p im dt _ sp => VInline i p im dt decor_default sp
                                                               end))
                         | None => str "PANIC-despan"
                         end)
  | PErr _ _ => str "err"
  | PPanic _ => str "PANIC-model"
  end.

(* acc: parse a document and look at every node through the public read API only
   (Item / Value type_name, is_x, as_x, as_table_like, Item::get by key and by index,
   Array::get / len, InlineTable::get, doc["k"]); Model/Accessors.v *)
Definition cmd_acc (s : bytes) : bytes :=
  match parse_document s with
  | POk d => str "ok acc=" ++ Accessors.acc_doc (doc_root d)
  | PErr _ _ => str "err"
  | PPanic _ => str "PANIC-model"
  end.

Definition run_cmd (name : bytes) (args : list bytes) : bytes :=
  if bytes_eqb name (str "dt") then
    match args with [s] => cmd_dt s | _ => str "bad-args" end
  else if bytes_eqb name (str "dtp") then cmd_dtp args
  else if bytes_eqb name (str "doc") then match args with [s] => cmd_doc s | _ => str "bad-args" end
  else if bytes_eqb name (str "acc") then match args with [s] => cmd_acc s | _ => str "bad-args" end
  else if bytes_eqb name (str "val") then match args with [s] => cmd_val s | _ => str "bad-args" end
  else if bytes_eqb name (str "docv") then match args with [s] => Cmd_front.cmd_docv_front s | _ => str "bad-args" end
  else if bytes_eqb name (str "accv") then match args with [s] => Cmd_front.cmd_accv_front s | _ => str "bad-args" end
  else if bytes_eqb name (str "rt") then match args with [s] => cmd_rt s | _ => str "bad-args" end
  else if bytes_eqb name (str "depth") then match args with [s] => cmd_depth s | _ => str "bad-args" end
  else if bytes_eqb name (str "fuzz") then match args with [s] => cmd_fuzz s | _ => str "bad-args" end
  else if bytes_eqb name (str "spans") then match args with [s] => cmd_spans s | _ => str "bad-args" end
  else if bytes_eqb name (str "docf") then match args with [s] => Cmd_front.cmd_docf_front s | _ => str "bad-args" end
  else if bytes_eqb name (str "norm") then match args with [s] => show_hex (Norm.normalize s) | _ => str "bad-args" end
  else if bytes_eqb name (str "laid") then
    match args with
    | [s] => match parse_document s with
             | POk d => if PrintBackDTop.laid_out' s (doc_root d) then str "laid=yes" else str "laid=no"
             | _ => str "laid=err"
             end
    | _ => str "bad-args"
    end
  else str "unknown-command".
