(* Extract/Commands.v — the observation commands of the correspondence protocol.
   `run_cmd name args` returns the canonical observation line for one case. *)
From TV Require Import Base.Prelude Base.Utf8 Base.Winnow Gen.Consts Extract.Show.
From TV Require Import Model.Datetime Model.DatetimeStd.
Require Import String.

Definition show_date (d : date) : bytes :=
  show_N (year d) ++ str "-" ++ show_N (month d) ++ str "-" ++ show_N (day d).
Definition show_time (t : time) : bytes :=
  show_N (hour t) ++ str ":" ++ show_N (minute t) ++ str ":" ++ show_N (second t) ++ str "." ++ show_N (nanosecond t).
Definition show_offset (o : offset) : bytes :=
  match o with OffZ => str "Z" | OffCustom m => str "C" ++ show_Z m end.
Definition show_datetime (d : datetime) : bytes :=
  str "dt(" ++ show_option show_date (d_date d) ++ str ";" ++ show_option show_time (d_time d)
  ++ str ";" ++ show_option show_offset (d_offset d) ++ str ")".

Definition first_some {A} (a b : option A) : option A := match a with Some _ => a | None => b end.

Definition cmd_dt (s : bytes) : bytes :=
  let sd := std_from_str s in
  let dd := doc_datetime s in
  let v := first_some sd dd in
  let disp := optmap display_datetime v in
  str "std=" ++ show_option show_datetime sd
  ++ str " doc=" ++ show_option show_datetime dd
  ++ str " disp=" ++ show_option show_hex disp
  ++ str " rstd=" ++ show_option (fun t => show_option show_datetime (std_from_str t)) disp
  ++ str " rdoc=" ++ show_option (fun t => show_option show_datetime (doc_datetime t)) disp.

(* dtp: build a Datetime from fields (decimal ASCII arguments; "-" = absent), print it,
   and read the text back with both parsers *)
Definition arg_N (a : bytes) : N := dec_value a.
Definition cmd_dtp (args : list bytes) : bytes :=
  match args with
  | [hasd; y; m; d; hast; h; mi; sec; ns; offk; offneg; offm] =>
    let dte := if bytes_eqb hasd (str "1") then Some (mkDate (arg_N y) (arg_N m) (arg_N d)) else None in
    let tme := if bytes_eqb hast (str "1") then Some (mkTime (arg_N h) (arg_N mi) (arg_N sec) (arg_N ns)) else None in
    let off := if bytes_eqb offk (str "Z") then Some OffZ
               else if bytes_eqb offk (str "C")
                    then Some (OffCustom (if bytes_eqb offneg (str "1") then - Z.of_N (arg_N offm) else Z.of_N (arg_N offm))%Z)
                    else None in
    let v := mkDT dte tme off in
    let disp := display_datetime v in
    str "val=" ++ show_datetime v
    ++ str " disp=" ++ show_hex disp
    ++ str " rstd=" ++ show_option show_datetime (std_from_str disp)
    ++ str " rdoc=" ++ show_option show_datetime (doc_datetime disp)
  | _ => str "bad-args"
  end.

Definition cmd_eq (a b : string) : bool := String.eqb a b.

Definition run_cmd (name : bytes) (args : list bytes) : bytes :=
  if bytes_eqb name (str "dt") then
    match args with [s] => cmd_dt s | _ => str "bad-args" end
  else if bytes_eqb name (str "dtp") then cmd_dtp args
  else str "unknown-command".
