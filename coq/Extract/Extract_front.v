(* Extract/Extract_front.v — extraction of the front-end observation commands (ExtrOcamlBasic only). *)
From TV Require Import Base.Prelude Extract.Cmd_front.
Require Import ExtrOcamlBasic.
Extraction Language OCaml.
Extraction "model_front.ml" run_cmd n2b b2n.
