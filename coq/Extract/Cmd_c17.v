(* Extract/Cmd_c17.v — observation commands of property C17 (model side).
     val <ord> <tree>   ord = `s` (toml::Map = BTreeMap) | `i` (IndexMap, insertion order = order given)
       tree  := value, ASCII:  value := 'L' desc ';' | 'A' value* ']' | 'T' ( 'K' hexkey ';' value )* '}'
       prints  vdoc=<doc> pdoc=<doc> tdoc=<doc> sdoc=<doc> vdisp=<shape> edisp=<shape>,.. rb=<value> fix=.. pp=.. dec=.. tfix=.. sdec=.. s2fix=.. det=..
       (the format is described in harness/src/bin/c17.rs, which prints the same line from the TEXT
        the real crates write)
     txt <text>         not modelled (`skip`): the oracle alone judges it *)
From TV Require Import Base.Prelude Spec.Ordered Model.TomlValue Spec.Canonical Extract.Show.
Require Import String.

(* ---- decoding the tree description ---- *)
Definition hexval (b : byte) : N :=
  let n := b2n b in if (n <? 58)%N then (n - 48)%N else (n - 87)%N.
Fixpoint unhex (s : bytes) : bytes :=
  match s with
  | a :: b :: r => n2b (hexval a * 16 + hexval b)%N :: unhex r
  | _ => []
  end.
Definition not_semi (b : byte) : bool := negb (byte_eqb b ";"%byte).

Fixpoint pv (fuel : nat) (s : bytes) : option (tv * bytes) :=
  match fuel with
  | O => None
  | S f =>
    match s with
    | c :: r =>
      if byte_eqb c "L"%byte then
        let (d, r') := span_while not_semi r in
        match r' with _ :: r'' => Some (TLeaf d, r'') | [] => None end
      else if byte_eqb c "A"%byte then
        match pelems f r with Some (l, r') => Some (TArr l, r') | None => None end
      else if byte_eqb c "T"%byte then
        match pentries f r with Some (m, r') => Some (TTab m, r') | None => None end
      else None
    | [] => None
    end
  end
with pelems (fuel : nat) (s : bytes) : option (list tv * bytes) :=
  match fuel with
  | O => None
  | S f =>
    match s with
    | c :: r =>
      if byte_eqb c "]"%byte then Some ([], r)
      else match pv f s with
           | Some (x, r') => match pelems f r' with Some (l, r'') => Some (x :: l, r'') | None => None end
           | None => None
           end
    | [] => None
    end
  end
with pentries (fuel : nat) (s : bytes) : option (list (bytes * tv) * bytes) :=
  match fuel with
  | O => None
  | S f =>
    match s with
    | c :: r =>
      if byte_eqb c "}"%byte then Some ([], r)
      else if byte_eqb c "K"%byte then
        let (h, r') := span_while not_semi r in
        match r' with
        | _ :: r'' =>
          match pv f r'' with
          | Some (x, r3) =>
            match pentries f r3 with
            | Some (m, r4) => Some ((if bytes_eqb h (str "-") then [] else unhex h, x) :: m, r4)
            | None => None
            end
          | None => None
          end
        | [] => None
        end
      else None
    | [] => None
    end
  end.

Definition parse_tree (s : bytes) : option tv :=
  match pv (S (List.length s)) s with
  | Some (v, []) => Some v
  | _ => None
  end.

(* ---- printing ---- *)
Fixpoint show_tv (v : tv) : bytes :=
  match v with
  | TLeaf t => str "L" ++ t ++ str ";"
  | TArr l => str "A" ++ flat_map show_tv l ++ str "]"
  | TTab m =>
    str "T" ++
    (fix go (m : list (bytes * tv)) : bytes :=
       match m with
       | [] => []
       | (k, x) :: r => str "K" ++ show_hex k ++ str ";" ++ show_tv x ++ go r
       end) m ++ str "}"
  end.

Fixpoint show_iv (v : iv) : bytes :=
  match v with
  | VLeaf t => str "L" ++ t ++ str ";"
  | VArr ml l => (if ml then str "M" else str "A") ++ flat_map show_iv l ++ str "]"
  | VInl m =>
    str "T" ++
    (fix go (m : list (bytes * iv)) : bytes :=
       match m with
       | [] => []
       | (k, x) :: r => str "K" ++ show_hex k ++ str ";" ++ show_iv x ++ go r
       end) m ++ str "}"
  end.

Definition show_section (s : section) : bytes :=
  (match s_kind s with
   | KRoot => str "R"
   | KStd => str "S" ++ join (str ".") (map show_hex (s_path s))
   | KArr => str "A" ++ join (str ".") (map show_hex (s_path s))
   end) ++ str ":" ++ join (str ",") (map (fun kv => show_hex (fst kv) ++ str "=" ++ show_iv (snd kv)) (s_lines s)).

Definition show_doc (d : list section) : bytes := join (str "/") (map show_section d).

Definition flag (b : bool) : bytes := if b then str "ok" else str "BAD".

Definition same_doc (a b : list section) : bool := bytes_eqb (show_doc a) (show_doc b).
Definition same_opt (a b : option (list (bytes * tv))) : bool :=
  match a, b with
  | Some x, Some y => tv_eqb (TTab x) (TTab y)
  | _, _ => false
  end.

Definition cmd_val (o : morder) (v0 : tv) : bytes :=
  match build o v0 with
  | TTab m =>
    let plain := emit_value_doc false m in
    let pretty := emit_value_doc true m in
    let tdoc := emit_table_doc false m in
    let sdoc := emit_struct_doc false m in
    let back := decode o plain in
    let tback := decode o tdoc in
    let sback := decode o sdoc in
    str "vdoc=" ++ show_doc plain ++
    str " pdoc=" ++ show_doc pretty ++
    str " tdoc=" ++ show_doc tdoc ++
    str " sdoc=" ++ show_doc sdoc ++
    str " vdisp=" ++ show_iv (display_value (TTab m)) ++
    (* Display of every root entry taken by itself (`table["k"].to_string()`), in the map's order *)
    str " edisp=" ++ join (str ",") (map (fun kv => show_iv (display_value (snd kv))) m) ++
    str " rb=" ++ (match back with Some r => show_tv (TTab r) | None => str "ERR" end) ++
    str " fix=" ++ flag (match back with Some r => same_doc (emit_value_doc false r) plain | None => false end) ++
    str " pp=" ++ flag (same_opt back (decode o pretty)) ++
    (* Rust `==` on Values: BTreeMap compares entry lists, IndexMap compares as sets of entries *)
    str " dec=" ++ flag (match back with Some r => tv_eqb (sort_tv (TTab r)) (sort_tv (TTab m)) | None => false end) ++
    str " tfix=" ++ flag (match tback with
                          | Some r => tv_eqb (sort_tv (TTab r)) (sort_tv (TTab m)) && same_doc (emit_table_doc false r) tdoc
                          | None => false
                          end) ++
    (* a serializer that keeps its own order: decodes to v; the Value read back prints to a fixed point *)
    str " sdec=" ++ flag (match sback with Some r => tv_eqb (sort_tv (TTab r)) (sort_tv (TTab m)) | None => false end) ++
    str " s2fix=" ++ flag (match sback with
                           | Some r =>
                             let d2 := emit_value_doc false r in
                             match decode o d2 with Some r2 => same_doc (emit_value_doc false r2) d2 | None => false end
                           | None => false
                           end) ++
    str " det=ok"
  | v =>                             (* write_document: Item::Value(v).into_table() fails -> unsupported type; *)
    str "not-a-table:err vdisp=" ++ show_iv (display_value v)          (* Display for Value prints the value itself *)
  end.

Definition run_cmd (name : bytes) (args : list bytes) : bytes :=
  if bytes_eqb name (str "val") then
    match args with
    | [o; t] =>
      match parse_tree t with
      | Some v =>
        if bytes_eqb o (str "s") then cmd_val OSorted v
        else if bytes_eqb o (str "i") then cmd_val OInsertion v
        else str "bad-args"
      | None => str "bad-tree"
      end
    | _ => str "bad-args"
    end
  else if bytes_eqb name (str "txt") then str "skip"
  else str "unknown-command".
