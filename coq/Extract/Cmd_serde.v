(* Extract/Cmd_serde.v — observation commands of the serde properties (C07) on the MODEL side.

     ser <type> <value>    the seven encoding routes of lib/props/c07.py on the level of the value tree:
                           `<route>=err(<kind>)` or `<route>=ok:<tree>;rt:<result>[;lay:<layout>]` with
                             layout  (document routes) the document after the root conversion and the pretty
                                     visitor / DocumentFormatter (Model/SerFmt.v): the tree with table kinds
                                     L array, T inline table, H [header] table, A [[array of tables]]
                             tree    the TOML value tree (token syntax of harness/src/bin/serde/dynty.rs:
                                     S<hex> I<dec> D<16 hex> B0|B1 X<hex text> L<n> .. T<n> S<key> ..)
                             result  what the matching deserializer makes of that tree at the same type:
                                     a value dump (same syntax as the input), `ERR` or `UNMODELLED`
                           tp tpp = Ser.ser_toml_root, ep epp doc = Ser.ser_edit_root (read back by De.de_value),
                           val = Ser.tv_ser, tab = Ser.tv_ser_table (read back by De.tv_de).
     routes <type> <doc> <val> <dtree> <vtree>   (C13) every decoding route on the TREES the two texts denote
                           (lib/props/c13.py passes them as extra arguments, entries in document order; the harness reads the texts),
                           followed by the TEXT-LEVEL routes of Proofs/C13TextModel.v on the document text <doc> itself
                           (Coq parser, into_mut, the eight route functions): `T.<route>=ok:<value>|utf8|parse|de|unmodelled|panic`
                           for t e esl edoc eim ttab tval efs; the float oracle is read off <dtree> (Extract/TextRoutesCmd.v);
                           `T=-` when the floats of the text do not line up with the tree
     slice <type> <bytes>  (C13) toml_edit::de::from_slice on ANY byte string: `esl=ok:<value>|utf8|parse|de|unmodelled`
     routes_ser <type> <value>             (C13) the same on the trees toml::to_string / toml::ser::ValueSerializer build
     tryfrom <type> <value>                (C13) Value::try_from / Table::try_from against the tree of the serialized text
     spanned <stype> <doc>                 (C14, serde half) a type with Spanned wrappers (`Y`) and its erasure on the span
                           tree the Coq parser builds from the document text (Model/Document.v)
     consts                the reserved names the model assumes (compared with the crates' constants)
     fidelity <n>          `-` (a self-check of the Rust harness; nothing to model)
   `-` is also the answer for a type outside the modelled universe (the untyped `toml::Value` leaf). *)
From TV Require Import Base.Prelude Base.Utf8 Model.Datetime Model.DatetimeStd Model.SerNum
  Spec.SerdeData Model.Ser Model.De Model.SerFmt Model.SerdeRoutes Model.SerdeSpanned Extract.SpannedTree Extract.Show.
From TV Require Proofs.C13TextModel Extract.TextRoutesCmd.
Require Import String.

(* ---- tokens ---- *)
Fixpoint split_on (sep : byte) (s : bytes) : list bytes :=
  match s with
  | [] => [[]]
  | b :: s' =>
    let r := split_on sep s' in
    if byte_eqb b sep then [] :: r
    else match r with x :: tl => (b :: x) :: tl | [] => [[b]] end
  end.

Definition is (s : bytes) (name : string) : bool := bytes_eqb s (str name).

Definition hexval (b : byte) : N :=
  let n := b2n b in
  if (n <? 58)%N then (n - 48)%N else if (n <? 71)%N then (n - 55)%N else (n - 87)%N.
Fixpoint unhex (s : bytes) : bytes :=
  match s with
  | a :: b :: s' => n2b (hexval a * 16 + hexval b)%N :: unhex s'
  | _ => []
  end.
Definition unhex_name (s : bytes) : bytes := if is s "-" then [] else unhex s.
Fixpoint hex_value_acc (acc : N) (s : bytes) : N :=
  match s with [] => acc | b :: s' => hex_value_acc (acc * 16 + hexval b)%N s' end.

Definition parse_Z (s : bytes) : Z :=
  match s with
  | b :: r => if byte_eqb b x2d then (- Z.of_N (dec_value r))%Z else Z.of_N (dec_value s)
  | [] => 0%Z
  end.
Definition parse_nat (s : bytes) : nat := N.to_nat (dec_value s).

(* ---- types ---- *)
Inductive pres (A : Type) : Type := POk (a : A) (rest : list bytes) | PBad | PUnmodelled.
Arguments POk {A} a rest.
Arguments PBad {A}.
Arguments PUnmodelled {A}.
Definition pbind {A B} (r : pres A) (f : A -> list bytes -> pres B) : pres B :=
  match r with POk a rest => f a rest | PBad => PBad | PUnmodelled => PUnmodelled end.

Definition int_of_tok (s : bytes) : option int_ty :=
  if is s "i8" then Some TI8 else if is s "i16" then Some TI16 else if is s "i32" then Some TI32
  else if is s "i64" then Some TI64 else if is s "i128" then Some TI128
  else if is s "u8" then Some TU8 else if is s "u16" then Some TU16 else if is s "u32" then Some TU32
  else if is s "u64" then Some TU64 else if is s "u128" then Some TU128 else None.

Section Rep.
  Context {A : Type}.
  Variable p : list bytes -> pres A.
  Fixpoint prep (n : nat) (toks : list bytes) : pres (list A) :=
    match n with
    | O => POk [] toks
    | S n' => pbind (p toks) (fun a r => pbind (prep n' r) (fun l r' => POk (a :: l) r'))
    end.
End Rep.

Definition pname (toks : list bytes) : pres bytes :=
  match toks with t :: r => POk (unhex_name t) r | [] => PBad end.

Fixpoint parse_ty (fuel : nat) (toks : list bytes) : pres ty :=
  match fuel with
  | O => PBad
  | S f =>
    match toks with
    | [] => PBad
    | tok :: r =>
      let pfield := fun tk => pbind (pname tk) (fun n r1 => pbind (parse_ty f r1) (fun t r2 => POk (n, t) r2)) in
      if is tok "b" then POk TBool r
      else if is tok "f32" then POk (TFloat F32) r
      else if is tok "f64" then POk (TFloat F64) r
      else if is tok "c" then POk TChar r
      else if is tok "s" then POk TStr r
      else if is tok "dt" then POk (TDatetime KDatetime) r
      else if is tok "da" then POk (TDatetime KDate) r
      else if is tok "ti" then POk (TDatetime KTime) r
      else if is tok "u" then POk TUnit r
      else if is tok "v" then PUnmodelled
      else if is tok "O" then pbind (parse_ty f r) (fun t r1 => POk (TOpt t) r1)
      else if is tok "L" then pbind (parse_ty f r) (fun t r1 => POk (TSeq t) r1)
      else if is tok "M" then pbind (parse_ty f r) (fun k r1 => pbind (parse_ty f r1) (fun v r2 => POk (TMap k v) r2))
      else if is tok "N" then pbind (pname r) (fun n r1 => pbind (parse_ty f r1) (fun t r2 => POk (TNewtype n t) r2))
      else if is tok "Z" then pbind (pname r) (fun n r1 => POk (TUnitStruct n) r1)
      else match int_of_tok tok with
      | Some w => POk (TInt w) r
      | None =>
        match tok with
        | h :: cnt =>
          let n := parse_nat cnt in
          if byte_eqb h "T"%byte then pbind (prep (parse_ty f) n r) (fun ts r1 => POk (TTuple ts) r1)
          else if byte_eqb h "S"%byte then
            pbind (pname r) (fun nm r1 => pbind (prep pfield n r1) (fun fs r2 => POk (TStruct nm fs) r2))
          else if byte_eqb h "P"%byte then
            pbind (pname r) (fun nm r1 => pbind (prep (parse_ty f) n r1) (fun ts r2 => POk (TTupleStruct nm ts) r2))
          else if byte_eqb h "E"%byte then
            let pvariant := fun tk =>
              match tk with
              | vt :: r1 =>
                pbind (pname r1) (fun vn r2 =>
                  if is vt "vu" then POk (vn, VUnit) r2
                  else if is vt "vn" then pbind (parse_ty f r2) (fun t r3 => POk (vn, VNewtype t) r3)
                  else match vt with
                       | a :: b :: cnt' =>
                         let k := parse_nat cnt' in
                         if byte_eqb a "v"%byte && byte_eqb b "t"%byte
                         then pbind (prep (parse_ty f) k r2) (fun ts r3 => POk (vn, VTuple ts) r3)
                         else if byte_eqb a "v"%byte && byte_eqb b "s"%byte
                         then pbind (prep pfield k r2) (fun fs r3 => POk (vn, VStruct fs) r3)
                         else PBad
                       | _ => PBad
                       end)
              | [] => PBad
              end in
            pbind (pname r) (fun nm r1 => pbind (prep pvariant n r1) (fun vs r2 => POk (TEnum nm vs) r2))
          else PBad
        | [] => PBad
        end
      end
    end
  end.

(* ---- values ---- *)
Fixpoint parse_val (fuel : nat) (toks : list bytes) : pres sval :=
  match fuel with
  | O => PBad
  | S f =>
    match toks with
    | [] => PBad
    | tok :: r =>
      match tok with
      | [] => PBad
      | h :: rest =>
        if byte_eqb h "B"%byte then POk (SBool (is rest "1")) r
        else if byte_eqb h "I"%byte then POk (SInt (parse_Z rest)) r
        else if byte_eqb h "D"%byte then POk (SF64 (hex_value_acc 0 rest)) r
        else if byte_eqb h "G"%byte then POk (SF32 (hex_value_acc 0 rest)) r
        else if byte_eqb h "C"%byte then POk (SChar (dec_value rest)) r
        else if byte_eqb h "S"%byte then POk (SStr (unhex rest)) r
        else if byte_eqb h "X"%byte then
          match std_from_str (unhex rest) with Some d => POk (SDt d) r | None => PBad end
        else if byte_eqb h "U"%byte then POk SUnit r
        else if byte_eqb h "N"%byte then POk SNone r
        else if byte_eqb h "O"%byte then pbind (parse_val f r) (fun v r1 => POk (SSome v) r1)
        else if byte_eqb h "W"%byte then pbind (parse_val f r) (fun v r1 => POk (SNewtype v) r1)
        else if byte_eqb h "L"%byte then pbind (prep (parse_val f) (parse_nat rest) r) (fun vs r1 => POk (SSeq vs) r1)
        else if byte_eqb h "R"%byte then pbind (prep (parse_val f) (parse_nat rest) r) (fun vs r1 => POk (SRec vs) r1)
        else if byte_eqb h "M"%byte then
          pbind (prep (fun tk => pbind (parse_val f tk) (fun k r1 => pbind (parse_val f r1) (fun v r2 => POk (k, v) r2)))
                      (parse_nat rest) r) (fun es r1 => POk (SMap es) r1)
        else if byte_eqb h "E"%byte then pbind (parse_val f r) (fun p r1 => POk (SVariant (parse_nat rest) p) r1)
        else if byte_eqb h "V"%byte then PUnmodelled
        else PBad
      end
    end
  end.

(* ---- printing ---- *)
Definition hexs (s : bytes) : bytes :=
  flat_map (fun b => [hex_digit (b2n b / 16); hex_digit (b2n b mod 16)]) s.
Fixpoint hex_N_rev (digits : nat) (n : N) : bytes :=
  match digits with
  | O => []
  | S d => hex_digit (n mod 16) :: hex_N_rev d (n / 16)
  end.
Definition hex_N (digits : nat) (n : N) : bytes := rev (hex_N_rev digits n).

Fixpoint tv_tokens (x : tomlval) : list bytes :=
  match x with
  | VStr s => [str "S" ++ hexs s]
  | VInt z => [str "I" ++ show_Z z]
  | VFloat b => [str "D" ++ hex_N 16 b]
  | VBool b => [if b then str "B1" else str "B0"]
  | VDatetime d => [str "X" ++ hexs (display_datetime d)]
  | VArr xs => (str "L" ++ show_nat (List.length xs)) :: flat_map tv_tokens xs
  | VTab es => (str "T" ++ show_nat (List.length es)) :: flat_map (fun kx => (str "S" ++ hexs (fst kx)) :: tv_tokens (snd kx)) es
  end.
Definition show_tv (x : tomlval) : bytes := join (str ",") (tv_tokens x).

Fixpoint sval_tokens (v : sval) : list bytes :=
  match v with
  | SBool b => [if b then str "B1" else str "B0"]
  | SInt z => [str "I" ++ show_Z z]
  | SF64 b => [str "D" ++ hex_N 16 b]
  | SF32 b => [str "G" ++ hex_N 8 b]
  | SChar c => [str "C" ++ show_N c]
  | SStr s => [str "S" ++ hexs s]
  | SDt d => [str "X" ++ hexs (display_datetime d)]
  | SUnit => [str "U"]
  | SNone => [str "N"]
  | SSome v' => str "O" :: sval_tokens v'
  | SSeq vs => (str "L" ++ show_nat (List.length vs)) :: flat_map sval_tokens vs
  | SMap es => (str "M" ++ show_nat (List.length es)) :: flat_map (fun kv => sval_tokens (fst kv) ++ sval_tokens (snd kv)) es
  | SRec vs => (str "R" ++ show_nat (List.length vs)) :: flat_map sval_tokens vs
  | SNewtype v' => str "W" :: sval_tokens v'
  | SVariant i p => (str "E" ++ show_nat i) :: sval_tokens p
  end.
Definition show_sval (v : sval) : bytes := join (str ",") (sval_tokens v).

(* harness/src/bin/serde/routes.rs ser_kind: the error kind is derived from the message *)
Definition S_rust : bytes := [x72; x75; x73; x74].
Definition show_err (e : err) : bytes :=
  match e with
  | EUnsupportedType None => str "root-not-table"
  | EUnsupportedType (Some n) =>
    if bytes_eqb n S_unit then str "unsupported-unit"
    else if bytes_eqb n S_rust then str "root-not-table"
    else str "unsupported-type"
  | EOutOfRange _ => str "out-of-range"
  | EU64TooLarge => str "out-of-range"
  | EUnsupportedNone => str "unsupported-none"
  | EKeyNotString => str "key-not-string"
  | EDateInvalid => str "date-invalid"
  | EInt128 _ => str "int128"
  | ECustomDatetime => str "other"
  | EBadCase => str "BADCASE"
  | EDe => str "de"
  | EUnmodelled => str "unmodelled"
  end.

Definition show_rt (r : result sval) : bytes :=
  match r with
  | Ok v => show_sval v
  | Err EUnmodelled => str "UNMODELLED"
  | Err _ => str "ERR"
  end.

(* the layout of a document: L array, T inline table, H [header] table, A [[array of tables]] *)
Fixpoint item_tokens (it : item) : list bytes :=
  match it with
  | ILeaf x => tv_tokens x
  | IArr xs => (str "L" ++ show_nat (List.length xs)) :: flat_map item_tokens xs
  | IInl es => (str "T" ++ show_nat (List.length es)) :: flat_map (fun kx => (str "S" ++ hexs (fst kx)) :: item_tokens (snd kx)) es
  | ITab es => (str "H" ++ show_nat (List.length es)) :: flat_map (fun kx => (str "S" ++ hexs (fst kx)) :: item_tokens (snd kx)) es
  | IAot ts => (str "A" ++ show_nat (List.length ts)) :: flat_map item_tokens ts
  end.
Definition show_item (it : item) : bytes := join (str ",") (item_tokens it).

Definition show_route (name : string) (r : result tomlval) (de : tomlval -> result sval)
           (lay : option (tomlval -> item)) : bytes :=
  str name ++ str "=" ++
  match r with
  | Err e => str "err(" ++ show_err e ++ str ")"
  | Ok x => str "ok:" ++ show_tv x ++ str ";rt:" ++ show_rt (de x)
            ++ match lay with Some f => str ";lay:" ++ show_item (f x) | None => [] end
  end.

Definition cmd_ser (tys vals : bytes) : bytes :=
  let tt := split_on ","%byte tys in
  let vt := split_on ","%byte vals in
  match parse_ty (S (List.length tt)) tt, parse_val (S (List.length vt)) vt with
  | PUnmodelled, _ | _, PUnmodelled => str "-"
  | POk t [], POk v [] =>
    let toml := ser_toml_root t v in
    let edit := ser_edit_root t v in
    join (str " ")
         [show_route "tp" toml (de_value t) (Some doc_toml); show_route "tpp" toml (de_value t) (Some doc_toml);
          show_route "ep" edit (de_value t) (Some doc_edit_plain); show_route "epp" edit (de_value t) (Some doc_edit_pretty);
          show_route "doc" edit (de_value t) (Some doc_edit_plain);
          show_route "val" (tv_ser t v) (tv_de t) None; show_route "tab" (tv_ser_table t v) (tv_de t) None;
          (* evidence: is the case inside the hypotheses of the theorems? *)
          (if has_type_b t v then str "typed=1" else str "typed=0")]
  | _, _ => str "BADCASE"
  end.

(* has_type of the case (evidence: how many generated cases the theorems speak about) *)
Definition cmd_typed (tys vals : bytes) : bytes :=
  let tt := split_on ","%byte tys in
  let vt := split_on ","%byte vals in
  match parse_ty (S (List.length tt)) tt, parse_val (S (List.length vt)) vt with
  | PUnmodelled, _ | _, PUnmodelled => str "-"
  | POk t [], POk v [] => if has_type_b t v then str "typed=1" else str "typed=0"
  | _, _ => str "BADCASE"
  end.

(* ---- C13 ---- *)
Fixpoint parse_tv (fuel : nat) (toks : list bytes) : pres tomlval :=
  match fuel with
  | O => PBad
  | S f =>
    match toks with
    | [] => PBad
    | tok :: r =>
      match tok with
      | [] => PBad
      | h :: rest =>
        if byte_eqb h "S"%byte then POk (VStr (unhex rest)) r
        else if byte_eqb h "I"%byte then POk (VInt (parse_Z rest)) r
        else if byte_eqb h "D"%byte then POk (VFloat (hex_value_acc 0 rest)) r
        else if byte_eqb h "B"%byte then POk (VBool (is rest "1")) r
        else if byte_eqb h "X"%byte then
          match std_from_str (unhex rest) with Some d => POk (VDatetime d) r | None => PBad end
        else if byte_eqb h "L"%byte then pbind (prep (parse_tv f) (parse_nat rest) r) (fun xs r1 => POk (VArr xs) r1)
        else if byte_eqb h "T"%byte then
          pbind (prep (fun tk => match tk with
                                 | (_ :: k) :: r1 => pbind (parse_tv f r1) (fun x r2 => POk (unhex k, x) r2)
                                 | _ => PBad end) (parse_nat rest) r) (fun es r1 => POk (VTab es) r1)
        else PBad
      end
    end
  end.

Definition show_dec (r : result sval) : bytes :=
  match r with
  | Ok v => str "ok:" ++ show_sval v
  | Err EUnmodelled => str "*"
  | Err _ => str "err"
  end.

Definition doc_routes_line (t : ty) (x : tomlval) : list bytes :=
  [str "t=" ++ show_dec (decode R_t t x); str "e=" ++ show_dec (decode R_e t x); str "esl=" ++ show_dec (decode R_esl t x);
   str "edoc=" ++ show_dec (decode R_edoc t x); str "eim=" ++ show_dec (decode R_eim t x);
   str "tval=" ++ show_dec (decode R_tval t x); str "ttab=" ++ show_dec (decode R_ttab t x);
   str "efs=" ++ show_dec (decode R_efs t x)].
Definition val_routes_line (t : ty) (x : tomlval) : list bytes :=
  [str "tvd=" ++ show_dec (decode R_tvd t x); str "evd=" ++ show_dec (decode R_evd t x);
   str "tvdval=" ++ show_dec (decode R_tvdval t x)].

(* ---- C13, text level ---- *)
Definition show_tres (r : C13TextModel.tres) : bytes :=
  match r with
  | C13TextModel.TOk (C13TextModel.OVal v) => str "ok:" ++ show_sval v
  | C13TextModel.TOk (C13TextModel.OToml x) => str "ok:" ++ show_tv x
  | C13TextModel.TUtf8Err => str "utf8"
  | C13TextModel.TParseErr => str "parse"
  | C13TextModel.TDeErr => str "de"
  | C13TextModel.TUnmodelled => str "unmodelled"
  | C13TextModel.TPanic => str "panic"
  end.
Definition text_route_name (r : C13TextModel.text_route) : bytes :=
  match r with
  | C13TextModel.Tt => str "t" | C13TextModel.Te => str "e" | C13TextModel.Tesl => str "esl" | C13TextModel.Tedoc => str "edoc"
  | C13TextModel.Teim => str "eim" | C13TextModel.Tefs => str "efs" | C13TextModel.Ttval => str "tval" | C13TextModel.Tttab => str "ttab"
  end.
Definition text_routes_line (t : ty) (doc : bytes) (tree : tomlval) : list bytes :=
  if TextRoutesCmd.oracle_ok doc tree
  then map (fun ra => str "T." ++ text_route_name (fst ra) ++ str "=" ++ show_tres (snd ra)) (TextRoutesCmd.text_answers t doc tree)
  else [str "T=-"].

Definition cmd_slice (tys bs : bytes) : bytes :=
  let tt := split_on ","%byte tys in
  match parse_ty (S (List.length tt)) tt with
  | PUnmodelled => str "-"
  | POk t [] => str "esl=" ++ show_tres (TextRoutesCmd.slice_answer t bs)
  | _ => str "BADCASE"
  end.

Definition cmd_routes (tys doctext dtree vtree : bytes) : bytes :=
  let tt := split_on ","%byte tys in
  let dt := split_on ","%byte dtree in
  let xt := split_on ","%byte vtree in
  match parse_ty (S (List.length tt)) tt, parse_tv (S (List.length dt)) dt, parse_tv (S (List.length xt)) xt with
  | PUnmodelled, _, _ | _, PUnmodelled, _ | _, _, PUnmodelled => str "-"
  | POk t [], POk doc [], POk x [] =>
    (* doc: the tree of the document text (the empty document when the value is not a table), entries in
       document order; x: the tree of the single-value text *)
    join (str " ") (str "valid=*" :: doc_routes_line t doc ++ val_routes_line t x ++ text_routes_line t doctext doc)
  | _, _, _ => str "BADCASE"
  end.

Definition show_head (name : string) (r : result tomlval) : bytes :=
  str name ++ str "=" ++ match r with Ok _ => str "ok:*" | Err e => str "err(" ++ show_err e ++ str ")" end.

Definition cmd_routes_ser (tys vals : bytes) : bytes :=
  let tt := split_on ","%byte tys in
  let vt := split_on ","%byte vals in
  match parse_ty (S (List.length tt)) tt, parse_val (S (List.length vt)) vt with
  | PUnmodelled, _ | _, PUnmodelled => str "-"
  | POk t [], POk v [] =>
    let doc := ser_toml_root t v in
    let val := ser_value_text t v in
    join (str " ")
         ([show_head "doc" doc; show_head "val" val]
          ++ match doc with Ok x => str "valid=*" :: doc_routes_line t x | Err _ => [str "valid=na"] end
          ++ match val with Ok x => val_routes_line t x | Err _ => [] end)
  | _, _ => str "BADCASE"
  end.

Definition show_tvres (name : string) (r : result tomlval) : bytes :=
  str name ++ str "=" ++ match r with Ok x => str "ok:" ++ show_tv x | Err e => str "err(" ++ show_err e ++ str ")" end.

Definition cmd_tryfrom (tys vals : bytes) : bytes :=
  let tt := split_on ","%byte tys in
  let vt := split_on ","%byte vals in
  match parse_ty (S (List.length tt)) tt, parse_val (S (List.length vt)) vt with
  | PUnmodelled, _ | _, PUnmodelled => str "-"
  | POk t [], POk v [] =>
    let text := ser_toml_root t v in
    join (str " ")
         [show_tvres "val" (tv_ser t v);
          show_tvres "txt" (rbind text (fun x => match to_toml_value x with Ok y => Ok y | Err _ => Err EDe end));
          show_tvres "tab" (tv_ser_table t v);
          show_tvres "ttxt" (rbind text (fun x => match to_toml_table x with Ok y => Ok y | Err _ => Err EDe end))]
  | _, _ => str "BADCASE"
  end.

(* ---- C14, serde half ---- *)
(* types with Spanned wrappers: the syntax of parse_ty plus `Y ty` *)
Fixpoint parse_sty (fuel : nat) (toks : list bytes) : pres sty :=
  match fuel with
  | O => PBad
  | S f =>
    match toks with
    | [] => PBad
    | tok :: r =>
      let pfield := fun tk => pbind (pname tk) (fun n r1 => pbind (parse_sty f r1) (fun t r2 => POk (n, t) r2)) in
      if is tok "b" then POk (YPlain TBool) r
      else if is tok "f32" then POk (YPlain (TFloat F32)) r
      else if is tok "f64" then POk (YPlain (TFloat F64)) r
      else if is tok "c" then POk (YPlain TChar) r
      else if is tok "s" then POk (YPlain TStr) r
      else if is tok "dt" then POk (YPlain (TDatetime KDatetime)) r
      else if is tok "da" then POk (YPlain (TDatetime KDate)) r
      else if is tok "ti" then POk (YPlain (TDatetime KTime)) r
      else if is tok "u" then POk (YPlain TUnit) r
      else if is tok "v" then PUnmodelled
      else if is tok "Y" then pbind (parse_sty f r) (fun t r1 => POk (YSpanned t) r1)
      else if is tok "O" then pbind (parse_sty f r) (fun t r1 => POk (YOpt t) r1)
      else if is tok "L" then pbind (parse_sty f r) (fun t r1 => POk (YSeq t) r1)
      else if is tok "M" then pbind (parse_sty f r) (fun k r1 => pbind (parse_sty f r1) (fun v r2 => POk (YMap k v) r2))
      else if is tok "N" then pbind (pname r) (fun n r1 => pbind (parse_sty f r1) (fun t r2 => POk (YNewtype n t) r2))
      else if is tok "Z" then pbind (pname r) (fun n r1 => POk (YPlain (TUnitStruct n)) r1)
      else match int_of_tok tok with
      | Some w => POk (YPlain (TInt w)) r
      | None =>
        match tok with
        | h :: cnt =>
          let n := parse_nat cnt in
          if byte_eqb h "T"%byte then pbind (prep (parse_sty f) n r) (fun ts r1 => POk (YTuple ts) r1)
          else if byte_eqb h "S"%byte then
            pbind (pname r) (fun nm r1 => pbind (prep pfield n r1) (fun fs r2 => POk (YStruct nm fs) r2))
          else if byte_eqb h "P"%byte then
            pbind (pname r) (fun nm r1 => pbind (prep (parse_sty f) n r1) (fun ts r2 => POk (YTupleStruct nm ts) r2))
          else if byte_eqb h "E"%byte then
            let pvariant := fun tk =>
              match tk with
              | vt :: r1 =>
                pbind (pname r1) (fun vn r2 =>
                  if is vt "vu" then POk (vn, YVUnit) r2
                  else if is vt "vn" then pbind (parse_sty f r2) (fun t r3 => POk (vn, YVNewtype t) r3)
                  else match vt with
                       | a :: b :: cnt' =>
                         let k := parse_nat cnt' in
                         if byte_eqb a "v"%byte && byte_eqb b "t"%byte
                         then pbind (prep (parse_sty f) k r2) (fun ts r3 => POk (vn, YVTuple ts) r3)
                         else if byte_eqb a "v"%byte && byte_eqb b "s"%byte
                         then pbind (prep pfield k r2) (fun fs r3 => POk (vn, YVStruct fs) r3)
                         else PBad
                       | _ => PBad
                       end)
              | [] => PBad
              end in
            pbind (pname r) (fun nm r1 => pbind (prep pvariant n r1) (fun vs r2 => POk (YEnum nm vs) r2))
          else PBad
        | [] => PBad
        end
      end
    end
  end.

Fixpoint xval_tokens (x : xval) : list bytes :=
  match x with
  | XPlain v => sval_tokens v
  | XSpanned a b v => (str "Y" ++ show_N a ++ str "-" ++ show_N b) :: xval_tokens v
  | XSome v => str "O" :: xval_tokens v
  | XSeq vs => (str "L" ++ show_nat (List.length vs)) :: flat_map xval_tokens vs
  | XMap es => (str "M" ++ show_nat (List.length es)) :: flat_map (fun kv => xval_tokens (fst kv) ++ xval_tokens (snd kv)) es
  | XRec vs => (str "R" ++ show_nat (List.length vs)) :: flat_map xval_tokens vs
  | XNewtype v => str "W" :: xval_tokens v
  | XVariant i p => (str "E" ++ show_nat i) :: xval_tokens p
  end.
Definition show_xdec (r : result xval) : bytes :=
  match r with
  | Ok x => str "ok:" ++ join (str ",") (xval_tokens x)
  | Err EUnmodelled => str "*"
  | Err _ => str "err"
  end.

Definition cmd_spanned (tys doc : bytes) : bytes :=
  let tt := split_on ","%byte tys in
  match parse_sty (S (List.length tt)) tt with
  | PUnmodelled => str "-"
  | POk t [] =>
    match parse_stree doc with
    | None => str "valid=0"
    | Some None => str "-"
    | Some (Some s) =>
      let w := show_xdec (de_s t s) in
      let p := show_dec (de_value (erase_ty t) (strip s)) in
      (* t / e: toml::from_str and toml_edit::de::from_str read the same spanned tree; edoc: a DocumentMut has no spans *)
      str "valid=1 w_t=" ++ w ++ str " w_e=" ++ w ++ str " p_t=" ++ p ++ str " p_e=" ++ p
      ++ str " w_edoc=" ++ show_xdec (de_s t (despan s))
    end
  | _ => str "BADCASE"
  end.

Definition cmd_consts : bytes :=
  str "dt_name=" ++ hexs DT_NAME ++ str " dt_field=" ++ hexs DT_FIELD ++ str " spanned_name=" ++ hexs SPANNED_NAME.

Definition run_cmd (name : bytes) (args : list bytes) : bytes :=
  if is name "fidelity" then str "-"
  else if is name "spanned_fidelity" then str "-"
  else if is name "consts" then cmd_consts
  else match args with
       | [tys; vals] =>
         if is name "ser" then cmd_ser tys vals
         else if is name "typed" then cmd_typed tys vals
         else if is name "routes_ser" then cmd_routes_ser tys vals
         else if is name "tryfrom" then cmd_tryfrom tys vals
         else if is name "spanned" then cmd_spanned tys vals
         else if is name "slice" then cmd_slice tys vals
         else str "unknown-command"
       | [tys; doctext; _; dtree; vtree] => if is name "routes" then cmd_routes tys doctext dtree vtree else str "unknown-command"
       | _ => if is name "routes" then str "-" else str "bad-args"
       end.
