From TV Require Import Base.Prelude Extract.Cmd_c08.
Require Import ExtrOcamlBasic.
Extraction Language OCaml.
Extraction "model_c08.ml" run_cmd n2b b2n.
