(* Extract/SpannedTree.v — glue for the serde half of C14: the document the Coq parser builds
   (Model/Document.v parse_document, with the spans the document half of C14 is about) as the span tree of
   Model/SerdeSpanned.v.  Floats are symbolic in the parser model (Model/Numbers.v FDec), so a document
   with a finite non-zero float is not converted (the driver answers `-`). *)
From TV Require Import Base.Prelude Model.Datetime Model.Numbers Model.Tree Model.Document Spec.SerdeData Model.SerdeSpanned.

Definition leaf_of_scalar (s : scalar) : option tomlval :=
  match s with
  | Tree.SString x => Some (SerdeData.VStr x)
  | Tree.SInt z => Some (SerdeData.VInt z)
  | Tree.SBool b => Some (SerdeData.VBool b)
  | Tree.SDatetime d => Some (SerdeData.VDatetime d)
  | Tree.SFloat _ => None
  end.

Definition key_span (k : key) : SerdeSpanned.ospan :=
  match k_repr k with Some r => raw_span r | None => None end.

Definition opt_all {A} (l : list (option A)) : option (list A) :=
  fold_right (fun o acc => match o, acc with Some a, Some r => Some (a :: r) | _, _ => None end) (Some []) l.

Fixpoint st_value (v : value) : option stree :=
  match v with
  | VScalar s _ _ => optmap (NLeaf (value_span v)) (leaf_of_scalar s)
  | VArray vals _ _ _ sp =>
    optmap (NArr sp) (opt_all (flat_map (fun it => match it with IValue e => [st_value e] | _ => [] end) vals))
  | VInline items _ _ _ _ sp =>
    optmap (NTab sp) (opt_all (flat_map (fun kv => match kv with
                                                   | (k, IValue e) => [optmap (fun x => (k_key k, key_span k, x)) (st_value e)]
                                                   | _ => [] end) items))
  end.

Fixpoint st_tbl (t : tbl) : option stree :=
  match t with
  | Tbl items _ _ _ _ sp =>
    optmap (NTab sp)
           (opt_all (flat_map (fun kv => match kv with
                                         | (k, IValue e) => [optmap (fun x => (k_key k, key_span k, x)) (st_value e)]
                                         | (k, ITable sub) => [optmap (fun x => (k_key k, key_span k, x)) (st_tbl sub)]
                                         | (k, IAot ts asp) => [optmap (fun xs => (k_key k, key_span k, NArr asp xs)) (opt_all (map st_tbl ts))]
                                         | (_, INone) => [] end) items))
  end.

(* None: the text is not a document; Some None: a float inside; Some (Some s): the span tree *)
Definition parse_stree (text : bytes) : option (option stree) :=
  match parse_document text with
  | POk d => Some (st_tbl (doc_root d))
  | _ => None
  end.
