(* Extract/Extract_c19.v — extraction of the C19 observation commands (ExtrOcamlBasic only). *)
From TV Require Import Base.Prelude Extract.Cmd_c19.
Require Import ExtrOcamlBasic.
Extraction Language OCaml.
Extraction "model_c19.ml" run_cmd n2b b2n.
