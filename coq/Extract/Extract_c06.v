(* Extract/Extract_c06.v — extraction of the C06 observation commands (ExtrOcamlBasic only). *)
From TV Require Import Base.Prelude Extract.Cmd_c06.
Require Import ExtrOcamlBasic.
Extraction Language OCaml.
Extraction "model_c06.ml" run_cmd n2b b2n.
