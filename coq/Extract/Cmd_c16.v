(* Extract/Cmd_c16.v — observation commands of property C16.
     ops    <kind> <oplist>   the MODEL's answer to every call and its final observation
     opsref <kind> <oplist>   the same line computed by the REFERENCE (Spec/Ordered.v)
     cls    <kind> <oplist>   the known class of the history (always `none` since the repair of C16-placeholder-residue)
   kind: table | inline | inline_tl | map_sorted | map_ordered | array | aot
   oplist: calls joined by `;`, the fields of a call joined by `,` (names as in lib/props/c16.py). *)
From TV Require Import Base.Prelude Spec.Ordered Model.Containers Extract.Show.
Require Import String.

(* ---- decoding ---- *)
Fixpoint split_on (sep : byte) (s : bytes) : list bytes :=
  match s with
  | [] => [[]]
  | b :: s' =>
    let r := split_on sep s' in
    if byte_eqb b sep then [] :: r
    else match r with x :: tl => (b :: x) :: tl | [] => [[b]] end
  end.
Definition nonempty (s : bytes) : bool := match s with [] => false | _ => true end.

Definition parse_Z (s : bytes) : Z :=
  match s with
  | b :: r => if byte_eqb b "-"%byte then (- Z.of_N (dec_value r))%Z else Z.of_N (dec_value s)
  | [] => 0%Z
  end.
Definition parse_nat (s : bytes) : nat := N.to_nat (dec_value s).
Definition parse_pay (s : bytes) : pay :=
  match s with
  | b :: r => if byte_eqb b "T"%byte then PTab else if byte_eqb b "I"%byte then PInl else PInt (parse_Z r)
  | [] => PInt 0
  end.
Fixpoint parse_pairs (f : list bytes) : list (bytes * pay) :=
  match f with
  | k :: p :: f' => (k, parse_pay p) :: parse_pairs f'
  | _ => []
  end.

Definition is (s : bytes) (name : string) : bool := bytes_eqb s (str name).

Definition parse_pred (f : list bytes) : pred :=
  match f with
  | n :: a :: _ => if is n "kne" then PKeyNe a else if is n "lt" then PIntLt (parse_Z a) else PNo
  | [n] => if is n "int" then PIsInt else if is n "all" then PAll else PNo
  | [] => PNo
  end.

Definition parse_mop (f : list bytes) : option mop :=
  match f with
  | [] => None
  | n :: a =>
    match a with
    | [] =>
      if is n "len" then Some MLen else if is n "emp" then Some MEmp
      else if is n "iter" then Some MIter else if is n "iterm" then Some MIterM
      else if is n "keys" then Some MKeys else if is n "vals" then Some MVals
      else if is n "clr" then Some MClr else if is n "sort" then Some MSort
      else if is n "into" then Some MInto
      else if is n "ext" then Some (MExt []) else if is n "from" then Some (MFrom [])
      else None
    | k :: r =>
      if is n "ret" then Some (MRet (parse_pred a))
      else if is n "sortby" then Some (MSortBy (if is k "kdesc" then CKeyDesc else CValAsc))
      else if is n "ext" then Some (MExt (parse_pairs a))
      else if is n "from" then Some (MFrom (parse_pairs a))
      else
      match r with
      | [] =>
        if is n "rm" then Some (MRm k) else if is n "rme" then Some (MRmE k)
        else if is n "get" then Some (MGet k) else if is n "getm" then Some (MGetM k)
        else if is n "gkv" then Some (MGkv k) else if is n "gkvm" then Some (MGkvM k)
        else if is n "ck" then Some (MCk k) else if is n "ct" then Some (MCt k)
        else if is n "cv" then Some (MCv k) else if is n "ca" then Some (MCa k)
        else if is n "key" then Some (MKey k) else if is n "ent" then Some (MEnt k)
        else if is n "erm" then Some (MErm k) else if is n "idx" then Some (MIdx k)
        else if is n "idxm" then Some (MIdxM k)
        else None
      | p :: _ =>
        let p := parse_pay p in
        if is n "ins" then Some (MIns k p) else if is n "insf" then Some (MInsF k p)
        else if is n "eoi" then Some (MEoi k p) else if is n "eins" then Some (MEins k p)
        else if is n "goi" then Some (MGoi k p) else if is n "iset" then Some (MISet k p)
        else if is n "ioi" then Some (MIoi k p)
        else None
      end
    end
  end.

Definition parse_vop (f : list bytes) : option vop :=
  match f with
  | [] => None
  | n :: a =>
    if is n "ext" then Some (VExt (map parse_Z a))
    else if is n "from" then Some (VFrom (map parse_Z a))
    else
    match a with
    | [] =>
      if is n "len" then Some VLen else if is n "emp" then Some VEmp
      else if is n "iter" then Some VIter else if is n "iterm" then Some VIterM
      else if is n "clr" then Some VClr else if is n "sortkey" then Some VSortKey
      else if is n "into" then Some VInto
      else None
    | x :: r =>
      if is n "ret" then
        Some (VRet (if is x "lt" then VLt (match r with y :: _ => parse_Z y | [] => 0%Z end)
                    else if is x "odd" then VOdd else if is x "all" then VAll else VNo))
      else if is n "sortby" then Some (VSortBy (if is x "desc" then VDesc else if is x "mod3" then VMod3 else VAsc))
      else
      match r with
      | [] =>
        if is n "push" then Some (VPush (parse_Z x)) else if is n "pushf" then Some (VPushF (parse_Z x))
        else if is n "rm" then Some (VRm (parse_nat x))
        else if is n "get" then Some (VGet (parse_nat x)) else if is n "getm" then Some (VGetM (parse_nat x))
        else if is n "idx" then Some (VIdx (parse_nat x)) else if is n "iget" then Some (VIGet (parse_nat x))
        else None
      | y :: _ =>
        let i := parse_nat x in let z := parse_Z y in
        if is n "ins" then Some (VIns i z) else if is n "insf" then Some (VInsF i z)
        else if is n "rep" then Some (VRep i z) else if is n "repf" then Some (VRepF i z)
        else if is n "iset" then Some (VISet i z)
        else None
      end
    end
  end.

Fixpoint all_some {A} (l : list (option A)) : option (list A) :=
  match l with
  | [] => Some []
  | Some a :: l' => optmap (cons a) (all_some l')
  | None :: _ => None
  end.

Definition fields (s : bytes) : list (list bytes) :=
  map (split_on ","%byte) (filter nonempty (split_on ";"%byte s)).

(* ---- printing ---- *)
Definition show_pay (p : pay) : bytes :=
  match p with PInt z => str "i" ++ show_Z z | PTab => str "T" | PInl => str "I" end.
Definition show_item (i : item) : bytes := match i with INone => str "N" | IReal p => show_pay p end.
Definition show_opt {A} (f : A -> bytes) (o : option A) : bytes := match o with Some a => f a | None => str "-" end.
Definition show_kv (kv : bytes * item) : bytes := fst kv ++ str "=" ++ show_item (snd kv).
Definition show_list (l : list bytes) : bytes := str "[" ++ join (str ",") l ++ str "]".

Definition show_out (o : out) : bytes :=
  match o with
  | OUnit => str "u" | ONA => str "na" | OPanic => str "P"
  | OBool b => show_bool b | ONat n => show_nat n
  | OItem i => show_item i
  | OOpt x => show_opt show_item x
  | OOptKV x => show_opt show_kv x
  | OList l => show_list (map show_kv l)
  | OKeys l => show_list l
  | OVals l => show_list (map show_item l)
  | OVac => str "vac"
  | OOcc i => str "occ:" ++ show_item i
  end.

(* the text Display produces for the printed (key, value) pairs *)
Definition show_printed_value (p : pay) : bytes :=
  match p with PInt z => show_Z z | _ => str "{}" end.
Definition print_text (kd : mkind) (vals : list (bytes * pay)) : bytes :=
  match kd with
  | KTable => flat_map (fun kv => fst kv ++ str " = " ++ show_printed_value (snd kv) ++ [x0a]) vals
  | _ =>
    match vals with
    | [] => str "{}"
    | _ => str "{ " ++ join (str ", ") (map (fun kv => fst kv ++ str " = " ++ show_printed_value (snd kv)) vals) ++ str " }"
    end
  end.

Definition show_obs (kd : mkind) (o : obs) : bytes :=
  str "len=" ++ show_nat (o_len o) ++ str " emp=" ++ show_bool (o_emp o)
  ++ str " iter=" ++ show_list (map show_kv (o_iter o))
  ++ str " get=" ++ show_list (map (fun x => fst x ++ str ":" ++ show_opt show_item (snd x)) (o_get o))
  ++ str " ck=" ++ show_list (map (fun x => fst x ++ str ":" ++ show_bool (snd x)) (o_ck o))
  ++ (if is_map_kind kd then [] else str " print=" ++ show_hex (print_text kd (o_values o))).

Definition show_vout (o : vout) : bytes :=
  match o with
  | VOUnit => str "u" | VONA => str "na" | VOPanic => str "P"
  | VOBool b => show_bool b | VONat n => show_nat n
  | VOElem z => show_Z z
  | VOOpt x => show_opt show_Z x
  | VOList l => show_list (map show_Z l)
  end.
Definition show_vobs (o : vobs) : bytes :=
  str "len=" ++ show_nat (vo_len o) ++ str " emp=" ++ show_bool (vo_emp o)
  ++ str " iter=" ++ show_list (map show_Z (vo_iter o))
  ++ str " get=" ++ show_list (map (fun x => show_nat (fst x) ++ str ":" ++ show_opt show_Z (snd x)) (vo_get o)).

Definition alphabet : list bytes := [str "a"; str "b"; str "c"].

Definition line (outs : list bytes) (o : bytes) : bytes := join (str ";") outs ++ str "|" ++ o.

Definition parse_mkind (s : bytes) : option mkind :=
  if is s "table" then Some KTable else if is s "inline" then Some KInline
  else if is s "inline_tl" then Some KInlineTL else if is s "map_sorted" then Some KMapSorted
  else if is s "map_ordered" then Some KMapOrdered else None.
Definition parse_vkind (s : bytes) : option vkind :=
  if is s "array" then Some KArray else if is s "aot" then Some KAot else None.

(* side: false = model, true = reference *)
Definition cmd_ops (side : bool) (kind ops : bytes) : bytes :=
  match parse_mkind kind with
  | Some kd =>
    match all_some (map parse_mop (fields ops)) with
    | None => str "bad-op"
    | Some h =>
      if side then
        let (m, outs) := run (ref_step kd) [] h in
        line (map show_out outs) (show_obs kd (ref_observe kd alphabet m))
      else if is_map_kind kd then
        let (c, outs) := run (pstep kd) [] h in
        line (map show_out outs) (show_obs kd (pobserve alphabet c))
      else
        let (c, outs) := run (tstep kd) [] h in
        line (map show_out outs) (show_obs kd (tobserve kd alphabet c))
    end
  | None =>
    match parse_vkind kind with
    | Some kd =>
      match all_some (map parse_vop (fields ops)) with
      | None => str "bad-op"
      | Some h =>
        if side then
          let (v, outs) := run (vref_step kd) [] h in line (map show_vout outs) (show_vobs (vref_observe v))
        else
          let (c, outs) := run (vstep kd) [] h in line (map show_vout outs) (show_vobs (vobserve c))
      end
    | None => str "bad-kind"
    end
  end.

(* the class of a history: since the repair of C16-placeholder-residue no history is in a known class *)
Definition cmd_cls (kind ops : bytes) : bytes := str "none".

Definition run_cmd (name : bytes) (args : list bytes) : bytes :=
  match args with
  | [kind; ops] =>
    if is name "ops" then cmd_ops false kind ops
    else if is name "opsref" then cmd_ops true kind ops
    else if is name "cls" then cmd_cls kind ops
    else str "unknown-command"
  | _ => str "bad-args"
  end.
