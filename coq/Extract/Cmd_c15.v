(* Extract/Cmd_c15.v — observation commands for C15 (error span, message emptiness, rendered
   line/column) on the model side.  Same line format as harness/src/bin/c15.rs. *)
From TV Require Import Base.Prelude Base.Utf8 Base.Winnow Extract.Show.
From TV Require Import Model.Tree Model.Parse Model.Document Model.Error.
Require Import String.

Definition show_error (raw : bytes) (te : toml_error) : bytes :=
  let msg := if te_message_empty te then str "empty" else str "nonempty" in
  match te_span te with
  | None => str "err span=none msg=" ++ msg ++ str " line=none col=none hl=none render=ok"
  | Some (a, b) =>
    let sp := show_nat a ++ str "-" ++ show_nat b in
    match render raw (a, b) with
    | ROk r =>
      str "err span=" ++ sp ++ str " msg=" ++ msg
      ++ str " line=" ++ show_nat (r_line_num r) ++ str " col=" ++ show_nat (r_col_num r)
      ++ str " hl=" ++ show_nat (carets r) ++ str " render=ok"
    | RPanic _ =>
      str "err span=" ++ sp ++ str " msg=" ++ msg ++ str " line=none col=none hl=none render=PANIC"
    end
  end.

Definition show_presult {A} (raw : bytes) (r : presult A) : bytes :=
  match r with
  | POk _ => str "ok"
  | PErr e (Some at_) => show_error raw (toml_error_new raw e at_)
  | PErr e None => show_error raw (toml_error_custom e)
  | PPanic _ => str "PANIC-model"
  end.

Definition on_text (f : bytes -> bytes) (args : list bytes) : bytes :=
  match args with
  | [s] => if utf8_valid_b s then f s else str "notutf8"
  | _ => str "bad-args"
  end.

Definition run_cmd (name : bytes) (args : list bytes) : bytes :=
  if bytes_eqb name (str "derr") then on_text (fun s => show_presult s (parse_document s)) args
  else if bytes_eqb name (str "verr") then on_text (fun s => show_presult s (parse_value_raw s)) args
  else if bytes_eqb name (str "kerr") then on_text (fun s => show_presult s (parse_key s)) args
  else if bytes_eqb name (str "kperr") then on_text (fun s => show_presult s (parse_key_path s)) args
  else str "unknown-command".
