(* Extract/TextRoutesCmd.v — the text-level routes of Proofs/C13TextModel.v (`run_route back r t s`) for the extracted
   serde driver (Extract/Cmd_serde.v commands `routes` — text fields — and `slice`).

   The float oracle `back` (str::parse::<f64> on a float token) is not a function the model has: the driver takes it from
   the case.  lib/props/c13.py passes, next to the text, the tree the text was rendered from (floats as f64 bit patterns,
   entries in the order a parser meets them); the floats of the parsed document, in the same order, are paired with them:
   `back f` = the pattern paired with the first float token whose decimal is f.  (A text whose floats do not line up with
   the tree would show as a divergence.) *)
From TV Require Import Base.Prelude Base.Utf8 Model.Numbers Model.Tree Model.Document Model.Build.
From TV Require Import Spec.SerdeData Proofs.C13TextModel.

Fixpoint aval_floats (a : Build.aval) : list fval :=
  match a with
  | AScalar (SFloat f) => [f]
  | AScalar _ => []
  | AArr l => flat_map aval_floats l
  | AInl l => flat_map (fun kv => aval_floats (snd kv)) l
  end.
Fixpoint anode_floats (n : anode) : list fval :=
  match n with
  | AVal a => aval_floats a
  | ATbl l => flat_map (fun kv => anode_floats (snd kv)) l
  | AAot ls => flat_map (fun l => flat_map (fun kv => anode_floats (snd kv)) l) ls
  end.
Definition doc_floats (s : bytes) : list fval :=
  match parse_document s with
  | POk d => flat_map (fun kv => anode_floats (snd kv)) (Build.abs_tbl (doc_root d))
  | _ => []
  end.

Fixpoint tv_floats (x : tomlval) : list N :=
  match x with
  | VFloat b => [b]
  | VArr xs => flat_map tv_floats xs
  | VTab es => flat_map (fun kx => tv_floats (snd kx)) es
  | _ => []
  end.

Definition fval_eqb (a b : fval) : bool :=
  match a, b with
  | FNan x, FNan y => Bool.eqb x y
  | FInf x, FInf y => Bool.eqb x y
  | FDec x m e, FDec y m' e' => Bool.eqb x y && (m =? m')%N && (e =? e')%Z
  | _, _ => false
  end.

Fixpoint lookup_float (l : list (fval * N)) (f : fval) : N :=
  match l with
  | [] => 0%N
  | (g, b) :: l' => if fval_eqb g f then b else lookup_float l' f
  end.

Definition oracle_of (s : bytes) (tree : tomlval) : fval -> N := lookup_float (combine (doc_floats s) (tv_floats tree)).

(* do the floats of the text line up with those of the tree? *)
Definition oracle_ok (s : bytes) (tree : tomlval) : bool :=
  Nat.eqb (List.length (doc_floats s)) (List.length (tv_floats tree)).

Definition all_text_routes : list text_route := [Tt; Te; Tesl; Tedoc; Teim; Tttab; Ttval; Tefs].

Definition text_answers (t : ty) (s : bytes) (tree : tomlval) : list (text_route * tres) :=
  let back := oracle_of s tree in
  map (fun r => (r, run_route back r t s)) all_text_routes.

(* the bytes route alone (any byte string; no floats expected) *)
Definition slice_answer (t : ty) (bs : bytes) : tres := run_route (fun _ => 0%N) Tesl t bs.
