(* Extract/Cmd_c11.v — observation commands of property C11 (numbers are lossless or rejected).
     i64  <decimal>            print an i64 with the writer, read it back with Value::from_str
     f64w <16 hex> <std text>  the f64 writer's logic applied to (bits, std `{}` text), read back
     f32w <8 hex>  <std text>  the f32 writer (std text = `{}` of the value widened to f64), read back
     lit  <text>               Value::from_str on a number literal
     serw <type> <decimal>     serde output of an integer of the given Rust type
     dew  <type> <literal>     serde input of `v = <literal>` into the given Rust type
   Floats are printed as the exact decimal (`f:dech:<hex m>e<e>` = m * 10^e); the differ rounds them. *)
From TV Require Import Base.Prelude Base.Utf8 Base.Winnow Gen.Consts Extract.Show.
From TV Require Import Model.Datetime Model.Numbers Model.Tree Model.Parse Model.Document Model.Write.
From TV Require Import Model.WriteFloat Model.SerNum.
Require Import String.

(* decimal ASCII with optional '-' *)
Definition arg_Z (a : bytes) : option Z :=
  let '(neg, ds) := match a with
                    | b :: t => if byte_eqb b x2d then (true, t) else (false, a)
                    | [] => (false, a)
                    end in
  match ds with
  | [] => None
  | _ => if forallb is_digit ds
         then Some (if neg then (- Z.of_N (dec_value ds))%Z else Z.of_N (dec_value ds))
         else None
  end.

Definition hex_val (b : byte) : option N :=
  let n := b2n b in
  if inr 48 57 b then Some (n - 48)%N
  else if inr 97 102 b then Some (n - 87)%N
  else if inr 65 70 b then Some (n - 55)%N
  else None.
Fixpoint arg_hex_acc (acc : N) (s : bytes) : option N :=
  match s with
  | [] => Some acc
  | b :: t => match hex_val b with Some d => arg_hex_acc (acc * 16 + d)%N t | None => None end
  end.
Definition arg_hex (len : nat) (s : bytes) : option N :=
  if Nat.eqb (List.length s) len then arg_hex_acc 0 s else None.

(* the exact decimal of a float: mantissa in HEX (`f:dech:<hex m>e<e10>`): a 300-digit mantissa is
   printed with shifts instead of 300 long divisions by ten; the differ converts *)
Fixpoint hex_rev_N (fuel : nat) (n : N) : bytes :=
  match fuel with
  | O => []
  | S f => if (n =? 0)%N then [] else hex_digit (N.land n 15) :: hex_rev_N f (N.shiftr n 4)
  end.
Definition hex_of_N (n : N) : bytes :=
  match n with N0 => str "0" | _ => rev (hex_rev_N (S (N.size_nat n)) n) end.
Definition show_fval_full (f : fval) : bytes :=
  match f with
  | FNan n => str "f:" ++ (if n then str "-nan" else str "nan")
  | FInf n => str "f:" ++ (if n then str "-inf" else str "inf")
  | FDec n m e => str "f:dech:" ++ (if n then str "-" else []) ++ hex_of_N m ++ str "e" ++ write_i64 e
  end.

Definition show_num (v : value) : bytes :=
  match v with
  | VScalar (SInt z) _ _ => str "i:" ++ write_i64 z
  | VScalar (SFloat f) _ _ => show_fval_full f
  | VScalar (SDatetime _) _ _ => str "datetime"
  | _ => str "other"
  end.

Definition show_parsed (s : bytes) : bytes :=
  match parse_value_raw s with
  | POk v => str "ok:" ++ show_num v
  | PErr _ _ => str "err"
  | PPanic _ => str "PANIC-model"
  end.

Definition cmd_i64 (a : bytes) : bytes :=
  match arg_Z a with
  | Some z =>
    if in_i64 z then
      let t := write_i64 z in
      let rt := match parse_value_raw t with
                | POk (VScalar (SInt z') _ _) => (z' =? z)%Z
                | _ => false
                end in
      str "lit=" ++ show_hex t ++ str " val=" ++ show_parsed t ++ str " rt=" ++ (if rt then str "ok" else str "BAD")
    else str "bad-input"
  | None => str "bad-input"
  end.

Definition cmd_fw (hexlen : nat) (w : N -> bytes -> bytes) (bits std_text : bytes) : bytes :=
  match arg_hex hexlen bits with
  | Some b =>
    let t := w b std_text in
    str "lit=" ++ show_hex t ++ str " val=" ++ show_parsed t
  | None => str "bad-input"
  end.

(* fixed-width lowercase hex of a bit pattern *)
Fixpoint hex_fixed (k : nat) (n : N) : bytes :=
  match k with
  | O => []
  | S k' => hex_fixed k' (n / 16) ++ [hex_digit (n mod 16)]
  end.

(* f32: also show the widened bit pattern (f64::from) the writer works on *)
Definition cmd_f32w (bits std_text : bytes) : bytes :=
  match arg_hex 8 bits with
  | Some b =>
    let t := write_f32 b std_text in
    str "w=" ++ (if fc_nan (classify32 b) then str "nan" else hex_fixed 16 (widen32 b)) ++ str " lit=" ++ show_hex t ++ str " val=" ++ show_parsed t
  | None => str "bad-input"
  end.

Definition cmd_lit (s : bytes) : bytes := str "val=" ++ show_parsed s.

Definition ty_of_name (s : bytes) : option int_ty :=
  if bytes_eqb s (str "i8") then Some TI8 else if bytes_eqb s (str "i16") then Some TI16
  else if bytes_eqb s (str "i32") then Some TI32 else if bytes_eqb s (str "i64") then Some TI64
  else if bytes_eqb s (str "i128") then Some TI128 else if bytes_eqb s (str "isize") then Some TIsize
  else if bytes_eqb s (str "u8") then Some TU8 else if bytes_eqb s (str "u16") then Some TU16
  else if bytes_eqb s (str "u32") then Some TU32 else if bytes_eqb s (str "u64") then Some TU64
  else if bytes_eqb s (str "u128") then Some TU128 else if bytes_eqb s (str "usize") then Some TUsize
  else None.

Definition show_ser_text (o : option Z) : bytes :=
  match o with Some z => str "ok:" ++ show_hex (write_i64 z) | None => str "err" end.
Definition show_ser_val (o : option Z) : bytes :=
  match o with Some z => str "ok:" ++ write_i64 z | None => str "err" end.

Definition cmd_serw (tn a : bytes) : bytes :=
  match ty_of_name tn, arg_Z a with
  | Some t, Some z =>
    if in_ty t z then
      str "edit=" ++ show_ser_text (ser_int t z) ++ str " toml=" ++ show_ser_text (ser_int t z)
      ++ str " value=" ++ show_ser_val (tv_ser_int t z)
    else str "bad-input"
  | _, _ => str "bad-input"
  end.

(* `v = <literal>\n` parsed as a document; the integer stored under `v` *)
Definition doc_int (lit_ : bytes) : option Z :=
  match parse_document (str "v = " ++ lit_ ++ [x0a]) with
  | POk d =>
    match kv_get (t_items (doc_root d)) (str "v") with
    | Some (_, IValue (VScalar (SInt z) _ _)) => Some z
    | _ => None
    end
  | _ => None
  end.

Definition cmd_dew (tn a : bytes) : bytes :=
  match ty_of_name tn with
  | Some t =>
    let r := match doc_int a with Some z => de_int t z | None => None end in
    str "edit=" ++ show_ser_val r ++ str " toml=" ++ show_ser_val r ++ str " value=" ++ show_ser_val r
  | None => str "bad-input"
  end.

Definition run_cmd (name : bytes) (args : list bytes) : bytes :=
  if bytes_eqb name (str "i64") then match args with [a] => cmd_i64 a | _ => str "bad-args" end
  else if bytes_eqb name (str "f64w") then
    match args with [b; t] => cmd_fw 16 write_f64 b t | _ => str "bad-args" end
  else if bytes_eqb name (str "f32w") then
    match args with [b; t] => cmd_f32w b t | _ => str "bad-args" end
  else if bytes_eqb name (str "lit") then match args with [s] => cmd_lit s | _ => str "bad-args" end
  else if bytes_eqb name (str "serw") then match args with [t; a] => cmd_serw t a | _ => str "bad-args" end
  else if bytes_eqb name (str "dew") then match args with [t; a] => cmd_dew t a | _ => str "bad-args" end
  else str "unknown-command".
