(* Extract/Show.v — canonical ASCII rendering of model observations (shared by all commands).
   The Rust harness prints the same format from the implementation. *)
From TV Require Import Base.Prelude.
Require Import String Ascii.

Definition str (s : string) : bytes := List.map byte_of_ascii (list_ascii_of_string s).

Fixpoint show_N_rev (fuel : nat) (n : N) : bytes :=
  match fuel with
  | O => []
  | S f => if (n <? 10)%N then [digit_byte n] else digit_byte (n mod 10) :: show_N_rev f (n / 10)
  end.
Definition show_N (n : N) : bytes := rev (show_N_rev (S (N.size_nat n)) n).
Definition show_Z (z : Z) : bytes :=
  match z with
  | Z0 => str "0"
  | Zpos p => show_N (Npos p)
  | Zneg p => x2d :: show_N (Npos p)
  end.
Definition show_nat (n : nat) : bytes := show_N (N.of_nat n).
Definition show_bool (b : bool) : bytes := if b then str "true" else str "false".

Definition hex_digit (n : N) : byte := if (n <? 10)%N then n2b (48 + n) else n2b (87 + n).
Definition show_hex (s : bytes) : bytes :=
  match s with
  | [] => str "-"
  | _ => flat_map (fun b => [hex_digit (b2n b / 16); hex_digit (b2n b mod 16)]) s
  end.

Fixpoint join (sep : bytes) (l : list bytes) : bytes :=
  match l with
  | [] => []
  | [x] => x
  | x :: tl => x ++ sep ++ join sep tl
  end.

Definition show_option {A} (f : A -> bytes) (o : option A) : bytes :=
  match o with Some a => f a | None => str "none" end.

(* ---- canonical dump of the decoded tree (keys, nesting, order, types, scalar values) ---- *)
From TV Require Import Model.Datetime Model.Numbers Model.Tree.

Definition show_date (d : date) : bytes :=
  show_N (year d) ++ str "-" ++ show_N (month d) ++ str "-" ++ show_N (day d).
Definition show_time (t : time) : bytes :=
  show_N (hour t) ++ str ":" ++ show_N (minute t) ++ str ":" ++ show_N (second t) ++ str "." ++ show_N (nanosecond t).
Definition show_offset (o : offset) : bytes :=
  match o with OffZ => str "Z" | OffCustom m => str "C" ++ show_Z m end.
Definition show_datetime (d : datetime) : bytes :=
  str "dt(" ++ show_option show_date (d_date d) ++ str ";" ++ show_option show_time (d_time d)
  ++ str ";" ++ show_option show_offset (d_offset d) ++ str ")".

(* floats: the exact decimal; the differ turns `f:dec:<m>e<e>` into the bit pattern *)
Definition show_fval (f : fval) : bytes :=
  match f with
  | FNan n => str "f:" ++ (if n then str "-nan" else str "nan")
  | FInf n => str "f:" ++ (if n then str "-inf" else str "inf")
  | FDec n m e => str "f:dec:" ++ (if n then str "-" else []) ++ show_N m ++ str "e" ++ show_Z e
  end.

Definition show_scalar (s : scalar) : bytes :=
  match s with
  | SString x => str "s:" ++ show_hex x
  | SInt z => str "i:" ++ show_Z z
  | SFloat f => show_fval f
  | SBool b => str "b:" ++ show_bool b
  | SDatetime d => show_datetime d
  end.

Fixpoint show_value (v : value) : bytes :=
  match v with
  | VScalar s _ _ => show_scalar s
  | VArray vals _ _ _ _ =>
    str "[" ++ join (str ",") (flat_map (fun it => match it with IValue e => [show_value e] | _ => [] end) vals) ++ str "]"
  | VInline items _ _ _ _ _ =>
    str "{" ++ join (str ",")
                 (flat_map (fun kv => match kv with
                                      | (k, IValue e) => [show_hex (k_key k) ++ str "=" ++ show_value e]
                                      | _ => [] end) items) ++ str "}"
  end.

Fixpoint show_tbl (t : tbl) : bytes :=
  match t with
  | Tbl items _ _ _ _ _ =>
    str "T{" ++ join (str ",")
                  (flat_map (fun kv => match kv with
                                       | (k, IValue e) => [show_hex (k_key k) ++ str "=" ++ show_value e]
                                       | (k, ITable sub) => [show_hex (k_key k) ++ str "=" ++ show_tbl sub]
                                       | (k, IAot ts _) => [show_hex (k_key k) ++ str "=A[" ++ join (str ",") (map show_tbl ts) ++ str "]"]
                                       | (_, INone) => [] end) items) ++ str "}"
  end.
