(* Extract/Show.v — canonical ASCII rendering of model observations (shared by all commands).
   The Rust harness prints the same format from the implementation. *)
From TV Require Import Base.Prelude.
Require Import String Ascii.

Definition str (s : string) : bytes := List.map byte_of_ascii (list_ascii_of_string s).

Fixpoint show_N_rev (fuel : nat) (n : N) : bytes :=
  match fuel with
  | O => []
  | S f => if (n <? 10)%N then [digit_byte n] else digit_byte (n mod 10) :: show_N_rev f (n / 10)
  end.
Definition show_N (n : N) : bytes := rev (show_N_rev 100 n).
Definition show_Z (z : Z) : bytes :=
  match z with
  | Z0 => str "0"
  | Zpos p => show_N (Npos p)
  | Zneg p => x2d :: show_N (Npos p)
  end.
Definition show_nat (n : nat) : bytes := show_N (N.of_nat n).
Definition show_bool (b : bool) : bytes := if b then str "true" else str "false".

Definition hex_digit (n : N) : byte := if (n <? 10)%N then n2b (48 + n) else n2b (87 + n).
Definition show_hex (s : bytes) : bytes :=
  match s with
  | [] => str "-"
  | _ => flat_map (fun b => [hex_digit (b2n b / 16); hex_digit (b2n b mod 16)]) s
  end.

Fixpoint join (sep : bytes) (l : list bytes) : bytes :=
  match l with
  | [] => []
  | [x] => x
  | x :: tl => x ++ sep ++ join sep tl
  end.

Definition show_option {A} (f : A -> bytes) (o : option A) : bytes :=
  match o with Some a => f a | None => str "none" end.
