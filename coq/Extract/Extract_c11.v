(* Extract/Extract_c11.v — extraction of the C11 observation commands (ExtrOcamlBasic only). *)
From TV Require Import Base.Prelude Extract.Cmd_c11.
Require Import ExtrOcamlBasic.
Extraction Language OCaml.
Extraction "model_c11.ml" run_cmd n2b b2n.
