(* Extract/Cmd_c07text.v — observation command for C07 through text (Model/SerDoc.v): the bytes the model prints for
   the four text routes, to be compared with the bytes the crates print (harness/src/bin/serde `ser`: the payload of
   tp / tpp / ep / epp).

     cmd_text <type> <value>   (the syntax of Extract/Cmd_serde.v `ser`)
         tp=<hex>|x tpp=<hex>|x ep=<hex>|x epp=<hex>|x       x: the serializer returned an error; `-`: unmodelled type
   A float leaf is printed as the marker  NUL 'F' <16 hex digits of the f64 pattern handed to the writer> NUL : std's
   float printing is an oracle (DESIGN.md 4.4); the comparison replaces the marker by the text the implementation
   prints for that pattern (lib/props/c06.py float_text).

   Its own driver: Extract/Extract_c07text.v -> driver/driver_c07text (command `text`); the block at the end of
   lib/props/c07.py compares its bytes with the implementation's on every run of `./check C07`. *)
From TV Require Import Base.Prelude Model.Numbers Model.Tree Model.Encode Model.Build.
From TV Require Import Spec.SerdeData Model.Ser Model.SerFmt Model.SerDoc Extract.Show Extract.Cmd_serde.
Require Import String.

(* the pattern rides in the mantissa; the printer gets the marker as the float's text *)
Definition fd_marker (b : N) : fval := FDec false b (-1).
Definition marker_text (f : fval) : bytes :=
  match f with
  | FDec _ m _ => [x00; x46] ++ hex_N 16 m ++ [x00]
  | _ => [x00; x46; x00]
  end.

Definition route_text (r : troute) (t : ty) (v : sval) : bytes :=
  match ser_doc fd_marker r t v with
  | Some T => show_hex (display_document (render_tbl marker_text T) REmpty)
  | None => str "x"
  end.

Definition cmd_text (tys vals : bytes) : bytes :=
  let tt := split_on ","%byte tys in
  let vt := split_on ","%byte vals in
  match parse_ty (S (List.length tt)) tt, parse_val (S (List.length vt)) vt with
  | PUnmodelled, _ | _, PUnmodelled => str "-"
  | POk t [], POk v [] =>
    join (str " ") [str "tp=" ++ route_text TomlString t v; str "tpp=" ++ route_text TomlStringPretty t v;
                    str "ep=" ++ route_text EditString t v; str "epp=" ++ route_text EditStringPretty t v]
  | _, _ => str "BADCASE"
  end.

Definition run_cmd (name : bytes) (args : list bytes) : bytes :=
  match args with
  | [tys; vals] => if is name "text" then cmd_text tys vals else str "unknown-command"
  | _ => str "bad-args"
  end.
