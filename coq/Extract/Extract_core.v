(* Extract/Extract.v — extraction of the executable model (ExtrOcamlBasic only). *)
From TV Require Import Base.Prelude Extract.Commands.
Require Import ExtrOcamlBasic.
Extraction Language OCaml.
Extraction "model_core.ml" run_cmd n2b b2n.
