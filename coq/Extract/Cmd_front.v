(* Extract/Cmd_front.v — the `docf` / `docv` observation lines computed from Model/FrontEnds.v (the
   definitions Props/C01front.v and Props/C02front.v speak about) instead of from the parser's verdict
   alone.  Same line formats as Extract/Commands.v cmd_docf / cmd_docv; a document with a float
   (FUnmodelled) falls back to the parser's verdict.  Additional trailing field of docv: `ready=` the
   hypothesis tree_ready of the theorems, evaluated on the document (must be `yes` on every accepted
   document: it is the not yet proved lemma about parsed trees). *)
From TV Require Import Base.Prelude Base.Utf8 Model.Tree Model.Document Spec.SerdeData Model.De Model.SerdeRoutes Model.FrontEnds.
From TV Require Import Model.Datetime Model.DatetimeStd Extract.Show.
From TV Require Model.AccessorsToml.
Require Import String.

Definition fverdict {A} (parser_ok : bool) (r : fres A) : bytes :=
  match r with
  | FOk _ => str "ok"
  | FUtf8Err | FParseErr | FDeErr => str "err"
  | FPanic => str "PANIC-model"
  | FUnmodelled => if parser_ok then str "ok" else str "err"
  end.

Definition cmd_docf_front (s : bytes) : bytes :=
  if utf8_valid_b s then
    let pok := match parse_document s with POk _ => true | _ => false end in
    str "utf8=yes edit=" ++ fverdict pok (edit_parse s) ++ str " im=" ++ fverdict pok (edit_parse s)
    ++ str " toml_table=" ++ fverdict pok (toml_from_str_table s) ++ str " toml_parse=" ++ fverdict pok (toml_from_str_table s)
    ++ str " edit_de=" ++ fverdict pok (edit_from_str_table s) ++ str " slice=" ++ fverdict pok (from_slice_table s)
  else str "utf8=no slice=" ++ fverdict false (from_slice_table s).

Fixpoint tomlval_eqb (a b : tomlval) : bool :=
  match a, b with
  | VStr x, VStr y => bytes_eqb x y
  | VInt x, VInt y => (x =? y)%Z
  | VFloat x, VFloat y => (x =? y)%N
  | VBool x, VBool y => Bool.eqb x y
  | VDatetime x, VDatetime y => bytes_eqb (display_datetime x) (display_datetime y)
  | VArr xs, VArr ys => all2b tomlval_eqb xs ys
  | VTab xs, VTab ys => all2b (fun p q => bytes_eqb (fst p) (fst q) && tomlval_eqb (snd p) (snd q)) xs ys
  | _, _ => false
  end.

Definition cmd_docv_front (s : bytes) : bytes :=
  match parse_document s with
  | POk d =>
    match tree_of_doc d with
    | None => str "ok edit=" ++ show_tbl (doc_root d) ++ str " same=yes"
    | Some x =>
      match toml_from_str_value s with
      | FOk v =>
        let same := tomlval_eqb v (canon_value true x)
                    && match toml_from_str_table s with FOk v' => tomlval_eqb v' (canon_value true x) | _ => false end in
        str "ok edit=" ++ show_tbl (doc_root d) ++ str " same=" ++ (if same then str "yes" else str "no")
      | _ => str "err-toml edit=" ++ show_tbl (doc_root d)
      end ++ (if tree_ready x then [] else str " NOT-READY")
    end
  | PErr _ _ => str "err"
  | PPanic _ => str "PANIC-model"
  end.

(* accv: toml::from_str::<Value>, then every node looked at through toml::Value's read API only
   (type_str, same_type against one probe per kind, is_x, as_x, get by index and by key); Model/AccessorsToml.v.
   `-` when the document holds a float (FUnmodelled: the bits are std's) *)
Definition cmd_accv_front (s : bytes) : bytes :=
  match toml_from_str_value s with
  | FOk v => str "ok accv=" ++ AccessorsToml.acc_tv v
  | FUnmodelled => str "-"
  | FPanic => str "PANIC-model"
  | _ => str "err"
  end.

Definition run_cmd (name : bytes) (args : list bytes) : bytes :=
  if bytes_eqb name (str "docf") then match args with [s] => cmd_docf_front s | _ => str "bad-args" end
  else if bytes_eqb name (str "docv") then match args with [s] => cmd_docv_front s | _ => str "bad-args" end
  else if bytes_eqb name (str "accv") then match args with [s] => cmd_accv_front s | _ => str "bad-args" end
  else str "unknown-command".
