(* Extract/Cmd_c08.v — observation command of property C08.
     edit <document> <ops>
   parse the document, into_mut (despan), apply the operations one after the other (Model/Edit.v),
   print after every step.  Output: steps joined by `|`; step 0 is the unedited document;
     a@<hex of the printed text>@<ok|err>@<canonical dump of the re-parsed text | ->    applied
     s                                                                               not applicable: skipped
   A document that does not parse prints `err`.

   ops: operations joined by `;`, the fields of one joined by `,`:
     ins,P,K,V  instab,P,K  insaot,P,K  rm,P,K  push,P,V  ains,P,I,V  arep,P,I,V  arm,P,I
     tpush,P  trm,P,I  sort,P  fmt,P  mkval,P,K  intotab,P,K  intoaot,P,K  iset,P,X
   P = `r` followed by `/k<hex of key>` or `/i<index>` segments; K = `k<hex>`; I = decimal;
   V = I<int>. | S<hex>. | T | F | A V* ] | M (<hex>=V)* }      X = V | N  (N = table()) *)
From TV Require Import Base.Prelude Extract.Show.
From TV Require Import Model.Datetime Model.Numbers Model.Tree Model.Parse Model.Document Model.Encode.
From TV Require Import Spec.EditSpec Model.Edit.
Require Import String.

(* ---- decoding ---- *)
Fixpoint split_on (sep : byte) (s : bytes) : list bytes :=
  match s with
  | [] => [[]]
  | b :: s' =>
    let r := split_on sep s' in
    if byte_eqb b sep then [] :: r
    else match r with x :: tl => (b :: x) :: tl | [] => [[b]] end
  end.
Definition nonempty (s : bytes) : bool := match s with [] => false | _ => true end.
Definition is (s : bytes) (name : string) : bool := bytes_eqb s (str name).

Definition hexval (b : byte) : N :=
  let n := b2n b in
  if (n <? 58)%N then (n - 48)%N else if (n <? 71)%N then (n - 55)%N else (n - 87)%N.
Fixpoint unhex (s : bytes) : bytes :=
  match s with
  | a :: b :: tl => n2b (hexval a * 16 + hexval b)%N :: unhex tl
  | _ => []
  end.

Definition parse_Z (s : bytes) : Z :=
  match s with
  | b :: r => if byte_eqb b "-"%byte then (- Z.of_N (dec_value r))%Z else Z.of_N (dec_value s)
  | [] => 0%Z
  end.
Definition parse_nat (s : bytes) : nat := N.to_nat (dec_value s).

Fixpoint take_until (c : byte) (s : bytes) : option (bytes * bytes) :=
  match s with
  | [] => None
  | b :: tl => if byte_eqb b c then Some ([], tl)
               else match take_until c tl with Some (a, r) => Some (b :: a, r) | None => None end
  end.

Fixpoint parse_pv (fuel : nat) (s : bytes) : option (pv * bytes) :=
  match fuel with
  | O => None
  | S f =>
    match s with
    | [] => None
    | c :: tl =>
      if byte_eqb c "I"%byte then
        match take_until "."%byte tl with Some (a, r) => Some (PVInt (parse_Z a), r) | None => None end
      else if byte_eqb c "S"%byte then
        match take_until "."%byte tl with Some (a, r) => Some (PVStr (unhex a), r) | None => None end
      else if byte_eqb c "T"%byte then Some (PVBool true, tl)
      else if byte_eqb c "F"%byte then Some (PVBool false, tl)
      else if byte_eqb c "A"%byte then
        (fix elems (g : nat) (s : bytes) (acc : list pv) : option (pv * bytes) :=
           match g with
           | O => None
           | S g' =>
             match s with
             | [] => None
             | d :: tl' =>
               if byte_eqb d "]"%byte then Some (PVArr (rev acc), tl')
               else match parse_pv f s with
                    | Some (v, r) => elems g' r (v :: acc)
                    | None => None
                    end
             end
           end) fuel tl []
      else if byte_eqb c "M"%byte then
        (fix pairs (g : nat) (s : bytes) (acc : list (bytes * pv)) : option (pv * bytes) :=
           match g with
           | O => None
           | S g' =>
             match s with
             | [] => None
             | d :: tl' =>
               if byte_eqb d "}"%byte then Some (PVInl (rev acc), tl')
               else match take_until "="%byte s with
                    | Some (k, r) =>
                      match parse_pv f r with
                      | Some (v, r') => pairs g' r' ((unhex k, v) :: acc)
                      | None => None
                      end
                    | None => None
                    end
             end
           end) fuel tl []
      else None
    end
  end.
Definition parse_pv_all (s : bytes) : option pv :=
  match parse_pv (S (List.length s)) s with Some (v, []) => Some v | _ => None end.

Definition parse_key (s : bytes) : option bytes :=
  match s with
  | c :: tl => if byte_eqb c "k"%byte then Some (unhex tl) else None
  | [] => None
  end.
Definition parse_seg (s : bytes) : option seg :=
  match s with
  | c :: tl => if byte_eqb c "k"%byte then Some (SKey (unhex tl))
               else if byte_eqb c "i"%byte then Some (SIdx (parse_nat tl)) else None
  | [] => None
  end.
Fixpoint all_some {A} (l : list (option A)) : option (list A) :=
  match l with
  | [] => Some []
  | Some a :: l' => optmap (cons a) (all_some l')
  | None :: _ => None
  end.
Definition parse_path (s : bytes) : option path :=
  match split_on "/"%byte s with
  | r :: segs => if is r "r" then all_some (map parse_seg segs) else None
  | [] => None
  end.
Definition parse_keys (s : bytes) : option (list bytes) :=
  match split_on "/"%byte s with
  | r :: segs => if is r "r" then all_some (map parse_key segs) else None
  | [] => None
  end.
Definition parse_ipay (s : bytes) : option ipay :=
  if is s "N" then Some IPTable else optmap IPValue (parse_pv_all s).

Definition obind {A B} (o : option A) (f : A -> option B) : option B :=
  match o with Some a => f a | None => None end.

Definition parse_op (f : list bytes) : option op :=
  match f with
  | [n; p] =>
    if is n "iset" then None else
    obind (parse_path p) (fun p =>
      if is n "tpush" then Some (OAotPush p)
      else if is n "sort" then Some (OSort p)
      else if is n "fmt" then Some (OFmt p)
      else None)
  | [n; p; a] =>
    if is n "iset" then obind (parse_keys p) (fun ks => optmap (OISet ks) (parse_ipay a)) else
    obind (parse_path p) (fun p =>
      if is n "instab" then optmap (OInsertTable p) (parse_key a)
      else if is n "insaot" then optmap (OInsertAot p) (parse_key a)
      else if is n "rm" then optmap (ORemove p) (parse_key a)
      else if is n "push" then optmap (OArrPush p) (parse_pv_all a)
      else if is n "arm" then Some (OArrRemove p (parse_nat a))
      else if is n "trm" then Some (OAotRemove p (parse_nat a))
      else if is n "mkval" then optmap (OMakeValue p) (parse_key a)
      else if is n "intotab" then optmap (OIntoTable p) (parse_key a)
      else if is n "intoaot" then optmap (OIntoAot p) (parse_key a)
      else if is n "sortby" then
        (if is a "kdesc" then Some (OSortBy p CKeyDesc) else if is a "rank" then Some (OSortBy p CRank) else None)
      else None)
  | [n; p; a; b] =>
    obind (parse_path p) (fun p =>
      if is n "ins" then obind (parse_key a) (fun k => optmap (OInsert p k) (parse_pv_all b))
      else if is n "ains" then optmap (OArrInsert p (parse_nat a)) (parse_pv_all b)
      else if is n "arep" then optmap (OArrReplace p (parse_nat a)) (parse_pv_all b)
      else None)
  | _ => None
  end.

Definition parse_ops (s : bytes) : option (list op) :=
  all_some (map (fun o => parse_op (split_on ","%byte o)) (filter nonempty (split_on ";"%byte s))).

(* ---- printing ---- *)
Definition show_step (root : tbl) (trailing : raw) : bytes :=
  let text := display_document root trailing in
  str "a@" ++ show_hex text ++ str "@" ++
  match parse_document text with
  | POk d2 => str "ok@" ++ show_tbl (doc_root d2)
  | PErr _ _ => str "err@-"
  | PPanic _ => str "PANIC-model@-"
  end.

Fixpoint run_ops (ops : list op) (root : tbl) (trailing : raw) : list bytes :=
  match ops with
  | [] => []
  | o :: tl =>
    match apply o root with
    | Some r => show_step r trailing :: run_ops tl r trailing
    | None => str "s" :: run_ops tl root trailing
    end
  end.

Definition cmd_edit (s ops : bytes) : bytes :=
  match parse_ops ops with
  | None => str "bad-ops"
  | Some l =>
    match parse_document s with
    | POk d =>
      match tbl_despan s (doc_root d), raw_despan s (doc_trailing d) with
      | Some r, Some t => join (str "|") (show_step r t :: run_ops l r t)
      | _, _ => str "PANIC-despan"
      end
    | PErr _ _ => str "err"
    | PPanic _ => str "PANIC-model"
    end
  end.

Definition run_cmd (name : bytes) (args : list bytes) : bytes :=
  if bytes_eqb name (str "edit") then
    match args with [s; o] => cmd_edit s o | _ => str "bad-args" end
  else str "unknown-command".
