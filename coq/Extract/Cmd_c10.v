(* Extract/Cmd_c10.v — observation commands of property C10 (string and key quoting).
   wstr <s>: every value style of TomlStringBuilder: the token (or none), whether the value
             parser reads it back as the string s, and the same inside the document `k = <token>\n`.
   wkey <s>: every key style of TomlKeyBuilder: the token (or none), whether the key parser reads
             it back as s, and the same inside the document `<token> = 1\n`. *)
From TV Require Import Base.Prelude Base.Utf8 Base.Winnow Gen.Consts Extract.Show.
From TV Require Import Model.Tree Model.Parse Model.Document Model.Write Proofs.StringsRTDefs.
Require Import String.

Definition verdict (same : bool) : bytes := if same then str "ok" else str "BAD".

(* Value::from_str(token) *)
Definition rt_value (s t : bytes) : bytes :=
  match parse_value_raw t with
  | POk (VScalar (SString s') _ _) => verdict (bytes_eqb s s')
  | POk _ => str "BAD"
  | PErr _ _ => str "ERR"
  | PPanic _ => str "PANIC-model"
  end.

(* DocumentMut::from_str("k = <token>\n"): exactly one entry, k -> string s *)
Definition rt_value_doc (s t : bytes) : bytes :=
  match parse_document (str "k = " ++ t ++ [x0a]) with
  | POk d =>
    match t_items (doc_root d) with
    | [(kk, IValue (VScalar (SString s') _ _))] => verdict (bytes_eqb (k_key kk) (str "k") && bytes_eqb s s')
    | _ => str "BAD"
    end
  | PErr _ _ => str "ERR"
  | PPanic _ => str "PANIC-model"
  end.

(* Key::from_str(token) *)
Definition rt_key (s t : bytes) : bytes :=
  match parse_key t with
  | POk (_, s') => verdict (bytes_eqb s s')
  | PErr _ _ => str "ERR"
  | PPanic _ => str "PANIC-model"
  end.

(* DocumentMut::from_str("<token> = 1\n"): exactly one entry, s -> integer 1 *)
Definition rt_key_doc (s t : bytes) : bytes :=
  match parse_document (t ++ str " = 1" ++ [x0a]) with
  | POk d =>
    match t_items (doc_root d) with
    | [(kk, IValue (VScalar (SInt 1%Z) _ _))] => verdict (bytes_eqb (k_key kk) s)
    | _ => str "BAD"
    end
  | PErr _ _ => str "ERR"
  | PPanic _ => str "PANIC-model"
  end.

Definition show_style (name : string) (tok : option bytes) (alone doc : bytes -> bytes) : bytes :=
  str name ++ str "=" ++
  match tok with
  | None => str "none"
  | Some t => show_hex t ++ str "," ++ alone t ++ str "," ++ doc t
  end.

Definition cmd_wstr (s : bytes) : bytes :=
  let one name st := show_style name (write_string st s) (rt_value s) (rt_value_doc s) in
  join (str " ")
    [one "default"%string StDefault; one "literal"%string StLiteral; one "ml_literal"%string StMlLiteral;
     one "basic_pretty"%string StBasicPretty; one "ml_basic_pretty"%string StMlBasicPretty;
     one "basic"%string StBasic; one "ml_basic"%string StMlBasic].

Definition cmd_wkey (s : bytes) : bytes :=
  let one name st := show_style name (write_key st s) (rt_key s) (rt_key_doc s) in
  join (str " ")
    [one "default"%string KDefault; one "unquoted"%string KUnquoted; one "literal"%string KLiteral;
     one "basic_pretty"%string KBasicPretty; one "basic"%string KBasic].

Definition run_cmd (name : bytes) (args : list bytes) : bytes :=
  if bytes_eqb name (str "wstr") then match args with [s] => cmd_wstr s | _ => str "bad-args" end
  else if bytes_eqb name (str "wkey") then match args with [s] => cmd_wkey s | _ => str "bad-args" end
  else str "unknown-command".
