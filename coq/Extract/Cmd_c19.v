(* Extract/Cmd_c19.v — observation commands for property C19 (the toml! macro).

     macro <serialised statement list>
         prints  supported=<bool> macro=<dump of macro_eval (tokens_of stmts)> ref=<dump of eval stmts>
         dump: tables `{<hex key>=<v>,...}` sorted by key bytes, arrays `[v,...]`, scalars as in
         Show.show_scalar (floats as exact decimals `f:dec:..`, turned into bit patterns by
         lib/floatnorm.py), date-times by field.  A failed expansion prints E:<class>; an invalid
         (or undecided) document prints ref=invalid.
     rules -
         the rule table of Model/Macro.v in a normal form that lib/props/c19.py rebuilds from
         crates/toml/src/macros.rs (heads, and the argument of every pure re-invocation body).

   Serialisation (written by lib/props/c19.py; N = decimal digits then ';', str = N raw bytes):
     doc  := N stmt*
     stmt := 'H' path | 'A' path | 'K' path val
     path := N seg*          seg := 'q' str | 'b' N part*       part := 'i' str | 'n' str
     sign := '0' | '+' | '-'
     val  := 's' str | 'i' sign str | 'f' sign str | 'x' sign ('n'|'i') | 'T' | 'F' | 'd' dt
           | 'a' ('0'|'1') N val* | 'l' N (path val)*
     dt   := ('D' str str str | '_') <delimiter byte> ('t' str str str ('.' str | '_') | '_')
             ('_' | 'z' <byte> | 'o' ('+'|'-') str str) *)
From TV Require Import Base.Prelude Base.Utf8 Extract.Show.
From TV Require Import Model.Datetime Model.DatetimeStd Model.Numbers Model.Macro Spec.Defs Spec.MacroSpec.
Require Import String.

(* ---- reader ---- *)
Definition rd (A : Type) := bytes -> option (A * bytes).
Definition rret {A} (a : A) : rd A := fun s => Some (a, s).
Definition rbnd {A B} (p : rd A) (f : A -> rd B) : rd B :=
  fun s => match p s with Some (a, r) => f a r | None => None end.
Notation "x <- p ;;; q" := (rbnd p (fun x => q)) (at level 61, p at next level, right associativity).

Definition rbyte : rd byte := fun s => match s with b :: r => Some (b, r) | [] => None end.
Definition rnum : rd nat :=
  fun s => let (ds, r) := span_while is_digit s in
           match ds, r with
           | _ :: _, x3b :: r' => Some (N.to_nat (dec_value ds), r')
           | _, _ => None
           end.
Definition rstr : rd bytes :=
  n <- rnum ;;; (fun s => if Nat.leb n (List.length s) then Some (firstn n s, skipn n s) else None).
Fixpoint rlist {A} (p : rd A) (n : nat) : rd (list A) :=
  match n with
  | O => rret []
  | S m => a <- p ;;; l <- rlist p m ;;; rret (a :: l)
  end.
Definition rcount {A} (p : rd A) : rd (list A) := n <- rnum ;;; rlist p n.

Definition rpart : rd kpart :=
  t <- rbyte ;;; s <- rstr ;;;
  if byte_eqb t x69 then rret (KPIdent s) else if byte_eqb t x6e then rret (KPInt s) else fun _ => None.
Definition rseg : rd kseg :=
  t <- rbyte ;;;
  if byte_eqb t x71 then s <- rstr ;;; rret (KQuoted s)
  else if byte_eqb t x62 then ps <- rcount rpart ;;; rret (KBare ps)
  else fun _ => None.
Definition rpath : rd kpath := rcount rseg.
Definition rsign : rd sign :=
  t <- rbyte ;;;
  if byte_eqb t x30 then rret SgNone else if byte_eqb t x2b then rret SgPlus
  else if byte_eqb t x2d then rret SgMinus else fun _ => None.
Definition rdt : rd dtsp :=
  t <- rbyte ;;;
  date <- (if byte_eqb t x44 then y <- rstr ;;; m <- rstr ;;; d <- rstr ;;; rret (Some (y, m, d))
           else if byte_eqb t x5f then rret None else fun _ => None) ;;;
  delim <- rbyte ;;;
  t2 <- rbyte ;;;
  time <- (if byte_eqb t2 x74
           then hh <- rstr ;;; mi <- rstr ;;; ss <- rstr ;;;
                t3 <- rbyte ;;;
                (if byte_eqb t3 x2e then f <- rstr ;;; rret (Some (hh, mi, ss, Some f))
                 else if byte_eqb t3 x5f then rret (Some (hh, mi, ss, None)) else fun _ => None)
           else if byte_eqb t2 x5f then rret None else fun _ => None) ;;;
  t4 <- rbyte ;;;
  off <- (if byte_eqb t4 x5f then rret ONone
          else if byte_eqb t4 x7a then c <- rbyte ;;; rret (OZ c)
          else if byte_eqb t4 x6f
          then sg <- rbyte ;;; hh <- rstr ;;; mm <- rstr ;;; rret (ONum (byte_eqb sg x2d) hh mm)
          else fun _ => None) ;;;
  rret (mkDtsp date delim time off).

Fixpoint rval (fuel : nat) : rd aval :=
  match fuel with
  | O => fun _ => None
  | S f =>
    t <- rbyte ;;;
    if byte_eqb t x73 then s <- rstr ;;; rret (AStr s)
    else if byte_eqb t x69 then sg <- rsign ;;; s <- rstr ;;; rret (AInt sg s)
    else if byte_eqb t x66 then sg <- rsign ;;; s <- rstr ;;; rret (AFloat sg s)
    else if byte_eqb t x78 then sg <- rsign ;;; k <- rbyte ;;; rret (ASpecial sg (byte_eqb k x6e))
    else if byte_eqb t x54 then rret (ABool true)
    else if byte_eqb t x46 then rret (ABool false)
    else if byte_eqb t x64 then d <- rdt ;;; rret (ADt d)
    else if byte_eqb t x61 then tr <- rbyte ;;; l <- rcount (rval f) ;;; rret (AArr l (byte_eqb tr x31))
    else if byte_eqb t x6c then l <- rcount (p <- rpath ;;; v <- rval f ;;; rret (p, v)) ;;; rret (AInl l)
    else fun _ => None
  end.
Definition rstmt (fuel : nat) : rd astmt :=
  t <- rbyte ;;;
  if byte_eqb t x48 then p <- rpath ;;; rret (AHeader p)
  else if byte_eqb t x41 then p <- rpath ;;; rret (AArrHeader p)
  else if byte_eqb t x4b then p <- rpath ;;; v <- rval fuel ;;; rret (AKeyVal p v)
  else fun _ => None.
Definition read_doc (s : bytes) : option (list astmt) :=
  match rcount (rstmt (S (List.length s))) s with
  | Some (l, []) => Some l
  | _ => None
  end.

(* ---- dump ---- *)
Fixpoint bytes_ltb (a b : bytes) : bool :=
  match a, b with
  | [], [] => false
  | [], _ :: _ => true
  | _ :: _, [] => false
  | x :: a', y :: b' => if (b2n x <? b2n y)%N then true else if (b2n y <? b2n x)%N then false else bytes_ltb a' b'
  end.
Fixpoint insert_sorted {A} (kv : bytes * A) (l : list (bytes * A)) : list (bytes * A) :=
  match l with
  | [] => [kv]
  | kv' :: tl => if bytes_ltb (fst kv) (fst kv') then kv :: l else kv' :: insert_sorted kv tl
  end.
Definition sort_by_key {A} (l : list (bytes * A)) : list (bytes * A) := fold_right insert_sorted [] l.

Definition show_mscalar_f (f : fval) : bytes := show_fval f.
Fixpoint show_mval (v : mval) : bytes :=
  match v with
  | MStr s => str "s:" ++ show_hex s
  | MInt z => str "i:" ++ show_Z z
  | MFloat f => show_fval f
  | MBool b => str "b:" ++ show_bool b
  | MDatetime d => show_datetime d
  | MArr l => str "[" ++ join (str ",") (List.map show_mval l) ++ str "]"
  | MTab l =>
    str "{" ++ join (str ",") (List.map (fun kv => show_hex (fst kv) ++ str "=" ++ snd kv)
                                 (sort_by_key (List.map (fun kv => (fst kv, show_mval (snd kv))) l)))
    ++ str "}"
  end.

Definition show_eres (r : eres mval) : bytes :=
  match r with
  | EOk v => show_mval v
  | ENoRule => str "E:norule"
  | ECompile => str "E:compile"
  | EPanic => str "E:panic"
  | EStuck => str "E:stuck"
  | EFuel => str "E:fuel"
  end.

Definition cmd_macro (s : bytes) : bytes :=
  match read_doc s with
  | None => str "bad-serialisation"
  | Some l =>
    str "supported=" ++ show_bool (macro_supported l)
    ++ str " macro=" ++ show_eres (macro_eval (tokens_of l))
    ++ str " ref=" ++ (match eval l with Some v => show_mval v | None => str "invalid" end)
  end.

(* ---- the rule table in normal form ---- *)
Definition var_name (x : var) : string :=
  match x with
  | Vroot => "root" | Vpath => "path" | Vk => "k" | Vv => "v" | Vrest => "rest" | Voldpath => "oldpath"
  | Vdatetime => "datetime" | Vident => "ident" | Vquoted => "quoted" | Vinline => "inline"
  | Vargs => "args" | Vlast => "last" | Vfirst => "first" | Vyr => "yr" | Vmo => "mo" | Vdhr => "dhr"
  | Vday => "day" | Vhr => "hr" | Vmin => "min" | Vsec => "sec" | Vfrac => "frac" | Vtzh => "tzh"
  | Vtzm => "tzm"
  end.
Definition sp : bytes := [x20].
Definition sep_text (o : option byte) : bytes := match o with Some c => [c] | None => [] end.

Fixpoint show_pat (p : pat) : bytes :=
  match p with
  | PIdent s => s
  | PPunct c => [c]
  | PVar x f => str "$" ++ str (var_name x) ++ str ":" ++ (match f with FTt => str "tt" | FIdent => str "ident" end)
  | PGroup d ps => [open_of d] ++ flat_map (fun q => sp ++ show_pat q) ps ++ sp ++ [close_of d]
  | PRep ps sep plus =>
    str "$(" ++ flat_map (fun q => sp ++ show_pat q) ps ++ sp ++ str ")" ++ sep_text sep ++ (if plus then str "+" else str "*")
  end.
Fixpoint show_tpl (q : tpl) : bytes :=
  match q with
  | QIdent s => s
  | QPunct c => [c]
  | QVar x => str "$" ++ str (var_name x)
  | QGroup d qs => [open_of d] ++ flat_map (fun q' => sp ++ show_tpl q') qs ++ sp ++ [close_of d]
  | QRep qs sep => str "$(" ++ flat_map (fun q' => sp ++ show_tpl q') qs ++ sp ++ str ")" ++ sep_text sep
  end.
Definition show_tpls (qs : list tpl) : bytes := join sp (List.map show_tpl qs).
Definition show_body (b : body) : bytes :=
  match b with
  | BNothing => str "nothing"
  | BInvoke q => str "invoke " ++ show_tpls q
  | BInsert top next => str "insert " ++ show_tpls next
  | BInsertDt top next => str "insertdt " ++ show_tpls next
  | BArrHeader => str "arrheader"
  | BTabHeader => str "tabheader"
  | BArrPush next => str "push " ++ show_tpls next
  | BArrPushDt next => str "pushdt " ++ show_tpls next
  | BPathIdent => str "pathident"
  | BPathQuoted => str "pathquoted"
  | BValTable q => str "valtable " ++ show_tpls q
  | BValArray q => str "valarray " ++ show_tpls q
  | BValConst f => str "const " ++ show_fval f
  | BValNeg => str "neg"
  | BValOther => str "other"
  end.
Definition show_rule (r : rule) : bytes :=
  join sp (List.map show_pat (r_head r)) ++ str " => " ++ show_body (r_body r).
Definition cmd_rules : bytes :=
  str "n=" ++ show_nat (List.length rules) ++ str " det=" ++ show_bool heads_deterministic
  ++ str " rules=" ++ show_hex (join (str " ;; ") (List.map show_rule rules)).

Definition run_cmd (cmd : bytes) (args : list bytes) : bytes :=
  if bytes_eqb cmd (str "macro") then
    match args with
    | [s] => cmd_macro s
    | _ => str "bad-args"
    end
  else if bytes_eqb cmd (str "rules") then cmd_rules
  else str "unknown-command".
