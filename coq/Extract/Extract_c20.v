(* Extract/Extract_c20.v — extraction of the C20 observation commands (ExtrOcamlBasic only). *)
From TV Require Import Base.Prelude Extract.Cmd_c20.
Require Import ExtrOcamlBasic.
Extraction Language OCaml.
Extraction "model_c20.ml" run_cmd n2b b2n.
