(* Props/C08.v — Edits change exactly what was asked and keep everything else verbatim.

   Model: Model/Edit.v — `apply o root` transcribes, Rust function by Rust function, what the public
   API call behind the operation `o` does to the document tree (Model/Tree.v, after `into_mut`);
   `None` = the call is not offered at that place or panics.  Reference: Spec/EditSpec.v — `abs`
   forgets all formatting (decor, reprs, spans, flags except the dotted bit) and `spec_apply` is the
   operation on the plain ordered tree, written from the API documentation with positional list
   functions.

   What is proved here is the TREE-level half of the property.  The TEXT-level half ("the printed
   document is valid TOML and re-parses to `abs t'`") needs the print/parse round trip of built
   trees (property C06) and is NOT proved here; it is checked on the implementation after every
   step by the oracle of lib/props/c08.py, which found three classes of trees whose print loses
   or breaks something (C06-table-in-inline, C08-empty-container-vanishes, C08-key-decor-in-header). *)
From TV Require Import Base.Prelude Spec.Ordered Model.Datetime Model.Numbers Model.Tree.
From TV Require Import Spec.EditSpec Model.Edit Proofs.ContainersOrder Proofs.EditRefineBase Proofs.EditRefine Proofs.EditVerbatim Proofs.EditWF Proofs.EditText.
From TV Require Import Gen.Consts Model.Write Model.Encode.
From Coq Require Import Sorting.Permutation.

(* ---- decoded content ------------------------------------------------------------------ *)

(* every applicable operation (all 17 constructors of `op`) changes the content exactly as specified *)
Theorem C08_step_content : forall t o t',
  apply o t = Some t' -> abs t' = spec_apply o (abs t).
Proof. exact step_content. Qed.
Print Assumptions C08_step_content.

(* any history; operations that are not applicable when their turn comes are skipped (as the
   harness does) and `applied_ops` is the list of those that were applied *)
Theorem C08_history_content : forall ops t,
  abs (apply_all ops t) = spec_apply_all (applied_ops ops t) (abs t).
Proof. exact history_content. Qed.
Print Assumptions C08_history_content.

Theorem C08_history_content_all : forall ops t t',
  apply_seq ops t = Some t' -> abs t' = spec_apply_all ops (abs t).
Proof. exact history_content_all. Qed.
Print Assumptions C08_history_content_all.

(* ---- order ---------------------------------------------------------------------------- *)
(* `abs` maps the entries of every table / array in storage order (it is a `map`), so
   C08_step_content is a statement about order too: the order of the edited tree is the order
   `spec_apply` produces.  What that order is: *)

Theorem C08_order_abs : forall t, tab_keys (abs t) = map (fun kv => k_key (fst kv)) (t_items t).
Proof. exact abs_keeps_order. Qed.
Print Assumptions C08_order_abs.

(* insert / replace: an existing key keeps its position, a new key goes last, the key then holds
   the new value and every other key holds what it held.  (`e_get k l <> Some PNone`: the key does
   not hold a bare `Item::None` placeholder — true of every document reached from a parsed one, see
   C08_step_wf; such a placeholder counts as absent: C08_order_insert_placeholder.) *)
Theorem C08_order_insert : forall k x l, e_get k l <> Some PNone ->
  map fst (e_put k x l) = match e_get k l with Some _ => map fst l | None => map fst l ++ [k] end
  /\ e_get k (e_put k x l) = Some x
  /\ forall k2, bytes_eqb k2 k = false -> e_get k2 (e_put k x l) = e_get k2 l.
Proof.
  intros k x l H. repeat split; [apply e_put_keys; exact H|apply e_put_get_same|intros; apply e_put_get_other; assumption].
Qed.
Print Assumptions C08_order_insert.

(* a key that only holds a placeholder is new: the placeholder is forgotten, the entry goes last
   (the repair of C16-placeholder-residue: Table::insert / entry / IndexMut drop it first) *)
Theorem C08_order_insert_placeholder : forall k x l, e_get k l = Some PNone ->
  e_put k x l = e_put0 k x (e_del k l).
Proof. exact e_put_placeholder. Qed.
Print Assumptions C08_order_insert_placeholder.

(* remove: the surviving entries keep their relative order and values *)
Theorem C08_order_remove : forall k l,
  map fst (e_del k l) = del_first k (map fst l)
  /\ forall k2, bytes_eqb k2 k = false -> e_get k2 (e_del k l) = e_get k2 l.
Proof. intros k l. split; [apply e_del_keys|intros; apply e_del_get_other; assumption]. Qed.
Print Assumptions C08_order_remove.

(* sort: the same entries, in ascending key order *)
Theorem C08_order_sort : forall l,
  Permutation (e_sort l) l /\ sorted_by (fun a b => key_leb (fst a) (fst b) = true) (e_sort l).
Proof. intro l. split; [apply e_sort_perm|apply e_sort_sorted]. Qed.
Print Assumptions C08_order_sort.

(* sort_values_by (the 17th operation; comparators `scmp`: keys descending / by rank with ties; `il` = the table is an
   inline table, whose closure sees values only): the same entries, in the comparator's order, and STABLE — a class
   of entries the comparator ties pairwise (for `CRank`: all non-integers; integers of one value) keeps its order *)
Theorem C08_order_sort_by : forall c il l,
  Permutation (Spec.Ordered.stable_sort (scmp_le c il) l) l
  /\ sorted_by (fun a b => scmp_le c il a b = true) (Spec.Ordered.stable_sort (scmp_le c il) l)
  /\ forall p : bytes * plain -> bool, (forall a b, p a = true -> p b = true -> scmp_le c il a b = true) ->
                filter p (Spec.Ordered.stable_sort (scmp_le c il) l) = filter p l.
Proof.
  intros c il l. split; [apply sort_by_perm|]. split; [apply sort_by_sorted|].
  intros p H. apply stable_sort_stable. exact H.
Qed.
Print Assumptions C08_order_sort_by.

(* the instance of C08_step_content, spelled out: the caller's comparator orders the table at p AND, recursively,
   the dotted tables of the same kind below it (spec_sort_by) *)
Theorem C08_sort_by_content : forall p c t t',
  apply (OSortBy p c) t = Some t' -> abs t' = spec_at p (spec_sort_by c) (abs t).
Proof. intros p c t t' H. exact (step_content t (OSortBy p c) t' H). Qed.
Print Assumptions C08_sort_by_content.

(* array insert: the elements before the index and from the index on keep their order around the new one *)
Theorem C08_order_array_insert : forall (i : nat) (x : plain) l, i <= length l ->
  firstn i (v_ins i x l) = firstn i l /\ nth_error (v_ins i x l) i = Some x /\ skipn (S i) (v_ins i x l) = skipn i l.
Proof. intros i x l. apply v_ins_spec. Qed.
Print Assumptions C08_order_array_insert.

(* ---- verbatim --------------------------------------------------------------------------- *)
(* `entry_repr t p` (Proofs/EditVerbatim.v) = the key stored for the entry at path p — its spelling
   (repr), its leaf decor and its dotted decor — together with the entry's OWN formatting: value repr
   and value decor, array decor / trailing / trailing comma, inline-table decor / preamble, table header
   decor / flags / position; the children are left out (they are entries of their own).
   `untouched o p`: p is not the entry the operation edits nor inside it — for insert / replace /
   remove / the conversions: the entry of that key and everything below it; for array replace / remove:
   that element; for fmt: the reformatted container and its direct children; for `doc[..] = x`: the
   assigned entry and everything below it; push, insert and sort touch no existing entry.
   `reloc o p`: where the entry is afterwards (array insert / remove shift the later elements).
   (`snd e <> INone`: a placeholder left by `&mut doc[k]` is not an entry.)

   Every untouched entry is IDENTICAL in the new tree: same key repr, key decor, value repr, value decor. *)
Theorem C08_verbatim : forall t o t' p e,
  apply o t = Some t' -> untouched o p = true ->
  entry_repr t p = Some e -> snd e <> INone ->
  entry_repr t' (reloc o p) = Some e.
Proof. exact step_verbatim. Qed.
Print Assumptions C08_verbatim.

Theorem C08_history_verbatim : forall ops t t' p e,
  apply_seq ops t = Some t' -> untouched_all ops p = true ->
  entry_repr t p = Some e -> snd e <> INone ->
  entry_repr t' (reloc_all ops p) = Some e.
Proof. exact history_verbatim. Qed.
Print Assumptions C08_history_verbatim.

(* no operation leaves an `Item::None` placeholder behind: on documents reached from a parsed one
   (where `no_none (abs t) = true`, see ex_no_none below) the side condition `snd e <> INone` above
   and the constructor PNone of the plain tree never matter *)
Theorem C08_step_wf : forall t o t',
  apply o t = Some t' -> no_none (abs t) = true -> no_none (abs t') = true.
Proof. exact step_no_none. Qed.
Print Assumptions C08_step_wf.

Theorem C08_history_wf : forall ops t,
  no_none (abs t) = true -> no_none (abs (apply_all ops t)) = true.
Proof. exact history_no_none. Qed.
Print Assumptions C08_history_wf.

(* ---- from identical reprs to identical printed bytes (Proofs/EditText.v) -------------------
   `doc_frag t p` reads off the tree what Model/Encode.v prints for the entry at path p:
     FLine kp v     a key/value line: the stored keys of the dotted tables above it inside its section
                    and its own key (repr + decor each), and the WHOLE value (repr, decor, everything inside)
     FHead hp d a   a [header] / [[header]] line: the stored keys from the root, the header decor, is_array
   `entry_fragment kp v` / `header_text hp d a first` are the bytes Encode.v prints for them (the body
   loop and the header of visit_table).  `untouched_frag o p head`: the entry is not the edited one,
   not inside it, and (for a line) the edit is not inside its value. *)

(* (b) an applicable operation leaves the fragment of every untouched entry identical *)
Theorem C08_fragment : forall t o t' p e,
  apply o t = Some t' -> doc_frag t p = Some e -> untouched_frag o p (is_head e) = true ->
  doc_frag t' (reloc_frag o p) = Some e.
Proof. exact step_fragment. Qed.
Print Assumptions C08_fragment.

Theorem C08_history_fragment : forall ops t t' p e,
  apply_seq ops t = Some t' -> doc_frag t p = Some e -> untouched_frag_all ops p (is_head e) = true ->
  doc_frag t' (reloc_frag_all ops p) = Some e.
Proof. exact history_fragment. Qed.
Print Assumptions C08_history_fragment.

(* (a) the printed document is the concatenation, section by section in printing order
   (`doc_sections`: nested_tables, positions assigned, stably sorted), of the section's header
   fragment and the entry fragments of its lines (`section_text`) *)
Theorem C08_print_sections : forall root trailing,
  display_document root trailing
  = decor_prefix (t_decor root) (fst DEFAULT_ROOT_DECOR)
    ++ sections_text (doc_sections root) true
    ++ decor_suffix (t_decor root) (snd DEFAULT_ROOT_DECOR)
    ++ raw_encode trailing [].
Proof. exact display_document_sections. Qed.
Print Assumptions C08_print_sections.

(* every line fragment of a tree is printed; every header fragment is printed unless the table is
   implicit and has no key/value line (Encode.v prints no header then) *)
Theorem C08_line_printed : forall t p kp v trailing,
  doc_frag t p = Some (FLine kp v) -> infix (entry_fragment kp v) (display_document t trailing).
Proof. exact line_printed. Qed.
Print Assumptions C08_line_printed.

Theorem C08_header_printed : forall t p hp d arr trailing,
  doc_frag t p = Some (FHead hp d arr) ->
  exists sec, t_decor sec = d /\
    (arr = true \/ t_implicit sec && no_lines sec = false ->
     exists first, infix (header_text hp d arr first) (display_document t trailing)).
Proof. exact header_printed. Qed.
Print Assumptions C08_header_printed.

(* together: the text printed after an edit (after any applicable history) contains, byte for byte,
   the line of every key/value entry the edit does not touch — comments, whitespace, the literal
   spelling of key and value *)
Theorem C08_verbatim_text : forall t o t' p kp v trailing trailing',
  apply o t = Some t' -> doc_frag t p = Some (FLine kp v) -> untouched_frag o p false = true ->
  infix (entry_fragment kp v) (display_document t trailing) /\
  infix (entry_fragment kp v) (display_document t' trailing').
Proof. exact verbatim_text. Qed.
Print Assumptions C08_verbatim_text.

Theorem C08_history_verbatim_text : forall ops t t' p kp v trailing trailing',
  apply_seq ops t = Some t' -> doc_frag t p = Some (FLine kp v) -> untouched_frag_all ops p false = true ->
  infix (entry_fragment kp v) (display_document t trailing) /\
  infix (entry_fragment kp v) (display_document t' trailing').
Proof. exact history_verbatim_text. Qed.
Print Assumptions C08_history_verbatim_text.

(* What is still not proved at text level:
   - for headers the analogue of C08_verbatim_text follows from C08_fragment + C08_header_printed only
     up to the `first` flag (default "\n" before a header without explicit decor depends on whether a
     table was printed before: header_text_explicit shows the bytes do not depend on it when the decor
     is explicit, as for every parsed header) and up to visibility (an implicit table that loses its
     last line loses its header line: class C08-empty-container-vanishes);
   - the fragments occur in the text ("infix"); that they occur in the same relative ORDER is given by
     C08_print_sections + the order theorems only for lines of one section, not stated as one theorem;
   - "the printed text is valid TOML and re-parses to abs t'" (the print/parse round trip, C06) — false
     on the four classes refuted below, checked by the oracle everywhere else. *)

(* ---- examples: a parsed document with comments ------------------------------------------ *)
From TV Require Import Model.Parse Model.Document Model.Encode Extract.Show.
Require Import String.

Definition ex_src : bytes := str "# top
a = 1 # one
b = [ 1 , 2 ]
[t] # header
k = { x = 1 }
".

Definition ex_root : option tbl :=
  match parse_document ex_src with
  | POk d => tbl_despan ex_src (doc_root d)
  | _ => None
  end.

Definition ex_print (o : list op) : option bytes :=
  match ex_root with
  | Some r => Some (display_document (apply_all o r) REmpty)
  | None => None
  end.

Example ex_parses : match ex_root with Some _ => True | None => False end.
Proof. vm_compute. exact I. Qed.

(* insert a key, remove another, push onto an array: the rest of the text is untouched *)
Example ex_edit :
  ex_print [OInsert [] (str "c") (PVStr (str "hi")); ORemove [] (str "a"); OArrPush [SKey (str "b")] (PVBool true)]
  = Some (str "b = [ 1 , 2 , true]
c = ""hi""
[t] # header
k = { x = 1 }
").
Proof. vm_compute. reflexivity. Qed.

(* ... and the content is what the reference says *)
Example ex_content :
  match ex_root with
  | Some r =>
    abs (apply_all [OInsert [] (str "c") (PVInt 5); OArrRemove [SKey (str "b")] 0; OSort [SKey (str "t"); SKey (str "k")]] r)
    = PTab false false
           [(str "a", PScalar (SInt 1)); (str "b", PArr false [PScalar (SInt 2)]);
            (str "t", PTab false false [(str "k", PTab true false [(str "x", PScalar (SInt 1))])]);
            (str "c", PScalar (SInt 5))]
  | None => False
  end.
Proof. vm_compute. reflexivity. Qed.

(* an operation that is not offered: pushing onto something that is not an array *)
Example ex_not_applicable :
  match ex_root with Some r => applicable (OArrPush [SKey (str "a")] (PVInt 1)) r = false | None => False end.
Proof. vm_compute. reflexivity. Qed.

(* the hypotheses of C08_verbatim are satisfiable: the entry `a` (with its comment) while `c` is
   inserted, `b[1]` while `b[0]` is removed (it moves to index 0) *)
Example ex_untouched :
  untouched (OInsert [] (str "c") (PVInt 1)) [SKey (str "a")] = true
  /\ untouched (OArrRemove [SKey (str "b")] 0) [SKey (str "b"); SIdx 1] = true
  /\ reloc (OArrRemove [SKey (str "b")] 0) [SKey (str "b"); SIdx 1] = [SKey (str "b"); SIdx 0]
  /\ untouched (OInsert [] (str "a") (PVInt 1)) [SKey (str "a")] = false
  /\ untouched (OFmt [SKey (str "t")]) [SKey (str "t"); SKey (str "k")] = false
  /\ untouched (OFmt [SKey (str "t")]) [SKey (str "t"); SKey (str "k"); SKey (str "x")] = true.
Proof. vm_compute. repeat split; reflexivity. Qed.

Example ex_entry_repr :
  match ex_root with
  | Some r =>
    entry_repr r [SKey (str "a")]
    = Some (Some (mkKey (str "a") (Some (RExplicit (str "a")))
                        (mkDecor (Some (RExplicit (str "# top
"))) (Some (RExplicit (str " ")))) (mkDecor (Some REmpty) (Some REmpty))),
            IValue (VScalar (SInt 1) (Some (RExplicit (str "1")))
                            (mkDecor (Some (RExplicit (str " "))) (Some (RExplicit (str " # one"))))))
  | None => False
  end.
Proof. vm_compute. reflexivity. Qed.

Example ex_no_none : match ex_root with Some r => no_none (abs r) = true | None => False end.
Proof. vm_compute. reflexivity. Qed.

(* ---- the text-level half is FALSE of the faithful model on three classes of trees ------------
   (findings; each witness is replayed on the real code by lib/props/c08.py: WITNESSES) *)

(* parse, into_mut, apply the operations (all applicable), print *)
Definition edited (s : bytes) (ops : list op) : option tbl :=
  match parse_document s with
  | POk d => match tbl_despan s (doc_root d) with Some r => apply_seq ops r | None => None end
  | _ => None
  end.
Definition printed (s : bytes) (ops : list op) : option bytes :=
  match edited s ops with Some r => Some (display_document r REmpty) | None => None end.

(* (formerly C08_text_valid_refuted, known finding C08-key-decor-in-header, repaired in /repo: "fix: write a key's
   comments in front of the table header") `Item::into_table` stored back in the slot (likewise `doc["c"] = table()`)
   keeps the stored key, whose leaf decor holds the comment line above the entry; the header used to be printed as
   `[# c<newline>c ]`, which is not valid TOML.  The comment is now written in front of the header: the text is valid
   and keeps the comment. *)
Theorem C08_key_comment_moves_in_front_of_header :
  exists s ops txt d2, printed s ops = Some txt /\ parse_document txt = POk d2 /\
    txt = str "# c
[c ]
x = 1
".
Proof.
  eexists (str "# c
c = { x = 1 }
"), [OIntoTable [] (str "c")], _, _.
  split; [vm_compute; reflexivity|]. split; [vm_compute; reflexivity|]. reflexivity.
Qed.
Print Assumptions C08_key_comment_moves_in_front_of_header.

(* C06-table-in-inline (DESIGN.md F13): a table assigned under an inline-table parent is dropped by
   the printer — the text is valid TOML but its content is not the edited content *)
Theorem C08_text_content_refuted_table_in_inline :
  exists s ops r txt d2,
    edited s ops = Some r /\ printed s ops = Some txt /\ parse_document txt = POk d2 /\
    abs (doc_root d2) <> abs r.
Proof.
  eexists (str "t = {a = 1}
"), [OISet [str "t"; str "x"] IPTable; OISet [str "t"; str "x"; str "y"] (IPValue (PVInt 1))], _, _, _.
  split; [vm_compute; reflexivity|]. split; [vm_compute; reflexivity|]. split; [vm_compute; reflexivity|].
  intro H. vm_compute in H. discriminate H.
Qed.
Print Assumptions C08_text_content_refuted_table_in_inline.

(* C08-empty-container-vanishes: a dotted table left without key/value lines (likewise an implicit
   table without sub-tables, an array of tables without elements) has no spelling and disappears *)
Theorem C08_text_content_refuted_empty_container :
  exists s ops r txt d2,
    edited s ops = Some r /\ printed s ops = Some txt /\ parse_document txt = POk d2 /\
    abs (doc_root d2) <> abs r.
Proof.
  eexists (str "a.b = 1
"), [ORemove [SKey (str "a")] (str "b")], _, _, _.
  split; [vm_compute; reflexivity|]. split; [vm_compute; reflexivity|]. split; [vm_compute; reflexivity|].
  intro H. vm_compute in H. discriminate H.
Qed.
Print Assumptions C08_text_content_refuted_empty_container.

(* C08-unpositioned-element-misplaced: an array-of-tables element pushed through the API has no
   doc_position; after sort_values has reordered the sub-tables of the previous element the new
   `[[c]]` header is printed before `[c.a]`, which thereby moves to the new element *)
Theorem C08_text_content_refuted_unpositioned_element :
  exists s ops r txt d2,
    edited s ops = Some r /\ printed s ops = Some txt /\ parse_document txt = POk d2 /\
    abs (doc_root d2) <> abs r.
Proof.
  eexists (str "[[c]]
[[c.b]]
[c.a]
x = 1
"), [OAotPush [SKey (str "c")]; OSort [SKey (str "c"); SIdx 0]], _, _, _.
  split; [vm_compute; reflexivity|]. split; [vm_compute; reflexivity|]. split; [vm_compute; reflexivity|].
  intro H. vm_compute in H. discriminate H.
Qed.
Print Assumptions C08_text_content_refuted_unpositioned_element.

(* the fragment of the entry `a` of the example document is its line with the comment above it and
   the comment after it; inserting `c` leaves it untouched *)
Example ex_fragment :
  match ex_root with
  | Some r =>
    match doc_frag r [SKey (str "a")] with
    | Some (FLine kp v) => entry_fragment kp v = str "# top
a = 1 # one
"
    | _ => False
    end
  | None => False
  end
  /\ untouched_frag (OInsert [] (str "c") (PVInt 1)) [SKey (str "a")] false = true
  /\ untouched_frag (OArrPush [SKey (str "b")] (PVInt 1)) [SKey (str "b")] false = false
  /\ untouched_frag (OInsert [SKey (str "t")] (str "z") (PVInt 1)) [SKey (str "t")] true = true.
Proof. vm_compute. repeat split; reflexivity. Qed.

Example ex_header_fragment :
  match ex_root with
  | Some r =>
    match doc_frag r [SKey (str "t")] with
    | Some (FHead hp d arr) => header_text hp d arr false = str "[t] # header
"
    | _ => False
    end
  | None => False
  end.
Proof. vm_compute. reflexivity. Qed.

(* ==== the text half, part 2: the edit operations preserve the WF backbone (Spec/WF.v) ==================
   WF root := t_dotted root = false /\ tbl_wf true root /\ tbl_lim 0 0 root /\ order_ok root (eng-c14).
   `step_side o t` = `wf_side o t && lim_side o t && order_side o t`, a decidable predicate on (operation, tree):
     wf_side    per operation (Proofs/EditWFText.v); it is where the known classes of C08 live:
                  - keys created through the API are UTF-8, payload strings are UTF-8 and integers fit i64 (`pv_ok`);
                  - `doc[..] = table()` only directly under a table, never under an existing or auto-vivified
                    inline table (`iset_side`: class C06-table-in-inline);
                  - a table edited by insert-table / remove / a conversion / IndexMut stays at least as visible
                    (`vis_side`: a table that had a key/value line of its own or a header written for or below it
                    still has one of the two — a dotted table may trade its last line for a header below it,
                    ex_side_line_for_header), an array of tables keeps an element, a dotted inline table keeps an entry
                    (class C08-empty-container-vanishes);
                  - make_value: no dotted inline table below the converted table (`mv_good`);
                  - no condition at all for insert of a value, the array operations, ArrayOfTables::push,
                    sort_values and fmt;
     lim_side   the RESULT is within the implementation limits (`tbl_lim_b`, proved sound here);
     order_side the RESULT's positions are in order (`order_b`, proved sound here: class
                C08-unpositioned-element-misplaced); the array operations and fmt can never break it (C08_order_free). *)
From TV Require Import Spec.WF Proofs.WFBool Proofs.EditWFTextBase Proofs.EditWFTextOps Proofs.EditWFText.

(* tbl_wf alone, under the operation's own side condition; the root keeps its flags *)
Theorem C08_step_tbl_wf : forall t o t',
  tbl_wf true t -> apply o t = Some t' -> wf_side o t = true ->
  tbl_wf true t' /\ t_dotted t = t_dotted t'.
Proof. intros t o t' Hw H Hs. destruct (step_tbl_wf t o t' Hw H Hs) as [H1 (H2 & _)]. auto. Qed.
Print Assumptions C08_step_tbl_wf.

Theorem C08_step_wf_text : forall t o t', WF t -> apply o t = Some t' -> step_side o t = true -> WF t'.
Proof. exact step_WF. Qed.
Print Assumptions C08_step_wf_text.

Theorem C08_order_free : forall o t t',
  order_free o = true -> apply o t = Some t' -> order_ok t -> order_ok t'.
Proof. exact order_free_ok. Qed.
Print Assumptions C08_order_free.

(* sort_values / sort_values_by move whole entries, the positions of the sections with them: on a TABLE their side
   condition for order_ok is `order_side` (the check of the result); on an INLINE table nothing can break *)
Theorem C08_sort_inline_order : forall o p t t',
  sort_path o = Some p -> node_sat p is_value_node (ITable t) = true ->
  apply o t = Some t' -> order_ok t -> order_ok t'.
Proof. exact sort_inline_order_ok. Qed.
Print Assumptions C08_sort_inline_order.

(* Model/Edit.v defines sort_values_by on association lists with distinct keys (the IndexMap invariant; used by the
   verbatim theorems only).  Every well-formed node has it: there sort_values_by is defined exactly where sort_values is *)
Theorem C08_sort_by_defined : forall cm c i, iwf c i -> (op_sort_by cm i = None <-> op_sort i = None).
Proof. exact op_sort_by_defined. Qed.
Print Assumptions C08_sort_by_defined.

Theorem C08_history_wf_text : forall ops t t',
  WF t -> apply_seq ops t = Some t' -> history_side ops t = true -> WF t'.
Proof. exact history_WF. Qed.
Print Assumptions C08_history_wf_text.

(* ---- the round trip of edited documents, CLOSED against the WF backbone (Props/WFbackbone.v) ----
   The backbone's `WF_print_parse` concludes `abs_doc d = abs_doc_of t` (Spec/Defs.v trees of data).  That is
   not `abs (doc_root d) = abs t`: `abs` keeps the storage order of every table, while the text of a standard
   table has all its key/value lines in front of its sub-tables (ex_roundtrip_exact_refuted below: a value
   inserted behind `[t]` is printed in front of it and parses back in front of it).  The closed statement is
   about the DATA (Spec/Syntax.v `dval`; kinds and the inline / dotted flags forgotten on both sides):
     data_of x     the data of a plain tree in storage order          C08_bridge_parsed:  = tree_dval (abs_doc d)
     text_data x   the same, each standard table key/value lines first (a table made of dotted keys counts as a
                   line while a line is left in it, as a section once it is only mentioned by the headers below it),
                   empty arrays of tables / placeholders dropped      C08_bridge_printed: = tree_dval (abs_doc_of t)
   and `lines_first x` decides that the two coincide (C08_lines_first). *)
From TV Require Import Spec.Defs Spec.Syntax Proofs.GrammarBase Proofs.WFTree Proofs.WFReparse Proofs.WFParseTop Proofs.WFReplay Proofs.EditTextClose.

Theorem C08_bridge_parsed : forall d, tree_dval (abs_doc d) = data_of (abs (doc_root d)).
Proof. exact data_of_parsed. Qed.
Print Assumptions C08_bridge_parsed.

Theorem C08_bridge_printed : forall t, tree_dval (abs_doc_of t) = text_data (abs t).
Proof. exact text_data_abs_doc_of. Qed.
Print Assumptions C08_bridge_printed.

Theorem C08_lines_first : forall t, lines_first (abs t) = true -> text_data (abs t) = data_of (abs t).
Proof. exact lines_first_data. Qed.
Print Assumptions C08_lines_first.

(* no premise but WF of the start, the operations' own side conditions: the text printed after the history
   parses, and to the data of the edited tree = the data the reference computes *)
Theorem C08_text_roundtrip_closed : forall ops t t',
  WF t -> apply_seq ops t = Some t' -> history_side ops t = true ->
  exists d, parse_document (display_document t' REmpty) = POk d
            /\ data_of (abs (doc_root d)) = text_data (abs t')
            /\ data_of (abs (doc_root d)) = text_data (spec_apply_all ops (abs t)).
Proof. exact text_roundtrip_closed. Qed.
Print Assumptions C08_text_roundtrip_closed.

(* ... in storage order when the reference's result stores no key/value line behind a sub-table *)
Theorem C08_text_roundtrip_exact_order : forall ops t t',
  WF t -> apply_seq ops t = Some t' -> history_side ops t = true ->
  lines_first (spec_apply_all ops (abs t)) = true ->
  exists d, parse_document (display_document t' REmpty) = POk d
            /\ data_of (abs (doc_root d)) = data_of (abs t')
            /\ data_of (abs (doc_root d)) = data_of (spec_apply_all ops (abs t)).
Proof. exact text_roundtrip_exact_order. Qed.
Print Assumptions C08_text_roundtrip_exact_order.

(* documents that were PARSED first (DocumentMut from text): well-formedness of the start is a theorem
   (parse_WF), but for the order of the section positions; the document's own trailing text is kept *)
Theorem C08_parsed_text_roundtrip : forall s d0 t tr ops t',
  parse_document s = POk d0 -> tbl_despan s (doc_root d0) = Some t -> raw_despan s (doc_trailing d0) = Some tr ->
  order_ok t ->
  apply_seq ops t = Some t' -> history_side ops t = true ->
  exists d, parse_document (display_document t' tr) = POk d
            /\ abs_doc d = abs_doc_of t'
            /\ data_of (abs (doc_root d)) = text_data (abs t')
            /\ data_of (abs (doc_root d)) = text_data (spec_apply_all ops (abs t)).
Proof. exact parsed_text_roundtrip. Qed.
Print Assumptions C08_parsed_text_roundtrip.

(* ... and with no premise on the order at all: the side conditions are `wf_side` and `lim_side` only, and the
   definition rules of Spec/Defs.v are run on the sections of the RESULT in the order Display prints them
   (`replay_ok t'`, a closed boolean) *)
Theorem C08_history_slots : forall ops t t',
  (t_dotted t = false /\ tbl_wf true t /\ tbl_lim 0 0 t) -> apply_seq ops t = Some t' -> history_slot_side ops t = true ->
  t_dotted t' = false /\ tbl_wf true t' /\ tbl_lim 0 0 t'.
Proof. exact history_slots. Qed.
Print Assumptions C08_history_slots.

Theorem C08_parsed_text_roundtrip_any_order : forall s d0 t tr ops t',
  parse_document s = POk d0 -> tbl_despan s (doc_root d0) = Some t -> raw_despan s (doc_trailing d0) = Some tr ->
  apply_seq ops t = Some t' -> history_slot_side ops t = true -> replay_ok t' = true ->
  exists d, parse_document (display_document t' tr) = POk d
            /\ abs_doc d = abs_doc_of t'
            /\ data_of (abs (doc_root d)) = text_data (abs t')
            /\ data_of (abs (doc_root d)) = text_data (spec_apply_all ops (abs t)).
Proof. exact parsed_text_roundtrip_any_order. Qed.
Print Assumptions C08_parsed_text_roundtrip_any_order.

(* `replay_ok` holds when sections are interleaved (`[a]`, `[b]`, `[a.c]`: ex_roundtrip_any_order).  It fails when a
   sub-table is printed in front of a key/value line of its parent (`[a.b]` in front of `[a]`): the keys of the
   re-parsed table are then in the order of first mention in the text, which `abs` cannot know (it does not keep
   positions).  Then the same data as UNORDERED tables: `same_data a b := dcanon (DTab a) = dcanon (DTab b)`,
   `dcanon` sorting the entries of every table by key *)
Theorem C08_parsed_text_roundtrip_unordered : forall s d0 t tr ops t',
  parse_document s = POk d0 -> tbl_despan s (doc_root d0) = Some t -> raw_despan s (doc_trailing d0) = Some tr ->
  apply_seq ops t = Some t' -> history_slot_side ops t = true -> replay_unordered_ok t' = true ->
  exists d, parse_document (display_document t' tr) = POk d
            /\ same_data (data_of (abs (doc_root d))) (text_data (abs t'))
            /\ same_data (data_of (abs (doc_root d))) (text_data (spec_apply_all ops (abs t))).
Proof. exact parsed_text_roundtrip_unordered. Qed.
Print Assumptions C08_parsed_text_roundtrip_unordered.

(* ---- the side conditions are satisfiable, and each is needed ---- *)
Definition root_of (s : bytes) : option tbl :=
  match parse_document s with POk d => tbl_despan s (doc_root d) | _ => None end.
Definition on_root {A} (s : bytes) (f : tbl -> A) (dflt : A) : A :=
  match root_of s with Some r => f r | None => dflt end.

(* the example document is well-formed (boolean checker of Proofs/WFBool.v) and ordinary edits meet their side conditions *)
Example ex_sides_hold :
  on_root ex_src wf_b false = true
  /\ on_root ex_src (history_side [OInsert [] (str "c") (PVStr (str "hi")); ORemove [] (str "a");
                                   OArrPush [SKey (str "b")] (PVBool true); OInsertTable [] (str "n");
                                   OSort [SKey (str "t")]; OFmt [SKey (str "t"); SKey (str "k")];
                                   OISet [str "n"; str "x"; str "y"] (IPValue (PVInt 1))]) false = true.
Proof. vm_compute. split; reflexivity. Qed.

(* C06-table-in-inline: a table assigned under an inline table violates wf_side (and WF: "inline tables hold values only") *)
Example ex_side_table_in_inline :
  on_root (str "t = {a = 1}
") (wf_side (OISet [str "t"; str "x"] IPTable)) true = false.
Proof. vm_compute. reflexivity. Qed.

(* C08-empty-container-vanishes: removing the only line of a dotted table, the only element of an array of tables *)
Example ex_side_vanish :
  on_root (str "a.b = 1
") (wf_side (ORemove [SKey (str "a")] (str "b"))) true = false
  /\ on_root (str "[[a]]
x = 1
") (wf_side (OAotRemove [SKey (str "a")] 0)) true = false.
Proof. vm_compute. split; reflexivity. Qed.

(* C08-unpositioned-element-misplaced: the push is fine, the sort breaks the order of the positions *)
Example ex_side_order :
  on_root (str "[[c]]
[[c.b]]
[c.a]
x = 1
") (fun r => (step_side (OAotPush [SKey (str "c")]) r,
              match apply (OAotPush [SKey (str "c")]) r with
              | Some r1 => (wf_side (OSort [SKey (str "c"); SIdx 0]) r1, order_side (OSort [SKey (str "c"); SIdx 0]) r1)
              | None => (false, true)
              end)) (false, (false, true))
  = (true, (true, false)).
Proof. vm_compute. reflexivity. Qed.

(* payloads must be printable: a string that is not UTF-8 has no default repr *)
Example ex_side_payload :
  on_root ex_src (wf_side (OInsert [] (str "c") (PVStr [xff]))) true = false
  /\ on_root ex_src (wf_side (OInsert [] [xff] (PVInt 1))) true = false.
Proof. vm_compute. split; reflexivity. Qed.

(* ---- the closed round trip on examples (closed booleans) ---- *)
Definition reparse_cmp (s : bytes) (ops : list op) (f : tbl -> tbl -> bool) : bool :=
  match root_of s with
  | Some r => match apply_seq ops r with
              | Some r' => match parse_document (display_document r' REmpty) with
                           | POk d => f (doc_root d) r'
                           | _ => false
                           end
              | None => false
              end
  | None => false
  end.
Definition data_eqb (a b : list (bytes * dval)) : bool := dval_eqb (DTab a) (DTab b).

(* `abs (doc_root d) = abs t'` is false: the value `c`, inserted behind `[t]`, parses back in front of it.  The start
   is well-formed, the side conditions hold, the data in storage order differ, the data lines-first agree *)
Example ex_roundtrip_exact_refuted :
  on_root ex_src wf_b false
  && on_root ex_src (history_side [OInsert [] (str "c") (PVInt 5)]) false
  && reparse_cmp ex_src [OInsert [] (str "c") (PVInt 5)]
       (fun r r' => negb (data_eqb (data_of (abs r)) (data_of (abs r')))
                    && data_eqb (data_of (abs r)) (text_data (abs r'))
                    && negb (lines_first (abs r')))
  = true.
Proof. vm_compute. reflexivity. Qed.

(* an edit that stores nothing behind a sub-table: storage order itself comes back *)
Example ex_roundtrip_exact_order :
  reparse_cmp ex_src [ORemove [] (str "a"); OArrPush [SKey (str "b")] (PVBool true); OInsert [SKey (str "t")] (str "c") (PVInt 5)]
       (fun r r' => lines_first (abs r') && data_eqb (data_of (abs r)) (data_of (abs r')))
  = true.
Proof. vm_compute. reflexivity. Qed.

(* a dotted table trades its last key/value line for a header below it: Table::insert("b", table()) at `a` on `a.b = 1`
   (and the same below a header, between two other lines).  Spec/WF.v used to ask every table made of dotted keys for a
   line of its own, and `vis_side` refused the step (its old form is recomputed here); now the step meets its side
   conditions, the result is well-formed, prints `[a.b]` — `a` is a super-table of that header in the text —, and the
   text parses back to the edited data, the line-less dotted table listed among the sections *)
Definition old_vis_side (a b : tbl) : bool := implb (hl a) (hl b) && implb (ph a) (ph b || hl b).
Example ex_side_line_for_header :
  let ops := [OInsertTable [SKey (str "a")] (str "b")] in
  on_root (str "a.b = 1
") (fun r => match r, apply_seq ops r with
             | Tbl [(_, ITable a)] _ _ _ _ _, Some ((Tbl [(_, ITable b)] _ _ _ _ _) as r') =>
               negb (old_vis_side a b) && vis_side a b && negb (has_line b) && prints_header b
               && history_side ops r && wf_b r'
             | _, _ => false
             end) false
  && reparse_cmp (str "a.b = 1
") ops (fun r r' => data_eqb (data_of (abs r)) (text_data (abs r')))
  && on_root (str "[t]
x = 1
a.b = 1
y = 2
") (history_side [OInsertTable [SKey (str "t"); SKey (str "a")] (str "b")]) false
  && reparse_cmp (str "[t]
x = 1
a.b = 1
y = 2
") [OInsertTable [SKey (str "t"); SKey (str "a")] (str "b")]
       (fun r r' => data_eqb (data_of (abs r)) (text_data (abs r')) && negb (data_eqb (data_of (abs r)) (data_of (abs r'))))
  = true.
Proof. vm_compute. reflexivity. Qed.


(* interleaved sections (`[a]`, `[b]`, `[a.c]`): order_ok fails, the replay check of the edited tree holds *)
Definition ex_ops2 : list op := [OInsert [SKey (str "a")] (str "z") (PVInt 3); OInsertTable [] (str "n")].
Example ex_roundtrip_any_order :
  on_root (str "[a]
x = 1
[b]
y = 2
[a.c]
w = 3
") (fun r => negb (order_b r) && history_slot_side ex_ops2 r
             && match apply_seq ex_ops2 r with Some r' => replay_ok r' | None => false end) false
  = true.
Proof. vm_compute. reflexivity. Qed.

(* a sub-table in front of its parent: the strict check fails, the unordered one holds *)
Example ex_roundtrip_unordered :
  on_root (str "[a.b]
x = 1
[a]
y = 2
") (fun r => negb (order_b r) && history_slot_side ex_ops2 r
             && match apply_seq ex_ops2 r with Some r' => negb (replay_ok r') && replay_unordered_ok r' | None => false end) false
  = true.
Proof. vm_compute. reflexivity. Qed.

(* ---- sort_values_by on examples (closed booleans) ---- *)
Definition print_after (s : bytes) (ops : list op) : bytes :=
  match root_of s with
  | Some r => match apply_seq ops r with Some r' => display_document r' REmpty | None => [] end
  | None => []
  end.

(* the comparator reaches the dotted keys (the seeded change C08-sort-values-by-ignores-comparator-dotted sorts them
   ascending); every line keeps its comment *)
Example ex_sort_by_kdesc :
  bytes_eqb
    (print_after (str "version = 1
name = ""x"" # n
dep.mid = 2
dep.zeta = 3 # z
dep.alpha = 1
") [OSortBy [] CKeyDesc])
    (str "version = 1
name = ""x"" # n
dep.zeta = 3 # z
dep.mid = 2
dep.alpha = 1
") = true.
Proof. vm_compute. reflexivity. Qed.

(* by rank: non-integers first (tied: in their old order), then integers by value (1 = 1 tied: `y` stays before `z`);
   in the inline table too, dotted keys included *)
Example ex_sort_by_rank :
  bytes_eqb
    (print_after (str "t = { b = 2, g.y = 1, g.x = ""s"", g.z = 1, a = 2 }
") [OSortBy [SKey (str "t")] CRank])
    (str "t = { g.x = ""s"", g.y = 1, g.z = 1, b = 2, a = 2 }
") = true.
Proof. vm_compute. reflexivity. Qed.

(* the side conditions of the new operation hold on the example document, and it is verbatim-untouching everywhere *)
Example ex_sort_by_sides :
  on_root ex_src (history_side [OSortBy [] CKeyDesc; OSortBy [SKey (str "t"); SKey (str "k")] CRank]) false
  && untouched (OSortBy [] CRank) [SKey (str "a")] && untouched_frag (OSortBy [] CRank) [SKey (str "a")] false
  = true.
Proof. vm_compute. reflexivity. Qed.
