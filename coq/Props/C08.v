(* Props/C08.v — Edits change exactly what was asked and keep everything else verbatim.

   Model: Model/Edit.v — `apply o root` transcribes, Rust function by Rust function, what the public
   API call behind the operation `o` does to the document tree (Model/Tree.v, after `into_mut`);
   `None` = the call is not offered at that place or panics.  Reference: Spec/EditSpec.v — `abs`
   forgets all formatting (decor, reprs, spans, flags except the dotted bit) and `spec_apply` is the
   operation on the plain ordered tree, written from the API documentation with positional list
   functions.

   What is proved here is the TREE-level half of the property.  The TEXT-level half ("the printed
   document is valid TOML and re-parses to `abs t'`") needs the print/parse round trip of built
   trees (property C06) and is NOT proved here; it is checked on the implementation after every
   step by the oracle of lib/props/c08.py, which found three classes of trees whose print loses
   or breaks something (C06-table-in-inline, C08-empty-container-vanishes, C08-key-decor-in-header). *)
From TV Require Import Base.Prelude Spec.Ordered Model.Datetime Model.Numbers Model.Tree.
From TV Require Import Spec.EditSpec Model.Edit Proofs.ContainersOrder Proofs.EditRefineBase Proofs.EditRefine.
From Coq Require Import Sorting.Permutation.

(* ---- decoded content ------------------------------------------------------------------ *)

(* every applicable operation (all 16 constructors of `op`) changes the content exactly as specified *)
Theorem C08_step_content : forall t o t',
  apply o t = Some t' -> abs t' = spec_apply o (abs t).
Proof. exact step_content. Qed.
Print Assumptions C08_step_content.

(* any history; operations that are not applicable when their turn comes are skipped (as the
   harness does) and `applied_ops` is the list of those that were applied *)
Theorem C08_history_content : forall ops t,
  abs (apply_all ops t) = spec_apply_all (applied_ops ops t) (abs t).
Proof. exact history_content. Qed.
Print Assumptions C08_history_content.

Theorem C08_history_content_all : forall ops t t',
  apply_seq ops t = Some t' -> abs t' = spec_apply_all ops (abs t).
Proof. exact history_content_all. Qed.
Print Assumptions C08_history_content_all.

(* ---- order ---------------------------------------------------------------------------- *)
(* `abs` maps the entries of every table / array in storage order (it is a `map`), so
   C08_step_content is a statement about order too: the order of the edited tree is the order
   `spec_apply` produces.  What that order is: *)

Theorem C08_order_abs : forall t, tab_keys (abs t) = map (fun kv => k_key (fst kv)) (t_items t).
Proof. exact abs_keeps_order. Qed.
Print Assumptions C08_order_abs.

(* insert / replace: an existing key keeps its position, a new key goes last, the key then holds
   the new value and every other key holds what it held *)
Theorem C08_order_insert : forall k x l,
  map fst (e_put k x l) = match e_get k l with Some _ => map fst l | None => map fst l ++ [k] end
  /\ e_get k (e_put k x l) = Some x
  /\ forall k2, bytes_eqb k2 k = false -> e_get k2 (e_put k x l) = e_get k2 l.
Proof. intros k x l. repeat split; [apply e_put_keys|apply e_put_get_same|intros; apply e_put_get_other; assumption]. Qed.
Print Assumptions C08_order_insert.

(* remove: the surviving entries keep their relative order and values *)
Theorem C08_order_remove : forall k l,
  map fst (e_del k l) = del_first k (map fst l)
  /\ forall k2, bytes_eqb k2 k = false -> e_get k2 (e_del k l) = e_get k2 l.
Proof. intros k l. split; [apply e_del_keys|intros; apply e_del_get_other; assumption]. Qed.
Print Assumptions C08_order_remove.

(* sort: the same entries, in ascending key order *)
Theorem C08_order_sort : forall l,
  Permutation (e_sort l) l /\ sorted_by (fun a b => key_leb (fst a) (fst b) = true) (e_sort l).
Proof. intro l. split; [apply e_sort_perm|apply e_sort_sorted]. Qed.
Print Assumptions C08_order_sort.

(* array insert: the elements before the index and from the index on keep their order around the new one *)
Theorem C08_order_array_insert : forall (i : nat) (x : plain) l, i <= length l ->
  firstn i (v_ins i x l) = firstn i l /\ nth_error (v_ins i x l) i = Some x /\ skipn (S i) (v_ins i x l) = skipn i l.
Proof. intros i x l. apply v_ins_spec. Qed.
Print Assumptions C08_order_array_insert.

(* ---- examples: a parsed document with comments ------------------------------------------ *)
From TV Require Import Model.Parse Model.Document Model.Encode Extract.Show.
Require Import String.

Definition ex_src : bytes := str "# top
a = 1 # one
b = [ 1 , 2 ]
[t] # header
k = { x = 1 }
".

Definition ex_root : option tbl :=
  match parse_document ex_src with
  | POk d => tbl_despan ex_src (doc_root d)
  | _ => None
  end.

Definition ex_print (o : list op) : option bytes :=
  match ex_root with
  | Some r => Some (display_document (apply_all o r) REmpty)
  | None => None
  end.

Example ex_parses : match ex_root with Some _ => True | None => False end.
Proof. vm_compute. exact I. Qed.

(* insert a key, remove another, push onto an array: the rest of the text is untouched *)
Example ex_edit :
  ex_print [OInsert [] (str "c") (PVStr (str "hi")); ORemove [] (str "a"); OArrPush [SKey (str "b")] (PVBool true)]
  = Some (str "b = [ 1 , 2 , true]
c = ""hi""
[t] # header
k = { x = 1 }
").
Proof. vm_compute. reflexivity. Qed.

(* ... and the content is what the reference says *)
Example ex_content :
  match ex_root with
  | Some r =>
    abs (apply_all [OInsert [] (str "c") (PVInt 5); OArrRemove [SKey (str "b")] 0; OSort [SKey (str "t"); SKey (str "k")]] r)
    = PTab false false
           [(str "a", PScalar (SInt 1)); (str "b", PArr false [PScalar (SInt 2)]);
            (str "t", PTab false false [(str "k", PTab true false [(str "x", PScalar (SInt 1))])]);
            (str "c", PScalar (SInt 5))]
  | None => False
  end.
Proof. vm_compute. reflexivity. Qed.

(* an operation that is not offered: pushing onto something that is not an array *)
Example ex_not_applicable :
  match ex_root with Some r => applicable (OArrPush [SKey (str "a")] (PVInt 1)) r = false | None => False end.
Proof. vm_compute. reflexivity. Qed.
