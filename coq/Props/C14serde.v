(* Props/C14serde.v — property C14, serde half: the spans serde's `Spanned<T>` wrapper delivers are the
   spans of the document's items, and wrapping any part of a target type in `Spanned<T>` changes neither
   whether nor how the rest deserializes.  Statements only; proofs in Proofs/SpannedRT*.v.

   Level: the value tree with spans (Model/SerdeSpanned.v `stree`: every scalar, array, table and table
   key carries the optional span toml_edit reports for it on an ImDocument); which spans the parser
   records is the document half (Props/C14spans.v).  `sty`: target types with Spanned wrappers at ANY set
   of positions (`YPlain t`: a sub-type without any); `erase_ty` removes the wrappers, `erase_val` the
   spans, `strip` the spans of the tree.  de_s: toml_edit's ValueDeserializer + KeyDeserializer +
   SpannedDeserializer at such a type; de_value (Model/De.v): the same deserializer at a plain type. *)
From TV Require Import Base.Prelude Model.Datetime Model.SerNum Spec.SerdeData Model.Ser Model.De Model.SerdeSpanned
  Proofs.SpannedRTBase Proofs.SpannedRT Proofs.SpannedRTTop Extract.SpannedTree Extract.Show.
Require Import String.

(* Spanned<T> at a node with span a..b yields Spanned { span: a..b, value: v } where v is what T yields at that
   node; at a node without a span it fails *)
Theorem C14_spanned_delivers : forall t s,
  match span_of s with
  | Some (a, b) => de_s (YSpanned t) s = rmap (XSpanned a b) (de_s t s)
  | None => de_s (YSpanned t) s = Err EDe
  end.
Proof. exact spanned_delivers. Qed.
Print Assumptions C14_spanned_delivers.

(* a map key Spanned<K> (K = String, char, a unit-variant enum) carries the span of the key *)
Theorem C14_spanned_key_delivers : forall t0 k a b,
  de_key_s (YSpanned (YPlain t0)) k (Some (a, b)) = rmap (fun v => XSpanned a b (XPlain v)) (de_from_str t0 k).
Proof. exact spanned_key_delivers. Qed.
Print Assumptions C14_spanned_key_delivers.

(* a DocumentMut has no spans (into_mut removes them): nothing is delivered through from_document(DocumentMut) *)
Theorem C14_spanned_needs_spans : forall t s, de_s (YSpanned t) (despan s) = Err EDe.
Proof. exact spanned_needs_spans. Qed.
Print Assumptions C14_spanned_needs_spans.

(* transparency: for every type with Spanned wrappers at any positions (sty_ok: not around an Option field,
   not around a newtype / another Spanned in a map key) and every well-formed tree all of whose nodes and keys
   have spans, the wrapped type succeeds exactly when the erased type does, and the values agree after
   erasing the spans *)
Theorem C14_transparent : forall t s, sty_ok t = true -> all_spans s = true ->
  ((exists x, de_s t s = Ok x) <-> (exists v, de_value (erase_ty t) (strip s) = Ok v))
  /\ (forall x v, de_s t s = Ok x -> de_value (erase_ty t) (strip s) = Ok v -> erase_val x = v).
Proof. exact spanned_transparent. Qed.
Print Assumptions C14_transparent.

(* ---- the three ways transparency fails, each on the tree the Coq parser builds from the text ---- *)
(* known finding C14-implicit-table-span: in `[a.b]\nc = 3` the table `a` has no span; Spanned over it fails *)
Theorem C14_implicit_table_refuted :
  parse_stree imp_text = Some (Some imp_tree)
  /\ sty_ok imp_ty = true /\ all_spans imp_tree = false
  /\ de_value (erase_ty imp_ty) (strip imp_tree) = Ok (SRec [SRec [SRec [SInt 3]]])
  /\ de_s imp_ty imp_tree = Err EDe.
Proof. exact implicit_table_refuted. Qed.
Print Assumptions C14_implicit_table_refuted.

(* a struct field Spanned<Option<T>> whose key is missing fails where Option<T> is None *)
Theorem C14_spanned_option_missing_refuted :
  parse_stree opt_text = Some (Some opt_tree)
  /\ all_spans opt_tree = true /\ sty_ok opt_ty = false
  /\ de_value (erase_ty opt_ty) (strip opt_tree) = Ok (SRec [SInt 3; SNone])
  /\ de_s opt_ty opt_tree = Err EDe
  /\ de_s (YStruct (str "S") [(str "a", YPlain (TInt TI64)); (str "o", YOpt (YSpanned (YPlain (TInt TI8))))]) opt_tree
     = Ok (XRec [XPlain (SInt 3); XPlain SNone]).
Proof. exact spanned_option_missing_refuted. Qed.
Print Assumptions C14_spanned_option_missing_refuted.

(* a map key Spanned<Wrap(String)> fails where Wrap(String) and Wrap(Spanned<String>) work *)
Theorem C14_spanned_newtype_key_refuted :
  parse_stree nk_text = Some (Some nk_tree)
  /\ all_spans nk_tree = true /\ sty_ok nk_ty = false
  /\ de_value (erase_ty nk_ty) (strip nk_tree) = Ok (SMap [(SNewtype (SStr (str "k")), SInt 3)])
  /\ de_s nk_ty nk_tree = Err EDe
  /\ de_s (YMap (YNewtype (str "W") (YSpanned (YPlain TStr))) (YPlain (TInt TI8))) nk_tree
     = Ok (XMap [(XNewtype (XSpanned 0 1 (XPlain (SStr (str "k")))), XPlain (SInt 3))]).
Proof. exact spanned_newtype_key_refuted. Qed.
Print Assumptions C14_spanned_newtype_key_refuted.

(* ---- non-vacuity: `a = 1\nm.k = 3\n[t]\nx = 5\n` read as
       S { a: Spanned<i64>, t: Spanned<T { x: Spanned<i64> }>, m: Map<Spanned<String>, Spanned<Wrap(i8)>> } ---- *)
Definition ex_text : bytes :=
  str "a = 1" ++ [x0a] ++ str "m.k = 3" ++ [x0a] ++ str "[t]" ++ [x0a] ++ str "x = 5" ++ [x0a].
Definition ex_sty : sty :=
  YStruct (str "S") [(str "a", YSpanned (YPlain (TInt TI64)));
                     (str "t", YSpanned (YStruct (str "T") [(str "x", YSpanned (YPlain (TInt TI64)))]));
                     (str "m", YMap (YSpanned (YPlain TStr)) (YSpanned (YPlain (TNewtype (str "W") (TInt TI8)))))].
Example C14_ex :
  exists s, parse_stree ex_text = Some (Some s) /\ all_spans s = true /\ sty_ok ex_sty = true
    /\ de_s ex_sty s = Ok (XRec [XSpanned 4 5 (XPlain (SInt 1));
                                 XSpanned 14 23 (XRec [XSpanned 22 23 (XPlain (SInt 5))]);
                                 XMap [(XSpanned 8 9 (XPlain (SStr (str "k"))), XSpanned 12 13 (XPlain (SNewtype (SInt 3))))]])
    /\ de_value (erase_ty ex_sty) (strip s) = Ok (SRec [SInt 1; SRec [SInt 5]; SMap [(SStr (str "k"), SNewtype (SInt 3))]]).
Proof. eexists. split; [vm_compute; reflexivity|]. repeat split; vm_compute; reflexivity. Qed.
