(* Props/C15.v — property C15: every rejection is a well-formed, correctly located error.
   Statements only; proofs in Proofs/ErrorPos.v (UTF-8, char_span, translate_position,
   rendering), Proofs/ErrorRange.v (every parser keeps its cursor inside the document),
   Proofs/ErrorMsg.v (which errors of the document parser can carry an empty message) and
   Proofs/EoiMsg.v (the same for the stand-alone value / key / key-path entry points, which run
   `terminated(P, end_of_input)`; Proofs/Eoi.v relates them to `P.parse`).

   Offsets: `nat` in Model/Error.v and Spec/Position.v, `N` for the parser's cursor.
   The serde half of the property (deserialization errors carry the offending value's span or
   its key path) is an oracle on the implementation only (lib/props/c15.py, `deerr`). *)
From TV Require Import Base.Prelude Base.Utf8 Base.Winnow Model.Tree Model.Parse Model.Document Model.Error
  Spec.Position Proofs.ErrorPos Proofs.ErrorRange Proofs.ErrorMsg Proofs.Eoi Proofs.EoiMsg.

(* The line and column computed by translate_position are the specification's, for every
   character boundary of a valid text including the end of input (with and without a final
   newline; at end of input: one past the end of the last line). *)
Theorem C15_position : forall (s : bytes) (i : nat),
  utf8_valid_b s = true -> char_boundary_b s (N.of_nat i) = true -> i <= length s ->
  translate_position s i = (lines_before s i, chars_since_line_start s i).
Proof. exact position_correct. Qed.
Print Assumptions C15_position.

(* winnow's char_span of any offset inside a valid text lies in the text, on character
   boundaries, and starts at or before the offset. *)
Theorem C15_span_ok : forall (s : bytes) (off : nat),
  utf8_valid_b s = true -> off <= length s ->
  let (a, b) := char_span s off in
  a <= b /\ b <= length s /\ char_boundary_b s (N.of_nat a) = true /\ char_boundary_b s (N.of_nat b) = true
  /\ a <= off.
Proof. exact span_ok. Qed.
Print Assumptions C15_span_ok.

(* No slice bound and no usize subtraction inside translate_position can fail, for any input
   and any index. *)
Theorem C15_translate_total : forall (s : bytes) (i : nat),
  translate_position_chk s i = Some (translate_position s i).
Proof. exact translate_position_total. Qed.
Print Assumptions C15_translate_total.

(* Rendering the error at char_span s off reaches no panic site: the line exists
   (`nth(line).expect`), `span.end - span.start` does not underflow. *)
Theorem C15_render_total : forall (s : bytes) (off : nat),
  utf8_valid_b s = true -> off <= length s -> exists r, render s (char_span s off) = ROk r.
Proof. exact render_total. Qed.
Print Assumptions C15_render_total.

(* Every error offset of the document parser (and of the value / key / key-path entry points)
   is inside the document. *)
Theorem C15_offset_in_range : forall (s : bytes) (e : perr) (at_ : N),
  parse_document s = PErr e (Some at_) -> (at_ <= N.of_nat (length s))%N.
Proof. exact document_offset_in_range. Qed.
Print Assumptions C15_offset_in_range.

Theorem C15_offset_in_range_value : forall (s : bytes) (e : perr) (at_ : N),
  parse_value_raw s = PErr e (Some at_) -> (at_ <= N.of_nat (length s))%N.
Proof. exact value_offset_in_range. Qed.
Print Assumptions C15_offset_in_range_value.

Theorem C15_offset_in_range_key : forall (s : bytes) (e : perr) (at_ : N),
  parse_key s = PErr e (Some at_) -> (at_ <= N.of_nat (length s))%N.
Proof. exact key_offset_in_range. Qed.
Print Assumptions C15_offset_in_range_key.

Theorem C15_offset_in_range_key_path : forall (s : bytes) (e : perr) (at_ : N),
  parse_key_path s = PErr e (Some at_) -> (at_ <= N.of_nat (length s))%N.
Proof. exact key_path_offset_in_range. Qed.
Print Assumptions C15_offset_in_range_key_path.

(* The message of a rejected document is non-empty (the error has a cause or a context),
   outside the known class: a bare CR at the error offset or right before it. *)
Theorem C15_message : forall (s : bytes) (e : perr) (at_ : option N),
  bare_cr_near_o s at_ = false -> parse_document s = PErr e at_ ->
  e_cause e <> None \/ e_ctx e = true.
Proof. exact message_nonempty. Qed.
Print Assumptions C15_message.

(* ... and inside that class the message IS empty: the known finding C15-empty-message-bare-cr.
   Witness: the 1-byte document CR (CR at the offset) ... *)
Theorem C15_message_refuted :
  exists s e at_, parse_document s = PErr e at_ /\ e_cause e = None /\ e_ctx e = false.
Proof. exact message_refuted_cr. Qed.
Print Assumptions C15_message_refuted.

(* ... and witness  a = [ CR ]  (CR right before the offset, not at it). *)
Theorem C15_message_refuted_array :
  exists s e at_, parse_document s = PErr e (Some at_) /\ e_cause e = None /\ e_ctx e = false
                  /\ bare_cr_b s (N.to_nat at_) = false /\ bare_cr_near s at_ = true.
Proof. exact message_refuted_array_cr. Qed.
Print Assumptions C15_message_refuted_array.

(* The same for the stand-alone entry points (Value::from_str, Key::from_str, Key::parse), which
   run `terminated(P, end_of_input)`.  A complete value / key followed by more input is rejected
   with the context "end of input" (it used to be rejected with an empty message) ... *)
Theorem C15_message_trailing : forall (A : Type) (p : parser A) (s : bytes) (a : A) (i : input),
  p (new_input s) = Ok a i -> rest i <> [] ->
  parse_all (terminated_eoi p) s = Failed (mkErr None true) (pos i)
  /\ parse_all p s = Failed err0 (pos i).
Proof. exact (@parse_all_eoi_trailing_both). Qed.
Print Assumptions C15_message_trailing.

(* ... and nothing else changes: same accepted inputs and results, same panics (none), and a
   rejection keeps its offset and cause and never loses a context. *)
Theorem C15_eoi_same_accepted : forall (A : Type) (p : parser A) (s : bytes) (a : A),
  parse_all (terminated_eoi p) s = Done a <-> parse_all p s = Done a.
Proof. exact (@parse_all_eoi_done). Qed.
Print Assumptions C15_eoi_same_accepted.

Theorem C15_eoi_same_offset : forall (A : Type) (p : parser A) (s : bytes) (e : perr) (at_ : N),
  parse_all (terminated_eoi p) s = Failed e at_ ->
  exists e0, parse_all p s = Failed e0 at_ /\ e_cause e = e_cause e0 /\ (e_ctx e0 = true -> e_ctx e = true).
Proof. exact (@parse_all_eoi_failed). Qed.
Print Assumptions C15_eoi_same_offset.

(* Value::from_str: the message of a rejected value is non-empty outside the same known class as
   for documents (a bare CR at the error offset or right before it) ... *)
Theorem C15_message_value : forall (s : bytes) (e : perr) (at_ : option N),
  bare_cr_near_o s at_ = false -> parse_value_raw s = PErr e at_ ->
  e_cause e <> None \/ e_ctx e = true.
Proof. exact value_message. Qed.
Print Assumptions C15_message_value.

(* ... and the premise is needed: the value  [ CR ]  (the CR right before the offset). *)
Theorem C15_message_value_refuted :
  exists s e at_, parse_value_raw s = PErr e (Some at_) /\ e_cause e = None /\ e_ctx e = false
                  /\ bare_cr_near s at_ = true.
Proof. exact value_message_refuted. Qed.
Print Assumptions C15_message_value_refuted.

(* Key::parse (a dotted key path): every rejection has a message; no side condition. *)
Theorem C15_message_key_path : forall (s : bytes) (e : perr) (at_ : option N),
  parse_key_path s = PErr e at_ -> e_cause e <> None \/ e_ctx e = true.
Proof. exact key_path_message. Qed.
Print Assumptions C15_message_key_path.

(* Key::from_str (one simple key): every rejection has a message; no side condition
   (`simple_key` carries the context Label("key") around its whole dispatch). *)
Theorem C15_message_key : forall (s : bytes) (e : perr) (at_ : option N),
  parse_key s = PErr e at_ -> e_cause e <> None \/ e_ctx e = true.
Proof. exact key_message. Qed.
Print Assumptions C15_message_key.

(* All of it for one rejected document. *)
Theorem C15_located : forall (s : bytes) (e : perr) (at_ : N),
  utf8_valid_b s = true -> parse_document s = PErr e (Some at_) ->
  exists a b r,
    te_span (toml_error_new s e at_) = Some (a, b)
    /\ a <= b /\ b <= length s
    /\ char_boundary_b s (N.of_nat a) = true /\ char_boundary_b s (N.of_nat b) = true
    /\ a <= N.to_nat at_
    /\ render s (a, b) = ROk r
    /\ r_line_num r = lines_before s a + 1
    /\ r_col_num r = chars_since_line_start s a + 1.
Proof. exact located. Qed.
Print Assumptions C15_located.

(* ---- non-vacuity --------------------------------------------------------------------------- *)
(* the 7-byte document  QUOTE e-acute QUOTE SPACE e-acute : rejected at offset 5 (the second
   e-acute), span 5..7, rendered line 1 column 5 — the witness of the repaired defect F8 (was
   column 6) *)
Example C15_ex_f8 :
  let s := [x22; xc3; xa9; x22; x20; xc3; xa9] in
  utf8_valid_b s = true
  /\ (exists e, parse_document s = PErr e (Some 5%N) /\ e_ctx e = true)
  /\ char_span s 5 = (5, 7)
  /\ translate_position s 5 = (0, 4)
  /\ (exists r, render s (5, 7) = ROk r /\ r_line_num r = 1 /\ r_col_num r = 5).
Proof. vm_compute. repeat split; eauto. Qed.

(* end of input after a final newline: an unterminated multi-line string  a = QUOTE QUOTE QUOTE LF
   -> offset = length, line 1 (0-based 0), one past the newline *)
Example C15_ex_eof_newline :
  let s := [x61; x20; x3d; x20; x22; x22; x22; x0a] in
  (exists e, parse_document s = PErr e (Some 8%N) /\ bare_cr_near s 8 = false /\ e_ctx e = true)
  /\ char_span s 8 = (8, 8)
  /\ translate_position s 8 = (0, 8)
  /\ (lines_before s 8, chars_since_line_start s 8) = (0, 8).
Proof. vm_compute. repeat split; eauto. Qed.

(* the stand-alone entry points: the value `1 2`, the key `a b`, the key path `a.b c` are rejected
   where the complete value / key ends, meet the hypotheses of C15_message_value / _key /
   _key_path, and carry the context (before the change: err0, an empty message) *)
Example C15_ex_value_trailing :
  let s := [x31; x20; x32] in
  parse_value_raw s = PErr (mkErr None true) (Some 1%N) /\ bare_cr_near_o s (Some 1%N) = false
  /\ lift_outcome (parse_all value_ s) = PErr err0 (Some 1%N).
Proof. vm_compute. repeat split. Qed.

Example C15_ex_key_trailing :
  let s := [x61; x20; x62] in
  parse_key s = PErr (mkErr None true) (Some 1%N)
  /\ lift_outcome (parse_all simple_key s) = PErr err0 (Some 1%N).
Proof. vm_compute. repeat split. Qed.

Example C15_ex_key_path_trailing :
  let s := [x61; x2e; x62; x20; x63] in
  parse_key_path s = PErr (mkErr None true) (Some 4%N)
  /\ lift_outcome (parse_all key_ s) = PErr err0 (Some 4%N).
Proof. vm_compute. repeat split. Qed.

(* an unterminated basic string as a key is rejected with a context from inside simple_key (not from
   end_of_input) *)
Example C15_ex_key_unterminated :
  parse_key [x22; x61] = PErr (mkErr None true) (Some 2%N).
Proof. vm_compute. reflexivity. Qed.

(* regression: the witnesses of the repaired finding C15-empty-message-key-start (Key::from_str of the
   empty input, of `!`, of a lone CR had an EMPTY message: e_ctx = false) now carry the context *)
Example C15_ex_key_start_repaired :
  parse_key [] = PErr (mkErr None true) (Some 0%N) /\ parse_key [x21] = PErr (mkErr None true) (Some 0%N)
  /\ parse_key [x0d] = PErr (mkErr None true) (Some 0%N).
Proof. exact key_message_former_witnesses. Qed.
