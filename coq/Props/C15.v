(* Props/C15.v — property C15: every rejection is a well-formed, correctly located error.
   Statements only; proofs in Proofs/ErrorPos.v (UTF-8, char_span, translate_position,
   rendering), Proofs/ErrorRange.v (every parser keeps its cursor inside the document) and
   Proofs/ErrorMsg.v (which errors can carry an empty message).

   Offsets: `nat` in Model/Error.v and Spec/Position.v, `N` for the parser's cursor.
   The serde half of the property (deserialization errors carry the offending value's span or
   its key path) is an oracle on the implementation only (lib/props/c15.py, `deerr`). *)
From TV Require Import Base.Prelude Base.Utf8 Base.Winnow Model.Tree Model.Parse Model.Document Model.Error
  Spec.Position Proofs.ErrorPos Proofs.ErrorRange Proofs.ErrorMsg.

(* The line and column computed by translate_position are the specification's, for every
   character boundary of a valid text including the end of input (with and without a final
   newline; at end of input: one past the end of the last line). *)
Theorem C15_position : forall (s : bytes) (i : nat),
  utf8_valid_b s = true -> char_boundary_b s (N.of_nat i) = true -> i <= length s ->
  translate_position s i = (lines_before s i, chars_since_line_start s i).
Proof. exact position_correct. Qed.
Print Assumptions C15_position.

(* winnow's char_span of any offset inside a valid text lies in the text, on character
   boundaries, and starts at or before the offset. *)
Theorem C15_span_ok : forall (s : bytes) (off : nat),
  utf8_valid_b s = true -> off <= length s ->
  let (a, b) := char_span s off in
  a <= b /\ b <= length s /\ char_boundary_b s (N.of_nat a) = true /\ char_boundary_b s (N.of_nat b) = true
  /\ a <= off.
Proof. exact span_ok. Qed.
Print Assumptions C15_span_ok.

(* No slice bound and no usize subtraction inside translate_position can fail, for any input
   and any index. *)
Theorem C15_translate_total : forall (s : bytes) (i : nat),
  translate_position_chk s i = Some (translate_position s i).
Proof. exact translate_position_total. Qed.
Print Assumptions C15_translate_total.

(* Rendering the error at char_span s off reaches no panic site: the line exists
   (`nth(line).expect`), `span.end - span.start` does not underflow. *)
Theorem C15_render_total : forall (s : bytes) (off : nat),
  utf8_valid_b s = true -> off <= length s -> exists r, render s (char_span s off) = ROk r.
Proof. exact render_total. Qed.
Print Assumptions C15_render_total.

(* Every error offset of the document parser (and of the value / key / key-path entry points)
   is inside the document. *)
Theorem C15_offset_in_range : forall (s : bytes) (e : perr) (at_ : N),
  parse_document s = PErr e (Some at_) -> (at_ <= N.of_nat (length s))%N.
Proof. exact document_offset_in_range. Qed.
Print Assumptions C15_offset_in_range.

Theorem C15_offset_in_range_value : forall (s : bytes) (e : perr) (at_ : N),
  parse_value_raw s = PErr e (Some at_) -> (at_ <= N.of_nat (length s))%N.
Proof. exact value_offset_in_range. Qed.
Print Assumptions C15_offset_in_range_value.

Theorem C15_offset_in_range_key : forall (s : bytes) (e : perr) (at_ : N),
  parse_key s = PErr e (Some at_) -> (at_ <= N.of_nat (length s))%N.
Proof. exact key_offset_in_range. Qed.
Print Assumptions C15_offset_in_range_key.

Theorem C15_offset_in_range_key_path : forall (s : bytes) (e : perr) (at_ : N),
  parse_key_path s = PErr e (Some at_) -> (at_ <= N.of_nat (length s))%N.
Proof. exact key_path_offset_in_range. Qed.
Print Assumptions C15_offset_in_range_key_path.

(* The message of a rejected document is non-empty (the error has a cause or a context),
   outside the known class: a bare CR at the error offset or right before it. *)
Theorem C15_message : forall (s : bytes) (e : perr) (at_ : option N),
  bare_cr_near_o s at_ = false -> parse_document s = PErr e at_ ->
  e_cause e <> None \/ e_ctx e = true.
Proof. exact message_nonempty. Qed.
Print Assumptions C15_message.

(* ... and inside that class the message IS empty: the known finding C15-empty-message-bare-cr.
   Witness: the 1-byte document CR (CR at the offset) ... *)
Theorem C15_message_refuted :
  exists s e at_, parse_document s = PErr e at_ /\ e_cause e = None /\ e_ctx e = false.
Proof. exact message_refuted_cr. Qed.
Print Assumptions C15_message_refuted.

(* ... and witness  a = [ CR ]  (CR right before the offset, not at it). *)
Theorem C15_message_refuted_array :
  exists s e at_, parse_document s = PErr e (Some at_) /\ e_cause e = None /\ e_ctx e = false
                  /\ bare_cr_b s (N.to_nat at_) = false /\ bare_cr_near s at_ = true.
Proof. exact message_refuted_array_cr. Qed.
Print Assumptions C15_message_refuted_array.

(* All of it for one rejected document. *)
Theorem C15_located : forall (s : bytes) (e : perr) (at_ : N),
  utf8_valid_b s = true -> parse_document s = PErr e (Some at_) ->
  exists a b r,
    te_span (toml_error_new s e at_) = Some (a, b)
    /\ a <= b /\ b <= length s
    /\ char_boundary_b s (N.of_nat a) = true /\ char_boundary_b s (N.of_nat b) = true
    /\ a <= N.to_nat at_
    /\ render s (a, b) = ROk r
    /\ r_line_num r = lines_before s a + 1
    /\ r_col_num r = chars_since_line_start s a + 1.
Proof. exact located. Qed.
Print Assumptions C15_located.

(* ---- non-vacuity --------------------------------------------------------------------------- *)
(* the 7-byte document  QUOTE e-acute QUOTE SPACE e-acute : rejected at offset 5 (the second
   e-acute), span 5..7, rendered line 1 column 5 — the witness of the repaired defect F8 (was
   column 6) *)
Example C15_ex_f8 :
  let s := [x22; xc3; xa9; x22; x20; xc3; xa9] in
  utf8_valid_b s = true
  /\ (exists e, parse_document s = PErr e (Some 5%N) /\ e_ctx e = true)
  /\ char_span s 5 = (5, 7)
  /\ translate_position s 5 = (0, 4)
  /\ (exists r, render s (5, 7) = ROk r /\ r_line_num r = 1 /\ r_col_num r = 5).
Proof. vm_compute. repeat split; eauto. Qed.

(* end of input after a final newline: an unterminated multi-line string  a = QUOTE QUOTE QUOTE LF
   -> offset = length, line 1 (0-based 0), one past the newline *)
Example C15_ex_eof_newline :
  let s := [x61; x20; x3d; x20; x22; x22; x22; x0a] in
  (exists e, parse_document s = PErr e (Some 8%N) /\ bare_cr_near s 8 = false /\ e_ctx e = true)
  /\ char_span s 8 = (8, 8)
  /\ translate_position s 8 = (0, 8)
  /\ (lines_before s 8, chars_since_line_start s 8) = (0, 8).
Proof. vm_compute. repeat split; eauto. Qed.
