(* Props/C09.v — property C09: no key or table definition is ever silently overwritten or
   merged.  Statements only; the proofs are in Proofs/DefsEquiv*.v.

     spec        Spec/Defs.v      spec_run : list stmt -> Valid tree | Invalid | Undecided (U1)
     code        run_state        ParseState::new, then on_std_header / on_array_header /
                                  on_keyval per statement, then into_document's finalize_table
     erase       forgets key spellings / decor (keeps Key::get()), header decor and spans
     abs_tbl     forgets decor, spans, positions, key spellings; flags -> kinds

   Statement paths are non-empty by construction (MHeader / MKeyVal carry prefix and last key),
   which is what the grammar guarantees (`key` = separated1). *)
From TV Require Import Base.Prelude Base.Winnow Model.Tree Model.Parse Model.Document Spec.Defs.
From TV Require Import Proofs.DefsEquivBase Proofs.DefsEquivSpec Proofs.DefsEquivKv Proofs.DefsEquivMain
                       Proofs.DefsEquivInline.

(* Everything TOML forbids is rejected (as an error, not a panic). *)
Theorem C09_invalid_rejected : forall ms : list mstmt,
  spec_run (map erase ms) = Invalid -> exists c, run_state ms = CErr c.
Proof. exact invalid_rejected. Qed.
Print Assumptions C09_invalid_rejected.

(* Everything TOML permits is accepted and yields the merged tree: same keys, nesting, order,
   values, and the same table kinds. *)
Theorem C09_valid_merged : forall (ms : list mstmt) (t : stree value),
  spec_run (map erase ms) = Valid t -> exists r, run_state ms = COk r /\ abs_tbl r = t.
Proof. exact valid_merged. Qed.
Print Assumptions C09_valid_merged.

(* ... and that tree has unique keys per table, no empty array of tables, no Item::None and no
   dotted array element (so abs_tbl loses nothing but decoration on it). *)
Theorem C09_valid_wellformed : forall (ms : list mstmt) (t : stree value),
  spec_run (map erase ms) = Valid t ->
  exists r, run_state ms = COk r /\ abs_tbl r = t /\ mok_tbl r = true /\ swf_tree t = true.
Proof. exact valid_wellformed. Qed.
Print Assumptions C09_valid_wellformed.

(* For ALL statement sequences, class U1 included: assert!(root.is_empty()), unreachable!() on
   Item::None, the empty array of tables and the three debug_assert!s are unreachable. *)
Theorem C09_no_panic : forall (ms : list mstmt) (s : site), run_state ms <> CPanic s.
Proof. exact no_panic. Qed.
Print Assumptions C09_no_panic.

(* For ALL statement sequences, class U1 included, the verdict and the resulting tree depend
   only on the decoded keys (quoted vs bare spelling, decor and spans are irrelevant). *)
Theorem C09_spelling_irrelevant : forall ms1 ms2 : list mstmt,
  map erase ms1 = map erase ms2 ->
  match run_state ms1, run_state ms2 with
  | COk r1, COk r2 => abs_tbl r1 = abs_tbl r2
  | CErr _, CErr _ => True
  | _, _ => False
  end.
Proof. exact spelling_irrelevant. Qed.
Print Assumptions C09_spelling_irrelevant.

(* What the pinned code does on every sequence, U1 included: it is `code_run`, the spec with
   the U1 case resolved as "reject if the super-table would receive the key, otherwise walk
   through it"; `code_run` is never Undecided and equals `spec_run` wherever that decides. *)
Theorem C09_code_verdict : forall ms : list mstmt,
  match code_run (map erase ms) with
  | Valid t => exists r, run_state ms = COk r /\ abs_tbl r = t
  | Invalid => exists c, run_state ms = CErr c
  | Undecided => False
  end.
Proof. exact code_verdict. Qed.
Print Assumptions C09_code_verdict.

Theorem C09_code_refines_spec : forall l : list (stmt value),
  spec_run l <> Undecided -> code_run l = spec_run l.
Proof. exact spec_run_code_run. Qed.
Print Assumptions C09_code_refines_spec.

Theorem C09_u1_classifier : forall l : list (stmt value), u1_b l = true <-> spec_run l = Undecided.
Proof. exact u1_b_spec. Qed.
Print Assumptions C09_u1_classifier.

(* Inline tables: table_from_pairs on the pairs of one inline table (values are Item::Value
   and not marked implicit, which is what the parser passes) follows the same rules inside
   one closed table; the `entry_format` panic site is unreachable. *)
Theorem C09_inline : forall l : list ipair,
  pairs_closed l ->
  match inline_run (erase_pairs l) with
  | Some t => exists m, table_from_pairs_loop [] (to_pairs l) = COk m /\ absi_items m = t
  | None => exists c, table_from_pairs_loop [] (to_pairs l) = CErr c
  end.
Proof. exact inline_correct. Qed.
Print Assumptions C09_inline.

Theorem C09_inline_no_panic : forall (l : list ipair) (s : site),
  pairs_closed l -> table_from_pairs_loop [] (to_pairs l) <> CPanic s.
Proof. exact inline_no_panic. Qed.
Print Assumptions C09_inline_no_panic.

(* ---- class U1: outside the claims above, recorded so that a change is visible --------------- *)
(* [a.b.c] / [a] / b.x = 1 : the pinned code rejects *)
Definition u1_first : list mstmt :=
  [m_hdr false [x61; x62; x63]; m_hdr false [x61]; m_kv [x62; x78] (tval 1)].
(* [a.b.c] / [a] / b.q.x = 1 : the pinned code accepts *)
Definition u1_second : list mstmt :=
  [m_hdr false [x61; x62; x63]; m_hdr false [x61]; m_kv [x62; x71; x78] (tval 1)].

Example C09_u1_examples :
  u1_b (map erase u1_first) = true /\ run_state u1_first = CErr DuplicateKey /\
  u1_b (map erase u1_second) = true /\
  (exists r, run_state u1_second = COk r /\
     abs_tbl r = [([x61], NTab KHeader [([x62], NTab KSuper [([x63], NTab KHeader []);
                                                            ([x71], NTab KDotted [([x78], NVal (tval 1))])])])]).
Proof.
  split; [vm_compute; reflexivity|]. split; [vm_compute; reflexivity|].
  split; [vm_compute; reflexivity|]. eexists. split; vm_compute; reflexivity.
Qed.

(* ---- non-vacuity ------------------------------------------------------------------------------ *)
(*  [a.b.c]      x = 1
    [a]          d.e = 2     d.f = 3          super-table after its sub-table; dotted keys
    [a.d.g]      y = 4                        sub-table under a table made by dotted keys
    [[t]]        n.m = 5
    [t.s]        z = 6                        table nested in the newest element
    [[t]]
    [t.s]        z = 7 *)
Definition ex_valid : list mstmt :=
  [ m_hdr false [x61; x62; x63];  m_kv [x78] (tval 1);
    m_hdr false [x61];            m_kv [x64; x65] (tval 2); m_kv [x64; x66] (tval 3);
    m_hdr false [x61; x64; x67];  m_kv [x79] (tval 4);
    m_hdr true [x74];             m_kv [x6e; x6d] (tval 5);
    m_hdr false [x74; x73];       m_kv [x7a] (tval 6);
    m_hdr true [x74];
    m_hdr false [x74; x73];       m_kv [x7a] (tval 7) ].

Definition ex_valid_tree : stree value :=
  [([x61], NTab KHeader
      [([x62], NTab KSuper [([x63], NTab KHeader [([x78], NVal (tval 1))])]);
       ([x64], NTab KDotted [([x65], NVal (tval 2)); ([x66], NVal (tval 3));
                             ([x67], NTab KHeader [([x79], NVal (tval 4))])])]);
   ([x74], NAot [ [([x6e], NTab KDotted [([x6d], NVal (tval 5))]);
                   ([x73], NTab KHeader [([x7a], NVal (tval 6))])];
                  [([x73], NTab KHeader [([x7a], NVal (tval 7))])] ])].

Example C09_ex_valid :
  spec_run (map erase ex_valid) = Valid ex_valid_tree /\
  exists r, run_state ex_valid = COk r /\ abs_tbl r = ex_valid_tree.
Proof. split; [vm_compute; reflexivity|]. eexists. split; vm_compute; reflexivity. Qed.

(* one invalid sequence of each forbidden kind: the spec says Invalid, the code errs *)
Definition rejected (ms : list mstmt) (c : custom) : Prop :=
  spec_run (map erase ms) = Invalid /\ run_state ms = CErr c.
Ltac rej := split; vm_compute; reflexivity.

Definition v_inline : value := inline_new.                                          (* {}  *)
Definition v_array : value := VArray [] REmpty false decor_default None.            (* []  *)

(* a = 1 / a = 2 *)
Example C09_ex_duplicate_key : rejected [m_kv [x61] (tval 1); m_kv [x61] (tval 2)] DuplicateKey.
Proof. rej. Qed.
(* a.b = 1 / a.b = 2 *)
Example C09_ex_duplicate_dotted_key : rejected [m_kv [x61; x62] (tval 1); m_kv [x61; x62] (tval 2)] DuplicateKey.
Proof. rej. Qed.
(* [a] / [a] *)
Example C09_ex_header_repeated : rejected [m_hdr false [x61]; m_hdr false [x61]] DuplicateKey.
Proof. rej. Qed.
(* [a] / [b] / [a] *)
Example C09_ex_header_repeated_later :
  rejected [m_hdr false [x61]; m_hdr false [x62]; m_hdr false [x61]] DuplicateKey.
Proof. rej. Qed.
(* [a.b] / [a] / b.x = 1 : a dotted key reopening an explicitly defined table *)
Example C09_ex_dotted_reopens_header :
  rejected [m_hdr false [x61; x62]; m_hdr false [x61]; m_kv [x62; x78] (tval 1)] DuplicateKey.
Proof. rej. Qed.
(* a.b = 1 / [a] : a header reopening a table created by dotted keys *)
Example C09_ex_header_reopens_dotted : rejected [m_kv [x61; x62] (tval 1); m_hdr false [x61]] DuplicateKey.
Proof. rej. Qed.
(* [a] / b.c = 1 / [a.b] : the same, below a section *)
Example C09_ex_header_reopens_dotted_sub :
  rejected [m_hdr false [x61]; m_kv [x62; x63] (tval 1); m_hdr false [x61; x62]] DuplicateKey.
Proof. rej. Qed.
(* a = {} / a.b = 1   and   a = {} / [a]   and   a = {} / [a.b] : extending an inline table *)
Example C09_ex_extend_inline_dotted : rejected [m_kv [x61] v_inline; m_kv [x61; x62] (tval 1)] ExtendWrongType.
Proof. rej. Qed.
Example C09_ex_extend_inline_header : rejected [m_kv [x61] v_inline; m_hdr false [x61]] DuplicateKey.
Proof. rej. Qed.
Example C09_ex_extend_inline_subheader : rejected [m_kv [x61] v_inline; m_hdr false [x61; x62]] ExtendWrongType.
Proof. rej. Qed.
(* a = [] / [[a]] : appending to a static array *)
Example C09_ex_extend_static_array : rejected [m_kv [x61] v_array; m_hdr true [x61]] DuplicateKey.
Proof. rej. Qed.
(* a = 1 / a.b = 2   and   a = 1 / [a.b] : extending a scalar *)
Example C09_ex_extend_scalar_dotted : rejected [m_kv [x61] (tval 1); m_kv [x61; x62] (tval 2)] ExtendWrongType.
Proof. rej. Qed.
Example C09_ex_extend_scalar_header : rejected [m_kv [x61] (tval 1); m_hdr false [x61; x62]] ExtendWrongType.
Proof. rej. Qed.
(* [a] / [[a]]   and   [a.b] / [[a]]   and   a = 1 / [[a]]   and   [[a]] / [a] *)
Example C09_ex_aot_vs_table : rejected [m_hdr false [x61]; m_hdr true [x61]] DuplicateKey.
Proof. rej. Qed.
Example C09_ex_aot_vs_super_table : rejected [m_hdr false [x61; x62]; m_hdr true [x61]] DuplicateKey.
Proof. rej. Qed.
Example C09_ex_aot_vs_value : rejected [m_kv [x61] (tval 1); m_hdr true [x61]] DuplicateKey.
Proof. rej. Qed.
Example C09_ex_table_vs_aot : rejected [m_hdr true [x61]; m_hdr false [x61]] DuplicateKey.
Proof. rej. Qed.
(* [[a.b]] / [a] / b.x = 1   and   b.c.x = 1 : a dotted key reaching into an array of tables *)
Example C09_ex_dotted_into_aot :
  rejected [m_hdr true [x61; x62]; m_hdr false [x61]; m_kv [x62; x78] (tval 1)] DuplicateKey.
Proof. rej. Qed.
Example C09_ex_dotted_through_aot :
  rejected [m_hdr true [x61; x62]; m_hdr false [x61]; m_kv [x62; x63; x78] (tval 1)] DuplicateKey.
Proof. rej. Qed.

(* inline tables:  { a.b = 1, a.c = 2, d = {} }  is accepted;  { a.b = 1, a.b = 2 },
   { a = {}, a.b = 1 } and { a = 1, a = 2 } are rejected *)
Example C09_ex_inline_valid :
  let l : list ipair := [([tkey x61], (tkey x62, tval 1)); ([tkey x61], (tkey x63, tval 2)); ([], (tkey x64, v_inline))] in
  pairs_closed l /\
  inline_run (erase_pairs l) =
    Some [([x61], NTab KDotted [([x62], NVal (tval 1)); ([x63], NVal (tval 2))]); ([x64], NVal v_inline)] /\
  exists m, table_from_pairs_loop [] (to_pairs l) = COk m.
Proof.
  split; [repeat constructor|]. split; [vm_compute; reflexivity|]. eexists. vm_compute. reflexivity.
Qed.

Example C09_ex_inline_invalid :
  let l1 : list ipair := [([tkey x61], (tkey x62, tval 1)); ([tkey x61], (tkey x62, tval 2))] in
  let l2 : list ipair := [([], (tkey x61, v_inline)); ([tkey x61], (tkey x62, tval 1))] in
  let l3 : list ipair := [([], (tkey x61, tval 1)); ([], (tkey x61, tval 2))] in
  (pairs_closed l1 /\ inline_run (erase_pairs l1) = None /\ table_from_pairs_loop [] (to_pairs l1) = CErr DuplicateKey) /\
  (pairs_closed l2 /\ inline_run (erase_pairs l2) = None /\ table_from_pairs_loop [] (to_pairs l2) = CErr DuplicateKey) /\
  (pairs_closed l3 /\ inline_run (erase_pairs l3) = None /\ table_from_pairs_loop [] (to_pairs l3) = CErr DuplicateKey).
Proof.
  repeat split; try (repeat constructor; fail); vm_compute; reflexivity.
Qed.
