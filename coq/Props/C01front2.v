(* Props/C01front2.v — property C01, the serde front ends, without the hypothesis `tree_ready` of
   Props/C01front.v: every parsed document's value tree is ready, and it is the data of the document.

     tree_of_doc d     eng-c07's value tree of the parsed document (Extract/SpannedTree.v, spans stripped)
     abs_doc d         the data of the document (Props/C02doc.v: the tree its statements denote, C02_tree)
     value_tree T      a Spec/Defs.v tree of data as a toml value: table kinds and the array-of-tables / array
                       distinction forgotten, keys, nesting, order and scalars kept; None exactly when T holds a
                       float (floats are symbolic decimals in the parser model, binary64 bit patterns in tomlval:
                       a document with a float has no value tree in Model/FrontEnds.v — FUnmodelled — and stays
                       outside these statements)
     doc_private / doc_private_below_root / doc_has_float   the private key "$__toml_private_datetime" and floats,
                       read off the data

   Statements only; proofs in Proofs/FrontEndsReady.v. *)
From TV Require Import Base.Prelude Base.Utf8 Model.Datetime Model.Tree Model.Document Spec.SerdeData Spec.Defs Spec.Syntax.
From TV Require Import Model.De Model.SerdeRoutes Model.FrontEnds Proofs.GrammarBase Proofs.FrontEnds Proofs.FrontEndsReady.

(* 1. the value tree of a parsed document: distinct keys in every table (header tables, tables made by dotted
      keys, inline tables), every date-time in range *)
Theorem C01_parse_tree_ready : forall s d x, parse_document s = POk d -> tree_of_doc d = Some x -> tree_ready x = true.
Proof. exact parse_tree_ready. Qed.
Print Assumptions C01_parse_tree_ready.

(* 2. the link: it is the data of the document, as a toml value; there is none exactly when a float is inside *)
Theorem C01_tree_is_data : forall s d, parse_document s = POk d -> tree_of_doc d = value_tree (abs_doc d).
Proof. exact tree_of_doc_abs. Qed.
Print Assumptions C01_tree_is_data.

Theorem C01_no_tree_iff_float : forall T, value_tree T = None <-> doc_has_float T = true.
Proof. exact value_tree_none. Qed.
Print Assumptions C01_no_tree_iff_float.

Theorem C01_private_key_on_data : forall T x, value_tree T = Some x ->
  has_private_key x = doc_private T /\ has_private_key_below_root x = doc_private_below_root T.
Proof. exact value_tree_private. Qed.
Print Assumptions C01_private_key_on_data.

(* 3. A DOCUMENT THE PARSER ACCEPTS is accepted by toml::from_str::<Table> / str::parse::<Table> /
      toml_edit::de::from_str / from_slice unless a table below the root spells the private key, and by
      toml::from_str::<Value> unless any table does — and decoded to the document's tree, tables sorted *)
Theorem C01_frontends : forall s d x,
  parse_document s = POk d -> tree_of_doc d = Some x ->
  (has_private_key_below_root x = false ->
     toml_from_str_table s = FOk (canon_value true x) /\ edit_from_str_table s = FOk (canon_value true x) /\
     (utf8_valid_b s = true -> from_slice_table s = FOk (canon_value true x))) /\
  (has_private_key x = false -> toml_from_str_value s = FOk (canon_value true x)).
Proof. exact frontends_accept. Qed.
Print Assumptions C01_frontends.

(* the same in terms of the data of the document only *)
Theorem C01_frontends_data : forall s d,
  parse_document s = POk d -> doc_has_float (abs_doc d) = false ->
  exists x, value_tree (abs_doc d) = Some x /\
    (doc_private_below_root (abs_doc d) = false ->
       toml_from_str_table s = FOk (canon_value true x) /\ edit_from_str_table s = FOk (canon_value true x) /\
       (utf8_valid_b s = true -> from_slice_table s = FOk (canon_value true x))) /\
    (doc_private (abs_doc d) = false -> toml_from_str_value s = FOk (canon_value true x)).
Proof. exact frontends_accept_data. Qed.
Print Assumptions C01_frontends_data.

(* a front end refuses a parsed document ONLY because of a private key (the converse direction — whatever a
   front end accepts the parser accepts — is C01_frontends_sound of Props/C01front.v) *)
Theorem C01_frontends_classifier : forall s d x,
  parse_document s = POk d -> tree_of_doc d = Some x ->
  (toml_from_str_table s = FDeErr -> has_private_key_below_root x = true) /\
  (toml_from_str_value s = FDeErr -> has_private_key x = true).
Proof. exact frontends_classifier. Qed.
Print Assumptions C01_frontends_classifier.

(* the exception is real (known finding private-datetime-key, F14; witness of Props/C01front.v) *)
Theorem C01_frontends_refuted2 :
  exists d x, parse_document w_private_refused = POk d /\ tree_of_doc d = Some x /\
              has_private_key_below_root x = true /\
              toml_from_str_table w_private_refused = FDeErr /\ toml_from_str_value w_private_refused = FDeErr /\
              from_slice_table w_private_refused = FDeErr.
Proof. destruct private_key_refused as (d & x & H1 & H2 & _ & H4 & H5 & H6 & H7). exists d, x. auto 10. Qed.
Print Assumptions C01_frontends_refuted2.
