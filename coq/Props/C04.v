(* Props/C04.v — No input makes the library panic, abort or hang.

   The model (Base/Winnow.v, Model/*.v) has one explicit `Panic site` result for every place where the
   Rust code can panic (expect/unwrap/unreachable!/assert!/slice index/from_utf8_unchecked on non-UTF-8,
   winnow's no-progress assertion, RecursionCheck underflow) plus the model artefact `P_out_of_fuel`.
   The theorems say no byte string reaches any of them through any entry point, that every loop started
   with fuel `S (length input)` finishes within that fuel (so the work is bounded by the input length:
   no hang), that the parse-state machine never leaves its invariant, and that rendering an error at
   any in-range offset reaches no panic site.  Proofs: Proofs/NoPanic{Base,Lex,Value,State,Doc,Top}.v,
   Proofs/ErrorPos.v, Proofs/ErrorRange.v.

   Not covered by theorems (measured by the correspondence harness instead, see lib/props/c04.py):
   wall-clock time, stack use (C05), the standalone toml_datetime parser's u8/u16 arithmetic, serde
   deserialisers, Debug/Clone/Drop. *)
From TV Require Import Base.Prelude Base.Utf8 Base.Winnow Gen.Consts.
From TV Require Import Model.Trivia Model.Strings Model.Datetime Model.Numbers Model.Tree Model.Parse Model.Document Model.Error.
From TV Require Import Proofs.NoPanicBase Proofs.NoPanicLex Proofs.NoPanicValue Proofs.NoPanicState Proofs.NoPanicDoc Proofs.NoPanicTop.
From TV Require Import Proofs.ErrorPos Proofs.ErrorRange.

(* every entry point of the parser, on EVERY byte string (valid UTF-8 or not): never a panic site, in
   particular never out of fuel, never winnow's no-progress assertion, never from_utf8_unchecked on
   bytes that are not UTF-8 *)
Theorem C04_parse_total : forall (s : bytes) (st : site),
  parse_document s <> PPanic st /\ parse_value_raw s <> PPanic st
  /\ parse_key s <> PPanic st /\ parse_key_path s <> PPanic st.
Proof. exact entry_points_total. Qed.
Print Assumptions C04_parse_total.

(* every token parser, started anywhere (any rest, any offset, any depth counter) *)
Theorem C04_lexical_total : forall (i : input) (s : site),
  ws i <> Panic s /\ comment i <> Panic s /\ newline i <> Panic s /\ ws_newline i <> Panic s
  /\ ws_newlines i <> Panic s /\ ws_comment_newline i <> Panic s /\ line_ending i <> Panic s
  /\ line_trailing i <> Panic s
  /\ basic_string i <> Panic s /\ ml_basic_string i <> Panic s /\ literal_string i <> Panic s
  /\ ml_literal_string i <> Panic s /\ string_ i <> Panic s
  /\ integer i <> Panic s /\ float i <> Panic s /\ true_ i <> Panic s /\ false_ i <> Panic s
  /\ date_time i <> Panic s /\ simple_key i <> Panic s /\ key_ i <> Panic s.
Proof. exact lexical_total_plain. Qed.
Print Assumptions C04_lexical_total.

Theorem C04_value_total : forall (i : input) (s : site), value_ i <> Panic s.
Proof. exact value_total_plain. Qed.
Print Assumptions C04_value_total.

Theorem C04_document_total : forall (i : input) (s : site), document i <> Panic s.
Proof. exact document_total_plain. Qed.
Print Assumptions C04_document_total.

(* termination: the loop combinators over ARBITRARY element parsers that only ever consume input
   (`mono`), make progress and are themselves panic-free never run out of the fuel
   `S (length (rest i))` they are started with and never hit winnow's no-progress assertion *)
Theorem C04_loops_total :
  (forall A (p : parser A), mono p -> mono (repeat0 p) /\ mono (repeat1 p))
  /\ (forall A S (p : parser A) (sep : parser S), mono p -> mono sep -> mono (separated0 p sep) /\ mono (separated1 p sep))
  /\ (forall A (p : parser A), mono p -> progress p -> safe p -> safe (repeat0 p) /\ safe (repeat1 p))
  /\ (forall A S (p : parser A) (sep : parser S), mono p -> mono sep -> progress sep -> safe p -> safe sep ->
        safe (separated0 p sep) /\ safe (separated1 p sep))
  /\ (forall p, mono p -> progress p -> safe p -> safe (chunks p)).
Proof. exact loops_total. Qed.
Print Assumptions C04_loops_total.

(* what `safe`, `mono`, `progress` mean, in terms of the model only *)
Theorem C04_judgements_meaning :
  (forall A (p : parser A), safe p <-> forall i s, p i <> Panic s)
  /\ (forall A (p : parser A), mono p <->
        forall i a i', p i = Ok a i' ->
          exists t, rest i = t ++ rest i' /\ pos i' = (pos i + N.of_nat (length t))%N /\ depth i' = depth i)
  /\ (forall A (p : parser A), progress p <-> forall i a i', p i = Ok a i' -> length (rest i') < length (rest i)).
Proof. exact judgements_meaning. Qed.
Print Assumptions C04_judgements_meaning.

(* the parse-state machine (state.rs) keeps its invariant and reaches none of its expect / unwrap /
   unreachable! / assert! sites from any reachable state *)
Theorem C04_state_machine_total :
  inv state_new
  /\ (forall st sp, inv st -> inv (on_ws st sp))
  /\ (forall st path k v, inv st ->
        match on_keyval_sp st path k (IValue v) with COk st' => inv st' | CErr _ => True | CPanic _ => False end)
  /\ (forall ia st path trailing sp, inv st -> path <> [] ->
        match on_header ia st path trailing sp with COk st' => inv st' | CErr _ => True | CPanic _ => False end)
  /\ (forall st, inv st -> match finalize_table st with CPanic _ => False | _ => True end).
Proof. exact state_machine_total. Qed.
Print Assumptions C04_state_machine_total.

(* rendering the error: translate_position's slices and subtractions cannot fail, and Display for
   TomlError reaches no panic site for any offset inside the document; every error offset the parser
   reports IS inside the document *)
Theorem C04_translate_total : forall (s : bytes) (i : nat),
  translate_position_chk s i = Some (translate_position s i).
Proof. exact translate_position_total. Qed.
Print Assumptions C04_translate_total.

Theorem C04_error_render : forall (s : bytes) (off : nat),
  utf8_valid_b s = true -> off <= length s -> exists r, render s (char_span s off) = ROk r.
Proof. exact render_total. Qed.
Print Assumptions C04_error_render.

Theorem C04_error_offset_in_range : forall (s : bytes) (e : perr) (at_ : N),
  parse_document s = PErr e (Some at_) -> (at_ <= N.of_nat (length s))%N.
Proof. exact document_offset_in_range. Qed.
Print Assumptions C04_error_offset_in_range.

(* the statements are not vacuous: a document with every kind of construct, and three malformed inputs
   (invalid UTF-8, unterminated string, bare CR) all come back as a value or an error *)
Example ex_ok : exists d, parse_document
  [x61; x20; x3d; x20; x5b; x31; x2c; x20; x7b; x62; x20; x3d; x20; x22; x5c; x6e; x22; x7d; x5d; x0a; x5b; x74; x5d; x0a] = POk d.
Proof. eexists. vm_compute. reflexivity. Qed.
Example ex_bad_utf8 : exists e a, parse_document [x61; x20; x3d; x20; x22; xff; x22] = PErr e a.
Proof. eexists. eexists. vm_compute. reflexivity. Qed.
Example ex_unterminated : exists e a, parse_document [x61; x20; x3d; x20; x22; x22; x22; x5c] = PErr e a.
Proof. eexists. eexists. vm_compute. reflexivity. Qed.
Example ex_bare_cr : exists e a, parse_document [x0d] = PErr e a.
Proof. eexists. eexists. vm_compute. reflexivity. Qed.
