(* Props/C05.v — Nesting is bounded.  First layer: the limit constant of the current source and the
   shape of RecursionCheck (checked by the translator) give: `check_recursion` refuses to enter
   level LIMIT, and `check_depth` refuses key paths of LIMIT or more segments. *)
From TV Require Import Base.Prelude Base.Winnow Gen.Consts Model.Tree Model.Parse.

Lemma check_recursion_refuses {A} (p : parser A) i :
  LIMIT <= S (depth i) -> exists i', check_recursion p i = Cut (err_of RecursionLimit) i'.
Proof.
  intro H. unfold check_recursion. cbn [depth set_depth].
  destruct (Nat.leb LIMIT (S (depth i))) eqn:E.
  - eexists; reflexivity.
  - apply Nat.leb_gt in E. lia.
Qed.

Theorem C05_enter_limit : forall (A : Type) (p : parser A) i,
  LIMIT <= S (depth i) -> exists i', check_recursion p i = Cut (err_of RecursionLimit) i'.
Proof. exact @check_recursion_refuses. Qed.
Print Assumptions C05_enter_limit.

Theorem C05_key_path_limit : forall n, LIMIT <= n -> check_depth n = true.
Proof. intros n H. unfold check_depth. apply Nat.leb_le. exact H. Qed.
Print Assumptions C05_key_path_limit.

(* the recursion depth seen by a sub-parser never exceeds LIMIT - 1 *)
Theorem C05_depth_inside : forall (A : Type) (p : parser A) i a i',
  check_recursion p i = Ok a i' -> S (depth i) < LIMIT.
Proof.
  intros A p i a i' H. unfold check_recursion in H. cbn [depth set_depth] in H.
  destruct (Nat.leb LIMIT (S (depth i))) eqn:E; [discriminate|]. apply Nat.leb_gt in E. exact E.
Qed.
Print Assumptions C05_depth_inside.
