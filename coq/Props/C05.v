(* Props/C05.v — Nesting is bounded so no document can exhaust the stack.

   For every input, either it is rejected or the nesting depth of the decoded structure is bounded
   by a constant that depends only on the recursion limit (LIMIT = 80, generated from the source):

       value parsed on its own or as a key's value       <= 2 * LIMIT - 3 = 157   (attained)
       inline table built by table_from_pairs            <=     LIMIT - 1 =  79   (attained)
       whole document (tbl_depth: root table = 1,
         child table +1, array-of-tables element +2)     <= 5 * LIMIT - 6 = 394   (attained, 7 KB)

   however arrays, inline tables, dotted keys, table headers and arrays of tables are combined.
   Every single construct nested n < LIMIT times is accepted; nested n >= LIMIT times it is rejected
   with the recursion-limit error (sweep n <= LIMIT + 40 for the five constructs; every n, by
   induction, for arrays and inline tables).  Proofs: Proofs/Depth{Base,Lex,Value,Doc,Limit,Sweep}.v.

   What is NOT covered here (measured by the harness instead): the bytes of machine stack one level
   of the real recursion costs, and the consumers (print, clone, drop, Debug, serde). *)
From Coq Require Import List Bool Arith NArith Lia.
From Coq.Strings Require Import Byte.
From TV Require Import Base.Prelude Base.Winnow Gen.Consts Model.Tree Model.Parse Model.Document.
From TV Require Import Proofs.DepthBase Proofs.DepthValue Proofs.DepthDoc Proofs.DepthLimit Proofs.DepthSweep.
Import ListNotations.

(* ---- first layer: the shape of RecursionCheck ---------------------------------------------- *)
Theorem C05_enter_limit : forall (A : Type) (p : parser A) i,
  LIMIT <= S (depth i) -> exists i', check_recursion p i = Cut (err_of RecursionLimit) i'.
Proof. exact @check_recursion_refuses. Qed.
Print Assumptions C05_enter_limit.

Theorem C05_key_path_limit : forall n, LIMIT <= n -> check_depth n = true.
Proof. exact (fun n => proj2 (check_depth_true n)). Qed.
Print Assumptions C05_key_path_limit.

(* the recursion depth seen by a sub-parser never exceeds LIMIT - 1 *)
Theorem C05_depth_inside : forall (A : Type) (p : parser A) i a i',
  check_recursion p i = Ok a i' -> S (depth i) < LIMIT.
Proof. exact @check_recursion_inside. Qed.
Print Assumptions C05_depth_inside.

(* RecursionCheck::enter / exit are balanced: a successful value leaves the counter where it was *)
Theorem C05_counter_restored : forall fuel i v i', value_f fuel i = Ok v i' -> depth i' = depth i.
Proof. exact dp_value_f. Qed.
Print Assumptions C05_counter_restored.

(* an accepted key path (dotted key or header) has fewer than LIMIT segments *)
Theorem C05_key_path_bound : forall i kp i', key_ i = Ok kp i' -> length kp < LIMIT.
Proof. exact key_ok. Qed.
Print Assumptions C05_key_path_bound.

(* ---- 1. the per-pair depth check of table_from_pairs (the F12 repair) ----------------------- *)
(* when every check passes, the loop is the unchecked loop (used by the C09 proofs) *)
Theorem C05_loop_d_agrees : forall pairs m,
  (forall p k v, In (p, (k, v)) pairs -> check_depth (length p + 1 + item_depth v) = false) ->
  table_from_pairs_loop_d m pairs = table_from_pairs_loop m pairs.
Proof. exact loop_d_agrees. Qed.
Print Assumptions C05_loop_d_agrees.

(* when the checked loop succeeds, every check passed and the unchecked loop gives the same table *)
Theorem C05_loop_d_ok : forall pairs m m',
  table_from_pairs_loop_d m pairs = COk m' ->
  table_from_pairs_loop m pairs = COk m' /\
  (forall p k v, In (p, (k, v)) pairs -> length p + 1 + item_depth v < LIMIT).
Proof.
  exact (fun pairs m m' H =>
           conj (loop_d_ok_agrees pairs m m' H)
                (fun p k v Hin => proj1 (check_depth_false _) (loop_d_ok_checks pairs m m' H p k v Hin))).
Qed.
Print Assumptions C05_loop_d_ok.

(* ---- 2. inline tables ------------------------------------------------------------------------ *)
Theorem C05_inline_depth_bound : forall pairs pre v,
  table_from_pairs pairs pre = TmOk v -> value_depth v <= LIMIT - 1.
Proof. exact inline_depth_bound. Qed.
Print Assumptions C05_inline_depth_bound.

(* ---- 3. values -------------------------------------------------------------------------------- *)
(* relative to the recursion counter at the start of the value *)
Theorem C05_value_depth_bound : forall fuel i v i',
  value_f fuel i = Ok v i' -> value_depth v <= 2 * LIMIT - 3 - depth i.
Proof. exact value_depth_bound_rel. Qed.
Print Assumptions C05_value_depth_bound.

Theorem C05_value_depth_bound_entry : forall s v,
  parse_value_raw s = POk v -> value_depth v <= 2 * LIMIT - 3.
Proof. exact parse_value_depth. Qed.
Print Assumptions C05_value_depth_bound_entry.

(* ---- 4. documents ------------------------------------------------------------------------------ *)
(* DEPTH_BOUND = 5 * LIMIT - 6 *)
Theorem C05_depth_bound : forall s d,
  parse_document s = POk d -> tbl_depth (doc_root d) <= DEPTH_BOUND.
Proof. exact document_depth_bound. Qed.
Print Assumptions C05_depth_bound.

Example C05_DEPTH_BOUND_is : DEPTH_BOUND = 5 * LIMIT - 6 /\ DEPTH_BOUND = 394.
Proof. split; reflexivity. Qed.

(* ---- 5. below the limit: accepted; at the limit: the recursion-limit error --------------------- *)
(* every single construct nested n < LIMIT times is accepted (stronger than n <= LIMIT - 2) ... *)
Theorem C05_below_accepted : forall n, 1 <= n < LIMIT ->
  accepted (nested_arrays n) = true /\ accepted (nested_inline n) = true /\
  accepted (dotted_key n) = true /\ accepted (header_path n) = true /\ accepted (aot_path n) = true.
Proof. exact below_accepted. Qed.
Print Assumptions C05_below_accepted.

(* ... and decodes to the expected depth *)
Theorem C05_below_depths : forall n, 1 <= n < LIMIT ->
  depth_of (nested_arrays n) = Some (n + 1) /\ depth_of (nested_inline n) = Some (n + 1) /\
  depth_of (dotted_key n) = Some n /\ depth_of (header_path n) = Some (n + 1) /\
  depth_of (aot_path n) = Some (n + 2).
Proof. exact below_depths. Qed.
Print Assumptions C05_below_depths.

(* finite sweep LIMIT .. LIMIT + 40, all five constructs *)
Theorem C05_limit_error : forall n, LIMIT <= n <= LIMIT + 40 ->
  limit_err (nested_arrays n) = true /\ limit_err (nested_inline n) = true /\
  limit_err (dotted_key n) = true /\ limit_err (header_path n) = true /\ limit_err (aot_path n) = true.
Proof. exact limit_error_sweep. Qed.
Print Assumptions C05_limit_error.

(* every n >= LIMIT, whatever follows the opening brackets / braces *)
Theorem C05_limit_error_arrays : forall n tl, LIMIT <= n ->
  exists at_, parse_document ([x61; x3d] ++ repeat x5b n ++ tl) = PErr (err_of RecursionLimit) (Some at_).
Proof. exact doc_arrays_limit. Qed.
Print Assumptions C05_limit_error_arrays.

Theorem C05_limit_error_inline : forall n tl, LIMIT <= n ->
  exists at_, parse_document ([x61; x3d] ++ braces n ++ tl) = PErr (err_of RecursionLimit) (Some at_).
Proof. exact doc_inlines_limit. Qed.
Print Assumptions C05_limit_error_inline.

(* ---- examples ------------------------------------------------------------------------------------ *)
(* the shapes really are what their names say *)
Example C05_shapes :
  nested_arrays 2 = [x61; x3d; x5b; x5b; x5d; x5d]                              (* a=[[]] *)
  /\ nested_inline 2 = [x61; x3d; x7b; x6b; x3d; x7b; x6b; x3d; x31; x7d; x7d]  (* a={k={k=1}} *)
  /\ dotted_key 3 = [x6b; x2e; x6b; x2e; x6b; x3d; x31]                          (* k.k.k=1 *)
  /\ header_path 2 = [x5b; x6b; x2e; x6b; x5d]                                   (* [k.k] *)
  /\ aot_path 2 = [x5b; x5b; x6b; x2e; x6b; x5d; x5d]                            (* [[k.k]] *)
  /\ f12 2 2 = [x61; x3d; x7b; x6b; x2e; x6b; x3d; x7b; x6b; x2e; x6b; x3d; x31; x7d; x7d]. (* a={k.k={k.k=1}} *)
Proof. repeat split; reflexivity. Qed.

(* F12: inline tables x dotted keys.  3 levels x 79 segments decoded to depth 237 before the
   repair; 40 x 79 (6.4 KB) to 3160.  Both are now refused with the recursion-limit error; so is the
   smallest product that reaches the limit (2 x 40). *)
Example C05_F12_rejected :
  limit_err (f12 3 79) = true /\ limit_err (f12 40 79) = true /\ limit_err (f12 2 40) = true.
Proof. exact (conj f12_3x79_rejected (conj f12_40x79_rejected f12_2x40_rejected)). Qed.

(* products below the limit are still accepted *)
Example C05_F12_products_accepted :
  depth_of (f12 2 39) = Some 79 /\ depth_of (f12 3 26) = Some 79 /\ depth_of (f12 1 79) = Some 80 /\
  depth_of (f12 79 1) = Some 80 /\ depth_of (f12 13 6) = Some 79.
Proof. exact f12_products_accepted. Qed.

(* the three bounds are attained *)
Example C05_inline_bound_attained : value_depth_of (deep_value 0 (LIMIT - 1)) = Some (LIMIT - 1).
Proof. exact inline_bound_attained. Qed.
Example C05_value_bound_attained :
  value_depth_of (deep_value (LIMIT - 2) (LIMIT - 1)) = Some (2 * LIMIT - 3).
Proof. exact value_bound_attained. Qed.
Example C05_value_bound_next_rejected :
  value_depth_of (deep_value (LIMIT - 1) (LIMIT - 1)) = None /\
  value_depth_of (deep_value (LIMIT - 2) LIMIT) = None.
Proof. exact value_bound_next_rejected. Qed.
Example C05_depth_bound_attained :
  depth_of (deepest (LIMIT - 1) (LIMIT - 1) (LIMIT - 2) (LIMIT - 1)) = Some DEPTH_BOUND.
Proof. exact doc_bound_attained. Qed.
