(* Props/C06toml.v — C06, the toml front end: what `Display for toml::Table` / `toml::to_string(&toml::Value)` print
   is valid TOML that decodes back to the same value.  Only statements, each closed by `exact`; proofs are in
   Proofs/TomlDisplay*.v, over Proofs/BuiltRT*.v (real bytes through display_document and parse_document).

   Objects:
     tvc                 a toml::Value tree with concrete leaves (Model/TomlDisplay.v); a table is the list of its
                         entries IN THE ORDER THE MAP ITERATES (BTreeMap: ascending keys; IndexMap under
                         `preserve_order`: insertion order), so every statement holds for both configurations
     tv_doc three m      the toml_edit document tree the serializer and DocumentFormatter build for the table m:
                         three = true  toml::to_string(&Value::Table(m))   (three loops at every level)
                         three = false Display for toml::Table / to_string(&m)  (map order at the root, Values below);
                         every non-empty table is marked implicit (its [header] is left out when it has no key/value
                         line of its own), non-empty arrays of tables become [[headers]], everything else stays a value
     wf_tvc              distinct UTF-8 keys in every map (invariants of toml::Map<String, _>); leaves: UTF-8 strings,
                         i64, floats nan / inf / the decimal of their text below the overflow threshold (std's digit
                         generation is an oracle, as in Props/C06.v), in-range date-times
     tvc_depth           nesting of tables and arrays (the parser's recursion limit bounds header paths and values)
     root_order three m  the decoded table with its maps in the order of the text: per table the key/value lines
                         (plain values, then arrays holding tables that are not arrays of tables), then arrays of
                         tables and sub-tables in the serializer's order; inside values the three-loop order.
                         This is the iteration order of the decoded value under IndexMap; a BTreeMap sorts again.
     norm_leaves         the sign of NaN is dropped by toml_edit's ValueSerializer (`v.copysign(1.0)`): `-nan` is
                         printed as `nan`
     perm_tvc v w        w is v with the entries of any of its maps, at any depth, permuted *)
From TV Require Import Base.Prelude Base.Utf8 Base.Winnow Gen.Consts.
From TV Require Import Model.Datetime Model.Numbers Model.Tree Model.Parse Model.Document Model.Write Model.Encode Model.Build.
From TV Require Import Model.TomlDisplay Model.TomlValue Spec.Canonical.
From TV Require Import Proofs.BuiltRTValue Proofs.BuiltRTTop Proofs.TomlDisplay Proofs.TomlDisplayOrder Proofs.TomlDisplayTie.

(* the document tree toml builds lies inside the constructed trees of Model/Build.v (tables marked implicit
   included: Table::set_implicit(true) is what DocumentFormatter calls) *)
Theorem C06_toml_built : forall three m, wf_tvc (TvTab m) -> BuiltTbl scalar_ok key_ok (tv_doc three m).
Proof. exact tv_doc_built. Qed.
Print Assumptions C06_toml_built.

(* THE ROUND TRIP, real bytes: the printed text is accepted by the document parser; read as a toml::Value (arrays of
   tables are arrays, inline tables tables) the decoded tree is `root_order three m`, which is m up to the order of the
   entries of its maps and the sign of NaN *)
Theorem C06_toml_display : forall three m,
  wf_tvc (TvTab m) -> tvc_depth (TvTab m) <= LIMIT ->
  exists d, parse_document (display_document (render_tbl float_text (tv_doc three m)) REmpty) = POk d
            /\ tvc_of_entries (abs_tbl (doc_root d)) = root_order three m
            /\ perm_tvc (norm_leaves (TvTab m)) (TvTab (root_order three m)).
Proof. exact toml_display_roundtrip. Qed.
Print Assumptions C06_toml_display.

(* without a negative NaN nothing is normalised: the decoded value is m itself up to map order *)
Theorem C06_toml_display_exact_leaves : forall three m,
  wf_tvc (TvTab m) -> tvc_depth (TvTab m) <= LIMIT -> no_neg_nan (TvTab m) ->
  exists d, parse_document (display_document (render_tbl float_text (tv_doc three m)) REmpty) = POk d
            /\ perm_tvc (TvTab m) (TvTab (tvc_of_entries (abs_tbl (doc_root d)))).
Proof. exact toml_display_exact_leaves. Qed.
Print Assumptions C06_toml_display_exact_leaves.

(* BOTH MAP CONFIGURATIONS.  Under IndexMap (`preserve_order`) the decoded toml::Value iterates in the order
   `root_order` (C06_toml_display).  Under BTreeMap every map is sorted by key again: the sorted form of what comes back
   is the sorted form of the value that went in (leaves compared through any token function `tok`, e.g. an injective
   one; `sort_tv` of Spec/Canonical.v sorts every map at every depth) *)
Theorem C06_toml_display_sorted : forall tok three m,
  wf_tvc (TvTab m) ->
  sort_tv (erase tok (TvTab (root_order three m))) = sort_tv (erase tok (norm_leaves (TvTab m))).
Proof. exact toml_display_sorted. Qed.
Print Assumptions C06_toml_display_sorted.

(* in terms of the abstract tree of Props/C06.v: the tree of tv_doc, values before sub-tables in every table *)
Theorem C06_toml_display_tree : forall three m,
  wf_tvc (TvTab m) -> tvc_depth (TvTab m) <= LIMIT ->
  exists d, parse_document (display_document (render_tbl float_text (tv_doc three m)) REmpty) = POk d
            /\ abs_tbl (doc_root d) = printed_entries (abs_tbl (tv_doc three m)).
Proof. exact toml_display_parses. Qed.
Print Assumptions C06_toml_display_tree.

(* Display for toml::Value on a non-table value (one inline value: ValueSerializer + write_value) is covered by
   C06_value: tv_value v is a BuiltValue with default decor *)
Theorem C06_toml_value_built : forall v, wf_tvc v ->
  BuiltValue scalar_ok key_ok (tv_value v) /\ value_decor (tv_value v) = decor_default.
Proof. exact tv_value_built. Qed.
Print Assumptions C06_toml_value_built.

(* THE TWO MODELS OF THE SAME CODE AGREE: with every leaf replaced by the token `tok` gives it, the toml_edit tree tv_doc
   is the abstract document of Model/TomlValue.v (eng-c17: ser_value, fmt_item, fmt_root), for both root types *)
Theorem C06_toml_model_tie : forall tok m,
  dt_of_tbl tok (tv_doc true m) = fmt_root false (ser_root_value (erase_entries tok m)) /\
  dt_of_tbl tok (tv_doc false m) = fmt_root false (ser_map (erase_entries tok m)).
Proof. exact (fun tok m => conj (doc_tie_value tok m) (doc_tie_table tok m)). Qed.
Print Assumptions C06_toml_model_tie.

(* ... hence the sections the encoder visits on tv_doc are the canonical document of Spec/Canonical.v (Props/C17.v) *)
Theorem C06_toml_sections : forall tok m,
  flat_map visit_table (visit_nested (dt_of_tbl tok (tv_doc true m)) [] false) = sections_of false true true (erase_entries tok m) /\
  flat_map visit_table (visit_nested (dt_of_tbl tok (tv_doc false m)) [] false) = sections_of false false true (erase_entries tok m).
Proof. exact toml_sections. Qed.
Print Assumptions C06_toml_sections.

(* ---- the tree of Props/C17.v (`ex1`: scalars, arrays, a mixed array, arrays of tables, empty tables, a table with only
   sub-tables, empty keys), with concrete leaves and a negative NaN, in insertion order ------------------------------------ *)
Require Import String.
From TV Require Import Extract.Show.
Definition k (s : string) : bytes := str s.
Definition I (z : Z) : tvc := TvLeaf (SInt z).
Definition ex1 : list (bytes * tvc) :=
  [(k "t", TvTab [(k "x", I 1); (k "s", TvTab [(k "y", I 2)]); (k "z", I 3)]);
   (k "a", I 1);
   (k "aot", TvArr [TvTab [(k "q", I 1); (k "sub", TvTab [(k "w", I 1)]); (k "r", I 2)]; TvTab []]);
   (k "mixed", TvArr [I 1; TvTab [(k "a", TvTab [(k "b", I 1)])]]);
   (k "e", TvTab []);
   (k "only", TvTab [(k "sub", TvTab [])]);
   (k "arr", TvArr [I 1; I 2]);
   (k "b", TvLeaf (SString (k "x")));
   (k "ea", TvArr []);
   (k "nest", TvArr [TvArr [TvTab [(k "a", I 1)]]]);
   (k "f", TvLeaf (SFloat (FNan true)));
   (k "", TvTab [(k "", TvArr [TvTab []])])].

Ltac nodup := repeat (apply NoDup_cons; [cbn; intuition discriminate|]); apply NoDup_nil.
Ltac wf := repeat (first [ apply WfLeaf; cbn; auto; reflexivity
                         | apply WfArr
                         | apply WfTab; [nodup| |]
                         | apply Forall_nil
                         | apply Forall_cons; [try reflexivity|] ]).
Example ex1_wf : wf_tvc (TvTab ex1) /\ tvc_depth (TvTab ex1) <= LIMIT.
Proof. split; [wf|vm_compute; repeat constructor]. Qed.

(* the text of toml::to_string(&Value::Table(ex1)) — byte for byte what the crates print (lib/props/c17.py witness, IndexMap build) *)
Example ex1_text :
  display_document (render_tbl float_text (tv_doc true ex1)) REmpty
  = str "a = 1" ++ [x0a]
    ++ str "arr = [1, 2]" ++ [x0a]
    ++ str "b = " ++ [x22] ++ str "x" ++ [x22] ++ [x0a]
    ++ str "ea = []" ++ [x0a]
    ++ str "nest = [[{ a = 1 }]]" ++ [x0a]
    ++ str "f = nan" ++ [x0a]
    ++ str "mixed = [1, { a = { b = 1 } }]" ++ [x0a]
    ++ [x0a]
    ++ str "[[aot]]" ++ [x0a]
    ++ str "q = 1" ++ [x0a]
    ++ str "r = 2" ++ [x0a]
    ++ [x0a]
    ++ str "[aot.sub]" ++ [x0a]
    ++ str "w = 1" ++ [x0a]
    ++ [x0a]
    ++ str "[[aot]]" ++ [x0a]
    ++ [x0a]
    ++ str "[t]" ++ [x0a]
    ++ str "x = 1" ++ [x0a]
    ++ str "z = 3" ++ [x0a]
    ++ [x0a]
    ++ str "[t.s]" ++ [x0a]
    ++ str "y = 2" ++ [x0a]
    ++ [x0a]
    ++ str "[e]" ++ [x0a]
    ++ [x0a]
    ++ str "[only.sub]" ++ [x0a]
    ++ [x0a]
    ++ str "[[" ++ [x22] ++ [x22] ++ str "." ++ [x22] ++ [x22] ++ str "]]" ++ [x0a].
Proof. vm_compute. reflexivity. Qed.

(* it parses, and what comes back is ex1 with `f = nan`, the key/value lines first in every table *)
Example ex1_roundtrip :
  exists d, parse_document (display_document (render_tbl float_text (tv_doc true ex1)) REmpty) = POk d
            /\ tvc_of_entries (abs_tbl (doc_root d)) = root_order true ex1
            /\ map fst (root_order true ex1) = [k "a"; k "arr"; k "b"; k "ea"; k "nest"; k "f"; k "mixed"; k "aot"; k "t"; k "e"; k "only"; k ""].
Proof. eexists. split; [vm_compute; reflexivity|]. split; vm_compute; reflexivity. Qed.

(* Display for toml::Table keeps the map order at the root: `mixed` stays between `a` and `arr`, `t` comes before `aot` *)
Example ex1_table_roundtrip :
  exists d, parse_document (display_document (render_tbl float_text (tv_doc false ex1)) REmpty) = POk d
            /\ tvc_of_entries (abs_tbl (doc_root d)) = root_order false ex1
            /\ map fst (root_order false ex1) = [k "a"; k "mixed"; k "arr"; k "b"; k "ea"; k "nest"; k "f"; k "t"; k "aot"; k "e"; k "only"; k ""].
Proof. eexists. split; [vm_compute; reflexivity|]. split; vm_compute; reflexivity. Qed.

(* the table `only` holds only a sub-table: it is marked implicit, its header is left out, and it comes back through `[only.sub]` *)
Example ex1_hidden_header :
  tv_item (TvTab [(k "sub", TvTab [])])
  = ITable (Tbl [(key_new (k "sub"), ITable (Tbl [] decor_default false false None None))] decor_default true false None None).
Proof. reflexivity. Qed.
