(* Props/C02tokens.v — property C02, layer L1 (value halves): whatever a token parser of the
   model accepts is a text of the corresponding rule of toml.abnf v1.0.0 (Spec/Lex.v,
   Spec/Syntax.v) AND the value it returns is the value the grammar assigns to that text:
   escapes (backslash b t n f r quote backslash, uXXXX and UXXXXXXXX, as the UTF-8 of the named scalar), the
   first-newline trim, the line-ending backslash, 1-2 quotes before a closing delimiter,
   CR LF = LF inside multi-line strings, the four integer bases with sign and underscores
   (Horner value), the exact decimal of a float (sign, all mantissa digits, exponent; sign of
   zero kept), inf / nan signs, date-time fields with the 9-digit truncation, the list of
   decoded keys of a dotted key.  Decoded strings are well-formed UTF-8.
   Statements only; proofs in Proofs/LexEquiv*.v.  The accept / reject halves are in
   Props/C01tokens.v.

   Reading:  splits i t i'   the parser went from input i to i' reading exactly the text t. *)
From TV Require Import Base.Prelude Base.Utf8 Base.Winnow Gen.Consts Spec.Abnf Spec.Lex Spec.Syntax.
From TV Require Import Model.Trivia Model.Strings Model.Datetime Model.Numbers Model.Tree Model.Parse.
From TV Require Import Proofs.LexEquivBase Proofs.LexEquivTrivia Proofs.LexEquivInt Proofs.LexEquivFloat
  Proofs.LexEquivStrings Proofs.LexEquivMlLit Proofs.LexEquivMlBasic Proofs.LexEquivString Proofs.LexEquivUtf8
  Proofs.LexEquivBool Proofs.LexEquivDatetime Proofs.LexEquivKey.

(* ---- trivia ------------------------------------------------------------------------------------ *)
Theorem C02_tok_ws : forall i t i',
  ws i = Ok t i' -> ws_tok t /\ splits i t i' /\ stops wschar (rest i').
Proof. exact ws_sound. Qed.
Print Assumptions C02_tok_ws.

Theorem C02_tok_newline : forall i u i', newline i = Ok u i' -> exists t, newline_tok t /\ splits i t i'.
Proof. exact newline_sound. Qed.
Print Assumptions C02_tok_newline.

Theorem C02_tok_comment : forall i u i',
  comment i = Ok u i' -> exists t, comment_tok t /\ splits i t i' /\ stops non_eol (rest i').
Proof. exact comment_sound. Qed.
Print Assumptions C02_tok_comment.

Theorem C02_tok_ws_comment_newline : forall i u i',
  ws_comment_newline i = Ok u i' -> exists t, wscn_tok t /\ splits i t i'.
Proof. exact wscn_sound. Qed.
Print Assumptions C02_tok_ws_comment_newline.

(* ---- keys ---------------------------------------------------------------------------------------- *)
Theorem C02_tok_unquoted_key : forall i t i',
  unquoted_key i = Ok t i' -> unquoted_key_tok t /\ splits i t i' /\ stops unquoted_key_char (rest i').
Proof. exact unquoted_key_sound. Qed.
Print Assumptions C02_tok_unquoted_key.

(* the decoded key k (and the span kept as the key's repr) *)
Theorem C02_tok_simple_key : forall i rw k i', simple_key i = Ok (rw, k) i' ->
  exists t, simple_key_tok t k /\ splits i t i' /\ rw = raw_with_span (pos i, pos i').
Proof. exact simple_key_sound. Qed.
Print Assumptions C02_tok_simple_key.

(* key = simple-key / dotted-key: the decoded keys in order, fewer than LIMIT of them *)
Theorem C02_tok_key : forall i kp i', key_ i = Ok kp i' ->
  exists w1 t w2, ws_tok w1 /\ key_tok t (map k_key kp) /\ ws_tok w2 /\ splits i (w1 ++ t ++ w2) i'
                  /\ length kp < LIMIT.
Proof. exact key_sound. Qed.
Print Assumptions C02_tok_key.

(* ---- strings ------------------------------------------------------------------------------------- *)
Theorem C02_tok_basic_string : forall i v i', basic_string i = Ok v i' ->
  exists t, basic_string_tok t v /\ splits i t i'.
Proof. exact basic_string_sound. Qed.
Print Assumptions C02_tok_basic_string.

Theorem C02_tok_literal_string : forall i v i', literal_string i = Ok v i' ->
  exists t, literal_string_tok t v /\ splits i t i'.
Proof. exact literal_string_sound. Qed.
Print Assumptions C02_tok_literal_string.

Theorem C02_tok_ml_basic_string : forall i v i', ml_basic_string i = Ok v i' ->
  exists t, ml_basic_string_tok t v /\ splits i t i'.
Proof. exact ml_basic_string_sound. Qed.
Print Assumptions C02_tok_ml_basic_string.

Theorem C02_tok_ml_literal_string : forall i v i', ml_literal_string i = Ok v i' ->
  exists t, ml_literal_string_tok t v /\ splits i t i'.
Proof. exact ml_literal_string_sound. Qed.
Print Assumptions C02_tok_ml_literal_string.

Theorem C02_tok_string : forall i v i', string_ i = Ok v i' -> exists t, string_tok t v /\ splits i t i'.
Proof. exact string_sound. Qed.
Print Assumptions C02_tok_string.

(* the value of every string of the grammar is well-formed UTF-8 (escapes name scalar values only) *)
Theorem C02_tok_string_utf8 : forall t v, string_tok t v -> utf8_valid_b v = true.
Proof. exact string_value_valid. Qed.
Print Assumptions C02_tok_string_utf8.

(* the reading of `non-ascii` in Spec/Abnf.v: well-formed texts are exactly the sequences of ASCII
   bytes and UTF-8 encodings of the scalar values %x80-D7FF / %xE000-10FFFF *)
Theorem C02_tok_non_ascii : forall s, utf8_valid_b s = true <-> utf8_chars s.
Proof. exact non_ascii_bytes_ok. Qed.
Print Assumptions C02_tok_non_ascii.

(* ---- booleans ------------------------------------------------------------------------------------ *)
Theorem C02_tok_boolean : forall i b i',
  (true_ <|> false_) i = Ok b i' -> exists t, boolean_tok t b /\ splits i t i'.
Proof. exact boolean_sound. Qed.
Print Assumptions C02_tok_boolean.

Theorem C02_tok_true : forall i b i', true_ i = Ok b i' -> b = true /\ splits i t_true i'.
Proof. exact true_sound. Qed.
Print Assumptions C02_tok_true.

Theorem C02_tok_false : forall i b i', false_ i = Ok b i' -> b = false /\ splits i t_false i'.
Proof. exact false_sound. Qed.
Print Assumptions C02_tok_false.

(* ---- integers ------------------------------------------------------------------------------------ *)
(* the value is the positional value of the digits in the base of the prefix, negated by "-";
   accepted values fit i64 *)
Theorem C02_tok_integer : forall i z i', integer i = Ok z i' ->
  exists t, integer_tok t z /\ splits i t i' /\ in_i64 z = true.
Proof. exact integer_sound. Qed.
Print Assumptions C02_tok_integer.

(* ---- floats -------------------------------------------------------------------------------------- *)
(* the value is the exact decimal written (FDec sign mantissa exponent10), or inf / nan with sign *)
Theorem C02_tok_float : forall i f i', float i = Ok f i' -> exists t, float_tok t f /\ finite f /\ splits i t i'.
Proof. exact float_sound. Qed.
Print Assumptions C02_tok_float.

(* the text handed to Rust's str::parse::<f64> (after removing the underscores) denotes exactly
   that decimal: sign, integer digits, fraction digits, exponent *)
Theorem C02_tok_float_exact : forall s neg ipd frd eo,
  float_parts s neg ipd frd eo -> fdec_of_text (remove_us s) = fval_of neg ipd frd eo.
Proof. exact fdec_exact. Qed.
Print Assumptions C02_tok_float_exact.

Theorem C02_tok_float_text : forall i s i', float_ i = Ok s i' ->
  splits i s i' /\ exists neg m e, float_tok s (FDec neg m e) /\ fdec_of_text (remove_us s) = FDec neg m e.
Proof. exact float__exact. Qed.
Print Assumptions C02_tok_float_text.

(* ---- date-times ---------------------------------------------------------------------------------- *)
(* the fields are the decimal values of the digit groups; the fraction is truncated to nine
   digits (nanoseconds); the offset is in minutes with its sign, "Z" / "z" is UTC *)
Theorem C02_tok_date_time : forall i d i', date_time i = Ok d i' -> exists t, date_time_tok t d /\ splits i t i'.
Proof. exact date_time_sound. Qed.
Print Assumptions C02_tok_date_time.
