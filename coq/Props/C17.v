(* Props/C17.v — Serialization is deterministic, canonical and insensitive to map order. *)
From TV Require Import Base.Prelude Spec.Ordered Model.TomlValue Spec.Canonical.
From TV Require Import Proofs.CanonicalBase.

(* the value held by a key/value line is the same in the plain and in the pretty layout *)
Theorem C17_line_value_layout_free : forall ml e, value_of (fmt_value ml e) = value_of (fmt_value false e).
Proof. exact value_of_fmt_value. Qed.
Print Assumptions C17_line_value_layout_free.
