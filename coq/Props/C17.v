(* Props/C17.v — Serialization is deterministic, canonical and insensitive to map order.

   Objects (Model/TomlValue.v, Spec/Canonical.v):
     tv                     a toml::Value tree; a table is the list of its entries IN THE ORDER THE MAP
                            ITERATES, so "every key order of every map" = every list order, at every depth
     emit_value_doc ml m    the line structure toml::to_string / to_string_pretty (ml) write for Value::Table(m)
     emit_table_doc ml m    the same for a toml::Table m (Display for Table): no three loops at the root
     emit_struct_doc ml m   the same for a struct / any serializer that keeps its own order (ser_plain)
     sections_of            the reference document (own values first, then arrays of tables and sub-tables)
     read_back / decode o   the reference reader of documents (o: BTreeMap or IndexMap as toml::Map);
                            it refuses whatever TOML forbids (a key or table defined twice, ...)
     wf_tv                  keys of every map distinct (invariant of toml::Map)
     tv_equiv v w           v and w are equal once every map is sorted by key: equal up to map order
   Leaves are opaque tokens: how they are written and read back is C10 / C11 / C12. *)
From TV Require Import Base.Prelude Spec.Ordered Model.TomlValue Spec.Canonical.
From TV Require Import Proofs.CanonicalBase Proofs.CanonicalEmit Proofs.CanonicalRead Proofs.CanonicalOrder Proofs.CanonicalTop.
From Coq Require Import Permutation.

(* Who hands the entries of the tables to the serializer (Spec/Canonical.v `writer`):
     WValue   toml::Value            — `impl Serialize for Value`, three loops at every level
     WTable   toml::Table at the root — map order there, Values below (Display for Table)
     WStruct  a derived struct, or any Serialize impl that keeps an order of its own, at every level
              (ser_plain: the tree is read as the serializer's call tree, fields in declaration order)
   emit_doc w ml m is the document written (ml = pretty). *)

(* the serializers, DocumentFormatter and visit_nested_tables / visit_table together write the reference
   document, for every value and every order of every map / of the fields *)
Theorem C17_canonical_document : forall w ml m, emit_doc w ml m = sections_of ml (w_three w) (w_tn w) m.
Proof. exact canonical_document. Qed.
Print Assumptions C17_canonical_document.

(* VALUES BEFORE TABLES.  Any table value m — the root, a sub-table or an element of an array of tables,
   with its entries in any order — once serialized by `impl Serialize for Value` and formatted (t), written
   at any path p: after a section of one of its sub-tables / arrays of tables (path strictly below p) every
   later section is strictly below p as well, so no key/value line of m itself follows.  (The sections of a
   nested table are exactly such a block: Proofs/CanonicalEmit.v visit_nested_eq.) *)
Theorem C17_values_before_tables : forall ml m t p a pre s post,
  fmt_item ml (ser_value (TTab m)) = ITbl t ->
  flat_map visit_table (visit_nested t p a) = pre ++ s :: post ->
  strict_prefix p (s_path s) ->
  Forall (fun s' => strict_prefix p (s_path s')) post.
Proof. exact (fun ml => values_before_tables_model ml true). Qed.
Print Assumptions C17_values_before_tables.

(* ... and the same for a struct / any serializer that keeps its own order *)
Theorem C17_values_before_tables_struct : forall ml m t p a pre s post,
  fmt_item ml (ser_plain (TTab m)) = ITbl t ->
  flat_map visit_table (visit_nested t p a) = pre ++ s :: post ->
  strict_prefix p (s_path s) ->
  Forall (fun s' => strict_prefix p (s_path s')) post.
Proof. exact (fun ml => values_before_tables_model ml false). Qed.
Print Assumptions C17_values_before_tables_struct.

(* ... more precisely: first the table's own section (all its key/value lines; left out only for a
   non-empty table without values), then sections strictly below it *)
Theorem C17_table_shape : forall ml m t p a,
  fmt_item ml (ser_value (TTab m)) = ITbl t ->
  exists rest,
    flat_map visit_table (visit_nested t p a)
    = (if own_visible (kind_of p a) m (own_lines ml true true m) then [mkSec p (kind_of p a) (own_lines ml true true m)] else []) ++ rest /\
    Forall (fun s => strict_prefix p (s_path s)) rest.
Proof. exact (fun ml => table_shape ml true). Qed.
Print Assumptions C17_table_shape.

(* for whole documents of every writer: no root key/value line after the first header *)
Theorem C17_values_before_tables_doc : forall w ml m pre s post,
  emit_doc w ml m = pre ++ s :: post ->
  s_path s <> [] -> Forall (fun s' => s_path s' <> []) post.
Proof. exact values_before_tables_doc. Qed.
Print Assumptions C17_values_before_tables_doc.

(* ANY ORDER DECODES.  The document is accepted by the reader and holds v up to the order of map entries
   (and the decoded value has distinct keys again) *)
Theorem C17_any_order_decodes : forall w ml m,
  wf_tv (TTab m) = true ->
  exists r, read_back (emit_doc w ml m) = Some r /\ tv_equiv (TTab r) (TTab m) /\ wf_tv (TTab r) = true.
Proof. exact any_order_decodes. Qed.
Print Assumptions C17_any_order_decodes.

(* two values that differ only in the order of map entries (at any depth) give documents that decode to
   values that differ only so — with any writer and either layout *)
Theorem C17_any_order_same_value : forall w w' ml ml' m m',
  wf_tv (TTab m) = true -> wf_tv (TTab m') = true -> tv_equiv (TTab m) (TTab m') ->
  exists r r', read_back (emit_doc w ml m) = Some r /\ read_back (emit_doc w' ml' m') = Some r' /\
               tv_equiv (TTab r) (TTab r').
Proof. exact any_order_same_value. Qed.
Print Assumptions C17_any_order_same_value.

(* a permutation of the entries of a map is such a difference *)
Theorem C17_permutation_is_equiv : forall m m',
  NoDup (map fst m) -> Permutation m m' -> tv_equiv (TTab m) (TTab m').
Proof. exact permutation_equiv. Qed.
Print Assumptions C17_permutation_is_equiv.

(* spelled out: perm_tv v w = w is v with the entries of any of its maps, at any depth, permuted.
   Whatever permutation: both documents are accepted by the reader and decode to v up to that order *)
Theorem C17_any_permutation_decodes : forall w w' ml ml' m m',
  wf_tv (TTab m) = true -> perm_tv (TTab m) (TTab m') ->
  exists r r',
    read_back (emit_doc w ml m) = Some r /\ read_back (emit_doc w' ml' m') = Some r' /\
    tv_equiv (TTab r) (TTab m) /\ tv_equiv (TTab r') (TTab m).
Proof. exact any_permutation_decodes. Qed.
Print Assumptions C17_any_permutation_decodes.

Theorem C17_permuted_is_equiv : forall v w, perm_tv v w -> wf_tv v = true -> tv_equiv v w.
Proof. exact perm_tv_equiv. Qed.
Print Assumptions C17_permuted_is_equiv.

(* under BTreeMap the decoded value is exactly v (a BTreeMap-backed value is sorted at every level) *)
Theorem C17_decodes_to_v_sorted : forall w ml m,
  wf_tv (TTab m) = true -> sorted_tv (TTab m) -> decode OSorted (emit_doc w ml m) = Some m.
Proof. exact decode_sorted_exact. Qed.
Print Assumptions C17_decodes_to_v_sorted.

(* ONE-STEP FIXED POINT, under sorted-map iteration and under insertion-order iteration, for
   to_string(&Value) (WValue) and for Display of a parsed toml::Table (WTable: "printing a parsed Table
   twice gives the same text"); the second print may even use the other layout *)
Theorem C17_fixpoint : forall w o ml ml' m,
  w_tn w = true -> wf_tv (TTab m) = true -> order_inv o m ->
  exists r, decode o (emit_doc w ml m) = Some r /\ emit_doc w ml' r = emit_doc w ml' m.
Proof. exact fixpoint. Qed.
Print Assumptions C17_fixpoint.

(* A struct's text read back AS A toml::Value and printed is in general another text (the Value lists the
   fields sorted / in three-loop order: `C17_struct_reprint_differs` below) — the one-step fixed point of a
   derived type is reading back at the same type (C07).  But the value read back is the struct's value up
   to order, and that second text is a fixed point. *)
Theorem C17_struct_second_print : forall o ml ml' m,
  wf_tv (TTab m) = true ->
  exists r, decode o (emit_doc WStruct ml m) = Some r /\ tv_equiv (TTab r) (TTab m) /\
  exists r2, decode o (emit_doc WValue ml' r) = Some r2 /\ emit_doc WValue ml' r2 = emit_doc WValue ml' r.
Proof. exact struct_second_print. Qed.
Print Assumptions C17_struct_second_print.

(* PLAIN AND PRETTY read back to the same value *)
Theorem C17_plain_pretty : forall w o m,
  wf_tv (TTab m) = true ->
  decode o (emit_doc w true m) = decode o (emit_doc w false m) /\
  decode o (emit_doc w false m) <> None.
Proof. exact plain_pretty. Qed.
Print Assumptions C17_plain_pretty.

(* the value held by a key/value line is the same in the plain and in the pretty layout *)
Theorem C17_line_value_layout_free : forall ml e, value_of (fmt_value ml e) = value_of (fmt_value false e).
Proof. exact value_of_fmt_value. Qed.
Print Assumptions C17_line_value_layout_free.

(* ------------------------------------------------------------------------------------------ *)
(* Examples: a tree whose key order interleaves scalars, arrays, mixed arrays, arrays of tables and
   tables (the witness of lib/props/c17.py), in insertion order and sorted *)
Require Import String.
From TV Require Import Extract.Show.
Definition k (s : string) : bytes := str s.
Definition L (s : string) : tv := TLeaf (str s).
Definition ex1 : list (bytes * tv) :=
  [(k "t", TTab [(k "x", L "i1"); (k "s", TTab [(k "y", L "i2")]); (k "z", L "i3")]);
   (k "a", L "i1");
   (k "aot", TArr [TTab [(k "q", L "i1"); (k "sub", TTab [(k "w", L "i1")]); (k "r", L "i2")]; TTab []]);
   (k "mixed", TArr [L "i1"; TTab [(k "a", TTab [(k "b", L "i1")])]]);
   (k "e", TTab []);
   (k "only", TTab [(k "sub", TTab [])]);
   (k "arr", TArr [L "i1"; L "i2"]);
   (k "b", L "s78");
   (k "ea", TArr []);
   (k "nest", TArr [TArr [TTab [(k "a", L "i1")]]]);
   (k "", TTab [(k "", TArr [TTab []])])].
Definition ex1_sorted : list (bytes * tv) := match build OSorted (TTab ex1) with TTab m => m | _ => [] end.

Example ex1_wf : wf_tv (TTab ex1) = true /\ wf_tv (TTab ex1_sorted) = true /\ sorted_tv (TTab ex1_sorted).
Proof. repeat split; vm_compute; reflexivity. Qed.

(* the header lines of to_string(&Value::Table(ex1)) under insertion order *)
Example ex1_headers :
  map (fun s => (s_kind s, s_path s)) (emit_value_doc false ex1)
  = [(KRoot, []); (KArr, [k "aot"]); (KStd, [k "aot"; k "sub"]); (KArr, [k "aot"]);
     (KStd, [k "t"]); (KStd, [k "t"; k "s"]); (KStd, [k "e"]); (KStd, [k "only"; k "sub"]); (KArr, [k ""; k ""])].
Proof. vm_compute. reflexivity. Qed.

(* ... and its root key/value lines: plain values in map order, then the mixed array *)
Example ex1_root_lines :
  map fst (s_lines (hd (mkSec [] KRoot []) (emit_value_doc false ex1)))
  = [k "a"; k "arr"; k "b"; k "ea"; k "nest"; k "mixed"].
Proof. vm_compute. reflexivity. Qed.

(* Display for Table keeps the map order of sub-tables and arrays of tables at the root *)
Example ex1_table_headers :
  map (fun s => (s_kind s, s_path s)) (emit_table_doc false ex1)
  = [(KRoot, []); (KStd, [k "t"]); (KStd, [k "t"; k "s"]); (KArr, [k "aot"]); (KStd, [k "aot"; k "sub"]); (KArr, [k "aot"]);
     (KStd, [k "e"]); (KStd, [k "only"; k "sub"]); (KArr, [k ""; k ""])].
Proof. vm_compute. reflexivity. Qed.

Example ex1_fixpoint_insertion :
  option_map (emit_value_doc false) (decode OInsertion (emit_value_doc false ex1)) = Some (emit_value_doc false ex1)
  /\ option_map (emit_table_doc false) (decode OInsertion (emit_table_doc false ex1)) = Some (emit_table_doc false ex1).
Proof. split; vm_compute; reflexivity. Qed.

Example ex1_sorted_decodes :
  decode OSorted (emit_value_doc false ex1_sorted) = Some ex1_sorted /\
  decode OSorted (emit_value_doc true ex1) = Some ex1_sorted /\
  decode OSorted (emit_table_doc false ex1) = Some ex1_sorted.
Proof. repeat split; vm_compute; reflexivity. Qed.

Example ex1_plain_pretty_differ_but_decode_alike :
  emit_value_doc true ex1 <> emit_value_doc false ex1 /\
  read_back (emit_value_doc true ex1) = read_back (emit_value_doc false ex1).
Proof. split; [vm_compute; discriminate|vm_compute; reflexivity]. Qed.

(* the reader is strict: a table opened again after one of its sub-tables, a key defined twice and a
   header through a value are refused *)
Example reader_refuses :
  read_back [mkSec [] KRoot []; mkSec [k "a"] KStd []; mkSec [k "a"; k "b"] KStd []; mkSec [k "a"] KStd [(k "x", VLeaf (k "i1"))]] = None /\
  read_back [mkSec [] KRoot [(k "x", VLeaf (k "i1")); (k "x", VLeaf (k "i2"))]] = None /\
  read_back [mkSec [] KRoot [(k "x", VLeaf (k "i1"))]; mkSec [k "x"; k "y"] KStd []] = None /\
  read_back [mkSec [] KRoot []; mkSec [k "a"; k "b"] KStd []; mkSec [k "a"] KStd [(k "x", VLeaf (k "i1"))]]
  = Some [(k "a", TTab [(k "b", TTab []); (k "x", TLeaf (k "i1"))])].
Proof. repeat split; vm_compute; reflexivity. Qed.

(* a struct {e: 1, c: "x", m: [1, {}], t: {z: 1, a: 2}} printed (fields in declaration order), read back as a
   toml::Value and printed: another text under both map kinds, the same value *)
Definition st1 : list (bytes * tv) :=
  [(k "e", L "i1"); (k "m", TArr [L "i1"; TTab []]); (k "c", L "s78"); (k "t", TTab [(k "z", L "i1"); (k "a", L "i2")])].
Example C17_struct_reprint_differs :
  option_map (emit_value_doc false) (decode OSorted (emit_struct_doc false st1)) <> Some (emit_struct_doc false st1) /\
  option_map (emit_value_doc false) (decode OInsertion (emit_struct_doc false st1)) <> Some (emit_struct_doc false st1) /\
  option_map (fun r => sort_tv (TTab r)) (decode OInsertion (emit_struct_doc false st1)) = Some (sort_tv (TTab st1)).
Proof. repeat split; vm_compute; try discriminate; reflexivity. Qed.
