(* Props/C20.v — property C20: walking a document with the default read-only or mutable
   visitor calls the matching visit method exactly once for every key/value pair, scalar,
   array, inline table, table and array-of-tables element, in document order; an overriding
   visitor that rewrites every scalar of one type changes all of them and nothing else.
   Statements only; the proofs are in Proofs/VisitComplete.v.

   Reading guide.  Model/Visit.v: `visit_document t` is the list of calls (hook, argument) a
   visitor that logs every hook and continues with the default body receives on the tree t;
   `visit_document_mut g t` is the same for VisitMut together with the tree left behind, g
   being what the scalar hooks do.  Spec/Nodes.v: `nodes t` is the preorder listing of the
   document's nodes, `node_at t p` the node at position p, `path_lt` document order,
   `map_scalars g t` the tree with exactly the scalars rewritten.
   Proofs/VisitComplete.v (vocabulary at the top): `node_hook n` is the call of the matching
   hook on n, `hooks_of n` that call together with the dispatching calls made for n
   (visit_value / visit_item / visit_table_like), `expected_log t` = visit_document's own call
   followed by `hooks_of` of every node in document order.

   All statements hold for every tree of type tbl (parsed, built or edited), without any
   well-formedness hypothesis.  (Before finding F11 was repaired in /repo — `impl TableLike for
   InlineTable` yielding `Item::None` placeholders — they needed "no inline table holds a
   placeholder"; C20_placeholder_regression pins the repaired behaviour.) *)
From TV Require Import Base.Prelude Model.Datetime Model.Numbers Model.Tree Model.Visit
  Spec.Nodes Proofs.VisitComplete.
Require Import Sorted.

(* the complete call log of the read-only default walk *)
Theorem C20_visit : forall t, visit_document t = expected_log t.
Proof. exact visit_log. Qed.
Print Assumptions C20_visit.

(* the node-level hooks alone: one call of the matching hook per node, in document order *)
Theorem C20_visit_hooks : forall t,
  filter is_node_hook (visit_document t) = map node_hook (nodes t).
Proof. exact visit_hooks. Qed.
Print Assumptions C20_visit_hooks.

(* the default mutable walk makes the same calls and leaves the tree as it was *)
Theorem C20_visit_mut : forall t,
  fst (visit_document_mut hook_default t) = expected_log t
  /\ snd (visit_document_mut hook_default t) = t.
Proof. exact visit_mut_default. Qed.
Print Assumptions C20_visit_mut.

(* overriding the scalar hooks: the tree left behind is the one in which exactly the scalars
   were rewritten, and the walk made the same calls as the read-only one *)
Theorem C20_rewrite : forall g t,
  snd (visit_document_mut g t) = map_scalars g t
  /\ fst (visit_document_mut g t) = visit_document t.
Proof. exact rewrite_scalars. Qed.
Print Assumptions C20_rewrite.

Theorem C20_rewrite_integers : forall f t,
  snd (visit_document_mut (hook_integer f) t) = map_scalars (rw_integer f) t.
Proof. exact rewrite_integers. Qed.
Print Assumptions C20_rewrite_integers.

Theorem C20_rewrite_strings : forall f t,
  snd (visit_document_mut (hook_string f) t) = map_scalars (rw_string f) t.
Proof. exact rewrite_strings. Qed.
Print Assumptions C20_rewrite_strings.

(* "and nothing else": the rewritten document has the same nodes in the same order, each the
   image of the old one; its scalars are the old ones with g applied where g applies *)
Theorem C20_rewrite_nodes : forall g t, nodes (map_scalars g t) = map (map_node g) (nodes t).
Proof. exact rewrite_nodes. Qed.
Print Assumptions C20_rewrite_nodes.

Theorem C20_rewrite_scalar_list : forall g t,
  scalars (map_scalars g t) = map (fun s => match g s with Some s' => s' | None => s end) (scalars t).
Proof. exact rewrite_scalar_list. Qed.
Print Assumptions C20_rewrite_scalar_list.

(* exactly once: there is a duplicate-free list of positions, in document order, containing
   every position of the document, such that the node-level calls are, one for one, the
   matching hook on the node at each of these positions *)
Theorem C20_once : forall t,
  exists ps : list path,
    StronglySorted path_lt ps /\ NoDup ps
    /\ (forall p, In p ps <-> node_at t p <> None)
    /\ map Some (filter is_node_hook (visit_document t))
       = map (fun p => optmap node_hook (node_at t p)) ps.
Proof. exact visit_once. Qed.
Print Assumptions C20_once.

(* F11 regression: on `t = {}` after `doc["t"]["x"]` (an Item::None placeholder inside the
   inline table) no hook is called for the placeholder *)
Theorem C20_placeholder_regression :
  ~ In (MItem, AItem INone) (visit_document placeholder_witness)
  /\ map fst (visit_document placeholder_witness)
     = [MDocument; MTable; MTableLike; MTableLikeKv; MItem; MValue; MInlineTable; MTableLike].
Proof. exact placeholder_not_visited. Qed.
Print Assumptions C20_placeholder_regression.
