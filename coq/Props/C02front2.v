(* Props/C02front2.v — property C02, the clause "toml::from_str::<Value> decodes the same tree", composed with
   C02_tree (Props/C02doc.v): the decoded value is the tree the statements of the text denote.

     verdict stmts = Valid T   T is the tree the statements denote (Spec/Defs.v + Spec/Syntax.v `den`)
     value_tree T              T as a toml value: keys, nesting, order and scalars kept; table kinds and the
                               array-of-tables / array distinction forgotten; None exactly when T holds a float
                               (then toml_from_str_value is FUnmodelled, never FOk: Model/FrontEnds.v)
     canon_value true x        x with every table in ascending key order (toml::Value's map is a BTreeMap)
     doc_private T             a table key of T spells "$__toml_private_datetime" (known finding F14)

   Nothing stays conditional except the documented classes: floats (outside the front-end model) and the private
   key (refuted below).  Statements only; proofs in Proofs/FrontEndsReady.v. *)
From TV Require Import Base.Prelude Base.Utf8 Model.Datetime Model.Tree Model.Document Spec.SerdeData Spec.Defs Spec.Syntax.
From TV Require Import Model.De Model.SerdeRoutes Model.FrontEnds Proofs.GrammarBase Proofs.FrontEnds Proofs.FrontEndsReady Extract.Show.
Require Import String.
Open Scope string_scope.

(* toml::from_str::<toml::Value>: for EVERY derivation of the text whose statements are valid, the decoded value
   is the tree they denote, tables sorted by key *)
Theorem C02_serde : forall s d stmts T v,
  parse_document s = POk d -> toml_text s stmts -> verdict stmts = Valid T -> toml_from_str_value s = FOk v ->
  exists x, value_tree T = Some x /\ (doc_private T = false -> v = canon_value true x).
Proof. exact serde_value_tree. Qed.
Print Assumptions C02_serde.

(* str::parse::<toml::Table> / toml::from_str::<toml::Table> likewise (the root itself may spell the key) *)
Theorem C02_serde_table : forall s d stmts T v,
  parse_document s = POk d -> toml_text s stmts -> verdict stmts = Valid T -> toml_from_str_table s = FOk v ->
  exists x, value_tree T = Some x /\ (doc_private_below_root T = false -> v = canon_value true x).
Proof. exact serde_table_tree. Qed.
Print Assumptions C02_serde_table.

(* the same about the tree of the parsed document, without `tree_ready` (Props/C02front.v C02_serde_partial) *)
Theorem C02_serde_doc : forall s d x v,
  parse_document s = POk d -> tree_of_doc d = Some x -> has_private_key x = false ->
  toml_from_str_value s = FOk v -> v = canon_value true x.
Proof. intros s d x v Hp Hx. apply (serde_value s d x v Hp Hx (parse_tree_ready s d x Hp Hx)). Qed.
Print Assumptions C02_serde_doc.

Theorem C02_serde_table_doc : forall s d x v,
  parse_document s = POk d -> tree_of_doc d = Some x -> has_private_key_below_root x = false ->
  toml_from_str_table s = FOk v -> v = canon_value true x.
Proof. intros s d x v Hp Hx. apply (serde_table s d x v Hp Hx (parse_tree_ready s d x Hp Hx)). Qed.
Print Assumptions C02_serde_table_doc.

(* inside the private-key class the decoded value differs SILENTLY (known finding private-datetime-key, F14):
   [t] / "$__toml_private_datetime" = "1979-05-27" / b = 1  decodes to t = 1979-05-27; the key b is lost *)
Theorem C02_serde_refuted2 :
  exists d x v, parse_document w_private_misread = POk d /\ tree_of_doc d = Some x /\ doc_private (abs_doc d) = true /\
                toml_from_str_value w_private_misread = FOk v /\ v <> canon_value true x /\
                v = VTab [(str "t", VDatetime (mkDT (Some (mkDate 1979 5 27)) None None))].
Proof.
  destruct private_key_misread as (d & x & v & H1 & H2 & _ & H4 & H5 & H6). exists d, x, v.
  split; [exact H1|]. split; [exact H2|]. split; [|auto].
  pose proof (tree_of_doc_abs _ d H1) as E. rewrite H2 in E. symmetry in E. rewrite <- (proj1 (value_tree_private _ x E)).
  destruct (has_private_key x) eqn:P; [reflexivity|]. exfalso. apply H5.
  apply (serde_value _ d x v H1 H2 (parse_tree_ready _ d x H1 H2) P H4).
Qed.
Print Assumptions C02_serde_refuted2.

(* Examples: the link by computation — a document with headers, dotted keys, an inline table, an array of tables;
   and a document with a float has no value tree *)
Example C02_link_example :
  exists d, parse_document ex_doc = POk d /\ tree_of_doc d = value_tree (abs_doc d)
            /\ doc_has_float (abs_doc d) = false /\ doc_private (abs_doc d) = false.
Proof. exists (doc_of ex_doc). split; [vm_compute; reflexivity|]. split; [vm_compute; reflexivity|]. split; vm_compute; reflexivity. Qed.

Example C02_float_example :
  let s := [x61; x20; x3d; x20; x31; x2e; x35; x0a] (* a = 1.5 *) in
  exists d, parse_document s = POk d /\ tree_of_doc d = None /\ doc_has_float (abs_doc d) = true /\ toml_from_str_value s = FUnmodelled.
Proof. eexists. split; [vm_compute; reflexivity|]. split; [vm_compute; reflexivity|]. split; vm_compute; reflexivity. Qed.
