(* Props/C18.v — Cargo feature choices change performance or ordering only, never results.

   Of the features, only two reach the logic that the model describes: `preserve_order` (toml::Map is an
   IndexMap instead of a BTreeMap) and `unbounded` (RecursionCheck compiled out).  `perf` swaps the string
   representation behind one API (no counterpart in the model), `parse`/`display`/`serde` only remove entry
   points.  The theorems below are the Coq half for `preserve_order`: for EVERY call history the two Map
   configurations (Model/Containers.v, each proved to refine its reference map in ContainersRefine.v) hold the
   same content, answer every call that does not list entries identically, and answer listing calls with
   permutations of each other, ascending by key in the sorted configuration.
   Everything else of C18 — every configuration builds and produces the same verdicts, trees and text on the
   fixed battery — is the correspondence run of lib/props/c18.py (a build result and a differential test, not
   a theorem). *)
From TV Require Import Base.Prelude Spec.Ordered Model.Containers Proofs.ContainersOrder Proofs.ContainersRefine
  Proofs.MapOrderOnly.
From Coq Require Import Permutation.

Theorem C18_map_same_content : forall h : list mop,
  om_sort_keys (ordered_final h) = sorted_final h /\
  (forall k, im_get k (ordered_final h) = im_get k (sorted_final h)) /\
  length (ordered_final h) = length (sorted_final h) /\
  (forall ks, let oo := pobserve ks (ordered_final h) in let os := pobserve ks (sorted_final h) in
              o_len oo = o_len os /\ o_emp oo = o_emp os /\ o_get oo = o_get os /\ o_ck oo = o_ck os).
Proof. exact map_same_content. Qed.
Print Assumptions C18_map_same_content.

Theorem C18_map_same_outputs : forall h : list mop,
  outs_rel (fun o a b => order_free o = true -> a = b) h
           (snd (run (pstep KMapOrdered) [] h)) (snd (run (pstep KMapSorted) [] h)).
Proof. exact map_same_outputs. Qed.
Print Assumptions C18_map_same_outputs.

Theorem C18_map_iteration_is_a_permutation : forall h : list mop,
  outs_rel (fun o a b => order_free o = false -> out_perm a b /\ out_ascending b) h
           (snd (run (pstep KMapOrdered) [] h)) (snd (run (pstep KMapSorted) [] h)).
Proof. exact map_iteration_permutation. Qed.
Print Assumptions C18_map_iteration_is_a_permutation.

Theorem C18_ref_map_same_outputs : forall h : list mop,
  outs_rel (fun o a b => order_free o = true -> a = b) h
           (snd (run (ref_step KMapOrdered) [] h)) (snd (run (ref_step KMapSorted) [] h)).
Proof. exact ref_map_same_outputs. Qed.
Print Assumptions C18_ref_map_same_outputs.
