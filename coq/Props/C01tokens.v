(* Props/C01tokens.v — property C01, layer L1 (accept / reject halves): for every lexical rule
   of toml.abnf v1.0.0 (Spec/Lex.v, Spec/Abnf.v) the model parser accepts every text of the
   rule that is followed by a non-gluing continuation (maximal munch), a committed failure
   (`Cut`) occurs only where the rule has no derivation, and the two implementation limits
   (i64 range, binary64 overflow) are refused with a committed error.
   Statements only; proofs in Proofs/LexEquiv*.v.  The value halves are in Props/C02tokens.v.

   Reading:  rest i = t ++ r   the unread input starts with the text t;
             adv t i           the input after reading t;
             stops c r         r is empty or its first byte is not in class c. *)
From TV Require Import Base.Prelude Base.Utf8 Base.Winnow Gen.Consts Spec.Abnf Spec.Lex Spec.Syntax.
From TV Require Import Model.Trivia Model.Strings Model.Datetime Model.Numbers Model.Tree Model.Parse.
From TV Require Import Proofs.LexEquivBase Proofs.LexEquivTrivia Proofs.LexEquivInt Proofs.LexEquivFloat
  Proofs.LexEquivStrings Proofs.LexEquivMlLit Proofs.LexEquivMlBasic Proofs.LexEquivString
  Proofs.LexEquivBool Proofs.LexEquivDatetime Proofs.LexEquivKey.

(* ---- trivia ------------------------------------------------------------------------------------ *)
Theorem C01_tok_ws : forall i t r,
  rest i = t ++ r -> ws_tok t -> stops wschar r -> ws i = Ok t (adv t i).
Proof. exact ws_complete. Qed.
Print Assumptions C01_tok_ws.

Theorem C01_tok_newline : forall i t r,
  rest i = t ++ r -> newline_tok t -> newline i = Ok tt (adv t i).
Proof. exact newline_complete. Qed.
Print Assumptions C01_tok_newline.

(* ... and newline fails (without commitment) exactly where no newline starts *)
Theorem C01_tok_newline_cases : forall i,
  (exists t r, newline_tok t /\ rest i = t ++ r /\ newline i = Ok tt (adv t i))
  \/ (~ starts_with_newline (rest i) /\ fails newline i).
Proof. exact newline_cases. Qed.
Print Assumptions C01_tok_newline_cases.

Theorem C01_tok_comment : forall i t r,
  rest i = t ++ r -> comment_tok t -> stops non_eol r -> comment i = Ok tt (adv t i).
Proof. exact comment_complete. Qed.
Print Assumptions C01_tok_comment.

(* ws-comment-newline = *( wschar / [ comment ] newline ) *)
Theorem C01_tok_ws_comment_newline : forall i t r,
  wscn_tok t -> rest i = t ++ r -> wscn_stop r -> ws_comment_newline i = Ok tt (adv t i).
Proof. exact wscn_complete. Qed.
Print Assumptions C01_tok_ws_comment_newline.

(* ---- keys ---------------------------------------------------------------------------------------- *)
Theorem C01_tok_unquoted_key : forall i t r,
  rest i = t ++ r -> unquoted_key_tok t -> stops unquoted_key_char r -> unquoted_key i = Ok t (adv t i).
Proof. exact unquoted_key_complete. Qed.
Print Assumptions C01_tok_unquoted_key.

Theorem C01_tok_simple_key : forall i t k r,
  simple_key_tok t k -> rest i = t ++ r -> (unquoted_key_tok t -> stops unquoted_key_char r) ->
  simple_key i = Ok (raw_with_span (pos i, (pos i + N.of_nat (length t))%N), k) (adv t i).
Proof. exact simple_key_complete. Qed.
Print Assumptions C01_tok_simple_key.

(* key = simple-key / dotted-key, as the parser reads it: with the whitespace around it
   (the ws of keyval-sep, std-table-open/close, dot-sep); at most LIMIT - 1 parts *)
Theorem C01_tok_key : forall i w1 t ks w2 r,
  ws_tok w1 -> key_tok t ks -> ws_tok w2 -> rest i = w1 ++ t ++ w2 ++ r -> key_stop r ->
  length ks < LIMIT ->
  exists kp, key_ i = Ok kp (adv (w1 ++ t ++ w2) i) /\ map k_key kp = ks.
Proof. exact key_complete. Qed.
Print Assumptions C01_tok_key.

(* a key path of LIMIT or more parts is refused (the recursion limit, DESIGN.md 3.4) *)
Theorem C01_tok_key_too_long : forall i w1 t ks w2 r,
  ws_tok w1 -> key_tok t ks -> ws_tok w2 -> rest i = w1 ++ t ++ w2 ++ r -> key_stop r ->
  LIMIT <= length ks -> exists j, key_ i = Bt (err_of RecursionLimit) j.
Proof. exact key_too_long. Qed.
Print Assumptions C01_tok_key_too_long.

Theorem C01_tok_key_cut_only : forall i e j, key_ i = Cut e j ->
  forall w1 t ks w2 r, ws_tok w1 -> key_tok t ks -> ws_tok w2 -> rest i = w1 ++ t ++ w2 ++ r -> key_stop r -> False.
Proof. exact key_cut_only. Qed.
Print Assumptions C01_tok_key_cut_only.

(* ---- strings ------------------------------------------------------------------------------------- *)
Theorem C01_tok_basic_string : forall i t v r,
  basic_string_tok t v -> rest i = t ++ r -> basic_string i = Ok v (adv t i).
Proof. exact basic_string_complete. Qed.
Print Assumptions C01_tok_basic_string.

Theorem C01_tok_basic_string_cut_only : forall i e j, basic_string i = Cut e j ->
  forall t v r, rest i = t ++ r -> ~ basic_string_tok t v.
Proof. exact basic_string_cut_only. Qed.
Print Assumptions C01_tok_basic_string_cut_only.

Theorem C01_tok_literal_string : forall i t v r,
  literal_string_tok t v -> rest i = t ++ r -> literal_string i = Ok v (adv t i).
Proof. exact literal_string_complete. Qed.
Print Assumptions C01_tok_literal_string.

Theorem C01_tok_ml_basic_string : forall i t v r,
  ml_basic_string_tok t v -> rest i = t ++ r -> stops (byte_eqb x22) r -> ml_basic_string i = Ok v (adv t i).
Proof. exact ml_basic_string_complete. Qed.
Print Assumptions C01_tok_ml_basic_string.

Theorem C01_tok_ml_basic_string_cut_only : forall i e j, ml_basic_string i = Cut e j ->
  forall t v r, rest i = t ++ r -> stops (byte_eqb x22) r -> ~ ml_basic_string_tok t v.
Proof. exact ml_basic_string_cut_only. Qed.
Print Assumptions C01_tok_ml_basic_string_cut_only.

Theorem C01_tok_ml_literal_string : forall i t v r,
  ml_literal_string_tok t v -> rest i = t ++ r -> stops (byte_eqb x27) r -> ml_literal_string i = Ok v (adv t i).
Proof. exact ml_literal_string_complete. Qed.
Print Assumptions C01_tok_ml_literal_string.

Theorem C01_tok_ml_literal_string_cut_only : forall i e j, ml_literal_string i = Cut e j ->
  forall t v r, rest i = t ++ r -> stops (byte_eqb x27) r -> ~ ml_literal_string_tok t v.
Proof. exact ml_literal_string_cut_only. Qed.
Print Assumptions C01_tok_ml_literal_string_cut_only.

(* string = ml-basic-string / basic-string / ml-literal-string / literal-string *)
Theorem C01_tok_string : forall i t v r,
  string_tok t v -> rest i = t ++ r -> no_quote_follows r -> string_ i = Ok v (adv t i).
Proof. exact string_complete. Qed.
Print Assumptions C01_tok_string.

Theorem C01_tok_string_cut_only : forall i e j, string_ i = Cut e j ->
  forall t v r, rest i = t ++ r -> no_quote_follows r -> ~ string_tok t v.
Proof. exact string_cut_only. Qed.
Print Assumptions C01_tok_string_cut_only.

(* ---- booleans ------------------------------------------------------------------------------------ *)
Theorem C01_tok_boolean : forall i t b r,
  rest i = t ++ r -> boolean_tok t b -> (true_ <|> false_) i = Ok b (adv t i).
Proof. exact boolean_complete. Qed.
Print Assumptions C01_tok_boolean.

(* true_ / false_ commit after the first letter: the committed failure occurs only where the
   literal is not there *)
Theorem C01_tok_true_cut_only : forall i e j, true_ i = Cut e j -> forall r, rest i <> t_true ++ r.
Proof. exact true_cut_only. Qed.
Print Assumptions C01_tok_true_cut_only.

Theorem C01_tok_false_cut_only : forall i e j, false_ i = Cut e j -> forall r, rest i <> t_false ++ r.
Proof. exact false_cut_only. Qed.
Print Assumptions C01_tok_false_cut_only.

(* ---- integers ------------------------------------------------------------------------------------ *)
(* integer = dec-int / hex-int / oct-int / bin-int; accepted exactly within i64 *)
Theorem C01_tok_integer : forall i t z r,
  integer_tok t z -> in_i64 z = true -> rest i = t ++ r -> stops unquoted_key_char r ->
  integer i = Ok z (adv t i).
Proof. exact integer_complete. Qed.
Print Assumptions C01_tok_integer.

Theorem C01_tok_integer_out_of_range : forall i t z r,
  integer_tok t z -> in_i64 z = false -> rest i = t ++ r -> stops unquoted_key_char r ->
  integer i = Cut (err_of IntError) i.
Proof. exact integer_out_of_range. Qed.
Print Assumptions C01_tok_integer_out_of_range.

Theorem C01_tok_integer_cut_only : forall i e j, integer i = Cut e j ->
  forall t z r, integer_tok t z -> rest i = t ++ r -> stops unquoted_key_char r -> in_i64 z = false.
Proof. exact integer_cut_only. Qed.
Print Assumptions C01_tok_integer_cut_only.

(* ---- floats -------------------------------------------------------------------------------------- *)
Theorem C01_tok_float : forall i t f r,
  float_tok t f -> finite f -> rest i = t ++ r -> stops (us_or Abnf.digit) r -> stops is_e r ->
  float i = Ok f (adv t i).
Proof. exact float_complete. Qed.
Print Assumptions C01_tok_float.

(* a decimal at or above the binary64 rounding boundary 2^1024 - 2^970, of either sign, is refused *)
Theorem C01_tok_float_overflow : forall i t neg m e r,
  float_tok t (FDec neg m e) -> overflows m e = true -> rest i = t ++ r ->
  stops (us_or Abnf.digit) r -> stops is_e r -> exists er j, float i = Cut er j.
Proof. exact float_overflow. Qed.
Print Assumptions C01_tok_float_overflow.

Theorem C01_tok_float_cut_only : forall i er j, float i = Cut er j ->
  forall t f r, float_tok t f -> rest i = t ++ r -> stops (us_or Abnf.digit) r -> stops is_e r -> ~ finite f.
Proof. exact float_cut_only. Qed.
Print Assumptions C01_tok_float_cut_only.

(* ---- date-times ---------------------------------------------------------------------------------- *)
(* date-time = offset-date-time / local-date-time / local-date / local-time with the RFC 3339
   field ranges (Spec/Syntax.v date_time_tok); `dt_stop r`: what follows cannot continue it *)
Theorem C01_tok_date_time : forall i t d r,
  date_time_tok t d -> rest i = t ++ r -> dt_stop r -> date_time i = Ok d (adv t i).
Proof. exact date_time_complete. Qed.
Print Assumptions C01_tok_date_time.

Theorem C01_tok_date_time_cut_only : forall i e j, date_time i = Cut e j ->
  forall t d r, date_time_tok t d -> rest i = t ++ r -> dt_stop r -> False.
Proof. exact date_time_cut_only. Qed.
Print Assumptions C01_tok_date_time_cut_only.

(* every accepted date-time is one of the four TOML shapes with RFC 3339 ranges
   (Spec/DatetimeSpec.v: month 1-12, day <= days-in-month with the leap rule, hour 0-23,
   minute 0-59, second 0-60, offset within +-23:59) *)
Theorem C01_tok_date_time_in_range : forall t d, date_time_tok t d -> DatetimeSpec.in_range d = true.
Proof. exact date_time_tok_in_range. Qed.
Print Assumptions C01_tok_date_time_in_range.
