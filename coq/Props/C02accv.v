(* Props/C02accv.v — property C02, the read API of toml::Value (type_str, same_type, is_x, as_x, get by index and key):
   Model/AccessorsToml.v, transcribed from crates/toml/src/value.rs; statements only, proofs in Proofs/AccessorsTomlSpec.v.
   The same functions print the `accv` observation compared with the crate on every run. *)
From TV Require Import Base.Prelude Model.Datetime Spec.SerdeData Extract.Show Model.Accessors Model.AccessorsToml.
From TV Require Import Proofs.AccessorsSpec Proofs.AccessorsTomlSpec.
Require Import String.

(* ---- toml::Value's read API (Model/AccessorsToml.v from crates/toml/src/value.rs) ---------------------------------- *)
Theorem C02acc_toml_kind_exclusive : forall v,
  count_true [tv_is_str v; tv_is_integer v; tv_is_float v; tv_is_bool v; tv_is_datetime v; tv_is_array v; tv_is_table v] = 1.
Proof. exact tv_kind_exclusive. Qed.
Print Assumptions C02acc_toml_kind_exclusive.
(* same_type is exactly "same type name": an equivalence whose classes are the seven kinds *)
Theorem C02acc_toml_same_type : forall a b, tv_same_type a b = true <-> tv_type_str a = tv_type_str b.
Proof. exact tv_same_type_spec. Qed.
Print Assumptions C02acc_toml_same_type.
Theorem C02acc_toml_same_type_equiv :
  (forall a, tv_same_type a a = true) /\ (forall a b, tv_same_type a b = tv_same_type b a)
  /\ (forall a b c, tv_same_type a b = true -> tv_same_type b c = true -> tv_same_type a c = true).
Proof. exact (conj tv_same_type_refl (conj tv_same_type_sym tv_same_type_trans)). Qed.
Print Assumptions C02acc_toml_same_type_equiv.
Theorem C02acc_toml_as : forall v,
  (forall s, tv_as_str v = Some s <-> v = VStr s) /\ (forall z, tv_as_integer v = Some z <-> v = VInt z)
  /\ (forall b, tv_as_float v = Some b <-> v = VFloat b) /\ (forall b, tv_as_bool v = Some b <-> v = VBool b)
  /\ (forall d, tv_as_datetime v = Some d <-> v = VDatetime d) /\ (forall xs, tv_as_array v = Some xs <-> v = VArr xs)
  /\ (forall es, tv_as_table v = Some es <-> v = VTab es).
Proof. exact tv_as_spec. Qed.
Print Assumptions C02acc_toml_as.
Theorem C02acc_toml_type_str : forall v,
  (tv_type_str v = str "string" <-> tv_is_str v = true) /\ (tv_type_str v = str "integer" <-> tv_is_integer v = true)
  /\ (tv_type_str v = str "float" <-> tv_is_float v = true) /\ (tv_type_str v = str "boolean" <-> tv_is_bool v = true)
  /\ (tv_type_str v = str "datetime" <-> tv_is_datetime v = true) /\ (tv_type_str v = str "array" <-> tv_is_array v = true)
  /\ (tv_type_str v = str "table" <-> tv_is_table v = true).
Proof. exact tv_type_str_flags. Qed.
Print Assumptions C02acc_toml_type_str.
Theorem C02acc_toml_get_index : forall xs i, tv_index_usize i (VArr xs) = nth_error xs i.
Proof. exact tv_index_usize_spec. Qed.
Print Assumptions C02acc_toml_get_index.
Theorem C02acc_toml_get_index_end : forall xs, tv_index_usize (List.length xs) (VArr xs) = None.
Proof. exact tv_index_usize_end. Qed.
Print Assumptions C02acc_toml_get_index_end.
Theorem C02acc_toml_get_key : forall es k v, NoDup (map fst es) -> In (k, v) es -> tv_index_str k (VTab es) = Some v.
Proof. exact tv_index_str_iter. Qed.
Print Assumptions C02acc_toml_get_key.
Theorem C02acc_toml_get_other : forall v,
  (forall i, tv_is_array v = false -> tv_index_usize i v = None) /\ (forall k, tv_is_table v = false -> tv_index_str k v = None).
Proof. exact (fun v => conj (tv_index_usize_other v) (tv_index_str_other v)). Qed.
Print Assumptions C02acc_toml_get_other.


(* toml::Map's iterators are double-ended: reading alternately from both ends (next, next_back, next, ...) hands out every
   entry exactly once - the sequence read is a permutation of the forward sequence (`alternate` is what accv prints) *)
Require Import Permutation.
Theorem C02acc_toml_alternate_reads_all : forall l : list bytes, Permutation (alternate (S (List.length l)) l) l.
Proof. exact alternate_reads_all. Qed.
Print Assumptions C02acc_toml_alternate_reads_all.
