(* Props/C13text.v — property C13 at the level of TEXT: every decoding route of the two crates, as a function of the
   byte string, gives the same answer.  Statements only; model in Proofs/C13TextModel.v (each route written after
   the call structure of its source), proofs in Proofs/C13Text.v, on top of
     Props/C13.v      the routes on the value tree (decode, twins)
     Props/C07text.v  the text a serializer writes parses back (eng-c06)
     Props/C14spans.v into_mut (despan) never fails on a parsed &str
     the parser model (Model/Document.v) and the state-machine invariant (distinct keys in every parsed table).

   Routes (harness/src/bin/serde/routes.rs names): t = toml::from_str, e = toml_edit::de::from_str,
   esl = toml_edit::de::from_slice, edoc / eim = from_document(DocumentMut / ImDocument), efs = s.parse::<de::Deserializer>(),
   tval = toml::from_str::<toml::Value>(s)?.try_into(), ttab = s.parse::<toml::Table>()?.try_into().
   WHICH ROUTES ARE THE SAME CODE: esl calls e after the UTF-8 check; `impl FromStr for Value / Table` call t;
   t, e, eim, efs each perform `ImDocument::parse` then `T::deserialize(Deserializer { root, raw })` themselves (t through
   `toml_edit::de::Deserializer::parse` inside every `deserialize_*` method, NOT through toml_edit::de::from_str);
   edoc runs into_mut (despan) between the two.  `raw` only decorates errors: locations are C15's business.

   `back` is the float oracle of C07text (str::parse::<f64> on a float token); `walk back root` the tree the
   deserializer walks (Model/SerDoc.v tomlval_of_abs).  A &str is valid UTF-8: `utf8_valid_b s = true` is the type of the
   string routes; from_slice is the only route that can be handed other bytes.
   TUnmodelled: Model/De.v does not follow three deserializer paths (an integer for a float target, a date-time where a
   struct or map is expected, a private struct name); such results are outside "succeeds". *)
From TV Require Import Base.Prelude Base.Utf8 Base.Winnow Gen.Consts.
From TV Require Import Model.Datetime Model.Numbers Model.Tree Model.Document Model.Encode Model.Write Model.Build Model.SerNum.
From TV Require Import Spec.SerdeData Model.Ser Model.De Model.SerdeRoutes Model.SerFmt Model.SerDoc.
From TV Require Import Proofs.SerDocDe Proofs.C13TextModel Proofs.C13Text Extract.Show.

(* ---- (a) the routes agree --------------------------------------------------------------------------------------- *)
(* the four compositions of parse and deserialize are one function, for every target (a type, toml::Value, toml::Table)
   and EVERY byte string *)
Theorem C13_text_same_code : forall back tg s,
  toml_from_str back tg s = edit_from_str back tg s /\ route_im back tg s = edit_from_str back tg s
  /\ route_fromstr back tg s = edit_from_str back tg s.
Proof. exact direct_routes_same. Qed.
Print Assumptions C13_text_same_code.

(* the bytes entry point: invalid UTF-8 is an error before anything else, valid UTF-8 is the string entry point *)
Theorem C13_text_slice : forall back tg bs,
  (utf8_valid_b bs = true -> edit_from_slice back tg bs = edit_from_str back tg bs)
  /\ (utf8_valid_b bs = false -> edit_from_slice back tg bs = TUtf8Err).
Proof. exact slice_route. Qed.
Print Assumptions C13_text_slice.

(* from_document(DocumentMut): into_mut succeeds and the deserializer walks the same tree *)
Theorem C13_text_document_mut : forall back tg s, utf8_valid_b s = true -> route_mut back tg s = edit_from_str back tg s.
Proof. exact mut_route. Qed.
Print Assumptions C13_text_document_mut.

Theorem C13_into_mut_same_tree : forall back s d root, into_mut s d = Some root -> walk back root = walk back (doc_root d).
Proof. exact into_mut_walk. Qed.
Print Assumptions C13_into_mut_same_tree.

(* hence: the six direct routes return THE SAME RESULT (value or kind of error) on every &str *)
Theorem C13_text_direct_routes : forall back r t s, utf8_valid_b s = true -> direct_route r = true ->
  run_route back r t s = edit_from_str back (ToTy t) s.
Proof. exact direct_routes_agree. Qed.
Print Assumptions C13_text_direct_routes.

(* every route is the tree-level route of Props/C13.v on the tree of the parsed document *)
Theorem C13_text_is_decode : forall back r t s v, utf8_valid_b s = true -> run_route back r t s = TOk (OVal v) ->
  exists d, parse_document s = POk d /\ decode (tree_route r) t (walk back (doc_root d)) = Ok v.
Proof. exact route_is_decode. Qed.
Print Assumptions C13_text_is_decode.

(* ALL EIGHT ROUTES: any two that succeed return equal values.  twin_ty: no map keyed by char (Props/C13.v); the table
   route needs a root whose first key is not the private name (F14) — that its keys are distinct is proved *)
Theorem C13_text_routes_agree : forall back r1 r2 t s v1 v2,
  utf8_valid_b s = true -> twin_ty t = true ->
  (r1 = Tttab \/ r2 = Tttab -> forall d, parse_document s = POk d -> root_first_private d = false) ->
  run_route back r1 t s = TOk (OVal v1) -> run_route back r2 t s = TOk (OVal v2) -> sval_eq v1 v2 \/ sval_eq v2 v1.
Proof. exact text_routes_agree. Qed.
Print Assumptions C13_text_routes_agree.

(* the parser's verdict is every route's verdict; no route panics *)
Theorem C13_text_parse_verdict : forall back r t s, utf8_valid_b s = true ->
  (run_route back r t s = TParseErr <-> exists e a, parse_document s = PErr e a) /\ run_route back r t s <> TPanic.
Proof. intros back r t s Hu. split; [apply route_parse_error, Hu|apply no_route_panics, Hu]. Qed.
Print Assumptions C13_text_parse_verdict.

Theorem C13_parsed_root_plain : forall back s d,
  parse_document s = POk d -> root_first_private d = false -> plain_root (walk back (doc_root d)) = true.
Proof. exact parsed_root_plain. Qed.
Print Assumptions C13_parsed_root_plain.

(* ---- (b) on the text a serializer writes ------------------------------------------------------------------------- *)
(* hypotheses of C07_text_roundtrip.  The direct routes succeed and return the value; esl and edoc need the text to be
   UTF-8 — it is a Rust `String`; that the PRINTED BYTES of the model are valid UTF-8 is not proved *)
Theorem C13_text_on_serialized_direct : forall fd back, float_oracle fd back -> forall r0 ty v out,
  has_type v ty -> utf8_ty ty = true -> utf8_sv v = true ->
  ser_text r0 ty v = SerdeData.Ok out -> tv_depth out <= LIMIT ->
  exists text d v',
    ser_text_bytes fd r0 ty v = Some text /\ parse_document text = POk d /\ sval_eq v v'
    /\ tv_equiv out (walk back (doc_root d))
    /\ (forall r, r = Tt \/ r = Te \/ r = Teim \/ r = Tefs -> run_route back r ty text = TOk (OVal v'))
    /\ (utf8_valid_b text = true -> forall r, direct_route r = true -> run_route back r ty text = TOk (OVal v')).
Proof. exact serialized_direct. Qed.
Print Assumptions C13_text_on_serialized_direct.

(* the routes through toml::Value / toml::Table too, when no table key of the serialized tree spells the private
   name (F14) — for all four text serializers, date-times and NaNs included *)
From TV Require Import Proofs.C13TextTwin Proofs.C13TextSer.
Theorem C13_text_on_serialized_value_first : forall fd back, float_oracle fd back -> forall r0 ty v out,
  has_type v ty -> utf8_ty ty = true -> utf8_sv v = true ->
  ser_text r0 ty v = SerdeData.Ok out -> tv_depth out <= LIMIT -> tunnel_free out = true ->
  exists text v2,
    ser_text_bytes fd r0 ty v = Some text /\ sval_eq v v2
    /\ run_route back Ttval ty text = TOk (OVal v2) /\ run_route back Tttab ty text = TOk (OVal v2).
Proof. exact serialized_value_first. Qed.
Print Assumptions C13_text_on_serialized_value_first.

(* the three tree-level facts behind it: sval_eq is transitive; toml::Value's visitor forgets the order of table
   entries; Value::try_into does not see the payload of a NaN *)
Theorem C13_sval_eq_trans : forall a b c, sval_eq a b -> sval_eq b c -> sval_eq a c.
Proof. exact sval_eq_trans. Qed.
Print Assumptions C13_sval_eq_trans.

Theorem C13_value_visitor_any_order : forall x x' y,
  tv_equiv x x' -> tunnel_free x = true -> to_toml_value x = Ok y -> exists y', to_toml_value x' = Ok y' /\ feq y y'.
Proof. exact conv_equiv. Qed.
Print Assumptions C13_value_visitor_any_order.

Theorem C13_try_into_nan_payload : forall t y y' v, feq y y' -> tv_de t y = Ok v -> exists v', tv_de t y' = Ok v' /\ sval_eq v v'.
Proof. exact tv_de_feq. Qed.
Print Assumptions C13_try_into_nan_payload.

(* ---- (c) what remains excluded ---------------------------------------------------------------------------------- *)
Require Import String.
Open Scope string_scope.
Definition no_floats (f : fval) : N := 0%N.       (* `back` for texts without floats *)
Definition no_fd (b : N) : fval := FNan false.    (* `fd` for values without floats *)
Definition all_routes : list text_route := [Tt; Te; Tesl; Tedoc; Teim; Tefs; Ttval; Tttab].
Definition answers (t : ty) (s : bytes) : list tres := map (fun r => run_route no_floats r t s) all_routes.

(* F14 (private-datetime-key) ON SERIALIZED TEXT: struct S { m: BTreeMap<String, i32> } with the private name as a key.
   toml::to_string writes `[m]` / `"$__toml_private_datetime" = 127`; the six direct routes return the value, the
   two routes through toml::Value refuse (its visitor takes the table m for a date-time).  Observed on the
   crates (harness `routes`): t e esl edoc eim efs = ok, tval ttab = err. *)
Definition f14_ty : ty := TStruct (str "S") [(str "m", TMap TStr (TInt TI32))].
Definition f14_val : sval := SRec [SMap [(SStr DT_FIELD, SInt 127)]].
Definition f14_text : bytes := (str "[m]" ++ [x0a] ++ str """$__toml_private_datetime"" = 127" ++ [x0a])%list.
Theorem C13_text_f14_refuted :
  has_type f14_val f14_ty
  /\ ser_text_bytes no_fd TomlString f14_ty f14_val = Some f14_text
  /\ match ser_text TomlString f14_ty f14_val with SerdeData.Ok out => tunnel_free out | _ => true end = false
  /\ answers f14_ty f14_text
     = [TOk (OVal f14_val); TOk (OVal f14_val); TOk (OVal f14_val); TOk (OVal f14_val); TOk (OVal f14_val); TOk (OVal f14_val);
        TDeErr; TDeErr].
Proof. repeat split; vm_compute; reflexivity. Qed.
Print Assumptions C13_text_f14_refuted.

(* THE VERDICTS of the two families differ without F14 (Props/C13.v C13_ex_disagree_on_success_only, now on text):
   a = [1, 2, 3] read as struct S { a: (i8, i8) } — toml_edit's deserializer ignores the rest of the array, toml::Value's
   refuses.  They never succeed with different answers (C13_text_routes_agree).  Observed on the crates: the same. *)
Definition arity_ty : ty := TStruct (str "S") [(str "a", TTuple [TInt TI8; TInt TI8])].
Definition arity_text : bytes := (str "a = [1, 2, 3]" ++ [x0a])%list.
Theorem C13_text_same_verdict_refuted :
  answers arity_ty arity_text
  = let ok := TOk (OVal (SRec [SSeq [SInt 1; SInt 2]])) in [ok; ok; ok; ok; ok; ok; TDeErr; TDeErr].
Proof. vm_compute. reflexivity. Qed.
Print Assumptions C13_text_same_verdict_refuted.

(* F14 at the root, outside the model: `"$__toml_private_datetime" = "1979-05-27"` / `b = "x"` read as
   BTreeMap<String, String>.  toml::from_str::<toml::Value> takes the ROOT for a date-time; what try_into makes of a
   date-time for a map target is a path Model/De.v does not follow (TUnmodelled).  Observed on the crates: tval succeeds
   with the one-entry map { "$__toml_private_datetime": "1979-05-27" } — the key b is lost — while the other seven routes
   return both entries: the known class F14, no new finding. *)
Definition root_text : bytes :=
  (str """$__toml_private_datetime"" = ""1979-05-27""" ++ [x0a] ++ str "b = ""x""" ++ [x0a])%list.
Example C13_text_f14_root :
  let both := TOk (OVal (SMap [(SStr DT_FIELD, SStr (str "1979-05-27")); (SStr (str "b"), SStr (str "x"))])) in
  answers (TMap TStr TStr) root_text = [both; both; both; both; both; both; TUnmodelled; both]
  /\ match parse_document root_text with POk d => root_first_private d | _ => false end = true.
Proof. split; vm_compute; reflexivity. Qed.

(* invalid UTF-8: the bytes route answers with its own error; bytes that are no &str (here a lone 0xFF in a comment,
   which the parser model does not look into) cannot be handed to the other routes *)
Example C13_text_invalid_utf8 :
  run_route no_floats Tesl (TMap TStr TStr) [x23; xff; x0a] = TUtf8Err /\ utf8_valid_b [x23; xff; x0a] = false.
Proof. split; vm_compute; reflexivity. Qed.

(* ---- non-vacuity: the example of Props/C13.v through text -------------------------------------------------------- *)
From TV Require Props.C13.
Definition ex_text13 : bytes := match ser_text_bytes no_fd TomlString C13.ex_ty C13.ex_val with Some t => t | None => [] end.
Definition same (r : tres) (v : sval) : bool := match r with TOk (OVal v') => sval_beq v' v | _ => false end.
Example C13_text_ex :
  utf8_valid_b ex_text13 = true
  /\ forallb (fun r => same (run_route no_floats r C13.ex_ty ex_text13) C13.ex_val) [Tt; Te; Tesl; Tedoc; Teim; Tefs] = true
  /\ forallb (fun r => same (run_route no_floats r C13.ex_ty ex_text13) C13.ex_val_sorted) [Ttval; Tttab] = true.
Proof. repeat split; vm_compute; reflexivity. Qed.
