(* Props/C06float.v — ONE statement of what is assumed about Rust's std float printing / parsing across C06, C07 and
   C11, and C06 / C07 restated over it.  Statements only; proofs in Proofs/StdFloat.v, Proofs/StdFloatCor.v.

   The assumption (DESIGN.md 4.4) is `std_float shortest back` (Proofs/StdFloat.v):
     shortest b   the text std's `{}` prints for the f64 with bit pattern b,
     back f       the pattern of the f64 `str::parse::<f64>` computes from the exact decimal f (toml_edit's parser:
                  f64::NAN / f64::INFINITY with the sign for the words nan / inf),
     sf_finite    = Props/C11.v's hypothesis, literally: `std_roundtrip_hyp classify64 is_inf64 shortest back`
                    (finite non-zero values: shape of the text, a fraction iff not integral, below the overflow
                    threshold, reads back as the same float),
     plus what C11's hypothesis leaves out because it is about finite non-zero values only:
     sf_inf_text  std prints the infinities as inf / -inf,
     sf_back_*    "0.0" / "-0.0" parse to the zero of that sign, inf / -inf to that infinity, nan / -nan to a NaN.
   C07's own oracle `float_oracle fd back` (Model/SerDoc.v) is a CONSEQUENCE (C_float_oracle_from_std) for
   fd := fd_std shortest, the decimal the writer's text denotes; it is weaker, not equivalent: it does not mention the
   text std prints at all (only the decimal the final text denotes), so neither the shape of std's text nor the
   writer's ".0" decision can be recovered from it.  The text the C06 / C07 theorems print for such a leaf IS the
   writer model's text `write_f64 b (shortest b)` (C_float_text_is_writer): Model/Build.v float_text on the decimal and
   Model/WriteFloat.v on std's text agree. *)
From TV Require Import Base.Prelude Base.Utf8 Base.Winnow Gen.Consts.
From TV Require Import Model.Datetime Model.Numbers Model.Tree Model.Parse Model.Document Model.Write Model.WriteFloat Model.Encode Model.Build.
From TV Require Import Proofs.NumbersRT_Int Proofs.NumbersRT_Float Proofs.BuiltRTValue Proofs.BuiltRTLeaf Proofs.BuiltRTTop.
From TV Require Import Spec.SerdeData Model.Ser Model.De Model.SerDoc.
From TV Require Import Proofs.StdFloat Proofs.StdFloatCor.
From TV Require Import Extract.Show.
Require Import String.

(* ---- the two formulations meet ---- *)
(* the positional text of a decimal given by a canonical spelling (integer part without a leading zero, or "0") is
   that spelling: Model/Build.v float_text inverts Model/Numbers.v fdec_of_text on the writer's texts *)
Theorem C_float_text_plain : forall neg ip fp,
  (proper_digits ip \/ ip = [x30]) -> forallb is_digit fp = true -> fp <> [] ->
  float_text (FDec neg (dec_value (ip ++ fp)) (0 - Z.of_nat (List.length fp)))
  = (if neg then [dash] else []) ++ ip ++ dot :: fp.
Proof. exact float_text_plain. Qed.
Print Assumptions C_float_text_plain.

Theorem C_float_text_is_writer : forall shortest back, std_float shortest back ->
  forall b, float_text (fd_std shortest b) = write_f64 b (shortest b).
Proof. exact float_text_is_writer. Qed.
Print Assumptions C_float_text_is_writer.

Theorem C_float_oracle_from_std : forall shortest back, std_float shortest back ->
  float_oracle (fd_std shortest) back.
Proof. exact float_oracle_from_std. Qed.
Print Assumptions C_float_oracle_from_std.

(* ---- C06 over it: a float leaf is the f64 the program put in ---- *)
Theorem C06_value_std : forall shortest back, std_float shortest back -> forall v,
  BuiltValue (scalar_ok_std shortest) key_ok v -> value_depth v < LIMIT -> top_plain v ->
  exists v', parse_value_raw (display_value (render_value float_text v)) = POk v' /\ abs_value v' = abs_value v.
Proof. exact value_roundtrip_std. Qed.
Print Assumptions C06_value_std.

Theorem C06_document_std : forall shortest back, std_float shortest back -> forall t,
  BuiltTbl (scalar_ok_std shortest) key_ok t -> tbl_hdepth t < LIMIT -> tbl_vdepth t < LIMIT ->
  exists d, parse_document (display_document (render_tbl float_text t) REmpty) = POk d
            /\ abs_tbl (doc_root d) = printed_entries (abs_tbl t).
Proof. exact document_roundtrip_std. Qed.
Print Assumptions C06_document_std.

(* ---- C07 through text over it ---- *)
Theorem C07_text_roundtrip_std : forall shortest back, std_float shortest back -> forall r ty v out,
  has_type v ty -> utf8_ty ty = true -> utf8_sv v = true ->
  ser_text r ty v = SerdeData.Ok out -> tv_depth out <= LIMIT ->
  exists T d v',
    ser_doc (fd_std shortest) r ty v = Some T
    /\ parse_document (display_document (render_tbl float_text T) REmpty) = POk d
    /\ de_doc back ty (abs_tbl (doc_root d)) = SerdeData.Ok v' /\ sval_eq v v'.
Proof. exact text_roundtrip_std. Qed.
Print Assumptions C07_text_roundtrip_std.

(* ---- examples: the leaf of 0.1f32 widened (0x3fb99999a0000000, std prints 0.10000000149011612), of 3.0 (std prints
        "3", the writer appends ".0"), of -0.0, nan, -inf, for a `shortest` that answers these patterns ---- *)
Definition ex_shortest (b : N) : bytes :=
  if (b =? 4591870180174331904)%N then str "0.10000000149011612"
  else if (b =? 4613937818241073152)%N then str "3"
  else if (b =? 18442240474082181120)%N then str "-inf"
  else str "NaN".
Example C_ex_fd :
  fd_std ex_shortest 4591870180174331904 = FDec false 10000000149011612 (-17)
  /\ fd_std ex_shortest 4613937818241073152 = FDec false 30 (-1)
  /\ fd_std ex_shortest 9223372036854775808 = FDec true 0 (-1)
  /\ fd_std ex_shortest 9221120237041090560 = FNan false
  /\ fd_std ex_shortest 18442240474082181120 = FInf true.
Proof. repeat split; vm_compute; reflexivity. Qed.
Example C_ex_text :
  float_text (fd_std ex_shortest 4613937818241073152) = write_f64 4613937818241073152 (ex_shortest 4613937818241073152)
  /\ write_f64 4613937818241073152 (ex_shortest 4613937818241073152) = str "3.0"
  /\ float_text (fd_std ex_shortest 4591870180174331904) = str "0.10000000149011612"
  /\ float_text (fd_std ex_shortest 18442240474082181120) = write_f64 18442240474082181120 (ex_shortest 18442240474082181120).
Proof. repeat split; vm_compute; reflexivity. Qed.
