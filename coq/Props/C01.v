(* Props/C01.v — The parser accepts exactly the valid TOML 1.0.0 documents.
   Layer L0 (byte classes, tokens and ranges of the CURRENT source equal the grammar's) is
   proved here in full; it is re-checked against the regenerated Gen/Consts.v on every run.
   Layer L1 (token-level maximal-munch lemmas) is in Props/C02tokens.v.  The whole-document
   statement C01_sound / C01_complete (DESIGN.md section 6) is the target; until the L2 layer is
   closed the whole-document claim rests on the correspondence runs and is labelled partial. *)
From TV Require Import Base.Prelude Base.Utf8 Base.Winnow Gen.Consts Spec.Abnf Model.Strings Model.Datetime.
From TV Require Import Proofs.ConstsOk.

Theorem C01_classes : forall b,
  in_class WSCHAR b = wschar b /\ in_class NON_EOL b = non_eol b
  /\ in_class BASIC_UNESCAPED b = basic_unescaped b /\ in_class MLB_UNESCAPED b = mlb_unescaped b
  /\ in_class LITERAL_CHAR b = literal_char b /\ in_class MLL_CHAR b = mll_char b
  /\ in_class UNQUOTED_CHAR b = unquoted_key_char b
  /\ in_class DIGIT b = Abnf.digit b /\ in_class DIGIT1_9 b = Abnf.digit1_9 b
  /\ in_class DIGIT0_7 b = Abnf.digit0_7 b /\ in_class DIGIT0_1 b = Abnf.digit0_1 b
  /\ in_class HEXDIG b = Abnf.hexdig b /\ in_class DT_DIGIT b = Abnf.digit b
  /\ in_class TIME_DELIM b = Abnf.time_delim b
  /\ assoc_byte ESCAPE_SIMPLE b = escape_simple b /\ assoc_byte ESCAPE_HEX b = escape_hex b
  /\ in_class VALUE_NUMBER_START b = (byte_eqb b x2b || byte_eqb b x2d || Abnf.digit b).
Proof.
  intro b. repeat split;
    first [ exact (WSCHAR_ok b) | exact (NON_EOL_ok b) | exact (BASIC_UNESCAPED_ok b) | exact (MLB_UNESCAPED_ok b)
          | exact (LITERAL_CHAR_ok b) | exact (MLL_CHAR_ok b) | exact (UNQUOTED_CHAR_ok b) | exact (DIGIT_ok b)
          | exact (DIGIT1_9_ok b) | exact (DIGIT0_7_ok b) | exact (DIGIT0_1_ok b) | exact (HEXDIG_ok b)
          | exact (DT_DIGIT_ok b) | exact (TIME_DELIM_ok b) | exact (ESCAPE_SIMPLE_ok b) | exact (ESCAPE_HEX_ok b)
          | exact (VALUE_NUMBER_START_ok b) ].
Qed.
Print Assumptions C01_classes.

Theorem C01_tokens :
  COMMENT_START_SYMBOL = x23 /\ LF = x0a /\ CR = x0d /\ QUOTATION_MARK = x22 /\ APOSTROPHE = x27 /\ ESCAPE = x5c
  /\ ML_BASIC_STRING_DELIM = [x22; x22; x22] /\ ML_LITERAL_STRING_DELIM = [x27; x27; x27]
  /\ DOT_SEP = x2e /\ KEYVAL_SEP = x3d
  /\ ARRAY_OPEN = x5b /\ ARRAY_CLOSE = x5d /\ ARRAY_SEP = x2c
  /\ INLINE_TABLE_OPEN = x7b /\ INLINE_TABLE_CLOSE = x7d /\ INLINE_TABLE_SEP = x2c
  /\ STD_TABLE_OPEN = x5b /\ STD_TABLE_CLOSE = x5d /\ ARRAY_TABLE_OPEN = [x5b; x5b] /\ ARRAY_TABLE_CLOSE = [x5d; x5d]
  /\ TRUE = t_true /\ FALSE = t_false /\ INF = t_inf /\ NAN = t_nan
  /\ HEX_PREFIX = [x30; x78] /\ OCT_PREFIX = [x30; x6f] /\ BIN_PREFIX = [x30; x62].
Proof. exact tokens_ok. Qed.
Print Assumptions C01_tokens.

Theorem C01_datetime_ranges :
  (DT_MONTH_MIN, DT_MONTH_MAX) = (1, 12)%N /\ (DT_MDAY_MIN, DT_MDAY_MAX) = (1, 31)%N
  /\ (DT_HOUR_MIN, DT_HOUR_MAX) = (0, 23)%N /\ (DT_MINUTE_MIN, DT_MINUTE_MAX) = (0, 59)%N
  /\ (DT_SECOND_MIN, DT_SECOND_MAX) = (0, 60)%N
  /\ (SD_MONTH_MIN, SD_MONTH_MAX) = (1, 12)%N /\ SD_DAY_MIN = 1%N /\ SD_HOUR_MAX = 23%N
  /\ SD_MINUTE_MAX = 59%N /\ SD_SECOND_MAX = 60%N /\ SD_NANO_MAX = 999999999%N
  /\ (SD_OFFSET_HOUR_MAX, SD_OFFSET_MINUTE_MAX) = (23, 59)%N
  /\ DT_SCALE = [0; 100000000; 10000000; 1000000; 100000; 10000; 1000; 100; 10; 1]%N.
Proof. exact datetime_ranges_ok. Qed.
Print Assumptions C01_datetime_ranges.

Theorem C01_float_guard : FLOAT_REJECT_POS_INF = true /\ FLOAT_REJECT_NEG_INF = true.
Proof. exact float_guard_ok. Qed.
Print Assumptions C01_float_guard.
