(* Props/C12.v — property C12: the standalone date-time parser (toml_datetime `FromStr`) and
   the document grammar's date-time agree, accept only RFC 3339 values, truncate the fraction
   to nine digits, and `Display` output parses back.  Statements only; the proofs are in
   Proofs/DatetimeEq.v. *)
From TV Require Import Base.Prelude Base.Winnow Gen.Consts Model.Datetime Model.DatetimeStd
  Spec.DatetimeSpec Spec.Syntax Proofs.DatetimeEq Proofs.DatetimeExact.

(* The two parsers compute the same partial function on all byte strings. *)
Theorem C12_agree : forall s : bytes, std_from_str s = doc_datetime s.
Proof. exact agree. Qed.
Print Assumptions C12_agree.

(* Everything accepted is one of the four TOML shapes with RFC 3339 field ranges. *)
Theorem C12_closed : forall s d, std_from_str s = Some d -> in_range d = true.
Proof. exact closed. Qed.
Print Assumptions C12_closed.

(* Display output of an in-range value parses back to that value, with both parsers. *)
Theorem C12_print_parse : forall d, in_range d = true ->
  std_from_str (display_datetime d) = Some d /\ doc_datetime (display_datetime d) = Some d.
Proof. exact print_parse. Qed.
Print Assumptions C12_print_parse.

(* EXACTNESS against the specification: a byte string is accepted (by either parser, see C12_agree) exactly when it is,
   as a whole, a date-time token of the specification's grammar (Spec/Syntax.v date_time_tok: offset date-time, local
   date-time, local date, local time; `T`, `t` or one space between date and time; `Z`, `z` or a numeric offset; any
   number of fraction digits; RFC 3339 field ranges with the leap-year rule and second 60), and the value is the one
   the token denotes.  Everything else is rejected. *)
Theorem C12_exact : forall s d, std_from_str s = Some d <-> date_time_tok s d.
Proof. exact std_datetime_exact. Qed.
Print Assumptions C12_exact.

Theorem C12_rejects_the_rest : forall s, std_from_str s = None <-> forall d, ~ date_time_tok s d.
Proof. exact std_datetime_rejects. Qed.
Print Assumptions C12_rejects_the_rest.

(* Fraction digits past the ninth are accepted and ignored (truncation, not rounding). *)
Theorem C12_truncation : forall ds es,
  length ds = 9%nat -> forallb is_digit ds = true -> forallb is_digit es = true ->
  std_from_str ([x30; x30; x3a; x30; x30; x3a; x30; x30; x2e] ++ ds ++ es)
  = Some (mkDT None (Some (mkTime 0 0 0 (dec_value ds))) None).
Proof. exact truncation. Qed.
Print Assumptions C12_truncation.

(* Non-vacuity: each of the four kinds is accepted on a concrete string. *)
(* "1979-05-27T07:32:00.5-07:00" *)
Example C12_ex_offset_date_time :
  std_from_str [x31; x39; x37; x39; x2d; x30; x35; x2d; x32; x37; x54; x30; x37; x3a; x33; x32; x3a; x30; x30; x2e; x35; x2d; x30; x37; x3a; x30; x30]
  = Some (mkDT (Some (mkDate 1979 5 27)) (Some (mkTime 7 32 0 500000000)) (Some (OffCustom (-420)))).
Proof. vm_compute; reflexivity. Qed.

(* "1979-05-27 07:32:00" *)
Example C12_ex_local_date_time :
  std_from_str [x31; x39; x37; x39; x2d; x30; x35; x2d; x32; x37; x20; x30; x37; x3a; x33; x32; x3a; x30; x30]
  = Some (mkDT (Some (mkDate 1979 5 27)) (Some (mkTime 7 32 0 0)) None).
Proof. vm_compute; reflexivity. Qed.

(* "2000-02-29" *)
Example C12_ex_local_date :
  std_from_str [x32; x30; x30; x30; x2d; x30; x32; x2d; x32; x39]
  = Some (mkDT (Some (mkDate 2000 2 29)) None None).
Proof. vm_compute; reflexivity. Qed.

(* "23:59:60.999999999999" *)
Example C12_ex_local_time :
  std_from_str [x32; x33; x3a; x35; x39; x3a; x36; x30; x2e; x39; x39; x39; x39; x39; x39; x39; x39; x39; x39; x39; x39]
  = Some (mkDT None (Some (mkTime 23 59 60 999999999)) None).
Proof. vm_compute; reflexivity. Qed.

Example C12_ex_in_range :
  in_range (mkDT (Some (mkDate 1979 5 27)) (Some (mkTime 7 32 0 500000000)) (Some (OffCustom (-420)))) = true.
Proof. vm_compute; reflexivity. Qed.

(* and the ranges do exclude something: hour 24 is neither in range nor accepted *)
Example C12_ex_out_of_range :
  in_range (mkDT None (Some (mkTime 24 0 0 0)) None) = false
  /\ std_from_str [x32; x34; x3a; x30; x30; x3a; x30; x30] = None.
Proof. vm_compute; split; reflexivity. Qed.
