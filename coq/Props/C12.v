From TV Require Import Base.Prelude Base.Winnow Model.Datetime Model.DatetimeStd Extract.Commands.
Theorem C12_placeholder : std_from_str [] = None.
Proof. reflexivity. Qed.
Print Assumptions C12_placeholder.
