(* Props/C02.v — Decoded data is exactly what the document says.
   Proved here: the escape table and the fraction scaling table of the current source denote the
   values the specification assigns (L0, re-checked on every regeneration).  The value halves of the
   token-level lemmas (string contents after escape processing and trimming, integers in four
   bases, the exact decimal of floats) are in Props/C02tokens.v; date-time fields are C12.
   The whole-document statement C02_tree (DESIGN.md section 6) is the target and is partial. *)
From TV Require Import Base.Prelude Base.Utf8 Base.Winnow Gen.Consts Spec.Abnf Model.Strings Model.Datetime.
From TV Require Import Proofs.ConstsOk.

Theorem C02_escape_values : forall b,
  assoc_byte ESCAPE_SIMPLE b = escape_simple b /\ assoc_byte ESCAPE_HEX b = escape_hex b.
Proof. intro b; split; [exact (ESCAPE_SIMPLE_ok b) | exact (ESCAPE_HEX_ok b)]. Qed.
Print Assumptions C02_escape_values.

(* fractional seconds: digit string of length n <= 9 scaled by 10^(9-n) (truncation to nanoseconds) *)
Theorem C02_fraction_scale : forall n, (1 <= n <= 9)%nat -> nth_error DT_SCALE n = Some (10 ^ (9 - N.of_nat n))%N.
Proof.
  intros n H. assert (n = 1 \/ n = 2 \/ n = 3 \/ n = 4 \/ n = 5 \/ n = 6 \/ n = 7 \/ n = 8 \/ n = 9)%nat as Hn by lia.
  intuition; subst; reflexivity.
Qed.
Print Assumptions C02_fraction_scale.
