(* Props/C03.v — Unedited documents print back byte-for-byte.  (placeholder theorems are replaced as
   Proofs/Print*.v grow; see DESIGN.md section 6 C03 for the target statements.) *)
From TV Require Import Base.Prelude Model.Tree Model.Encode.

(* the CR stripping of RawString::encode_with_default never changes a text without CR, and is idempotent *)
Lemma strip_cr_idem s : strip_cr (strip_cr s) = strip_cr s.
Proof.
  unfold strip_cr. induction s as [|b s IH]; [reflexivity|].
  cbn [filter]. destruct (negb (byte_eqb b x0d)) eqn:E; cbn [filter]; [rewrite E, IH; reflexivity | exact IH].
Qed.
Lemma strip_cr_no_cr s : forallb (fun b => negb (byte_eqb b x0d)) s = true -> strip_cr s = s.
Proof.
  unfold strip_cr. induction s as [|b s IH]; [reflexivity|].
  cbn [forallb filter]. intro H. apply andb_true_iff in H as [H1 H2]. rewrite H1, (IH H2). reflexivity.
Qed.

Theorem C03_cr_stripping : forall s,
  strip_cr (strip_cr s) = strip_cr s /\ (forallb (fun b => negb (byte_eqb b x0d)) s = true -> strip_cr s = s).
Proof. intro s; split; [exact (strip_cr_idem s) | exact (strip_cr_no_cr s)]. Qed.
Print Assumptions C03_cr_stripping.
