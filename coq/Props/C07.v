(* Props/C07.v — property C07: serde serialization never loses data: it round-trips or returns an
   error.  Statements only; proofs in Proofs/SerdeRT*.v.

   Level: the TOML value tree (Spec/SerdeData.v `tomlval`).  Printing a tree as text and parsing
   it back is C03/C06 (documents), C10 (strings, keys), C11 (numbers), C12 (date-times).
   Universe: Spec/SerdeData.v `ty` / `sval` / `has_type` (structs, maps, sequences, tuples,
   newtypes, tuple structs, options, the four kinds of enum variant, every integer width, f32/f64,
   bool, char, strings, the three date-time types, unit and unit structs as unsupported shapes).
   Oracle (trusted, checked on every run by the harness command `fidelity`): the calls
   `#[derive(Serialize, Deserialize)]` makes for each shape, as written into Model/Ser.v, De.v. *)
From TV Require Import Base.Prelude Model.Datetime Model.SerNum Spec.SerdeData Model.Ser Model.De Model.SerFmt
  Proofs.SerdeRTBase Proofs.SerdeRT Proofs.SerdeRTErr Proofs.SerdeRTRoot Proofs.SerdeRTRefuse
  Proofs.SerdeRTTryFrom Proofs.SerdeRTTv Proofs.SerdeRTFmt Proofs.SerdeRTRoutes Extract.Show.
Require Import String.

(* ---- toml_edit's ValueSerializer / ValueDeserializer: the core of all five text / document routes ---- *)

(* whatever is serialized without an error reads back as an equal value *)
Theorem C07_roundtrip_value : forall ty v out,
  has_type v ty -> ser_value ty v = Ok out -> exists v', de_value ty out = Ok v' /\ sval_eq v v'.
Proof. intros ty v out. exact (roundtrip_value ty v out). Qed.
Print Assumptions C07_roundtrip_value.

(* an error names a documented unsupported shape that the value contains *)
Theorem C07_errors_documented : forall ty v e,
  has_type v ty -> ser_value ty v = Err e -> unsupported CElem ty v e.
Proof. intros ty v e. exact (errors_documented ty v e). Qed.
Print Assumptions C07_errors_documented.

(* without such a shape serialization succeeds *)
Theorem C07_supported : forall ty v, has_type v ty -> supported ty v -> exists out, ser_value ty v = Ok out.
Proof. exact supported_ok. Qed.
Print Assumptions C07_supported.

(* ... and conversely every documented unsupported shape is refused: nothing is silently dropped *)
Theorem C07_unsupported_refused : forall ty v e,
  has_type v ty -> unsupported CElem ty v e -> exists e', ser_value ty v = Err e'.
Proof. exact unsupported_refused. Qed.
Print Assumptions C07_unsupported_refused.

Theorem C07_ok_iff_supported : forall ty v,
  has_type v ty -> ((exists out, ser_value ty v = Ok out) <-> supported ty v).
Proof. exact ser_ok_iff_supported. Qed.
Print Assumptions C07_ok_iff_supported.

(* ---- document roots: toml_edit::ser::{to_string, to_string_pretty, to_document} ---- *)
Theorem C07_edit_root_is_table : forall t v out,
  ser_edit_root t v = Ok out -> exists es, out = VTab es /\ ser_value t v = Ok out.
Proof. exact edit_root_is_table. Qed.
Print Assumptions C07_edit_root_is_table.

Theorem C07_edit_roundtrip : forall ty v out,
  has_type v ty -> ser_edit_root ty v = Ok out -> exists v', de_value ty out = Ok v' /\ sval_eq v v'.
Proof. exact edit_root_roundtrip. Qed.
Print Assumptions C07_edit_roundtrip.

Theorem C07_edit_errors : forall ty v e, has_type v ty -> ser_edit_root ty v = Err e ->
  unsupported CElem ty v e \/ (e = EUnsupportedType None /\ table_shaped ty v = false).
Proof. exact edit_root_errors. Qed.
Print Assumptions C07_edit_errors.

Theorem C07_edit_supported : forall ty v, has_type v ty -> supported ty v -> table_shaped ty v = true ->
  exists out, ser_edit_root ty v = Ok out.
Proof. exact edit_root_supported. Qed.
Print Assumptions C07_edit_supported.

(* ---- document roots: toml::{to_string, to_string_pretty} ---- *)
Theorem C07_toml_roundtrip : forall ty v out,
  has_type v ty -> ser_toml_root ty v = Ok out -> exists v', de_value ty out = Ok v' /\ sval_eq v v'.
Proof. exact toml_root_roundtrip. Qed.
Print Assumptions C07_toml_roundtrip.

Theorem C07_toml_errors : forall ty v e, has_type v ty -> ser_toml_root ty v = Err e ->
  unsupported CElem ty v e
  \/ (e = EUnsupportedType None /\ toml_root_shaped ty v = false)
  \/ (exists n, e = EUnsupportedType (Some n) /\ root_struct_variant ty v n).
Proof. exact toml_root_errors. Qed.
Print Assumptions C07_toml_errors.

Theorem C07_toml_supported : forall ty v, has_type v ty -> supported ty v -> toml_root_shaped ty v = true ->
  exists out, ser_toml_root ty v = Ok out.
Proof. exact toml_root_supported. Qed.
Print Assumptions C07_toml_supported.

(* ---- the five document routes in one statement (the shape of DESIGN.md 6/C07) ----
   routes: EditPlain EditPretty ToDocument TomlPlain TomlPretty; `documented`: an unsupported shape in the
   value, a root that is not table-shaped, or (toml only) a struct variant at the root *)
Theorem C07_roundtrip : forall r ty v, doc_route r = true -> has_type v ty ->
  match ser_route r ty v with
  | Err e => documented r ty v e
  | Ok out => exists v', de_route r ty out = Ok v' /\ sval_eq v v'
  end.
Proof. exact roundtrip_doc_routes. Qed.
Print Assumptions C07_roundtrip.

Theorem C07_supported_routes : forall r ty v,
  doc_route r = true -> has_type v ty -> supported ty v -> root_ok r ty v = true -> exists out, ser_route r ty v = Ok out.
Proof. exact supported_doc_routes. Qed.
Print Assumptions C07_supported_routes.

(* ---- between the tree and the text: the root conversion and the two "pretty" post-processors ----
   (toml_edit::ser::pretty::Pretty for to_string_pretty, toml::fmt::DocumentFormatter for both of toml's):
   the document they hand to the printer denotes the tree ValueSerializer built (`abs`), and has tables
   and arrays of tables only where a [header] can stand (`printable`; the repaired defect F6 was a
   Table left inside an array) *)
Theorem C07_edit_plain_document : forall es,
  abs (doc_edit_plain (VTab es)) = VTab es /\ printable (doc_edit_plain (VTab es)) = true.
Proof. exact doc_edit_plain_ok. Qed.
Print Assumptions C07_edit_plain_document.

Theorem C07_edit_pretty_document : forall es,
  abs (doc_edit_pretty (VTab es)) = VTab es /\ printable (doc_edit_pretty (VTab es)) = true.
Proof. exact doc_edit_pretty_ok. Qed.
Print Assumptions C07_edit_pretty_document.

Theorem C07_toml_document : forall es,
  abs (doc_toml (VTab es)) = VTab es /\ printable (doc_toml (VTab es)) = true.
Proof. exact doc_toml_ok. Qed.
Print Assumptions C07_toml_document.

(* ---- toml::Value::try_from / toml::Table::try_from, read back by try_into ----
   (The defect that made the full statement false, C07-tryfrom-nested-none-dropped, is repaired in /repo:
   SerializeMap::serialize_value swallowed ANY UnsupportedNone coming out of a field's value; now only a None handed
   directly to the field leaves the entry out, as in toml_edit.  The former witnesses are kept below.)
   doc_keys ty: no map key type is `char` or `Option<_>` (through newtypes) — keys that SerializeMap::serialize_key
   accepts (anything that serializes to a Value::String) although no document serializer does; has_type knows
   nothing about which of those keys collide. *)

(* whatever Value::try_from / Table::try_from accept, try_into gives back *)
Theorem C07_tryfrom_roundtrip : forall ty v out,
  has_type v ty -> doc_keys ty = true -> tv_ser ty v = Ok out -> exists v', tv_de ty out = Ok v' /\ sval_eq v v'.
Proof. exact tryfrom_roundtrip. Qed.
Print Assumptions C07_tryfrom_roundtrip.

Theorem C07_table_tryfrom_roundtrip : forall ty v out,
  has_type v ty -> doc_keys ty = true -> tv_ser_table ty v = Ok out -> exists v', tv_de ty out = Ok v' /\ sval_eq v v'.
Proof. exact table_tryfrom_roundtrip_full. Qed.
Print Assumptions C07_table_tryfrom_roundtrip.

(* Value::try_from accepts a value exactly when it has no documented unsupported shape — the verdict of the text
   routes (C07_ok_iff_supported): nothing is silently dropped; Table::try_from accepts no more than that *)
Theorem C07_tryfrom_ok_iff_supported : forall ty v,
  has_type v ty -> doc_keys ty = true -> ((exists out, tv_ser ty v = Ok out) <-> supported ty v).
Proof. exact tv_ok_iff_supported. Qed.
Print Assumptions C07_tryfrom_ok_iff_supported.

Theorem C07_table_tryfrom_supported : forall ty v out,
  has_type v ty -> doc_keys ty = true -> tv_ser_table ty v = Ok out -> supported ty v.
Proof. exact table_tryfrom_supported. Qed.
Print Assumptions C07_table_tryfrom_supported.

(* for every type (char / Option keys included): a value without any documented unsupported shape is accepted and
   reads back *)
Theorem C07_tryfrom_supported_roundtrip : forall ty v,
  has_type v ty -> supported ty v ->
  exists out, tv_ser ty v = Ok out /\ exists v', tv_de ty out = Ok v' /\ sval_eq v v'.
Proof. exact tryfrom_supported. Qed.
Print Assumptions C07_tryfrom_supported_roundtrip.

Theorem C07_table_tryfrom_supported_roundtrip : forall ty v out,
  has_type v ty -> supported ty v -> tv_ser_table ty v = Ok out ->
  exists v', tv_de ty out = Ok v' /\ sval_eq v v'.
Proof. exact table_tryfrom_roundtrip. Qed.
Print Assumptions C07_table_tryfrom_supported_roundtrip.

(* a failure of Value::try_from names some documented unsupported shape *)
Theorem C07_tryfrom_errors : forall ty v e,
  has_type v ty -> tv_ser ty v = Err e -> exists e', unsupported CElem ty v e'.
Proof. intros ty v e. exact (tv_errors ty v e). Qed.
Print Assumptions C07_tryfrom_errors.

(* the former witnesses of C07-tryfrom-nested-none-dropped: V { v: Some(vec![Some(1), None]) } and
   V { a: 1, v: vec![None] } are refused by both entry points with the error of every other route *)
Theorem C07_tryfrom_nested_none_refused :
  has_type s3_val s3_ty /\ has_type s3b_val s3b_ty
  /\ tv_ser s3_ty s3_val = Err EUnsupportedNone /\ tv_ser_table s3_ty s3_val = Err EUnsupportedNone
  /\ ser_value s3_ty s3_val = Err EUnsupportedNone
  /\ tv_ser s3b_ty s3b_val = Err EUnsupportedNone /\ tv_ser_table s3b_ty s3b_val = Err EUnsupportedNone
  /\ ser_value s3b_ty s3b_val = Err EUnsupportedNone.
Proof. exact tryfrom_nested_none_refused. Qed.
Print Assumptions C07_tryfrom_nested_none_refused.

(* struct N { a: Option<Option<i32>>, b: W(Option<i32>), c: (Option<i32>, i32), d: E, e: Option<i32>,
              m: BTreeMap<String, Vec<Option<i32>>> }     enum E { P(Option<i32>), Q { x: Option<i32> } }
   a None handed directly to a field (a, e, Q.x) leaves the entry out, on every route alike ... *)
Theorem C07_tryfrom_direct_none_skipped :
  let v := nn_val SNone (SNewtype nn_1) nn_c (SVariant 1 (SRec [SNone])) SNone (nn_m nn_1) in
  has_type v nn_ty
  /\ tv_ser nn_ty v = Ok (VTab [(str "b", VInt 1); (str "c", VArr [VInt 1; VInt 2]); (str "d", VTab [(str "Q", VTab [])]);
                                (str "m", VTab [(str "k", VArr [VInt 1])])])
  /\ ser_value nn_ty v = tv_ser nn_ty v /\ tv_ser_table nn_ty v = tv_ser nn_ty v.
Proof. exact tryfrom_direct_none_skipped. Qed.
Print Assumptions C07_tryfrom_direct_none_skipped.

(* ... and a None anywhere deeper — Some(None), a newtype around None, None in a tuple, in a newtype variant's
   payload, in a sequence inside a map — is an error, on every route alike *)
Theorem C07_tryfrom_nested_none_shapes :
  Forall (fun v => has_type v nn_ty /\ tv_ser nn_ty v = Err EUnsupportedNone /\ tv_ser_table nn_ty v = Err EUnsupportedNone
                   /\ ser_value nn_ty v = Err EUnsupportedNone)
    [nn_val (SSome SNone) (SNewtype nn_1) nn_c nn_d nn_1 (nn_m nn_1);
     nn_val (SSome nn_1) (SNewtype SNone) nn_c nn_d nn_1 (nn_m nn_1);
     nn_val (SSome nn_1) (SNewtype nn_1) (SSeq [SNone; SInt 2]) nn_d nn_1 (nn_m nn_1);
     nn_val (SSome nn_1) (SNewtype nn_1) nn_c (SVariant 0 SNone) nn_1 (nn_m nn_1);
     nn_val (SSome nn_1) (SNewtype nn_1) nn_c nn_d nn_1 (nn_m SNone)].
Proof. exact tryfrom_nested_none_shapes. Qed.
Print Assumptions C07_tryfrom_nested_none_shapes.

(* ---- non-vacuity ---- *)
(* struct Cfg { m: BTreeMap<String, Vec<En>>, o: Option<Point>, t: En, d: Datetime, w: Wrap(u8), c: char, x: f32 }
   enum En { U, N(i64), T(bool, String), S { a: Option<i32>, b: u64 } }     struct Point { x: i32, y: i32 } *)
Definition ex_en : ty :=
  TEnum (str "En") [(str "U", VUnit); (str "N", VNewtype (TInt TI64)); (str "T", VTuple [TBool; TStr]);
                    (str "S", VStruct [(str "a", TOpt (TInt TI32)); (str "b", TInt TU64)])].
Definition ex_point : ty := TStruct (str "Point") [(str "x", TInt TI32); (str "y", TInt TI32)].
Definition ex_ty : ty :=
  TStruct (str "Cfg") [(str "m", TMap TStr (TSeq ex_en)); (str "o", TOpt ex_point); (str "n", TOpt ex_point);
                       (str "t", ex_en); (str "d", TDatetime KDatetime); (str "w", TNewtype (str "Wrap") (TInt TU8));
                       (str "c", TChar); (str "x", TFloat F32)].
Definition ex_dt : datetime := mkDT (Some (mkDate 1979 5 27)) (Some (mkTime 7 32 0 500000000)) (Some (OffCustom (-420))).
Definition ex_val : sval :=
  SRec [SMap [(SStr (str "k1"), SSeq [SVariant 0 SUnit; SVariant 1 (SInt (-5)); SVariant 3 (SRec [SNone; SInt 7])]);
              (SStr (str "k2"), SSeq [])];
        SSome (SRec [SInt 1; SInt (-2)]); SNone;
        SVariant 2 (SSeq [SBool true; SStr (str "x y")]); SDt ex_dt; SNewtype (SInt 255);
        SChar 233; SF32 1036831949].

Example C07_ex_typed : has_type ex_val ex_ty /\ doc_keys ex_ty = true /\ doc_keys nn_ty = true.
Proof. repeat split; vm_compute; reflexivity. Qed.

Example C07_ex_ser :
  ser_edit_root ex_ty ex_val =
  Ok (VTab [(str "m", VTab [(str "k1", VArr [VStr (str "U"); VTab [(str "N", VInt (-5))];
                                            VTab [(str "S", VTab [(str "b", VInt 7)])]]);
                            (str "k2", VArr [])]);
            (str "o", VTab [(str "x", VInt 1); (str "y", VInt (-2))]);
            (str "t", VTab [(str "T", VArr [VBool true; VStr (str "x y")])]);
            (str "d", VDatetime ex_dt); (str "w", VInt 255); (str "c", VStr [xc3; xa9]);
            (str "x", VFloat 4591870180174331904)]).
Proof. vm_compute. reflexivity. Qed.

Example C07_ex_roundtrip :
  match ser_toml_root ex_ty ex_val with Ok out => de_value ex_ty out | Err e => Err e end = Ok ex_val.
Proof. vm_compute. reflexivity. Qed.

(* the documented unsupported shapes do occur, and are refused: None in a sequence, a unit, a
   non-string key, a u64 beyond i64, a non-table root, a struct variant at the root of toml::to_string *)
Example C07_ex_tryfrom_roundtrip :
  match tv_ser ex_ty ex_val with Ok out => tv_de ex_ty out | Err e => Err e end = Ok ex_val.
Proof. vm_compute. reflexivity. Qed.

(* v = ["U", { B = { inner = 1 } }] (the F6 witness) stays an inline array; w = [{ x = [1] }, { x = [] }] becomes [[w]] *)
Example C07_ex_pretty :
  doc_edit_pretty (VTab [(str "v", VArr [VStr (str "U"); VTab [(str "B", VTab [(str "inner", VInt 1)])]]);
                         (str "w", VArr [VTab [(str "x", VArr [VInt 1])]; VTab [(str "x", VArr [])]]);
                         (str "t", VTab [(str "a", VTab [])])])
  = ITab [(str "v", IArr [ILeaf (VStr (str "U")); IInl [(str "B", IInl [(str "inner", ILeaf (VInt 1))])]]);
          (str "w", IAot [ITab [(str "x", IArr [ILeaf (VInt 1)])]; ITab [(str "x", IArr [])]]);
          (str "t", ITab [(str "a", ITab [])])].
Proof. vm_compute. reflexivity. Qed.

Example C07_ex_none_in_seq :
  ser_value (TSeq (TOpt TBool)) (SSeq [SSome (SBool true); SNone]) = Err EUnsupportedNone
  /\ unsupported CElem (TSeq (TOpt TBool)) (SSeq [SSome (SBool true); SNone]) EUnsupportedNone.
Proof. split; [vm_compute; reflexivity|]. eapply u_seq; [right; left; reflexivity|apply u_none]. Qed.

Example C07_ex_int_key :
  ser_value (TMap (TInt TI32) TBool) (SMap [(SInt 1, SBool true)]) = Err EKeyNotString.
Proof. vm_compute. reflexivity. Qed.

Example C07_ex_u64 :
  ser_value (TInt TU64) (SInt 9223372036854775808) = Err (EOutOfRange (Some S_u64))
  /\ ser_value (TInt TU64) (SInt 9223372036854775807) = Ok (VInt 9223372036854775807).
Proof. split; vm_compute; reflexivity. Qed.

Example C07_ex_root :
  ser_edit_root (TSeq TBool) (SSeq []) = Err (EUnsupportedType None)
  /\ ser_toml_root ex_en (SVariant 3 (SRec [SNone; SInt 7])) = Err (EUnsupportedType (Some (str "En")))
  /\ ser_edit_root ex_en (SVariant 3 (SRec [SNone; SInt 7])) = Ok (VTab [(str "S", VTab [(str "b", VInt 7)])]).
Proof. repeat split; vm_compute; reflexivity. Qed.

(* a Datetime at the root of a document is refused as a non-table by toml::to_string as by toml_edit's (since the repair
   of C06-root-datetime-printed-as-table; before, toml::to_string wrote the document `"$__toml_private_datetime" = ".."`);
   Value::try_from yields the date-time *)
Example C07_ex_root_datetime :
  ser_toml_root (TDatetime KDatetime) (SDt ex_dt) = Err (EUnsupportedType None)
  /\ ser_edit_root (TDatetime KDatetime) (SDt ex_dt) = Err (EUnsupportedType None)
  /\ toml_root_shaped (TDatetime KDatetime) (SDt ex_dt) = false
  /\ tv_ser (TDatetime KDatetime) (SDt ex_dt) = Ok (VDatetime ex_dt).
Proof. repeat split; vm_compute; reflexivity. Qed.
