(* Props/C07.v — property C07: serde serialization never loses data: it round-trips or returns an
   error.  Statements only; proofs in Proofs/SerdeRT*.v.
   Level: the TOML value tree (Spec/SerdeData.v `tomlval`).  Printing a tree as text and parsing
   it back is C03/C06 (documents), C10 (strings, keys), C11 (numbers), C12 (date-times). *)
From TV Require Import Base.Prelude Spec.SerdeData Model.Ser Model.De Proofs.SerdeRTBase Proofs.SerdeRT.

(* toml_edit's ValueSerializer / ValueDeserializer (the core of all five text / document routes):
   whatever is serialized without an error reads back as an equal value *)
Theorem C07_roundtrip_value : forall ty v out,
  has_type v ty -> ser_value ty v = Ok out -> exists v', de_value ty out = Ok v' /\ sval_eq v v'.
Proof. intros ty v out. exact (roundtrip_value ty v out). Qed.
Print Assumptions C07_roundtrip_value.

(* whatever to_document / to_string / to_string_pretty of toml_edit accept is a table at the root *)
Theorem C07_edit_root_is_table : forall t v out,
  ser_edit_root t v = Ok out -> exists es, out = VTab es /\ ser_value t v = Ok out.
Proof. exact edit_root_is_table. Qed.
Print Assumptions C07_edit_root_is_table.
