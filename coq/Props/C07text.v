(* Props/C07text.v — property C07 through real bytes: "serializing a value of a supported shape yields valid TOML
   text from which deserializing the same type gives back an equal value".  Statements only; proofs in
   Proofs/SerDoc*.v.  This composes
     eng-c07's value-tree level   Model/Ser.v, De.v, SerFmt.v, Props/C07.v (what the serializers build, what the
                                  formatters make of it, what the deserializers read)
     C06's constructed trees      Model/Build.v, Props/C06.v (a constructed toml_edit tree prints as text that parses
                                  back to the same abstract tree)
   through Model/SerDoc.v: `ser_doc`, the toml_edit tree a text route hands to the printer, built FROM SerFmt's layouts;
   `tomlval_of_abs` / `de_doc`, the parsed document read as the value tree the deserializer walks.

   Routes (Model/SerDoc.v troute): toml_edit::ser::to_string / to_string_pretty, toml::to_string / to_string_pretty,
   read back by toml_edit::de::from_str / toml::from_str (both are `de_value` on the root table).  The two pretty
   routes break arrays of two and more elements over lines ("\n    " before every element, a trailing comma,
   "\n" before the bracket): Model/Build.v BV_array_ml.

   Hypotheses, besides eng-c07's `has_type`:
     float_oracle fd back   std's float printing / parsing (DESIGN.md 4.4): `fd b` is the decimal (or nan / inf) the text
                            printed for the f64 pattern b denotes, with a fraction and below the parser's overflow
                            threshold; `back` parses it to b again (to some NaN for a NaN).  Props/C11.v
                            `std_roundtrip_hyp` is the same assumption for the finite non-zero values.
     utf8_ty / utf8_sv      field names, variant names and strings are UTF-8 (Rust's are; the `bytes` of the universe
                            are arbitrary).
     tv_depth out <= LIMIT  the value tree is nested at most LIMIT = 80 deep, the root table counted: every struct, map,
                            sequence, tuple and every enum variant with a payload is one level (a variant: one for
                            its one-entry table plus the payload's own), Option and newtype structs are none.  Both the
                            `[a.b.c]` header paths and the inline values inherit this bound, and the parser refuses
                            anything deeper (C20).  `ty_depth ty <= LIMIT` (read off the type) is sufficient.
   What comes back is the tree that was written up to (1) the order of the entries of a table — the printed form lists
   key/value lines before [sub-tables] — and (2) the payload of a NaN (`tv_equiv`); structs look their fields up by name
   and maps are rebuilt entry by entry from keys that cannot collide, so the deserializer is insensitive to both
   (C07_de_any_order); sequences and tuples are arrays, whose order the text keeps. *)
From TV Require Import Base.Prelude Base.Utf8 Base.Winnow Gen.Consts.
From TV Require Import Model.Datetime Model.Numbers Model.Tree Model.Parse Model.Document Model.Write Model.Encode Model.Build.
From TV Require Import Proofs.BuiltRTValue Proofs.BuiltRTTop.
From TV Require Import Model.SerNum Spec.SerdeData Model.Ser Model.De Model.SerFmt Model.SerDoc.
From TV Require Import Proofs.SerDocDe Proofs.SerDocWf Proofs.SerDocBuilt Proofs.SerDocBack Proofs.SerDocTop.
From TV Require Import Extract.Show Props.C07.
Require Import String.

(* ---- the round trip through text ------------------------------------------------------------------------------ *)
Theorem C07_text_roundtrip : forall fd back, float_oracle fd back -> forall r ty v out,
  has_type v ty -> utf8_ty ty = true -> utf8_sv v = true ->
  ser_text r ty v = SerdeData.Ok out -> tv_depth out <= LIMIT ->
  exists T d v',
    ser_doc fd r ty v = Some T
    /\ parse_document (display_document (render_tbl float_text T) REmpty) = POk d
    /\ de_doc back ty (abs_tbl (doc_root d)) = SerdeData.Ok v' /\ sval_eq v v'.
Proof. exact text_roundtrip_main. Qed.
Print Assumptions C07_text_roundtrip.

(* the same with the nesting bound read off the type *)
Theorem C07_text_roundtrip_by_type : forall fd back, float_oracle fd back -> forall r ty v out,
  has_type v ty -> utf8_ty ty = true -> utf8_sv v = true ->
  ser_text r ty v = SerdeData.Ok out -> ty_depth ty <= LIMIT ->
  exists T d v',
    ser_doc fd r ty v = Some T
    /\ parse_document (display_document (render_tbl float_text T) REmpty) = POk d
    /\ de_doc back ty (abs_tbl (doc_root d)) = SerdeData.Ok v' /\ sval_eq v v'.
Proof. exact text_roundtrip_by_type. Qed.
Print Assumptions C07_text_roundtrip_by_type.

Theorem C07_text_depth_by_type : forall r ty v out,
  ser_text r ty v = SerdeData.Ok out -> tv_depth out <= Nat.max 1 (ty_depth ty).
Proof. exact ser_text_depth. Qed.
Print Assumptions C07_text_depth_by_type.

(* ---- the tree of a text route is a constructed tree; what the text parses to is the tree that was written ---- *)
Theorem C07_text_inverse : forall fd back, float_oracle fd back -> forall r ty v out,
  has_type v ty -> utf8_ty ty = true -> utf8_sv v = true ->
  ser_text r ty v = SerdeData.Ok out -> tv_depth out <= LIMIT ->
  exists T d,
    ser_doc fd r ty v = Some T
    /\ BuiltTbl scalar_ok key_ok T
    /\ parse_document (display_document (render_tbl float_text T) REmpty) = POk d
    /\ abs_tbl (doc_root d) = printed_entries (abs_tbl T)
    /\ tv_equiv out (tomlval_of_abs back (abs_tbl (doc_root d))).
Proof. exact text_inverse. Qed.
Print Assumptions C07_text_inverse.

(* what every serializer output looks like: distinct UTF-8 keys, UTF-8 strings, i64 integers, 64-bit floats, date-times in range *)
Theorem C07_text_output_wf : forall r ty v out,
  has_type v ty -> utf8_ty ty = true -> utf8_sv v = true -> ser_text r ty v = SerdeData.Ok out ->
  out_ok out = true /\ exists es, out = VTab es.
Proof. exact ser_text_out_ok. Qed.
Print Assumptions C07_text_output_wf.

(* ---- the deserializer does not see the order of a table's entries, nor the payload of a NaN ---- *)
Theorem C07_de_any_order : forall ty v out out',
  has_type v ty -> ser_value ty v = SerdeData.Ok out -> tv_equiv out out' ->
  exists v', de_value ty out' = SerdeData.Ok v' /\ sval_eq v v'.
Proof. intros ty v out out'. exact (roundtrip_equiv ty v out out'). Qed.
Print Assumptions C07_de_any_order.

(* ---- the two formatters (toml_edit's Pretty, toml's DocumentFormatter) lay a serialized tree out alike ---- *)
Theorem C07_pretty_layouts_agree : forall es, doc_edit_pretty (VTab es) = doc_toml (VTab es).
Proof. exact pretty_layouts_agree. Qed.
Print Assumptions C07_pretty_layouts_agree.

(* ---- the oracle hypothesis is consistent (non-vacuity; that std satisfies it is the trusted part, DESIGN.md 4.4) ---- *)
Theorem C07_float_oracle_satisfiable : exists fd back, float_oracle fd back.
Proof. exact float_oracle_satisfiable. Qed.
Print Assumptions C07_float_oracle_satisfiable.

(* ---- examples (Props/C07.v: struct Cfg { m: BTreeMap<String, Vec<En>>, o: Option<Point>, n: Option<Point>, t: En,
        d: Datetime, w: Wrap(u8), c: char, x: f32 } with an enum in a sequence in a map, an optional table, a tuple
        variant, a date-time field) ------------------------------------------------------------------------------------
   the one float of the value is 0.1f32, written through its exact widening 0x3fb99999a0000000, which std prints as
   0.10000000149011612 *)
Definition ex_fd (b : N) : fval := if (b =? 4591870180174331904)%N then FDec false 10000000149011612 (-17) else FNan false.
Definition ex_back (f : fval) : N :=
  match f with FDec false 10000000149011612 (-17) => 4591870180174331904%N | _ => 9221120237041090560%N end.
Definition ex_text (r : troute) : bytes :=
  match ser_doc ex_fd r ex_ty ex_val with
  | Some T => display_document (render_tbl float_text T) REmpty
  | None => []
  end.

(* byte for byte what the crates print (harness/src/bin/serde `ser`, routes ep / tp / epp = tpp) *)
Example C07text_ex_edit :
  ex_text EditString
  = str "m = { k1 = [" ++ [x22] ++ str "U" ++ [x22] ++ str ", { N = -5 }, { S = { b = 7 } }], k2 = [] }" ++ [x0a]
    ++ str "o = { x = 1, y = -2 }" ++ [x0a]
    ++ str "t = { T = [true, " ++ [x22] ++ str "x y" ++ [x22] ++ str "] }" ++ [x0a]
    ++ str "d = 1979-05-27T07:32:00.5-07:00" ++ [x0a]
    ++ str "w = 255" ++ [x0a]
    ++ str "c = " ++ [x22] ++ [xc3] ++ [xa9] ++ [x22] ++ [x0a]
    ++ str "x = 0.10000000149011612" ++ [x0a].
Proof. vm_compute. reflexivity. Qed.

Example C07text_ex_toml :
  ex_text TomlString
  = str "d = 1979-05-27T07:32:00.5-07:00" ++ [x0a]
    ++ str "w = 255" ++ [x0a]
    ++ str "c = " ++ [x22] ++ [xc3] ++ [xa9] ++ [x22] ++ [x0a]
    ++ str "x = 0.10000000149011612" ++ [x0a]
    ++ [x0a]
    ++ str "[m]" ++ [x0a]
    ++ str "k1 = [" ++ [x22] ++ str "U" ++ [x22] ++ str ", { N = -5 }, { S = { b = 7 } }]" ++ [x0a]
    ++ str "k2 = []" ++ [x0a]
    ++ [x0a]
    ++ str "[o]" ++ [x0a]
    ++ str "x = 1" ++ [x0a]
    ++ str "y = -2" ++ [x0a]
    ++ [x0a]
    ++ str "[t]" ++ [x0a]
    ++ str "T = [true, " ++ [x22] ++ str "x y" ++ [x22] ++ str "]" ++ [x0a].
Proof. vm_compute. reflexivity. Qed.

Example C07text_ex_pretty :
  ex_text TomlStringPretty
  = str "d = 1979-05-27T07:32:00.5-07:00" ++ [x0a]
    ++ str "w = 255" ++ [x0a]
    ++ str "c = " ++ [x22] ++ [xc3] ++ [xa9] ++ [x22] ++ [x0a]
    ++ str "x = 0.10000000149011612" ++ [x0a]
    ++ [x0a]
    ++ str "[m]" ++ [x0a]
    ++ str "k1 = [" ++ [x0a]
    ++ str "    " ++ [x22] ++ str "U" ++ [x22] ++ str "," ++ [x0a]
    ++ str "    { N = -5 }," ++ [x0a]
    ++ str "    { S = { b = 7 } }," ++ [x0a]
    ++ str "]" ++ [x0a]
    ++ str "k2 = []" ++ [x0a]
    ++ [x0a]
    ++ str "[o]" ++ [x0a]
    ++ str "x = 1" ++ [x0a]
    ++ str "y = -2" ++ [x0a]
    ++ [x0a]
    ++ str "[t]" ++ [x0a]
    ++ str "T = [" ++ [x0a]
    ++ str "    true," ++ [x0a]
    ++ str "    " ++ [x22] ++ str "x y" ++ [x22] ++ str "," ++ [x0a]
    ++ str "]" ++ [x0a]
  /\ ex_text EditStringPretty = ex_text TomlStringPretty.
Proof. split; vm_compute; reflexivity. Qed.

(* each of the four texts parses, and the parsed document deserializes to the value *)
Definition ex_back_ok (r : troute) : bool :=
  match parse_document (ex_text r) with
  | POk d => match de_doc ex_back ex_ty (abs_tbl (doc_root d)) with SerdeData.Ok v' => sval_beq v' ex_val | _ => false end
  | _ => false
  end.
Example C07text_ex_roundtrip :
  ex_back_ok EditString = true /\ ex_back_ok EditStringPretty = true /\ ex_back_ok TomlString = true /\ ex_back_ok TomlStringPretty = true.
Proof. repeat split; vm_compute; reflexivity. Qed.

(* the hypotheses hold of the example *)
Example C07text_ex_hyps :
  utf8_ty ex_ty = true /\ utf8_sv ex_val = true /\ ty_depth ex_ty = 5 /\
  match ser_text TomlString ex_ty ex_val with SerdeData.Ok out => tv_depth out | _ => 0 end = 5.
Proof. repeat split; vm_compute; reflexivity. Qed.

(* what comes back lists `d w c x` before the tables `m o t` although the struct has them in the order m o n t d w c x *)
Example C07text_ex_order :
  match parse_document (ex_text TomlString) with
  | POk d => map fst (abs_tbl (doc_root d))
  | _ => []
  end = [str "d"; str "w"; str "c"; str "x"; str "m"; str "o"; str "t"].
Proof. vm_compute. reflexivity. Qed.

(* the nesting bound is sharp: Vec<Vec<..<i64>..>> in a one-field struct, 79 levels of arrays below the root table are
   read back, 80 are refused by the parser (RecursionLimit) although the serializer wrote them *)
Fixpoint nest_ty (n : nat) : ty := match n with O => TInt TI64 | S n' => TSeq (nest_ty n') end.
Fixpoint nest_val (n : nat) : sval := match n with O => SerdeData.SInt 1 | S n' => SSeq [nest_val n'] end.
Definition nest_text (n : nat) : bytes :=
  match ser_doc ex_fd EditString (TStruct (str "S") [(str "a", nest_ty n)]) (SRec [nest_val n]) with
  | Some T => display_document (render_tbl float_text T) REmpty
  | None => []
  end.
Example C07text_ex_depth :
  ty_depth (TStruct (str "S") [(str "a", nest_ty 79)]) = 80
  /\ (match parse_document (nest_text 79) with POk _ => true | _ => false end) = true
  /\ (match parse_document (nest_text 80) with POk _ => true | _ => false end) = false.
Proof. repeat split; vm_compute; reflexivity. Qed.
