(* Props/WFbackbone.v — the shared backbone of C03 (general clause), C06 and C08 (text half):
   whatever tree is well-formed prints as valid TOML that decodes to the same data.
   Only statements, each closed by `exact`; proofs in Spec/WF.v (definition) and Proofs/WF*.v.

     WF root / WFdoc root trailing   Spec/WF.v: well-formed despanned trees, slot by slot: every decor is legal trivia
                        for its slot (after Display's CR stripping), a stored repr is a token of the scalar's kind
                        denoting it (an absent one needs a scalar the default writer is proved to write), key reprs
                        spell their keys, keys are distinct, arrays / inline tables hold values only, a table that has
                        no key/value line of its own and prints no header — an implicit table, or a table made of dotted
                        keys whose lines are gone — has a header printed below it,
                        the limits of Spec/Syntax.v, and `order_ok`: the positions do not decrease along the pre-order
                        walk (Display's stable sort by position then leaves the walk's order alone);
     wf_b / wfdoc_b     Proofs/WFBool.v: the decision procedure (tokens by the model's token parsers);
     abs_doc_of root    Proofs/WFTree.v: the data Display of the tree defines — the tree of Spec/Defs.v with, in every
                        table, what its key/value lines define first (values and tables made of dotted keys, a dotted
                        inline table being one) and then its sub-tables / arrays of tables; kind KHeader when a [header]
                        is printed, KSuper when not, KDotted for tables made of dotted keys that have a line of their
                        own (one without is only mentioned by the headers below it: KSuper, listed with the sub-tables);
     display_document   Model/Encode.v: Display for DocumentMut.

   The route: the printed text HAS A GRAMMAR DERIVATION (Spec/Syntax.v toml_text) whose statements, by the definition
   rules of Spec/Defs.v (the strict ones), define exactly `abs_doc_of` (WF_print_derivation); C01_complete and C02_tree
   then give acceptance and the decoded data (WF_print_parse).  No new reasoning about the parser.

   PARSED DOCUMENTS.  `parse_WF`: every accepted document, despanned (ImDocument::into_mut), satisfies ALL clauses of WF
   except `order_ok` — proved through the parser (Proofs/WFParse*.v: decor / reprs / keys / values / limits), C09's
   simulation (keys distinct, no Item::None, arrays of tables non-empty) and the specification side (a tree built by the
   definition rules has no empty super-table and no line-less dotted table).

   C03, GENERAL CLAUSE: `C03_general_reparse` — every accepted document whose statements the specification DECIDES
   (no step of class U1; the premise of C01_exact) prints a text that is accepted again and decodes to the same data,
   kinds included; whatever the order of its sections, with dotted keys in key/value lines, headers and inline tables.

   CONSTRUCTED DOCUMENTS.  `Built_WF`: whatever the construction API builds (Model/Build.v BuiltTbl, C06) is well-formed,
   once floats without a repr carry their text (render_tbl, the float oracle) and provided no array of tables is empty
   (`aot_ne`; an empty one prints nothing) — so C06's documents are instances of the backbone (C06_constructed_print_parse:
   the decoded data is `abs_doc_of`, kinds included).

   NOT COVERED (stated exactly):
     * class U1 ("[t.a.b]\n[t]\na.c.x=1": a dotted key through a super-table; the specification's verdict is
       Undecided): the clause is FALSE with kinds (wfb_ex_u1: the re-parsed tree has KHeader where the original has
       KSuper).  For such documents what is proved is parse_WF (all of WF but order_ok), the derivation for any order
       of the sections (WF_print_parse_any_order) and the reparse theorems under a decidable check
       (C03_general_reparse_replay_partial, C03_general_reparse_partial) — the check fails on wfb_ex_u1, as it must.
     * `order_ok` remains the premise of the order-free SEMANTIC theorem for arbitrary (edited, built) trees
       (WF_print_parse); for them `WF_print_parse_any_order` trades it for the validity of Display's statements. *)
From TV Require Import Base.Prelude Base.Utf8 Base.Winnow Gen.Consts Spec.Abnf Spec.Lex Spec.Defs Spec.Syntax Spec.WF.
From TV Require Import Model.Tree Model.Parse Model.Document Model.Encode.
From TV Require Import Proofs.GrammarBase Proofs.PrintBackBase.
From TV Require Import Proofs.WFSem Proofs.WFSemDoc Proofs.WFBool Proofs.WFBoolSound Proofs.WFPrintValue Proofs.WFTree Proofs.WFPrintTop Proofs.WFReparse
                       Proofs.WFParseTop Proofs.WFReparseParsed Proofs.WFReplay Proofs.WFOrderDoc Proofs.WFOrderTop Proofs.WFOrderDotDoc.
From TV Require Import Model.Build Proofs.BuiltRTValue Proofs.BuiltRTTop Proofs.WFBuilt.
Require Import String Ascii.

(* ---- the backbone ------------------------------------------------------------------------------------------------------- *)
(* the printed text has a derivation, valid and within the limits, denoting the tree's data *)
Theorem WF_print_derivation : forall root trailing,
  WFdoc root trailing ->
  exists stmts, toml_text (display_document root trailing) stmts
                /\ verdict stmts = Valid (abs_doc_of root)
                /\ within_limits stmts = true.
Proof. exact WFPrintTop.WF_print_derivation. Qed.
Print Assumptions WF_print_derivation.

(* hence it is accepted and decodes to the tree's data *)
Theorem WF_print_parse : forall root trailing,
  WFdoc root trailing ->
  exists d, parse_document (display_document root trailing) = POk d /\ abs_doc d = abs_doc_of root.
Proof. exact WFPrintTop.WF_print_parse. Qed.
Print Assumptions WF_print_parse.

(* the decision procedure is sound *)
Theorem WF_decidable_sound : forall root trailing, wfdoc_b root trailing = true -> WFdoc root trailing.
Proof. exact wfdoc_b_sound. Qed.
Print Assumptions WF_decidable_sound.

(* ---- the pieces, usable on their own ---------------------------------------------------------------------------------- *)
(* values: Display of a well-formed value is <prefix> <val of the grammar> <suffix>, the val denoting the value's
   data, every inline table in it well-defined, within the limits at nesting depth d *)
Theorem WF_value_derivation : forall v c d dflt,
  value_wf c v -> value_lim d v -> dflt_ok dflt ->
  exists p t s a, encode_value (S (value_size v)) v dflt = p ++ t ++ s /\ slot_ok (pre_slot c) p /\ slot_ok (suf_slot c) s
                  /\ val_tok t a /\ den a = absv v /\ aval_ok a = true /\ within d a = true.
Proof. exact value_derivation. Qed.
Print Assumptions WF_value_derivation.

(* specification side, any leaf type: the statements of a tree — in every table its key/value lines (dotted keys
   flattened) and then, in order, the sections of its sub-tables (none for a hidden one) and arrays of tables — define
   the tree; dotted keys, header tables below tables made of dotted keys, super-tables never given a header *)
Theorem WF_statements_define : forall (V : Type) (l : sbody V),
  swf_body V l -> run true (body_stmts V [] l) = Valid (bres V l).
Proof. exact body_defines. Qed.
Print Assumptions WF_statements_define.

(* key/value statements with dotted keys, inside one table (inline tables, and the lines of one section) *)
Theorem WF_dotted_lines_define : forall (V : Type) (l : list (bytes * dnode V)),
  dwf V l -> inline_run (dflat V l) = Some (dres V l).
Proof. exact dfold_run. Qed.
Print Assumptions WF_dotted_lines_define.

(* ---- parsed documents ---------------------------------------------------------------------------------------------------- *)
(* every accepted document, despanned, is well-formed apart from the order of its sections *)
Theorem parse_WF : forall s d r t,
  parse_document s = POk d -> tbl_despan s (doc_root d) = Some r -> raw_despan s (doc_trailing d) = Some t ->
  (t_dotted r = false /\ tbl_wf true r /\ tbl_lim 0 0 r) /\ raw_ok SDocTrail t.
Proof. exact WFParseTop.parse_WF. Qed.
Print Assumptions parse_WF.

(* ... and wholly well-formed when its sections come in the order of the tree walk *)
Theorem parse_WF_ordered : forall s d r t,
  parse_document s = POk d -> tbl_despan s (doc_root d) = Some r -> raw_despan s (doc_trailing d) = Some t ->
  order_ok r -> WFdoc r t.
Proof. exact parsed_WF. Qed.
Print Assumptions parse_WF_ordered.

(* C03, general clause, under a decidable premise: the sections come in the order of the tree walk and `abs_doc_of`
   of the despanned tree is the document's data (`order_data_check`).  Superseded for decided documents by
   C03_general_reparse below; kept because the check also runs on documents of class U1. *)
Theorem C03_general_reparse_partial : forall s d o,
  parse_document s = POk d -> print_doc s d = Some o -> order_data_check s d = true ->
  exists d', parse_document o = POk d' /\ abs_doc d' = abs_doc d.
Proof. exact reparse_ordered. Qed.
Print Assumptions C03_general_reparse_partial.

(* ---- any order of the sections ------------------------------------------------------------------------------------------- *)
(* `replay_stmts root` (Proofs/WFReplay.v): the own statements — header, then key/value lines with dotted keys
   flattened — of the sections in Display's order (stable sort by position of the tree walk), computed from the tree
   without printing.  The printed text of a tree satisfying every clause of WF but `order_ok` has a derivation with
   exactly these statements; so if they are valid, the text is accepted and decodes to the tree they define.
   (That they define the tree itself is WF_statements_define, proved for the walk order.) *)
Theorem WF_print_parse_any_order : forall root trailing T,
  (t_dotted root = false /\ tbl_wf true root /\ tbl_lim 0 0 root) -> raw_ok SDocTrail trailing ->
  spec_run (replay_stmts root) = Valid T ->
  exists d, parse_document (display_document root trailing) = POk d /\ abs_doc d = T.
Proof. exact WF_print_parse_replay. Qed.
Print Assumptions WF_print_parse_any_order.

(* C03, general clause, as a certified check with NO other premise: `replay_check s d` runs the definition rules on
   `replay_stmts` of the despanned tree and compares the result with the document's data.  It holds for documents whose
   sections are in any order (wfb_ex_unordered_replay); it fails for class U1, as it must (wfb_ex_u1). *)
Theorem C03_general_reparse_replay_partial : forall s d o,
  parse_document s = POk d -> print_doc s d = Some o -> replay_check s d = true ->
  exists d', parse_document o = POk d' /\ abs_doc d' = abs_doc d.
Proof. exact reparse_replay. Qed.
Print Assumptions C03_general_reparse_replay_partial.

(* ---- C03, general clause, UNCONDITIONAL for documents whose key/value lines have undotted keys ------------------------- *)
(* `nodot (doc_root d)`: the parsed tree holds no table made of dotted keys, i.e. no key/value line was written with a
   dotted key (header paths of any length, dotted keys inside inline tables, comments, every layout are allowed).
   Then, WHATEVER THE ORDER OF THE SECTIONS (sub-tables before their parents, super-tables given a header later,
   interleaved elements of arrays of tables ...): the text the document prints is accepted again and decodes to the same
   data, kinds included.  No other premise.
   The semantic half, on the tree alone: Display's statements (replay_stmts) define the document's data.  Proved along
   the parse (Proofs/WFOrderDoc.v): the positioned sections of the state, sorted by position, are the statements read
   so far and run to the state of C09's simulation; on eng-c01's relational view of descend_path (dctx_rel) and sorting
   lemmas (stable_sort_unique). *)
Theorem C03_replay_defines_undotted : forall s d,
  parse_document s = POk d -> nodot (doc_root d) = true -> spec_run (replay_stmts (doc_root d)) = Valid (abs_doc d).
Proof. exact nodot_replay. Qed.
Print Assumptions C03_replay_defines_undotted.

Theorem C03_general_reparse_undotted : forall s d o,
  parse_document s = POk d -> nodot (doc_root d) = true -> print_doc s d = Some o ->
  exists d', parse_document o = POk d' /\ abs_doc d' = abs_doc d.
Proof. exact reparse_nodot. Qed.
Print Assumptions C03_general_reparse_undotted.

(* ---- C03, general clause: EVERY accepted document the specification decides --------------------------------------------- *)
(* The premise is C01_exact's: no derivation of the text has a verdict Undecided, i.e. no key/value line runs a dotted
   key through a table that exists only as a super-table (class U1, DESIGN.md 3.3; wfb_ex_u1 shows the clause is false
   there).  Then the text the document prints — sections in Display's order, the key/value lines of each section
   regrouped by their dotted tables — is accepted again and decodes to the same data, kinds included.
   The semantic half (Proofs/WFOrderDot.v, WFOrderDotDoc.v): along the parse the open table is <the sub-tables it had
   when its header was read> ++ <entries made by its lines>; the printed lines of those entries rebuild them at the
   open section's place (WF_dotted_lines_define + C09's invariant); a decided step never descends into a super-table. *)
Theorem C03_replay_defines_decided : forall s d,
  parse_document s = POk d -> (forall stmts, toml_text s stmts -> verdict stmts <> Undecided) ->
  spec_run (replay_stmts (doc_root d)) = Valid (abs_doc d).
Proof. exact decided_replay. Qed.
Print Assumptions C03_replay_defines_decided.

Theorem C03_general_reparse : forall s d o,
  parse_document s = POk d -> (forall stmts, toml_text s stmts -> verdict stmts <> Undecided) -> print_doc s d = Some o ->
  exists d', parse_document o = POk d' /\ abs_doc d' = abs_doc d.
Proof. exact reparse_decided. Qed.
Print Assumptions C03_general_reparse.

(* for any tree, parsed or not, with the facts given as premises *)
Theorem C03_general_reparse_of_WF : forall s d r t,
  parse_document s = POk d -> tbl_despan s (doc_root d) = Some r -> raw_despan s (doc_trailing d) = Some t ->
  WFdoc r t -> abs_doc_of r = abs_doc d ->
  print_doc s d = Some (display_document r t)
  /\ exists d', parse_document (display_document r t) = POk d' /\ abs_doc d' = abs_doc d.
Proof. exact reparse_of_wf. Qed.
Print Assumptions C03_general_reparse_of_WF.

(* ---- constructed documents are well-formed --------------------------------------------------------------------------------- *)
(* for any admissible leaves PS / keys PK: a leaf must be within the limits and print through a default writer proved to
   write a token (for a float: the text `ftext f` it is rendered with is a float token denoting it); keys UTF-8 *)
Theorem Built_WF : forall (ftext : fval -> bytes) (PS : scalar -> Prop) (PK : bytes -> Prop),
  (forall s, PS s -> scalar_lim s /\ match s with SFloat f => float_tok (ftext f) f | _ => default_ok s end) ->
  (forall k, PK k -> utf8_valid_b k = true) ->
  forall t, BuiltTbl PS PK t -> aot_ne t = true -> tbl_hdepth t < LIMIT -> tbl_vdepth t < LIMIT ->
  WFdoc (render_tbl ftext t) REmpty.
Proof. exact built_WFdoc. Qed.
Print Assumptions Built_WF.

(* C06's leaves (scalar_ok, key_ok) and float text *)
Theorem C06_constructed_WF : forall t,
  BuiltTbl scalar_ok key_ok t -> aot_ne t = true -> tbl_hdepth t < LIMIT -> tbl_vdepth t < LIMIT ->
  WFdoc (render_tbl float_text t) REmpty.
Proof. exact constructed_WF. Qed.
Print Assumptions C06_constructed_WF.

Theorem C06_constructed_print_parse : forall t,
  BuiltTbl scalar_ok key_ok t -> aot_ne t = true -> tbl_hdepth t < LIMIT -> tbl_vdepth t < LIMIT ->
  exists d, parse_document (display_document (render_tbl float_text t) REmpty) = POk d
            /\ abs_doc d = abs_doc_of (render_tbl float_text t).
Proof. exact constructed_print_parse. Qed.
Print Assumptions C06_constructed_print_parse.

(* ---- examples (closed boolean checks, by vm_compute) ------------------------------------------------------------------- *)
Definition txt (s : string) : bytes := List.map byte_of_ascii (list_ascii_of_string s).
Definition lf : string := String (ascii_of_nat 10) EmptyString.
Definition cr : string := String (ascii_of_nat 13) EmptyString.
Definition dq : string := String (ascii_of_nat 34) EmptyString.
Open Scope string_scope.

(* comments in every decor slot, CRLF line ends (CR is stripped by Display: the despanned decor still holds it, WF
   looks at what is printed), dotted keys at top level, below a header and inside an inline table, a multi-line array
   with comments, an array of tables with a sub-table of an element, a multi-line string holding CR LF, a header
   below a table made of dotted keys, quoted keys, a last comment without line end: the despanned parsed tree is WF
   and Display's data is the document's data, so all three checks pass and the theorems apply *)
Definition ex_nasty : bytes :=
  txt ("# top" ++ cr ++ lf ++ "  a . b = 1 # c" ++ cr ++ lf ++ "a.c = [ # x" ++ lf ++ " 1 , # y" ++ lf ++ " 2, ] # z" ++ lf
       ++ "[t] # h" ++ lf ++ "p.q.r = { x.y = 1 , x.z = 2 , w = [ {q=1} ] }  " ++ lf ++ "  # above" ++ cr ++ lf
       ++ "[t.p.q.s]" ++ lf ++ "e = " ++ dq ++ dq ++ dq ++ cr ++ lf ++ "x" ++ cr ++ lf ++ dq ++ dq ++ dq ++ lf
       ++ "[[t.u]]" ++ lf ++ "k = 'v'" ++ lf ++ "[[t.u]]" ++ lf ++ "[t.u.v]" ++ lf ++ "z=1e3" ++ lf
       ++ "[ " ++ dq ++ "a b" ++ dq ++ " . 'c' ]" ++ lf ++ " 'k' . " ++ dq ++ "l" ++ dq ++ "  =  true  " ++ lf ++ " # last").
Definition ex_nasty_check : bool :=
  match parse_document ex_nasty with
  | POk d => reparse_check ex_nasty d && order_data_check ex_nasty d && replay_check ex_nasty d
  | _ => false
  end.
Example wfb_ex_nasty : ex_nasty_check = true.
Proof. vm_compute. reflexivity. Qed.

(* sections in orders that are not the order of the tree walk: a sub-table after an unrelated table, a super-table
   given its header later, elements of an array of tables interleaved with other sections and with sub-tables of
   the elements, dotted keys regrouped: every clause of WF but order_ok holds (parse_WF), `order_b` fails,
   `replay_check` holds, so C03_general_reparse_replay_partial applies *)
Definition ex_unordered : bytes :=
  txt ("a.b = 1" ++ lf ++ "c = 2" ++ lf ++ "a.d = 3" ++ lf ++ "[x.y]" ++ lf ++ "[x]" ++ lf ++ "[x.y.z]" ++ lf ++ "q.w=1" ++ lf
       ++ "[x.y.q.v]" ++ lf ++ "[[r]]" ++ lf ++ "[s]" ++ lf ++ "[[r]]" ++ lf ++ "[r.u]" ++ lf ++ "[s.t]" ++ lf).
Definition ex_unordered_check : bool :=
  match parse_document ex_unordered with
  | POk d => match tbl_despan ex_unordered (doc_root d) with
             | Some r => tbl_b true r && tbl_lim_b 0 0 r && negb (order_b r) && replay_check ex_unordered d
             | None => false
             end
  | _ => false
  end.
Example wfb_ex_unordered_replay : ex_unordered_check = true.
Proof. vm_compute. reflexivity. Qed.

(* class U1: a dotted key through a table that exists only as a super-table.  The document is accepted, its despanned
   tree satisfies every clause of WF but order_ok, it prints as valid TOML — `[t.a]` now has a header — and the
   re-parsed tree differs from the original in the KIND of t.a only; `replay_check` is false (the statements are
   Undecided under the strict rules, so the premise of C03_general_reparse fails: this is its boundary) *)
Definition ex_u1 : bytes := txt ("[t.a.b]" ++ lf ++ "[t]" ++ lf ++ "a.c.x=1" ++ lf).
Definition ex_u1_tree (kd : kind) : stree dval :=
  [(txt "t", NTab KHeader [(txt "a", NTab kd [(txt "b", NTab KHeader []); (txt "c", NTab KDotted [(txt "x", NVal (DInt 1))])])])].
Definition ex_u1_check : bool :=
  match parse_document ex_u1 with
  | POk d =>
    match tbl_despan ex_u1 (doc_root d), print_doc ex_u1 d with
    | Some r, Some o =>
      tbl_b true r && tbl_lim_b 0 0 r && negb (replay_check ex_u1 d)
      && bytes_eqb o (txt ("[t.a.b]" ++ lf ++ "[t]" ++ lf ++ lf ++ "[t.a]" ++ lf ++ "c.x=1" ++ lf))
      && match parse_document o with
         | POk d' => negb (stree_eqb (abs_doc d') (abs_doc d)) && stree_eqb (abs_doc d') (ex_u1_tree KHeader) && stree_eqb (abs_doc d) (ex_u1_tree KSuper)
         | _ => false
         end
    | _, _ => false
    end
  | _ => false
  end.
Example wfb_ex_u1 : ex_u1_check = true.
Proof. vm_compute. reflexivity. Qed.

(* a tree that no parser produced: the parsed tree of `[t]` / `x = 1` / `[t.s]` with a value inserted into `t` AFTER its
   sub-table (what Table::insert does): Display prints the new line in t's section, before `[t.s]`; the tree is WF, so
   the printed text decodes to `abs_doc_of` — t's lines first, then t.s *)
Definition ex_edited : tbl :=
  let k (s : string) := mkKey (txt s) None (mkDecor None None) (mkDecor None None) in
  let v (n : Z) := IValue (VScalar (SInt n) None (mkDecor None None)) in
  Tbl [(k "t", ITable (Tbl [(k "x", v 1%Z); (k "s", ITable (Tbl [] (mkDecor None None) false false None None)); (k "y", v 2%Z)]
                           (mkDecor None None) false false None None))]
      (mkDecor None None) false false None None.
Definition ex_edited_check : bool :=
  wfdoc_b ex_edited REmpty
  && bytes_eqb (display_document ex_edited REmpty) (txt ("[t]" ++ lf ++ "x = 1" ++ lf ++ "y = 2" ++ lf ++ lf ++ "[t.s]" ++ lf))
  && stree_eqb (abs_doc_of ex_edited)
       [(txt "t", NTab KHeader [(txt "x", NVal (DInt 1)); (txt "y", NVal (DInt 2)); (txt "s", NTab KHeader [])])].
Example wfb_ex_edited : ex_edited_check = true.
Proof. vm_compute. reflexivity. Qed.

(* the limitation of `order_ok`: sections that do not come in the order of the walk *)
Definition ex_abc : bytes := txt ("[a]" ++ lf ++ "[b]" ++ lf ++ "[a.c]" ++ lf).
Definition ex_abc_check : bool :=
  match parse_document ex_abc with
  | POk d => match tbl_despan ex_abc (doc_root d) with
             | Some r => tbl_b true r && tbl_lim_b 0 0 r && negb (order_b r) && replay_check ex_abc d && nodot (doc_root d)
             | None => false
             end
  | _ => false
  end.
Example wfb_ex_unordered : ex_abc_check = true.
Proof. vm_compute. reflexivity. Qed.

(* a constructed document: a float without a repr (rendered with its text), a table marked implicit (set_implicit(true),
   what toml's DocumentFormatter does) that still prints a header below itself: Built_WF applies, the decision procedure
   agrees, and Display prints what is expected *)
Definition ex_built : tbl :=
  let sc (x : scalar) := IValue (VScalar x None decor_default) in
  let tb (im : bool) (l : list (bytes * item)) := ITable (Tbl (mk_tbl_items l) decor_default im false None None) in
  Tbl (mk_tbl_items [(txt "a", sc (SFloat (FDec false 15 (-1)%Z))); (txt "t", tb true [(txt "u", tb false [(txt "x", sc (SInt 1%Z))])])])
      decor_default false false None None.
Definition ex_built_check : bool :=
  aot_ne ex_built && wfdoc_b (render_tbl float_text ex_built) REmpty
  && bytes_eqb (display_document (render_tbl float_text ex_built) REmpty) (txt ("a = 1.5" ++ lf ++ lf ++ "[t.u]" ++ lf ++ "x = 1" ++ lf)).
Example wfb_ex_built : ex_built_check = true.
Proof. vm_compute. reflexivity. Qed.

(* a table made of dotted keys whose last key/value line is gone, with a header below it (what Table::insert("b", table())
   at `a` leaves of `t.a.b = 1`; no parser produces it — a parsed dotted table has a line, parse_WF): outside Spec/WF.v
   before its dotted-table clause was generalised (the old clause is recomputed here), now well-formed; Display
   prints only `[t.a.b]` below t's lines, and the data it defines has `a` as a SUPER-table behind the value stored after it *)
Definition ex_lineless : tbl :=
  let k (s : string) := mkKey (txt s) None (mkDecor None None) (mkDecor None None) in
  let v (n : Z) := IValue (VScalar (SInt n) None (mkDecor None None)) in
  let tb (im dt : bool) (l : list (key * item)) := ITable (Tbl l (mkDecor None None) im dt None None) in
  Tbl [(k "t", tb false false [(k "x", v 1%Z); (k "a", tb true true [(k "b", tb false false [])]); (k "y", v 2%Z)])]
      (mkDecor None None) false false None None.
Definition ex_lineless_check : bool :=
  wfdoc_b ex_lineless REmpty
  && match ex_lineless with
     | Tbl [(_, ITable (Tbl [_; (_, ITable a); _] _ _ _ _ _))] _ _ _ _ _ => t_dotted a && negb (has_line a) && prints_header a
     | _ => false
     end
  && bytes_eqb (display_document ex_lineless REmpty) (txt ("[t]" ++ lf ++ "x = 1" ++ lf ++ "y = 2" ++ lf ++ lf ++ "[t.a.b]" ++ lf))
  && stree_eqb (abs_doc_of ex_lineless)
       [(txt "t", NTab KHeader [(txt "x", NVal (DInt 1)); (txt "y", NVal (DInt 2)); (txt "a", NTab KSuper [(txt "b", NTab KHeader [])])])]
  && match parse_document (display_document ex_lineless REmpty) with
     | POk d => stree_eqb (abs_doc d) (abs_doc_of ex_lineless)
     | _ => false
     end.
Example wfb_ex_lineless_dotted : ex_lineless_check = true.
Proof. vm_compute. reflexivity. Qed.
