(* Props/C19.v — The toml! macro builds the same table as parsing the same text.

   Objects (Spec/MacroSpec.v, Model/Macro.v):
     astmt            a TOML document as statements WITH the spelling choices that decide its Rust tokens
                      (bare / quoted key segments, sign and digits of numbers, delimiter / fraction / offset of a
                      date-time, a trailing comma)
     tokens_of        the token trees rustc hands to `toml!` for that text
     macro_supported  the spellings the macro has rules for: keys made of identifiers, plain decimal integers,
                      dashes and quoted strings (and lexing as such); unsigned and `+` integers within i32, negative
                      integers down to i64::MIN; `-hh:mm` / `Z` offsets
     eval             what PARSING the text yields: the TOML definition rules of Spec/Defs.v (proved equal to the
                      parser's state machine in C09), numbers by the TOML rules, date-times by the document grammar;
                      None for a document that is not (decidedly) valid
     macro_eval       Model/Macro.v: the rules of `toml_internal!` as data, a macro-by-example matcher and
                      transcriber (first rule that matches), `insert_toml` / `insert_table_toml` / `push_toml` /
                      `traverse`, rustc's literal typing, `concat!` / `stringify!`, `Datetime::from_str`
   Tables are compared as association lists in first-mention order (both sides produce literally the same list);
   the observation of the real code sorts by key.

   The theorems are about the model; the model is tied to the real macro by lib/props/c19.py: generated documents
   compiled inside toml!{..} by rustc against the working tree, compared with the runtime parse (the oracle) and
   with `macro_eval` / `eval` of the extracted model. *)
From TV Require Import Base.Prelude Base.Utf8 Model.Datetime Model.DatetimeStd Model.Numbers Model.Macro Spec.Defs Spec.MacroSpec.
From TV Require Import Proofs.MacroSem Proofs.MacroExamples Proofs.MacroEval Proofs.MacroStmt Proofs.MacroScalar Proofs.MacroDoc Proofs.MacroDt Proofs.MacroEq Proofs.MacroTop.

(* ---- THE CLAIM: macro = parse, for every supported valid document ---- *)
Theorem C19_macro_eq_parse : forall l t,
  macro_supported l = true -> eval l = Some t -> macro_eval (tokens_of l) = EOk t.
Proof. exact macro_eq_parse. Qed.
Print Assumptions C19_macro_eq_parse.

(* the expansion neither fails nor runs out of the model's fuel on such a document *)
Theorem C19_macro_total : forall l, macro_supported l = true -> valid l -> exists t, macro_eval (tokens_of l) = EOk t.
Proof. exact macro_total. Qed.
Print Assumptions C19_macro_total.

(* ---- against the unmodified claims specification of C09 (Spec/Defs.v `spec_run` through `spec_eval`) ---- *)
(* `eval` keeps a table whose own header arrives late at its first-mention position, Spec/Defs.v moves it to the
   end: `Same` = the same content under every key, recursively (arrays of tables element by element); the order
   of keys is not compared (a toml::Table is a BTreeMap, or an IndexMap nobody promised an order for) *)
Theorem C19_eval_is_the_specification : forall l tr, spec_eval l = Some tr ->
  exists t, eval l = Some (MTab (erase_tree t)) /\ Same mval t tr.
Proof. exact eval_same_as_spec. Qed.
Print Assumptions C19_eval_is_the_specification.

Theorem C19_macro_eq_spec : forall l tr, macro_supported l = true -> spec_eval l = Some tr ->
  exists t, macro_eval (tokens_of l) = EOk (MTab (erase_tree t)) /\ Same mval t tr.
Proof. exact macro_eq_spec. Qed.
Print Assumptions C19_macro_eq_spec.

(* ---- the two halves, separately ---- *)
(* (1) semantic: on every valid document the helper functions build what the definition rules say
       (no restriction on spellings; this is where the defect repaired in b3ebafc lived) *)
Theorem C19_helpers_follow_definition_rules : forall l t,
  eval l = Some t -> helper_fold (MTab []) [] l = Some t.
Proof. exact helpers_follow_definition_rules. Qed.
Print Assumptions C19_helpers_follow_definition_rules.

Theorem C19_helper_step : forall t cur st t' cur',
  ref_step (t, cur) st = ROk (t', cur') ->
  helper_step (MTab (erase_tree t)) cur st = Some (MTab (erase_tree t'), cur').
Proof. exact helper_step_ref. Qed.
Print Assumptions C19_helper_step.

(* (2) values: every supported value is given its TOML meaning (scalars through rustc's literal typing,
       date-times through stringify!/concat!/from_str, arrays and inline tables through the @array / @table loops) *)
Theorem C19_value_eq_parse : forall v m, val_ok v = true -> val_meaning v = Some m -> val_ev v m (vcost v).
Proof. exact value_eq_parse. Qed.
Print Assumptions C19_value_eq_parse.

(* date-times: a space between date and time becomes `T`, and the standalone parser agrees with the grammar (C12) *)
Theorem C19_datetime_rules : forall d dv, dt_ok d = true -> doc_datetime (dt_text d) = Some dv ->
  datetime_value (dt_norm_toks d) = EOk (MDatetime dv).
Proof. exact dt_agree. Qed.
Print Assumptions C19_datetime_rules.

(* ---- spellings that COMPILE but are outside macro_supported: the macro differs from the parser ---- *)
(* `05 = 1`: concat! prints an integer literal by value: key "5" instead of "05" *)
Theorem C19_int_key_refuted :
  exists l t t', forallb (fun s => match s with AKeyVal [KBare [KPInt k]] v => forallb is_digit k && val_ok v | _ => false end) l = true
                 /\ eval l = Some t /\ macro_eval (tokens_of l) = EOk t' /\ t <> t'.
Proof. exact int_key_refuted. Qed.
Print Assumptions C19_int_key_refuted.

(* ---- negative integers: every one TOML accepts is supported and gets its value (repaired: `macros::number`) ---- *)
Theorem C19_negative_integers : forall t z, int_meaning SgMinus t = Some z ->
  int_ok SgMinus t = true /\ val_ev (AInt SgMinus t) (MInt z) 1.
Proof. exact negative_integers. Qed.
Print Assumptions C19_negative_integers.

(* ---- the hypotheses are satisfiable; on these documents model macro = eval also by plain computation ---- *)
Example ex_mixed_ok : macro_supported ex_mixed = true /\ exists t, eval ex_mixed = Some t /\ macro_eval (tokens_of ex_mixed) = EOk t.
Proof. split; [reflexivity|]. eexists; split; vm_compute; reflexivity. Qed.
Example ex_datetimes_ok : macro_supported ex_datetimes = true /\ exists t, eval ex_datetimes = Some t /\ macro_eval (tokens_of ex_datetimes) = EOk t.
Proof. split; [reflexivity|]. eexists; split; vm_compute; reflexivity. Qed.
Example ex_numbers_ok : macro_supported ex_numbers = true /\ exists t, eval ex_numbers = Some t /\ macro_eval (tokens_of ex_numbers) = EOk t.
Proof. split; [reflexivity|]. eexists; split; vm_compute; reflexivity. Qed.
Example ex_negative_ok : macro_supported ex_negative = true /\ exists t, eval ex_negative = Some t /\ macro_eval (tokens_of ex_negative) = EOk t.
Proof. split; [reflexivity|]. eexists; split; vm_compute; reflexivity. Qed.
Example ex_aot_ok : macro_supported ex_aot = true /\ exists t, eval ex_aot = Some t /\ macro_eval (tokens_of ex_aot) = EOk t.
Proof. split; [reflexivity|]. eexists; split; vm_compute; reflexivity. Qed.
(* the theorem applied (not recomputed) *)
Example ex_mixed_by_theorem : forall t, eval ex_mixed = Some t -> macro_eval (tokens_of ex_mixed) = EOk t.
Proof. intros t H. apply C19_macro_eq_parse; [reflexivity|exact H]. Qed.
(* the matcher's greedy choice is the only one for these rule heads (no local ambiguity for rustc's NFA) *)
Example heads_deterministic_ok : heads_deterministic = true.
Proof. vm_compute; reflexivity. Qed.
