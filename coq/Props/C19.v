(* Props/C19.v — The toml! macro builds the same table as parsing the same text.

   Objects: `astmt` (Spec/MacroSpec.v) is a TOML document as statements WITH the spelling choices that decide
   its Rust tokens; `tokens_of` the token trees rustc hands to `toml!`; `macro_supported` the spellings the
   macro has rules for; `eval` what parsing the text yields (the definition rules of Spec/Defs.v, numbers by
   the TOML rules, date-times by the document grammar); `macro_eval` runs Model/Macro.v: the rules of
   `toml_internal!` as data, a macro-by-example matcher and transcriber, and `insert_toml` /
   `insert_table_toml` / `push_toml` / `traverse`.

   FULL STATEMENT (target):
     C19_macro_eq_parse : forall l t, macro_supported l = true -> eval l = Some t ->
                                      macro_eval (tokens_of l) = EOk t.
   See the end of the file for what is proved of it and what is missing. *)
From TV Require Import Base.Prelude Base.Utf8 Model.Datetime Model.DatetimeStd Model.Numbers Model.Macro Spec.Defs Spec.MacroSpec.
From TV Require Import Proofs.MacroSem Proofs.MacroExamples.

(* ---- the helper functions follow the definition rules (semantic half, all valid documents) ---- *)
Theorem C19_helpers_follow_definition_rules_partial : forall l t,
  eval l = Some t -> helper_fold (MTab []) [] l = Some t.
Proof. exact helpers_follow_definition_rules. Qed.
Print Assumptions C19_helpers_follow_definition_rules_partial.

Theorem C19_helper_step_partial : forall t cur st t' cur',
  ref_step (t, cur) st = ROk (t', cur') ->
  helper_step (MTab (erase_tree t)) cur st = Some (MTab (erase_tree t'), cur').
Proof. exact helper_step_ref. Qed.
Print Assumptions C19_helper_step_partial.

(* ---- spellings that compile but are outside macro_supported: the macro differs from the parser ---- *)
Theorem C19_int_key_refuted :
  exists l t t', forallb (fun s => match s with AKeyVal [KBare [KPInt k]] v => forallb is_digit k && val_ok v | _ => false end) l = true
                 /\ eval l = Some t /\ macro_eval (tokens_of l) = EOk t' /\ t <> t'.
Proof. exact int_key_refuted. Qed.
Print Assumptions C19_int_key_refuted.

Theorem C19_negative_wrap_refuted :
  exists l t t', forallb (fun s => match s with AKeyVal p (AInt SgMinus x) => path_ok p && int_text_ok x | _ => false end) l = true
                 /\ eval l = Some t /\ macro_eval (tokens_of l) = EOk t' /\ t <> t'.
Proof. exact negative_wrap_refuted. Qed.
Print Assumptions C19_negative_wrap_refuted.

(* ---- the hypotheses are satisfiable, and on these documents model macro = eval (by computation) ---- *)
Example ex_mixed_ok : macro_supported ex_mixed = true /\ exists t, eval ex_mixed = Some t /\ macro_eval (tokens_of ex_mixed) = EOk t.
Proof. split; [reflexivity|]. eexists; split; vm_compute; reflexivity. Qed.
Example ex_datetimes_ok : macro_supported ex_datetimes = true /\ exists t, eval ex_datetimes = Some t /\ macro_eval (tokens_of ex_datetimes) = EOk t.
Proof. split; [reflexivity|]. eexists; split; vm_compute; reflexivity. Qed.
Example ex_numbers_ok : macro_supported ex_numbers = true /\ exists t, eval ex_numbers = Some t /\ macro_eval (tokens_of ex_numbers) = EOk t.
Proof. split; [reflexivity|]. eexists; split; vm_compute; reflexivity. Qed.
Example ex_aot_ok : macro_supported ex_aot = true /\ exists t, eval ex_aot = Some t /\ macro_eval (tokens_of ex_aot) = EOk t.
Proof. split; [reflexivity|]. eexists; split; vm_compute; reflexivity. Qed.
Example heads_deterministic_ok : heads_deterministic = true.
Proof. vm_compute; reflexivity. Qed.
