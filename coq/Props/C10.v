(* Props/C10.v — String and key quoting is exact for every string in every offered style. *)
From TV Require Import Base.Prelude Base.Utf8 Base.Winnow Gen.Consts.
From TV Require Import Model.Strings Model.Tree Model.Parse Model.Document Model.Write.
From TV Require Import Proofs.StringsRTDefs Proofs.StringsRTWrite Proofs.StringsRTTop Proofs.StringsRTDoc.

(* every value style: the token is a complete `string` and a complete `value` (Value::from_str),
   decoding to exactly s *)
Theorem C10_value_styles : forall s st t,
  utf8_valid_b s = true -> write_string st s = Some t ->
  string_ (new_input t) = Ok s (mkIn [] (N.of_nat (length t)) 0) /\
  parse_value_raw t =
    POk (VScalar (SString s) (Some (raw_with_span (0, N.of_nat (length t))%N)) (decor_new REmpty REmpty)).
Proof. exact value_styles_parse. Qed.
Print Assumptions C10_value_styles.

(* ... and in front of any continuation that does not start with a quote character, at any offset *)
Theorem C10_value_styles_in_context : forall s st t r p d,
  utf8_valid_b s = true -> write_string st s = Some t -> no_quote_head r ->
  string_ (mkIn (t ++ r) p d) = Ok s (mkIn r (p + N.of_nat (length t))%N d).
Proof. exact value_styles_rt. Qed.
Print Assumptions C10_value_styles_in_context.

(* every key style: the token is a complete `simple_key` (Key::from_str) with key text exactly s *)
Theorem C10_key_styles : forall s st t,
  utf8_valid_b s = true -> write_key st s = Some t ->
  simple_key (new_input t) = Ok (raw_with_span (0, N.of_nat (length t))%N, s) (mkIn [] (N.of_nat (length t)) 0) /\
  parse_key t = POk (raw_with_span (0, N.of_nat (length t))%N, s).
Proof. exact key_styles_parse. Qed.
Print Assumptions C10_key_styles.

Theorem C10_key_styles_in_context : forall s st t r p d,
  utf8_valid_b s = true -> write_key st s = Some t -> no_unquoted_head r ->
  simple_key (mkIn (t ++ r) p d)
  = Ok (raw_with_span (p, (p + N.of_nat (length t))%N), s) (mkIn r (p + N.of_nat (length t))%N d).
Proof. exact key_styles_rt. Qed.
Print Assumptions C10_key_styles_in_context.

(* a default style exists for every string *)
Theorem C10_default_total : forall s, write_string StDefault s <> None /\ write_key KDefault s <> None.
Proof. exact default_total. Qed.
Print Assumptions C10_default_total.

(* the default key token, ` = `, the default value token and a newline are a document whose root
   table holds exactly the one entry k -> string v *)
Theorem C10_in_document : forall k v tk tv,
  utf8_valid_b k = true -> utf8_valid_b v = true ->
  write_key KDefault k = Some tk -> write_string StDefault v = Some tv ->
  exists d kk rp dc,
    parse_document (tk ++ [x20; x3d; x20] ++ tv ++ [x0a]) = POk d /\
    t_items (doc_root d) = [(kk, IValue (VScalar (SString v) rp dc))] /\ k_key kk = k.
Proof. exact in_document. Qed.
Print Assumptions C10_in_document.

(* the u8 quote-run counters of the metrics pass saturate, so no string can overflow them (before the
   repair 245f548 in /repo, 256 consecutive quote characters made TomlStringBuilder::new panic in a build
   with overflow checks) *)
Theorem C10_counters_saturate : forall cur hit, (cur <= 255)%N -> (qnext cur hit <= 255)%N.
Proof. exact counters_saturate. Qed.
Print Assumptions C10_counters_saturate.

(* ---- the hypotheses are satisfiable; nasty strings ------------------------------------------------ *)
(* empty string *)
Example ex_empty : offered_v [] = [true; true; true; true; true; true; true] /\ rt_value_ok [] = true
                   /\ write_string StDefault [] = Some [x22; x22] /\ write_key KDefault [] = Some [x22; x22].
Proof. vm_compute. auto. Qed.
(* three quotation marks: literal styles offered, basic-pretty styles refused, ml-basic escapes the third *)
Example ex_triple_quote :
  offered_v [x22; x22; x22] = [true; true; true; false; false; true; true] /\ rt_value_ok [x22; x22; x22] = true
  /\ write_string StMlBasic [x22; x22; x22] = Some [x22; x22; x22; x22; x22; x5c; x22; x22; x22; x22].
Proof. vm_compute. auto. Qed.
(* two apostrophes: single-line literal refused, multi-line literal offered (touching the delimiter) *)
Example ex_two_apostrophes :
  offered_v [x27; x27] = [true; false; true; true; true; true; true] /\ rt_value_ok [x27; x27] = true
  /\ write_string StMlLiteral [x27; x27] = Some [x27; x27; x27; x27; x27; x27; x27; x27].
Proof. vm_compute. auto. Qed.
(* three apostrophes: no literal style at all *)
Example ex_three_apostrophes : offered_v [x27; x27; x27] = [true; false; false; true; true; true; true]
  /\ rt_value_ok [x27; x27; x27] = true.
Proof. vm_compute. auto. Qed.
(* a string ending in two quotation marks *)
Example ex_ends_in_two_quotes :
  rt_value_ok [x61; x22; x22] = true
  /\ write_string StMlBasic [x61; x22; x22] = Some [x22; x22; x22; x61; x22; x22; x22; x22; x22].
Proof. vm_compute. auto. Qed.
(* CR LF: CR forces escape codes, LF makes the multi-line form start with a newline *)
Example ex_crlf :
  offered_v [x61; x0d; x0a; x62] = [true; false; false; false; false; true; true]
  /\ rt_value_ok [x61; x0d; x0a; x62] = true
  /\ write_string StDefault [x61; x0d; x0a; x62] = Some [x22; x22; x22; x0a; x61; x5c; x72; x0a; x62; x22; x22; x22].
Proof. vm_compute. auto. Qed.
(* NUL and DEL are written as \u0000 and \u007F *)
Example ex_nul_del :
  rt_value_ok [x00; x7f] = true
  /\ write_string StBasic [x00; x7f] = Some ([x22; x5c; x75; x30; x30; x30; x30] ++ [x5c; x75; x30; x30; x37; x46; x22]).
Proof. vm_compute. auto. Qed.
(* a 4-byte UTF-8 character *)
Example ex_utf8_4 : utf8_valid_b [xf0; x9f; x98; x80] = true /\ rt_value_ok [xf0; x9f; x98; x80] = true
  /\ offered_v [xf0; x9f; x98; x80] = [true; true; true; true; true; true; true].
Proof. vm_compute. auto. Qed.
(* backslash at the end *)
Example ex_backslash_end :
  rt_value_ok [x61; x5c] = true /\ write_string StDefault [x61; x5c] = Some [x27; x61; x5c; x27]
  /\ write_string StBasic [x61; x5c] = Some [x22; x61; x5c; x5c; x22].
Proof. vm_compute. auto. Qed.
(* a bare key, and a key that needs quotes *)
Example ex_keys : write_key KDefault [x61; x2d; x5f; x39] = Some [x61; x2d; x5f; x39]
  /\ write_key KUnquoted [x61; x2e; x62] = None /\ write_key KDefault [x61; x2e; x62] = Some [x22; x61; x2e; x62; x22]
  /\ write_key KDefault [x22] = Some [x27; x22; x27] /\ write_key KDefault [x22; x27] = Some [x22; x5c; x22; x27; x22].
Proof. vm_compute. auto 10. Qed.
(* the counters saturate at 255 *)
Example ex_255 : max_seq_double_quotes (vmetrics_of (repeat x22 255)) = 255%N
  /\ max_seq_double_quotes (vmetrics_of (repeat x22 256)) = 255%N.
Proof. vm_compute. auto. Qed.
Example ex_256 : rt_value_ok (repeat x27 256) = true /\ rt_value_ok (repeat x22 256) = true.
Proof. vm_compute. auto. Qed.
