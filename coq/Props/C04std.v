(* Props/C04std.v — C04 ("no input makes the library panic, abort or hang ... in a build with debug assertions
   and overflow checks") for the standalone date-time parser and printer, crates/toml_datetime/src/datetime.rs.

   Model/DatetimeStdChk.v transcribes `Datetime::from_str` and the `Display` impls with every overflow-checked
   operation and the slice `whole[end..]` explicit (`Panic site`); machine integers have their exact ranges.
   It is tied to Model/DatetimeStd.v — the unchecked model the extracted driver runs against the implementation —
   by `C04_std_chk_refines` / `C04_std_display_refines`.

   The bound of the fraction loop (`if i < 9`) and its top exponent (`8 - i as u32`) are parameters:
   `C04_std_fraction_bound` is the general condition (bound <= top + 1, top <= 8) and `from_str_chk` is the instance
   for the source's values (Model/DatetimeStdChk.v FRAC_DIGITS / FRAC_TOP_EXP, to be bound to generated constants);
   with the seeded bound 10 the side condition is false and the checked model does panic (Examples below). *)
From TV Require Import Base.Prelude Base.Utf8 Gen.Consts Model.Datetime Model.DatetimeStd Model.DatetimeStdChk Proofs.DatetimeStdTotal.

(* every &str: Datetime::from_str reaches no panic site *)
Theorem C04_std_datetime_total : forall s : bytes, utf8_valid_b s = true -> forall site, from_str_chk s <> Panic site.
Proof. exact from_str_chk_total. Qed.
Print Assumptions C04_std_datetime_total.

(* every byte string: no arithmetic site; the slice site needs bytes that are not UTF-8 (impossible for a &str) *)
Theorem C04_std_datetime_total_bytes : forall (s : bytes) site,
  from_str_chk s = Panic site -> site = PSlice /\ utf8_valid_b s = false.
Proof. exact from_str_chk_panics. Qed.
Print Assumptions C04_std_datetime_total_bytes.

(* the general condition on the fraction loop's bound and exponent *)
Theorem C04_std_fraction_bound : forall bound top, bound <= S top -> top <= 8 ->
  forall s site, from_str_chk_with bound top s = Panic site -> site = PSlice /\ utf8_valid_b s = false.
Proof. exact from_str_chk_with_panics. Qed.
Print Assumptions C04_std_fraction_bound.

(* the checked model returns what the correspondence-tested model returns *)
Theorem C04_std_chk_refines : forall s r, from_str_chk s = Done r -> std_from_str s = r.
Proof. exact chk_refines. Qed.
Print Assumptions C04_std_chk_refines.

(* Display: every value of the Rust types prints without a panic, except ... *)
Theorem C04_std_display_total : forall d, rust_datetime d ->
  d_offset d <> Some (OffCustom I16_MIN) -> exists t, display_chk d = Done t.
Proof. exact display_chk_total. Qed.
Print Assumptions C04_std_display_total.

(* ... Offset::Custom { minutes: i16::MIN }: `minutes *= -1` overflows (a finding: replayed on the real code,
   `Offset::Custom { minutes: i16::MIN }.to_string()` panics at datetime.rs:280 in a build with overflow checks) *)
Theorem C04_std_display_refuted : exists d, rust_datetime d /\ display_chk d = Panic PDispNeg.
Proof. exact display_chk_refuted. Qed.
Print Assumptions C04_std_display_refuted.

Theorem C04_std_display_panics : forall d site, rust_datetime d -> display_chk d = Panic site ->
  site = PDispNeg /\ d_offset d = Some (OffCustom I16_MIN).
Proof. exact display_chk_panics. Qed.
Print Assumptions C04_std_display_panics.

Theorem C04_std_display_refines : forall d t, display_chk d = Done t -> display_datetime d = t.
Proof. exact display_chk_refines. Qed.
Print Assumptions C04_std_display_refines.

(* ---- not vacuous: the checked model does panic under the seeded change `if i < 9` -> `if i <= 9` ---- *)
(* "07:32:00.0000000000": the tenth fraction digit makes `8 - i as u32` underflow *)
Definition seeded_input : bytes :=
  [x30; x37; x3a; x33; x32; x3a; x30; x30; x2e; x30; x30; x30; x30; x30; x30; x30; x30; x30; x30].
Example seeded_bound_panics : from_str_chk_with 10 8 seeded_input = Panic PFracExpSub.
Proof. vm_compute; reflexivity. Qed.
Example source_bound_returns :
  from_str_chk seeded_input = Done (Some (mkDT None (Some (mkTime 7 32 0 0)) None)).
Proof. vm_compute; reflexivity. Qed.
(* a larger exponent overflows the multiplication: `10_u32.pow(9 - i)` * 9 *)
Example exponent_9_panics : exists site, from_str_chk_with 9 9 [x30; x37; x3a; x33; x32; x3a; x30; x30; x2e; x39] = Panic site.
Proof. eexists. vm_compute; reflexivity. Qed.
(* the slice site is real for bytes that are not UTF-8: "07:32:00.1" followed by a lone continuation byte *)
Example slice_site_reachable_on_non_utf8 :
  from_str_chk [x30; x37; x3a; x33; x32; x3a; x30; x30; x2e; x31; x80] = Panic PSlice.
Proof. vm_compute; reflexivity. Qed.
(* the hypotheses are satisfiable and results are produced *)
Example parses_offset_datetime :
  from_str_chk [x31; x39; x37; x39; x2d; x30; x35; x2d; x32; x37; x54; x30; x37; x3a; x33; x32; x3a; x30; x30; x2e; x35; x2d; x30; x37; x3a; x30; x30]
  = Done (Some (mkDT (Some (mkDate 1979 5 27)) (Some (mkTime 7 32 0 500000000)) (Some (OffCustom (-420))))).
Proof. vm_compute; reflexivity. Qed.
Example display_extreme_values :
  exists t, display_chk (mkDT (Some (mkDate 65535 255 255)) (Some (mkTime 255 255 255 4294967295)) (Some (OffCustom 32767))) = Done t.
Proof. eexists. vm_compute; reflexivity. Qed.
