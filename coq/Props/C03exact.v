(* Props/C03exact.v — property C03: unedited documents print back byte-for-byte, apart from the
   documented normalizations.

     normalize s        Spec/Norm.v: the normal form of the text, computed WITHOUT the parser by the
                        six-state scanner of lib/toml_text.py (a leading byte-order mark dropped, every
                        CR outside multi-line-string bodies deleted, LF added after a last key/value or
                        header line that the end of the text terminates);
     render s d         Proofs/PrintBackBase.v: Display (Model/Encode.v display_document) of the parsed
                        tree after every span was replaced by the text it covers (`despan`);
     print_doc s d      what the `rt` / `doc` commands of Extract/Commands.v print: the same with the
                        partial `despan` of Model/Encode.v; C03_printed_is_render: whenever that
                        succeeds (C14: spans are in range and on char boundaries) it is `render s d`;
     vtext / item_text / lines_text   Proofs/TilingDefs.v: the tiling of a text by the grammar —
                        `lines_text t l o`: t is complete lines (blanks, item, line end, blanks ...), l
                        the statements of Spec/Syntax.v they make, o the same tiles with the CRs of
                        the trivia dropped and every line end written as LF;
     flat_doc d         decided on the tree: every item of the root table is a value, and no inline
                        table inside these values was written with a dotted key;
     sec_doc d          decided on the tree: no table of the document was made by dotted keys (hereditarily,
                        through sub-tables and arrays of tables), and no inline table inside a value either;
     spelled s (doc_root d)   decided on the tree and the source: for every table that prints a header, the
                        header as Display prints it ([ key path ] built from the Key objects stored along the
                        table's path) is the text that stands in the source where the table's span starts.

   TARGET (DESIGN.md section 6, C03):
     C03_exact : parse_document s = POk d -> ordered s d = true -> render s d = normalize s
   where `ordered` asks that print order is source order (dotted-key lines of one prefix adjacent) and
   that a key shared by several headers / dotted keys is spelled the same way each time, blanks around
   the dots included (finding F5 and its relatives below).

   PROVED here, by classes of documents:
     C03_tiling          every accepted document: the text is tiled by the grammar and `normalize` is
                         the normal form of the tiles (no condition);
     C03_tiling_key / C03_tiling_value   the recorded spans of a key path / a value, printed, are the
                         bytes consumed (CRs of the trivia dropped);
     C03_exact_flat      class (a): `key = scalar` lines, comments, blank lines;
     C03_exact_values    class (a) + (b): values may be arrays and inline tables, nested, inline tables
                         with plain (undotted) keys;
     C03_exact_sections  class (a) + (b) + (c): [table] and [[array of tables]] headers with key paths of any
                         length, in any order (sub-tables before or after their parents, super-tables
                         defined later, elements of several arrays interleaved): Display sorts the tables by
                         the position the parser gave them, which is the source order.  The side condition
                         is `spelled`: exactly the prefix-consistency of finding F5, stated on the tree.
     C03_exact_dotted    class (a) + (b) + (c) + (d) for key/value lines: dotted keys `a.b = 1`, also below headers and
                         through tables that dotted keys made (`[t]` / `y.z = 1` / `[t.y.k]`).  Conditions:
                         dot_doc d (values plain: no dotted key inside an inline table) and laid_out s (doc_root d):
                         Display's print sequence (tables sorted by position; per table its header, then its lines
                         through the dotted tables) is checked against the source — a table that exists only as
                         a super-table holds no lines; the source positions of the printed headers and lines
                         increase (`dotted_adjacent` and more: print order = source order); every header and every
                         line's key path is spelled in the source as it prints (`prefix_consistent`).
     C03_exact           EVERY class, one decidable side condition: laid_out' s (doc_root d) = vals_ok && laid_out.
                         vals_ok: every inline table inside the values either has no table implied by dotted keys
                         among its items, or its pairs — in the order Display prints them (InlineTable::append_values
                         flattens the tables that dotted keys made) — follow each other in the source as written: the
                         first starts after the opening brace, each next one after the comma behind the previous
                         pair's value, key positions increase, and each key path is spelled in the source as it
                         prints (Proofs/PrintBackIValue.v `vok`: adjacency and prefix-consistency inside the braces,
                         hereditarily through arrays and nested inline tables).
   Nothing is left uncovered: C03_exact has no restriction on the shape of the document.

   Statements only; proofs in Proofs/Tiling*.v and Proofs/PrintBack*.v. *)
From TV Require Import Base.Prelude Base.Utf8 Base.Winnow Gen.Consts Spec.Abnf Spec.Lex Spec.Defs Spec.Syntax Spec.Norm.
From TV Require Import Model.Tree Model.Parse Model.Document Model.Encode.
From TV Require Import Proofs.LexEquivBase Proofs.TilingDefs Proofs.TilingNormDoc
                       Proofs.PrintBackBase Proofs.PrintBackEnc Proofs.PrintBackKey Proofs.PrintBackValue Proofs.PrintBackDoc
                       Proofs.PrintBackTop Proofs.PrintBackDespan Proofs.PrintBackEnts Proofs.PrintBackFinal Proofs.PrintBackSecTop
                       Proofs.PrintBackDVals Proofs.PrintBackIValue Proofs.PrintBackDFinal Proofs.PrintBackDTop.
From TV Require Proofs.SpansDespanTotal.
Require Import String Ascii.

(* ---- printing --------------------------------------------------------------------------------------- *)
(* the text printed by `DocumentMut::to_string()` for an unedited document is a function of the tree
   and the source: Display of the tree in which every span is replaced by the slice it covers *)
Theorem C03_printed_is_render : forall s d o, print_doc s d = Some o -> o = render s d.
Proof. exact print_doc_render. Qed.
Print Assumptions C03_printed_is_render.

(* ---- tiling ------------------------------------------------------------------------------------------ *)
(* a key path: blanks, the dotted key, blanks — and printing the recorded Key objects (repr span, leaf
   decor, dotted decor of every part) gives back exactly these bytes *)
Theorem C03_tiling_key : forall s i kp i', isrc s i -> key_ i = Ok kp i' ->
  exists w1 t w2, ws_tok w1 /\ key_tok t (map k_key kp) /\ ws_tok w2 /\ splits i (w1 ++ t ++ w2) i'
                  /\ (forall dflt, encode_key_path (map (tkey s) kp) dflt = w1 ++ t ++ w2).
Proof.
  intros s i kp i' Hi H. destruct (key_render s i kp i' Hi H) as (w1 & t & w2 & H1 & H2 & H3 & H4 & _ & H5).
  exists w1, t, w2. auto.
Qed.
Print Assumptions C03_tiling_key.

(* a value: the text consumed has the grammar's tiling `vtext t a o`, and if no inline table in it
   was written with dotted keys, Display of the value (its own decor aside) is the normal form o *)
Theorem C03_tiling_value : forall s i v i', isrc s i -> value_ i = Ok v i' ->
  exists t a o, vtext t a o /\ splits i t i'
    /\ (vplain v = true -> display_value (tvalue s (value_decorate v REmpty REmpty)) = o).
Proof.
  intros s i v i' Hi H. destruct (value_render s i v i' Hi H) as (t & a & o & Ht & S & _ & Hv).
  exists t, a, o. split; [exact Ht|]. split; [exact S|]. intro Hp. apply (Hv Hp). apply Nat.lt_succ_diag_r.
Qed.
Print Assumptions C03_tiling_value.

(* every accepted document: blanks, then complete lines; `normalize` (which never looks at the
   grammar) computes the normal form of this tiling *)
Theorem C03_tiling : forall s d, parse_document s = POk d ->
  exists w t l o, strip_bom s = w ++ t /\ ws_tok w /\ lines_text t l o /\ normalize s = w ++ o.
Proof. exact document_tiling. Qed.
Print Assumptions C03_tiling.

(* the scanner side alone: whatever text is tiled this way, accepted or not *)
Theorem C03_normalize_lines : forall s w t l o,
  drop_bom s = w ++ t -> ws_tok w -> lines_text t l o -> normalize s = w ++ o.
Proof. exact norm_lines. Qed.
Print Assumptions C03_normalize_lines.

(* ---- exactness ---------------------------------------------------------------------------------------- *)
(* class (a) + (b) *)
Theorem C03_exact_values : forall s d, parse_document s = POk d -> flat_doc d = true -> render s d = normalize s.
Proof. exact render_normalize_values. Qed.
Print Assumptions C03_exact_values.

(* the same for the text the commands print *)
Theorem C03_exact_values_printed : forall s d o,
  parse_document s = POk d -> flat_doc d = true -> print_doc s d = Some o -> o = normalize s.
Proof. intros s d o Hp Hf Ho. rewrite (print_doc_render s d o Ho). apply render_normalize_values; assumption. Qed.
Print Assumptions C03_exact_values_printed.

(* class (a): every item of the root table is a scalar *)
Definition scalar_doc (d : doc) : bool :=
  forallb (fun kv : key * item => match snd kv with IValue (VScalar _ _ _) => true | _ => false end) (t_items (doc_root d)).

Theorem C03_exact_flat : forall s d, parse_document s = POk d -> scalar_doc d = true -> render s d = normalize s.
Proof.
  intros s d Hp Hs. apply render_normalize_values; [exact Hp|]. unfold flat_doc, items_plain. unfold scalar_doc in Hs.
  rewrite forallb_forall in *. intros [k it] Hin. specialize (Hs _ Hin). cbn [snd] in *.
  destruct it as [|v| |]; try discriminate. destruct v; try discriminate. reflexivity.
Qed.
Print Assumptions C03_exact_flat.

(* class (a) + (b) + (c): sections *)
Theorem C03_exact_sections : forall s d,
  parse_document s = POk d -> sec_doc d = true -> spelled s (doc_root d) = true -> render s d = normalize s.
Proof. exact render_normalize_sections. Qed.
Print Assumptions C03_exact_sections.

Theorem C03_exact_sections_printed : forall s d o,
  parse_document s = POk d -> sec_doc d = true -> spelled s (doc_root d) = true -> print_doc s d = Some o -> o = normalize s.
Proof. intros s d o Hp Hf Hs Ho. rewrite (print_doc_render s d o Ho). apply render_normalize_sections; assumption. Qed.
Print Assumptions C03_exact_sections_printed.

(* with C14 (despan never fails on a parsed UTF-8 text, Proofs/SpansDespanTotal.v): what is printed, outright *)
Theorem C03_exact_sections_total : forall s d,
  utf8_valid_b s = true -> parse_document s = POk d -> sec_doc d = true -> spelled s (doc_root d) = true ->
  print_doc s d = Some (normalize s).
Proof.
  intros s d Hu Hp Hf Hs. destruct (SpansDespanTotal.despan_total s d Hu Hp) as (r & t & Er & Et).
  assert (E : print_doc s d = Some (display_document r t)) by (unfold print_doc; rewrite Er, Et; reflexivity).
  rewrite E. f_equal. rewrite (print_doc_render s d _ E). apply render_normalize_sections; assumption.
Qed.
Print Assumptions C03_exact_sections_total.

(* class (a) + (b) + (c) + (d, key/value lines): dotted keys *)
Theorem C03_exact_dotted : forall s d,
  parse_document s = POk d -> dot_doc d = true -> laid_out s (doc_root d) = true -> render s d = normalize s.
Proof. exact render_normalize_dotted. Qed.
Print Assumptions C03_exact_dotted.

Theorem C03_exact_dotted_total : forall s d,
  utf8_valid_b s = true -> parse_document s = POk d -> dot_doc d = true -> laid_out s (doc_root d) = true ->
  print_doc s d = Some (normalize s).
Proof.
  intros s d Hu Hp Hf Hs. destruct (SpansDespanTotal.despan_total s d Hu Hp) as (r & t & Er & Et).
  assert (E : print_doc s d = Some (display_document r t)) by (unfold print_doc; rewrite Er, Et; reflexivity).
  rewrite E. f_equal. rewrite (print_doc_render s d _ E). apply render_normalize_dotted; assumption.
Qed.
Print Assumptions C03_exact_dotted_total.

(* every class: dotted keys inside inline tables included *)
Theorem C03_exact : forall s d,
  parse_document s = POk d -> laid_out' s (doc_root d) = true -> render s d = normalize s.
Proof. exact render_normalize_all. Qed.
Print Assumptions C03_exact.

Theorem C03_exact_total : forall s d,
  utf8_valid_b s = true -> parse_document s = POk d -> laid_out' s (doc_root d) = true -> print_doc s d = Some (normalize s).
Proof.
  intros s d Hu Hp Hl. destruct (SpansDespanTotal.despan_total s d Hu Hp) as (r & t & Er & Et).
  assert (E : print_doc s d = Some (display_document r t)) by (unfold print_doc; rewrite Er, Et; reflexivity).
  rewrite E. f_equal. rewrite (print_doc_render s d _ E). apply render_normalize_all; assumption.
Qed.
Print Assumptions C03_exact_total.

(* ---- examples ------------------------------------------------------------------------------------------- *)
Definition txt (s : string) : bytes := List.map byte_of_ascii (list_ascii_of_string s).
Definition lf : string := String (ascii_of_nat 10) EmptyString.
Definition cr : string := String (ascii_of_nat 13) EmptyString.
Definition dq : string := String (ascii_of_nat 34) EmptyString.
Open Scope string_scope.

(* byte-order mark, CRLF and LF mixed, comments in every slot, a trailing comma, multi-line strings
   containing CR LF (kept), blanks at the end, no final newline *)
Definition ex_nasty : bytes :=
  ([xef; xbb; xbf] ++ txt ("  # top" ++ cr ++ lf ++ cr ++ lf ++ "  a  =  [ 1 , # c" ++ cr ++ lf ++ " 2 , ]  # after" ++ cr ++ lf
     ++ "b = { x = 1 , y = [ ] , " ++ dq ++ "z w" ++ dq ++ " = { } }" ++ cr ++ lf
     ++ "s = " ++ dq ++ dq ++ dq ++ "one" ++ cr ++ lf ++ "two" ++ dq ++ dq ++ dq ++ dq ++ " # ml" ++ lf
     ++ "l = '''" ++ cr ++ lf ++ "x''' " ++ cr ++ lf ++ "   " ++ cr ++ lf ++ "last = 'x'  "))%list.

(* parse, print as the commands do, compare with the scanner's normal form *)
Definition prints_normal (s : bytes) : bool :=
  match parse_document s with
  | POk d => match print_doc s d with Some o => bytes_eqb o (normalize s) | None => false end
  | _ => false
  end.
Definition is_flat (s : bytes) : bool := match parse_document s with POk d => flat_doc d | _ => false end.

Example C03_ex_nasty :
  prints_normal ex_nasty = true /\ is_flat ex_nasty = true
  /\ normalize ex_nasty =
       txt ("  # top" ++ lf ++ lf ++ "  a  =  [ 1 , # c" ++ lf ++ " 2 , ]  # after" ++ lf
            ++ "b = { x = 1 , y = [ ] , " ++ dq ++ "z w" ++ dq ++ " = { } }" ++ lf
            ++ "s = " ++ dq ++ dq ++ dq ++ "one" ++ cr ++ lf ++ "two" ++ dq ++ dq ++ dq ++ dq ++ " # ml" ++ lf
            ++ "l = '''" ++ cr ++ lf ++ "x''' " ++ lf ++ "   " ++ lf ++ "last = 'x'  " ++ lf).
Proof. split; [|split]; vm_compute; reflexivity. Qed.

(* a last line that is a comment gets no LF *)
Example C03_ex_last_comment :
  let s := txt ("a = 1" ++ cr ++ lf ++ "# end") in
  prints_normal s = true /\ is_flat s = true /\ normalize s = txt ("a = 1" ++ lf ++ "# end").
Proof. split; [|split]; vm_compute; reflexivity. Qed.

(* class (c): headers with paths of any length, sub-tables before their parent (`[t.w]` ... `[t]` would also
   do), arrays of tables whose elements are interleaved with other sections, a super-table defined
   later (`[ u ]` after `[[ u.v ]]`), a quoted key holding `]`, CRLF, comments between sections: the
   conditions of C03_exact_sections hold, so the theorem applies; here also by computation *)
Definition ex_sections : bytes :=
  txt ("x = 1" ++ cr ++ lf ++ " # c" ++ lf ++ "[ t ] # h" ++ cr ++ lf ++ "y = [ 1, 2 ]" ++ lf ++ "[[ u.v ]]" ++ lf ++ "z = 2" ++ lf
       ++ "[t.w]" ++ lf ++ "[[ u.v ]]" ++ lf ++ "  # c2" ++ lf ++ "[ u ]" ++ lf ++ "[ " ++ dq ++ "a]b" ++ dq ++ " . c]" ++ lf ++ "k = {a = 1}").
Definition sections_ok (s : bytes) : bool :=
  match parse_document s with POk d => sec_doc d && spelled s (doc_root d) | _ => false end.
Example C03_ex_sections : sections_ok ex_sections = true /\ prints_normal ex_sections = true /\ is_flat ex_sections = false.
Proof. split; [|split]; vm_compute; reflexivity. Qed.

(* class (d): dotted keys in the root section and below headers, a header through a table made by dotted
   keys (`[t.y.k]`), arrays of tables, quoted keys: the conditions of C03_exact_dotted hold *)
Definition ex_dotted : bytes :=
  txt ("x = 1" ++ cr ++ lf ++ " # c" ++ lf ++ "a.b = 1" ++ lf ++ "a.c = 2" ++ lf ++ "  a.d.e = 3 # t" ++ lf ++ "[ t ] # h" ++ cr ++ lf
       ++ "y.z = [ 1, 2 ]" ++ lf ++ "y.w = 3" ++ lf ++ "[[ u.v ]]" ++ lf ++ "z = 2" ++ lf ++ "[t.y.k]" ++ lf ++ "[[ u.v ]]" ++ lf
       ++ dq ++ "p q" ++ dq ++ ".r = 1").
Definition dotted_ok (s : bytes) : bool :=
  match parse_document s with POk d => dot_doc d && laid_out s (doc_root d) | _ => false end.
Example C03_ex_dotted : dotted_ok ex_dotted = true /\ prints_normal ex_dotted = true /\ sections_ok ex_dotted = false.
Proof. split; [|split]; vm_compute; reflexivity. Qed.

(* dotted keys inside inline tables, nested through an array with a comment, without blanks and with
   blanks around the dots: the condition of C03_exact holds *)
Definition all_ok (s : bytes) : bool :=
  match parse_document s with POk d => laid_out' s (doc_root d) | _ => false end.
Definition ex_inline_dotted : bytes :=
  txt ("q = { m.n = 1, m.o = 2 }" ++ lf ++ "x = {a.b=1,a.c={ d.e = [ 1, # c" ++ lf ++ " { f . g = 1 , f . h = 2 } ], d.h = 2 } , z = 3}" ++ lf
       ++ "[t]" ++ lf ++ "u.v = { w.x = 1 }" ++ lf).
Example C03_ex_inline_dotted : all_ok ex_inline_dotted = true /\ prints_normal ex_inline_dotted = true /\ dotted_ok ex_inline_dotted = false.
Proof. split; [|split]; vm_compute; reflexivity. Qed.

(* inside the braces the same things go wrong: pairs of one prefix that are not adjacent, a respelled prefix *)
Example C03_ex_inline_fails :
  all_ok (txt ("x = { a.b = 1, c = 2, a.d = 3 }" ++ lf)) = false /\ prints_normal (txt ("x = { a.b = 1, c = 2, a.d = 3 }" ++ lf)) = false
  /\ all_ok (txt ("x = { a.b = 1, " ++ dq ++ "a" ++ dq ++ ".c = 2 }" ++ lf)) = false
  /\ prints_normal (txt ("x = { a.b = 1, " ++ dq ++ "a" ++ dq ++ ".c = 2 }" ++ lf)) = false.
Proof. repeat split; vm_compute; reflexivity. Qed.

(* the earlier examples satisfy the one condition too *)
Example C03_ex_all : all_ok ex_nasty = true /\ all_ok ex_sections = true /\ all_ok ex_dotted = true.
Proof. repeat split; vm_compute; reflexivity. Qed.

(* ---- why the side condition of the target statement is needed ---------------------------------------------- *)
(* finding F5: keys sharing a dotted prefix that is spelled differently print with the first
   mention's spelling:   a.b = 1 / "a" .c = 2   prints   a.b = 1 / a.c = 2 *)
Theorem C03_exact_refuted_without_prefix_consistency :
  let s := txt ("a.b = 1" ++ lf ++ dq ++ "a" ++ dq ++ " .c = 2" ++ lf) in
  exists d, parse_document s = POk d /\ render s d <> normalize s
            /\ render s d = txt ("a.b = 1" ++ lf ++ "a.c = 2" ++ lf) /\ normalize s = s.
Proof. eexists. split; [vm_compute; reflexivity|]. split; [vm_compute; discriminate|]. split; vm_compute; reflexivity. Qed.
Print Assumptions C03_exact_refuted_without_prefix_consistency.

(* the same family, blanks only: the key of a later header replaces the key object of the implicit
   super-table, so an EARLIER header prints with the later spelling:
     [ a . b ] / [ a ]   prints   [ a. b ] / [ a ] *)
Example C03_ex_respelled_blanks :
  let s := txt ("[ a . b ]" ++ lf ++ "[ a ]" ++ lf) in
  exists d, parse_document s = POk d /\ render s d = txt ("[ a. b ]" ++ lf ++ "[ a ]" ++ lf) /\ normalize s = s.
Proof. eexists. split; [vm_compute; reflexivity|]. split; vm_compute; reflexivity. Qed.

(* `spelled` is what rules these out: it fails for the document above, and for an array of tables
   whose second header is spelled differently from the first ([[u.v]] / [[ u.v ]]) *)
Example C03_ex_spelled_fails :
  sections_ok (txt ("[ a . b ]" ++ lf ++ "[ a ]" ++ lf)) = false /\ sections_ok (txt ("[[u.v]]" ++ lf ++ "[[ u.v ]]" ++ lf)) = false
  /\ prints_normal (txt ("[[u.v]]" ++ lf ++ "[[ u.v ]]" ++ lf)) = false.
Proof. split; [|split]; vm_compute; reflexivity. Qed.

(* `laid_out` is what rules out the dotted-key variants: F5's witness, lines of one prefix that are not
   adjacent (below), and a dotted key that runs through a super-table (class U1 of the specification) *)
Example C03_ex_laid_out_fails :
  dotted_ok (txt ("a.b = 1" ++ lf ++ dq ++ "a" ++ dq ++ " .c = 2" ++ lf)) = false
  /\ dotted_ok (txt ("a.b = 1" ++ lf ++ "c = 2" ++ lf ++ "a.d = 3" ++ lf)) = false
  /\ dotted_ok (txt ("[a.b.c]" ++ lf ++ "[a]" ++ lf ++ "b.y.z = 1" ++ lf)) = false
  /\ prints_normal (txt ("[a.b.c]" ++ lf ++ "[a]" ++ lf ++ "b.y.z = 1" ++ lf)) = false.
Proof. repeat split; vm_compute; reflexivity. Qed.

(* dotted keys of one prefix that are not adjacent print together: a.b = 1 / c = 2 / a.d = 3 *)
Example C03_ex_not_adjacent :
  let s := txt ("a.b = 1" ++ lf ++ "c = 2" ++ lf ++ "a.d = 3" ++ lf) in
  exists d, parse_document s = POk d /\ render s d = txt ("a.b = 1" ++ lf ++ "a.d = 3" ++ lf ++ "c = 2" ++ lf) /\ normalize s = s.
Proof. eexists. split; [vm_compute; reflexivity|]. split; vm_compute; reflexivity. Qed.
