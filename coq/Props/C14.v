(* Props/C14.v — Spans point at exactly the source text of each item.
   First layer: what the span-producing combinators record, and what `RawString::with_span` keeps.
   The whole-document statements C14_spans_wf / C14_reparse (DESIGN.md section 6) are the target; they
   follow the same induction as the no-panic / despan-totality proofs and are partial for now. *)
From TV Require Import Base.Prelude Base.Winnow Model.Tree.

Lemma with_span_records {A} (p : parser A) i x a b i' :
  with_span p i = Ok (x, (a, b)) i' -> a = pos i /\ b = pos i' /\ p i = Ok x i'.
Proof.
  unfold with_span. destruct (p i) as [y j|e j|e j|s] eqn:E; intro H; try discriminate.
  inversion H; subst. auto.
Qed.
Lemma span_records {A} (p : parser A) i a b i' :
  span_ p i = Ok (a, b) i' -> a = pos i /\ b = pos i' /\ exists x, p i = Ok x i'.
Proof.
  unfold span_. destruct (p i) as [y j|e j|e j|s] eqn:E; intro H; try discriminate.
  inversion H; subst. eauto.
Qed.

Theorem C14_with_span : forall (A : Type) (p : parser A) i x a b i',
  with_span p i = Ok (x, (a, b)) i' -> a = pos i /\ b = pos i' /\ p i = Ok x i'.
Proof. exact @with_span_records. Qed.
Print Assumptions C14_with_span.

Theorem C14_span : forall (A : Type) (p : parser A) i a b i',
  span_ p i = Ok (a, b) i' -> a = pos i /\ b = pos i' /\ exists x, p i = Ok x i'.
Proof. exact @span_records. Qed.
Print Assumptions C14_span.

(* RawString::with_span keeps exactly the range, and nothing for an empty range *)
Theorem C14_raw_with_span : forall a b,
  raw_span (raw_with_span (a, b)) = (if (a =? b)%N then None else Some (a, b)).
Proof. intros a b. unfold raw_with_span; cbn [fst snd]. destruct (a =? b)%N; reflexivity. Qed.
Print Assumptions C14_raw_with_span.

(* despan leaves no span in a raw string *)
Theorem C14_raw_despan : forall s r r', raw_despan s r = Some r' -> raw_span r' = None.
Proof.
  intros s r r' H. destruct r as [|t|a b]; cbn [raw_despan] in H.
  - inversion H; reflexivity.
  - inversion H; reflexivity.
  - destruct (str_get s a b) as [t|]; [|discriminate]. inversion H. unfold raw_of_bytes. destruct t; reflexivity.
Qed.
Print Assumptions C14_raw_despan.
