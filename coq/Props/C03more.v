(* Props/C03more.v — property C03, second part: "where the printed text is not byte-identical to the
   source's normal form it keeps every comment".

   `comments` (Spec/Norm.v) is the parser-independent scanner's list of the comments of a text: the maximal
   runs of bytes labelled `comment`, each from its `#` to the end of its line, CR removed, in order.

   Proved here, for every text s that parses to d (no other hypothesis unless stated):

     C03_comments_normalized    comments (normalize s) = comments s                 — no side condition
     C03_comments_exact         laid_out' s (doc_root d)  ->  comments (render s d) = comments s, same order
     C03_comments_kept          vals_ok s (doc_root d) -> supers_bare (doc_root d) ->
                                Permutation (comments (render s d)) (comments s)
     C03_comments_kept_printed  the same for the text of `print_doc` (DocumentMut::to_string())
     C03_fragments_kept         under the same two conditions the printed text and the normal form of the
                                source are concatenations of the same fragments A ++ _ ++ B, one per header and
                                per key/value line, each used exactly once, possibly in another order; only
                                the key-path text in the middle may differ; the trailing text is the same.

   The two conditions of C03_comments_kept are decidable and weaker than `laid_out'` of C03_exact: they drop the
   order and the spelling checks (the F5 family: respelled dotted prefixes and headers; lines of one dotted
   prefix that are not adjacent — such documents print reordered / respelled and the theorem applies to them):
     vals_ok s r      every inline table written with dotted keys is laid out in the tree as in the source
                      (Proofs/PrintBackIValue.v `vok`; inline tables without dotted keys always pass);
     supers_bare r    no table that exists only as the super-table of a header (`a` of `[a.b]`) holds
                      key/value lines of its own (class U1 of the specification: `[a.b.c]` / `[a]` / `b.y = 1`).

   NOT covered (no dropped comment was found in either class; examples below, by computation):
     - documents in which an inline table with dotted keys prints its pairs in another order or respelled
       (vals_ok fails), e.g.  x = { a.b = [1, # c \n 2], c = 2, a.d = 3 };
     - documents in which a dotted key runs through a super-table (supers_bare fails): Display then prints a
       header that the source does not have.

   Statements only; proofs in Proofs/TilingCmt.v (scanner side) and Proofs/PrintBackFrag.v (printing side). *)
From TV Require Import Base.Prelude Base.Utf8 Base.Winnow Gen.Consts Spec.Abnf Spec.Lex Spec.Defs Spec.Syntax Spec.Norm.
From TV Require Import Model.Tree Model.Parse Model.Document Model.Encode.
From TV Require Import Proofs.PrintBackBase Proofs.PrintBackTop Proofs.PrintBackDespan Proofs.PrintBackDFinal Proofs.PrintBackDTop Proofs.PrintBackFrag.
Require Import Sorting.Permutation.

(* ---- normalising keeps the comments ------------------------------------------------------------------------ *)
Theorem C03_comments_normalized : forall s d, parse_document s = POk d -> comments (normalize s) = comments s.
Proof. exact normalize_comments. Qed.
Print Assumptions C03_comments_normalized.

(* ---- byte-exact documents: the same comments in the same order ---------------------------------------------- *)
Theorem C03_comments_exact : forall s d,
  parse_document s = POk d -> laid_out' s (doc_root d) = true -> comments (render s d) = comments s.
Proof. intros s d Hp Hl. rewrite (render_normalize_all s d Hp Hl). apply (normalize_comments s d Hp). Qed.
Print Assumptions C03_comments_exact.

(* ---- reordered / respelled documents: every comment exactly once ---------------------------------------------- *)
Theorem C03_comments_kept : forall s d,
  parse_document s = POk d -> vals_ok s (doc_root d) = true -> supers_bare (doc_root d) = true ->
  Permutation (comments (render s d)) (comments s).
Proof. exact doc_comments. Qed.
Print Assumptions C03_comments_kept.

Theorem C03_comments_kept_printed : forall s d o,
  parse_document s = POk d -> print_doc s d = Some o -> vals_ok s (doc_root d) = true -> supers_bare (doc_root d) = true ->
  Permutation (comments o) (comments s).
Proof. intros s d o Hp Ho Hv Hb. rewrite (print_doc_render s d o Ho). apply doc_comments; assumption. Qed.
Print Assumptions C03_comments_kept_printed.

(* the condition of C03_exact implies the two conditions *)
Theorem C03_laid_out_conditions : forall s r, laid_out' s r = true -> vals_ok s r = true /\ supers_bare r = true.
Proof.
  intros s r H. unfold laid_out' in H. apply andb_true_iff in H as [Hv Hl]. split; [exact Hv|apply (laid_out_supers s r Hl)].
Qed.
Print Assumptions C03_laid_out_conditions.

(* ---- the fragment structure ---------------------------------------------------------------------------------- *)
(* a fragment (A, X, Y, B): the text before the key path, the key path as printed, the key path as read,
   the text after it; fr_printed = A ++ X ++ B, fr_read = A ++ Y ++ B *)
Theorem C03_fragments_kept : forall s d,
  parse_document s = POk d -> vals_ok s (doc_root d) = true -> supers_bare (doc_root d) = true ->
  exists (printed read : list frag) (trailing : bytes),
    Permutation printed read
    /\ render s d = concat (map fr_printed printed) ++ trailing
    /\ normalize s = concat (map fr_read read) ++ trailing.
Proof. exact doc_fragments. Qed.
Print Assumptions C03_fragments_kept.

(* ---- examples ------------------------------------------------------------------------------------------------ *)
Require Import String Ascii.
Definition txt (s : string) : bytes := List.map byte_of_ascii (list_ascii_of_string s).
Definition lf : string := String (ascii_of_nat 10) EmptyString.
Definition cr : string := String (ascii_of_nat 13) EmptyString.
Definition dq : string := String (ascii_of_nat 34) EmptyString.
Open Scope string_scope.

(* (vals_ok, supers_bare, laid_out') of the parsed document *)
Definition conds (s : bytes) : bool * bool * bool :=
  match parse_document s with
  | POk d => (vals_ok s (doc_root d), supers_bare (doc_root d), laid_out' s (doc_root d))
  | _ => (false, false, false)
  end.
(* the comments of the printed text and of the source *)
Definition both_comments (s : bytes) : option (list bytes * list bytes) :=
  match parse_document s with
  | POk d => match print_doc s d with Some o => Some (comments o, comments s) | None => None end
  | _ => None
  end.

(* a respelled dotted prefix that is not adjacent either (F5), comments in every slot, CRLF, a comment inside
   an array, a last comment line without newline: the conditions of C03_comments_kept hold, laid_out' does
   not; the line `"a" .d = ...` prints after `a.b = 1` and takes its comments with it *)
Definition ex_moved : bytes :=
  txt ("# top" ++ cr ++ lf ++ "a.b = 1 # one" ++ lf ++ "# mid" ++ lf ++ "c = 2 # two" ++ lf
       ++ dq ++ "a" ++ dq ++ " .d = [ 3, # in" ++ lf ++ " 4 ] # three" ++ lf ++ "[t] # h" ++ lf ++ "# in t" ++ lf ++ "x.y = 1" ++ lf ++ "# end").
Example C03_ex_moved :
  conds ex_moved = (true, true, false)
  /\ both_comments ex_moved
     = Some ([txt "# top"; txt "# one"; txt "# in"; txt "# three"; txt "# mid"; txt "# two"; txt "# h"; txt "# in t"; txt "# end"],
             [txt "# top"; txt "# one"; txt "# mid"; txt "# two"; txt "# in"; txt "# three"; txt "# h"; txt "# in t"; txt "# end"]).
Proof. split; vm_compute; reflexivity. Qed.

(* not covered, class U1 (supers_bare fails): the comments are kept all the same *)
Example C03_ex_super_lines :
  let s := txt ("[a.b.c] # h1" ++ lf ++ "[a] # h2" ++ lf ++ "# lead" ++ lf ++ "b.y.z = 1 # t" ++ lf) in
  conds s = (true, false, false)
  /\ both_comments s = Some ([txt "# h1"; txt "# h2"; txt "# lead"; txt "# t"], [txt "# h1"; txt "# h2"; txt "# lead"; txt "# t"]).
Proof. split; vm_compute; reflexivity. Qed.

(* not covered, reordered pairs inside an inline table (vals_ok fails): the comments are kept all the same *)
Example C03_ex_inline_reordered :
  let s := txt ("x = { a.b = [1, # c1" ++ lf ++ " 2], c = 2, a.d = 3 } # t" ++ lf) in
  conds s = (false, true, false) /\ both_comments s = Some ([txt "# c1"; txt "# t"], [txt "# c1"; txt "# t"]).
Proof. split; vm_compute; reflexivity. Qed.
