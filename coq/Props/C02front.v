(* Props/C02front.v — property C02, the clause "toml::from_str::<Value> decodes the same tree".

   canon_value true x   the value tree x of the parsed document with every table in ascending key order:
                        the same keys, nesting and scalars; toml::Value's map is a BTreeMap.  (Under the
                        feature preserve_order the map keeps the document's order instead; Model/SerdeRoutes.v
                        to_toml_value models the default configuration only, so does this statement.)
   tree_of_doc d        eng-c07's value tree of the parsed document (Extract/SpannedTree.v st_tbl, spans
                        stripped) — the tree the serde correspondence of C07 / C13 / C14 runs on.  Its
                        relation to `abs_doc d` of Props/C02doc.v (the tree the statements denote, C02_tree)
                        is: same keys, nesting, order and scalars, table kinds and array-of-tables / array
                        distinction forgotten, for documents without Item::None and without floats.  That
                        relation is NOT proved here (it needs an induction over the toml_edit tree with the
                        well-formedness facts of parsed documents), hence `_partial`, as is `tree_ready`
                        (Props/C01front.v). *)
From TV Require Import Base.Prelude Base.Utf8 Model.Datetime Model.Tree Model.Document Spec.SerdeData.
From TV Require Import Model.De Model.SerdeRoutes Model.FrontEnds Proofs.FrontEnds Extract.Show.
Require Import String.
Open Scope string_scope.

(* toml::from_str::<toml::Value> yields exactly the document's tree, tables sorted by key.
   FULL STATEMENT (C02_serde): forall s d v, parse_document s = POk d -> toml_from_str_value s = Ok v ->
   v = value_of (abs_doc d), outside the private-key class.  Missing: tree_ready for parsed documents, and
   tree_of_doc d = the value tree of abs_doc d. *)
Theorem C02_serde_partial : forall s d x v,
  parse_document s = POk d -> tree_of_doc d = Some x -> tree_ready x = true -> has_private_key x = false ->
  toml_from_str_value s = FOk v -> v = canon_value true x.
Proof. exact serde_value. Qed.
Print Assumptions C02_serde_partial.

(* str::parse::<toml::Table> / toml::from_str::<toml::Table> likewise (the root itself may spell the key) *)
Theorem C02_serde_table_partial : forall s d x v,
  parse_document s = POk d -> tree_of_doc d = Some x -> tree_ready x = true -> has_private_key_below_root x = false ->
  toml_from_str_table s = FOk v -> v = canon_value true x.
Proof. exact serde_table. Qed.
Print Assumptions C02_serde_table_partial.

(* inside the private-key class the decoded value can differ SILENTLY (known finding private-datetime-key):
   [t] / "$__toml_private_datetime" = "1979-05-27" / b = 1  decodes to t = 1979-05-27; the key b is lost *)
Theorem C02_serde_refuted :
  exists d x v, parse_document w_private_misread = POk d /\ tree_of_doc d = Some x /\ tree_ready x = true /\
                toml_from_str_value w_private_misread = FOk v /\ v <> canon_value true x /\
                v = VTab [(str "t", VDatetime (mkDT (Some (mkDate 1979 5 27)) None None))].
Proof. exact private_key_misread. Qed.
Print Assumptions C02_serde_refuted.

(* Examples: the hypotheses hold of parsed documents, and the decoded value is the sorted tree *)
Example C02_serde_example :
  exists d x, parse_document ex_doc = POk d /\ tree_of_doc d = Some x /\ tree_ready x = true /\ has_private_key x = false /\
              toml_from_str_value ex_doc = FOk (canon_value true x) /\
              canon_value true x
              = VTab [(str "a", VArr [VTab [(str "k", VBool true)]]);
                      (str "b", VTab [(str "x", VTab [(str "p", VStr (str "s")); (str "q", VArr [VInt 1; VInt 2])]);
                                      (str "y", VDatetime (mkDT (Some (mkDate 1979 5 27)) None None))]);
                      (str "z", VInt 1)].
Proof. exact serde_example. Qed.
