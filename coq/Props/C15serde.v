(* Props/C15serde.v — property C15, serde half: "A deserialization failure (wrong type, missing field,
   unknown variant) carries the span of the offending value when source text is available, and the key
   path otherwise."

   Objects (Model/DeLoc.v, over eng-c07's span tree Model/SerdeSpanned.v `stree`):
     de_loc c t s     toml_edit's deserializer at type t on the tree s with the error plumbing
                      transcribed (set_span only if none, add_key in next_value_seed, errors the crate
                      creates with a span); c: which structs are deny_unknown_fields, and the seeded
                      change opt_overwrite
     lerr             kind, span (Error::span()), key path (rendered "in `a.b`"), and the GHOST path
                      e_at / e_onkey: the steps from s to the node (or key) the error was raised at
     locate s p k     the span of the node (k: of the key) the path p leads to in s
     all_spans s      every node and every key of s has a span (an ImDocument: source text available)
     despan s         the same tree without any span (DocumentMut, toml::Value)
     ideal_keys p     all keys on the path p;  added_keys p k: the keys of the steps that go through
                      TableMapAccess::next_value_seed (struct fields and map entries) *)
From TV Require Import Base.Prelude Base.Utf8 Model.Datetime Model.DatetimeStd Model.SerNum Spec.SerdeData Model.De Model.SerdeSpanned.
From TV Require Import Model.DeLoc Proofs.DeLocBase Proofs.DeLocKeys Proofs.DeLocSpan Proofs.DeLocRefine Proofs.DeLocTop.
Require Import String.
Open Scope string_scope.

(* WITH SOURCE TEXT: whatever the type and however deep the nesting of structs, maps, sequences, tuples,
   options, newtypes and enum variants, the span of the error is the span of the INNERMOST offending
   node — the leaf of the wrong type / out of range, the date-time of the wrong kind, the table lacking
   a field, the array of the wrong length — or of the offending KEY (unknown variant, unknown field).
   The one exception: the kind check of a Date / Time that is the very node de_loc was called on
   (`Date::deserialize` raises it after the deserializer returned, and nobody handed that node out).
   Not claimed for the paths the value model does not follow. *)
Theorem C15_de_located : forall c t s e,
  opt_overwrite c = false -> all_spans s = true -> de_loc c t s = LErr e -> e_kind e <> KUnmodelled ->
  (exists sp, e_span e = Some sp /\ locate s (e_at e) (e_onkey e) = Some (Some sp)) \/
  (e_kind e = KDtKind /\ e_at e = [] /\ e_span e = None).
Proof. exact de_located. Qed.
Print Assumptions C15_de_located.

(* every access that hands a node out (next_value_seed, next_element_seed, newtype_variant_seed,
   deserialize_option, deserialize_newtype_struct) attaches the node's span to an error without one:
   seen from there every error is located, the Date / Time kind check included *)
Theorem C15_de_located_handed_out : forall c t s e,
  opt_overwrite c = false -> all_spans s = true -> wrap (span_of s) (de_loc c t s) = LErr e -> e_kind e <> KUnmodelled ->
  exists sp, e_span e = Some sp /\ locate s (e_at e) (e_onkey e) = Some (Some sp).
Proof. exact de_located_handed_out. Qed.
Print Assumptions C15_de_located_handed_out.

(* WITHOUT SOURCE TEXT: no span, and the key path lists exactly the keys of the struct fields and map
   entries on the way to the offending node *)
Theorem C15_de_keypath : forall c t s e,
  de_loc c t (despan s) = LErr e -> e_span e = None /\ e_keys e = added_keys (e_at e) (e_onkey e).
Proof. exact de_keypath. Qed.
Print Assumptions C15_de_keypath.

(* ... which is the full path to the offending node unless it lies below an enum variant *)
Theorem C15_de_keypath_ideal : forall c t s e,
  de_loc c t (despan s) = LErr e -> below_variant (e_at e) = false -> e_onkey e = false ->
  e_keys e = ideal_keys (e_at e).
Proof. exact de_keypath_ideal. Qed.
Print Assumptions C15_de_keypath_ideal.

(* known finding C15-de-keypath-omits-enum-variant: e = { N = "x" } read as E2::N(i64): the key path
   is `e`, the offending value sits at e.N (TableEnumDeserializer does not add the variant's key) *)
Theorem C15_de_keypath_refuted :
  exists t s e, de_loc cfg0 t (despan s) = LErr e /\ e_kind e = KWrongType /\
                e_keys e = [S' "e"] /\ ideal_keys (e_at e) = [S' "e"; S' "N"].
Proof. exact keypath_refuted. Qed.
Print Assumptions C15_de_keypath_refuted.

(* the key path is the same function of the offending node's path on every tree *)
Theorem C15_de_keypath_any : forall c t s e,
  de_loc c t s = LErr e -> e_keys e = added_keys (e_at e) (e_onkey e).
Proof. exact de_keypath_any. Qed.
Print Assumptions C15_de_keypath_any.

(* THE TWO MODELS AGREE: erasing the locations, de_loc succeeds exactly when eng-c07's value-level
   deserializer (Model/De.v de_value, the subject of C07 / C13) does, with the same value *)
Theorem C15_de_refines : forall c, nodeny c -> forall t s, tree_ok s = true ->
  lval (de_loc c t s) = rval (de_value t (strip s)).
Proof. exact de_loc_refines. Qed.
Print Assumptions C15_de_refines.

(* Examples *)
(* the seeded change C15-option-span-overwritten is visible to C15_de_located: with the repository's
   plumbing the span is the leaf's, with `deserialize_option` overwriting it is the table's *)
Example C15_option_seed_noticed :
  (exists e, de_loc cfg0 t_optnested w_opt = LErr e /\ e_span e = Some (10, 13)%N /\
             locate w_opt (e_at e) (e_onkey e) = Some (Some (10, 13)%N)) /\
  (exists e, de_loc (mkCfg (fun _ => false) true) t_optnested w_opt = LErr e /\ e_span e = Some (4, 25)%N /\
             locate w_opt (e_at e) (e_onkey e) = Some (Some (10, 13)%N)).
Proof. exact option_seed_noticed. Qed.

Example C15_missing_field :
  (exists e, de_loc cfg0 t_outer w_missing = LErr e /\ e_kind e = KMissing (S' "c") /\ e_span e = Some (4, 13)%N) /\
  (exists e, de_loc cfg0 t_outer (despan w_missing) = LErr e /\ e_span e = None /\ e_keys e = [S' "t"]).
Proof. exact missing_field_example. Qed.

Example C15_deny_unknown_fields :
  exists e, de_loc (mkCfg (fun n => bytes_eqb n (S' "SDeny")) false) t_sdeny w_deny = LErr e /\
            e_kind e = KUnknownField /\ e_span e = Some (6, 8)%N /\ e_onkey e = true /\ e_keys e = [].
Proof. exact deny_example. Qed.

Example C15_enum_payload_span : exists e, de_loc cfg0 t_senum2 w_enum = LErr e /\ e_span e = Some (10, 13)%N.
Proof. exact enum_span_ok. Qed.

(* the former finding C15-de-datekind-span-outer, repaired: v = [1979-05-27, 1979-05-27T07:32:00Z] as
   Vec<Date> and e = { N = 07:32:00 } as N(Date) carry the span of the offending date-time *)
Example C15_date_kind_in_array :
  exists e, all_spans w_dates = true /\ de_loc cfg0 t_vdate w_dates = LErr e /\ e_kind e = KDtKind /\
            locate w_dates (e_at e) (e_onkey e) = Some (Some (17, 37)%N) /\ e_span e = Some (17, 37)%N.
Proof. exact date_kind_located. Qed.
Example C15_date_kind_in_variant :
  exists e, de_loc cfg0 t_e3n w_e3n = LErr e /\ e_kind e = KDtKind /\ e_span e = Some (10, 18)%N.
Proof. exact date_kind_variant_located. Qed.
(* the corner C15_de_located leaves open is real: a Date deserialized directly from a value *)
Example C15_date_kind_at_the_root :
  exists e, de_loc cfg0 (TDatetime KDate) (NLeaf (Some (0, 20)%N) (VDatetime dt_offset)) = LErr e /\
            e_kind e = KDtKind /\ e_at e = [] /\ e_span e = None.
Proof. exact date_kind_root. Qed.
