(* Props/C06wf.v — C06's documents through the well-formedness backbone (Spec/WF.v; proofs in Proofs/WFBuilt.v by
   eng-c14, also listed in Props/WFbackbone.v where ./check C03 audits them): whatever the construction API builds is a
   well-formed document, so its text is accepted and decodes to the data Display of the tree defines — WITH table kinds
   (header / implicit super-table / dotted), which C06_document's abstract tree does not record.

   How the two relate on the same premises (C06_constructed_both): one parse, both conclusions.
     C06_document (Props/C06.v)      needs no `aot_ne`: an empty array of tables prints nothing and `printed_entries`
                                     says so (known class C06-empty-aot-dropped); says in which ORDER the entries come
                                     back (values before sub-tables); keys, nesting, scalar values — no table kinds.
     C06_constructed_print_parse     needs `aot_ne t` (no empty array of tables); `abs_doc d = abs_doc_of ..` is the
                                     specification's data (Spec/Defs.v stree with kinds), order-free per table.
   Neither implies the other; together they say the document is in the class the backbone theorems (C03) speak about. *)
From TV Require Import Base.Prelude Base.Utf8 Base.Winnow Gen.Consts Spec.Abnf Spec.Lex Spec.Defs Spec.Syntax Spec.WF.
From TV Require Import Model.Datetime Model.Numbers Model.Tree Model.Parse Model.Document Model.Write Model.Encode Model.Build.
From TV Require Import Proofs.GrammarBase Proofs.PrintBackBase Proofs.WFBool Proofs.WFTree Proofs.BuiltRTValue Proofs.BuiltRTTop Proofs.WFBuilt Proofs.BuiltRTWf.

(* for any admissible leaves PS / keys PK: a leaf must be within the limits and print through a default writer proved to
   write a token (for a float: the text `ftext f` it is rendered with is a float token denoting it); keys UTF-8 *)
Theorem Built_WF : forall (ftext : fval -> bytes) (PS : scalar -> Prop) (PK : bytes -> Prop),
  (forall s, PS s -> scalar_lim s /\ match s with SFloat f => float_tok (ftext f) f | _ => default_ok s end) ->
  (forall k, PK k -> utf8_valid_b k = true) ->
  forall t, BuiltTbl PS PK t -> aot_ne t = true -> tbl_hdepth t < LIMIT -> tbl_vdepth t < LIMIT ->
  WFdoc (render_tbl ftext t) REmpty.
Proof. exact WFBuilt.built_WFdoc. Qed.
Print Assumptions Built_WF.

(* C06's leaves (scalar_ok, key_ok) and float text *)
Theorem C06_constructed_WF : forall t,
  BuiltTbl scalar_ok key_ok t -> aot_ne t = true -> tbl_hdepth t < LIMIT -> tbl_vdepth t < LIMIT ->
  WFdoc (render_tbl float_text t) REmpty.
Proof. exact WFBuilt.constructed_WF. Qed.
Print Assumptions C06_constructed_WF.

Theorem C06_constructed_print_parse : forall t,
  BuiltTbl scalar_ok key_ok t -> aot_ne t = true -> tbl_hdepth t < LIMIT -> tbl_vdepth t < LIMIT ->
  exists d, parse_document (display_document (render_tbl float_text t) REmpty) = POk d
            /\ abs_doc d = abs_doc_of (render_tbl float_text t).
Proof. exact WFBuilt.constructed_print_parse. Qed.
Print Assumptions C06_constructed_print_parse.

(* the same premises give both conclusions about the one parsed document *)
Theorem C06_constructed_both : forall t,
  BuiltTbl scalar_ok key_ok t -> aot_ne t = true -> tbl_hdepth t < LIMIT -> tbl_vdepth t < LIMIT ->
  exists d, parse_document (display_document (render_tbl float_text t) REmpty) = POk d
            /\ abs_tbl (doc_root d) = printed_entries (abs_tbl t)
            /\ abs_doc d = abs_doc_of (render_tbl float_text t)
            /\ WFdoc (render_tbl float_text t) REmpty.
Proof. exact BuiltRTWf.constructed_both. Qed.
Print Assumptions C06_constructed_both.
