(* Props/C11.v — Numbers are lossless or rejected, never wrapped, saturated or rounded away.
   Only statements, each closed by `exact`; proofs are in Proofs/NumbersRT_*.v.

   Oracles (DESIGN.md 4.4): std's `{}` on f64/f32 and `str::parse::<f64>` are not modelled.
   The float theorems are about the repository's own logic (sign / NaN / zero cases, the ".0"
   suffix, underscore removal, the overflow guard) and take what is assumed of std as explicit
   premises (`std_finite_shape`, `std_roundtrip_hyp`, `overflows .. = false`); lib/props/c11.py
   tests those premises against an independent conversion on every generated case. *)
From TV Require Import Base.Prelude Base.Utf8 Base.Winnow Gen.Consts.
From TV Require Import Model.Datetime Model.Numbers Model.Tree Model.Parse Model.Document Model.Write.
From TV Require Import Model.WriteFloat Model.SerNum.
From TV Require Import Proofs.NumbersRT_Lex Proofs.NumbersRT_Int Proofs.NumbersRT_Value
                       Proofs.NumbersRT_Float Proofs.NumbersRT_Widen Proofs.NumbersRT_Ser.
From TV Require Import Extract.Show.
Require Import String.

(* ---- integers ---------------------------------------------------------------------------------- *)
(* every i64 prints as text that `integer` reads back completely as the same value, and that
   Value::from_str reads as that Integer (date_time and float are tried first and backtrack) *)
Theorem C11_int_roundtrip :
  forall z, in_i64 z = true ->
    integer (new_input (write_i64 z)) = Ok z (end_input (write_i64 z)) /\
    exists r d, parse_value_raw (write_i64 z) = POk (VScalar (SInt z) r d).
Proof. exact (fun z H => conj (integer_write_i64 z H) (value_write_i64 z H)). Qed.
Print Assumptions C11_int_roundtrip.

(* whatever the input, a value that comes out of `integer` is an i64: nothing wrapped or saturated *)
Theorem C11_int_no_wrap :
  forall i z i', integer i = Ok z i' -> in_i64 z = true.
Proof. exact integer_range. Qed.
Print Assumptions C11_int_no_wrap.

(* every well-formed literal of base 2/8/10/16 (prefix, digits, single underscores between digits,
   decimal with optional sign — `wf_lit`, written from the TOML grammar) whose value (`lit_value`,
   Horner over the digits) is outside [-2^63, 2^63) is refused with a committed error, whatever
   bytes follow it *)
Theorem C11_int_range :
  forall bs t r, wf_lit bs t = true -> in_i64 (lit_value bs t) = false ->
    is_cut (integer (new_input (t ++ r))).
Proof. exact int_range. Qed.
Print Assumptions C11_int_range.

Theorem C11_int_range_digits :
  forall ds r, forallb is_digit ds = true ->
    (exists d tl, ds = d :: tl /\ (49 <=? b2n d)%N = true) ->
    (two63 <= dec_value ds)%N -> is_cut (integer (new_input (ds ++ r))).
Proof. exact int_range_digits. Qed.
Print Assumptions C11_int_range_digits.

(* ---- floats: the overflow guard ------------------------------------------------------------------ *)
(* whenever the lexer float_ recognises a decimal literal t at the head of the input and the exact
   decimal it denotes is >= 2^1024 - 2^970 in magnitude, `float` fails with a committed error —
   for BOTH signs (FLOAT_REJECT_POS_INF and FLOAT_REJECT_NEG_INF from Gen/Consts.v are used) *)
Theorem C11_float_overflow :
  forall i t i' neg m e,
    float_ i = Ok t i' -> fdec_of_text (remove_us t) = FDec neg m e -> overflows m e = true ->
    is_cut (float i).
Proof. exact float_overflow. Qed.
Print Assumptions C11_float_overflow.

Theorem C11_float_overflow_value :
  forall s b tl t i' neg m e,
    s = b :: tl -> num_start b = true -> no_dt0 s ->
    float_ (new_input s) = Ok t i' -> fdec_of_text (remove_us t) = FDec neg m e -> overflows m e = true ->
    exists err at_, parse_value_raw s = PErr err at_.
Proof. exact value_float_overflow. Qed.
Print Assumptions C11_float_overflow_value.

(* a decimal literal never yields an infinity; what it yields does not overflow *)
Theorem C11_float_never_inf :
  forall i v i', and_then float_ float_of i = Ok v i' ->
    exists n m e, v = FDec n m e /\ overflows m e = false.
Proof. exact float_decimal_never_inf. Qed.
Print Assumptions C11_float_never_inf.

Theorem C11_float_inf_only_spelled :
  forall i n i', float i = Ok (FInf n) i' -> exists j, special_float i = Ok (FInf n) j.
Proof. exact float_inf_only_spelled. Qed.
Print Assumptions C11_float_inf_only_spelled.

(* the shortcuts in `overflows` (digit count + exponent window) are exact:
   exceeds m e  :=  2^1024 - 2^970 <= m * 10^e   (cross-multiplied on Z when e < 0) *)
Theorem C11_overflow_threshold_sound :
  forall m e, overflows m e = true <-> exceeds m e.
Proof. exact overflows_exact. Qed.
Print Assumptions C11_overflow_threshold_sound.

Theorem C11_ndigits_bounds :
  forall m, (0 < m)%N ->
    (1 <= Z.of_nat (ndigits m) /\
     10 ^ (Z.of_nat (ndigits m) - 1) <= Z.of_N m < 10 ^ Z.of_nat (ndigits m))%Z.
Proof. exact ndigits_bound. Qed.
Print Assumptions C11_ndigits_bounds.

(* ---- floats: the writer ------------------------------------------------------------------------------ *)
(* finite non-zero float: given the shape of std's text, the writer's text is read by `float`
   completely, as the decimal with the same sign and digits (".0" appended iff std printed no
   fraction), and Value::from_str sees a Float (never an Integer) *)
Theorem C11_float_write_shape :
  forall c text ip fp,
    fc_nan c = false -> fc_zero c = false -> std_finite_shape c text ip fp ->
    let m := dec_value (ip ++ toml_frac fp) in
    let e := (0 - Z.of_nat (List.length (toml_frac fp)))%Z in
    overflows m e = false ->
    float (new_input (write_float c text)) = Ok (FDec (fc_neg c) m e) (end_input (write_float c text)) /\
    exists r d, parse_value_raw (write_float c text) = POk (VScalar (SFloat (FDec (fc_neg c) m e)) r d).
Proof.
  exact (fun c text ip fp Hn Hz Hs Ho =>
           conj (float_write_finite c text ip fp Hn Hz Hs Ho) (value_write_finite c text ip fp Hn Hz Hs Ho)).
Qed.
Print Assumptions C11_float_write_shape.

(* NaN (sign kept), zero (sign kept), infinities *)
Theorem C11_float_write_nan :
  forall c text, fc_nan c = true ->
    float (new_input (write_float c text)) = Ok (FNan (fc_neg c)) (end_input (write_float c text)).
Proof. exact float_write_nan. Qed.
Print Assumptions C11_float_write_nan.

Theorem C11_float_write_zero :
  forall c text, fc_nan c = false -> fc_zero c = true ->
    float (new_input (write_float c text)) = Ok (FDec (fc_neg c) 0 (-1)) (end_input (write_float c text)).
Proof. exact float_write_zero. Qed.
Print Assumptions C11_float_write_zero.

Theorem C11_float_write_inf :
  forall c, fc_nan c = false -> fc_zero c = false -> fc_integral c = false ->
    float (new_input (write_float c (t_inf (fc_neg c)))) = Ok (FInf (fc_neg c)) (end_input (write_float c (t_inf (fc_neg c)))).
Proof. exact float_write_inf. Qed.
Print Assumptions C11_float_write_inf.

Theorem C11_float_write_special_value :
  forall c text,
    (fc_nan c = true \/ (fc_nan c = false /\ fc_zero c = true) \/
     (fc_nan c = false /\ fc_zero c = false /\ fc_integral c = false /\ text = t_inf (fc_neg c))) ->
    exists f r d, parse_value_raw (write_float c text) = POk (VScalar (SFloat f) r d) /\
                  float (new_input (write_float c text)) = Ok f (end_input (write_float c text)).
Proof. exact value_write_special. Qed.
Print Assumptions C11_float_write_special_value.

(* the round trip of finite floats reduced to the std oracle (`back (shortest b) = b`), f64 and f32 *)
Theorem C11_f64_roundtrip_under_std :
  forall (is_inf : N -> bool) (shortest : N -> bytes) (back : fval -> N),
    std_roundtrip_hyp classify64 is_inf shortest back ->
    forall b, fc_nan (classify64 b) = false -> fc_zero (classify64 b) = false -> is_inf b = false ->
      exists f r d,
        float (new_input (write_f64 b (shortest b))) = Ok f (end_input (write_f64 b (shortest b))) /\
        parse_value_raw (write_f64 b (shortest b)) = POk (VScalar (SFloat f) r d) /\
        back f = b.
Proof. exact (writer_roundtrip_finite classify64). Qed.
Print Assumptions C11_f64_roundtrip_under_std.

(* f32: the writer widens exactly (f64::from) and uses the f64 arm, so the text read back is the
   widened value itself; widening keeps sign / NaN-ness / zero-ness and is injective on non-NaN
   patterns, so narrowing the value read back gives the f32 that was written *)
Theorem C11_f32_roundtrip_under_std :
  forall (is_inf : N -> bool) (shortest : N -> bytes) (back : fval -> N),
    std_roundtrip_hyp classify64 is_inf shortest back ->
    forall b, fc_nan (classify32 b) = false -> fc_zero (classify32 b) = false -> is_inf (widen32 b) = false ->
      exists f r d,
        float (new_input (write_f32 b (shortest (widen32 b))))
        = Ok f (end_input (write_f32 b (shortest (widen32 b)))) /\
        parse_value_raw (write_f32 b (shortest (widen32 b))) = POk (VScalar (SFloat f) r d) /\
        back f = widen32 b.
Proof. exact f32_roundtrip_from_f64. Qed.
Print Assumptions C11_f32_roundtrip_under_std.

Theorem C11_f32_widen_exact :
  (forall b, fc_nan (classify64 (widen32 b)) = fc_nan (classify32 b)) /\
  (forall b, fc_zero (classify64 (widen32 b)) = fc_zero (classify32 b)) /\
  (forall b, fc_neg (classify64 (widen32 b)) = fc_neg (classify32 b)) /\
  (forall a b, (a < p32)%N -> (b < p32)%N ->
     fc_nan (classify32 a) = false -> fc_nan (classify32 b) = false -> widen32 a = widen32 b -> a = b).
Proof. exact (conj widen32_nan (conj widen32_zero (conj widen32_neg widen32_inj))). Qed.
Print Assumptions C11_f32_widen_exact.

(* NaN and zero of an f32 take the same fixed-text arms as an f64 *)
Theorem C11_f32_write_special :
  forall b text, fc_nan (classify32 b) = true \/ fc_zero (classify32 b) = true ->
    write_f32 b text = write_float (classify32 b) text.
Proof. exact write_f32_special. Qed.
Print Assumptions C11_f32_write_special.

(* ---- serde widths --------------------------------------------------------------------------------------- *)
Theorem C11_ser_checked :
  (forall t z, in_ty t z = true -> fits_i64 z = false -> ser_int t z = None /\ tv_ser_int t z = None) /\
  (forall z, fits_i64 z = false -> serialize_u64 z = None /\ tv_serialize_u64 z = None) /\
  (forall z, serialize_i128 z = None /\ serialize_u128 z = None) /\
  (forall t z, in_ty t z = false -> de_int t z = None).
Proof. exact (conj ser_beyond_i64_err (conj serialize_u64_checked (conj serialize_128_err de_out_of_range_err))). Qed.
Print Assumptions C11_ser_checked.

(* what does get through is exact *)
Theorem C11_ser_exact :
  (forall t z v, in_ty t z = true -> ser_int t z = Some v -> v = z /\ fits_i64 v = true) /\
  (forall t z v, in_ty t z = true -> tv_ser_int t z = Some v -> v = z /\ fits_i64 v = true) /\
  (forall t z v, de_int t z = Some v -> v = z /\ in_ty t z = true) /\
  (forall t z, de_forwarded t = true -> in_ty t z = true -> de_int t z = Some z).
Proof. exact (conj ser_exact (conj tv_ser_exact (conj de_exact de_in_range_ok))). Qed.
Print Assumptions C11_ser_exact.

(* ---- examples: the hypotheses are satisfiable, the edges behave as stated ------------------------------ *)
Example ex_i64_min : integer (new_input (write_i64 i64_min)) = Ok i64_min (end_input (write_i64 i64_min)).
Proof. vm_compute. reflexivity. Qed.
Example ex_i64_max : integer (new_input (write_i64 i64_max)) = Ok i64_max (end_input (write_i64 i64_max)).
Proof. vm_compute. reflexivity. Qed.
Example ex_i64_zero : exists r d, parse_value_raw (write_i64 0) = POk (VScalar (SInt 0) r d).
Proof. vm_compute. eauto. Qed.
Example ex_i64_m1 : exists r d, parse_value_raw (write_i64 (-1)) = POk (VScalar (SInt (-1)) r d).
Proof. vm_compute. eauto. Qed.

Example ex_wf_dec : wf_lit B10 (str "9223372036854775808") = true /\ in_i64 (lit_value B10 (str "9223372036854775808")) = false.
Proof. vm_compute. auto. Qed.
Example ex_wf_dec_neg : wf_lit B10 (str "-9_223_372_036_854_775_809") = true /\ in_i64 (lit_value B10 (str "-9_223_372_036_854_775_809")) = false.
Proof. vm_compute. auto. Qed.
Example ex_wf_hex : wf_lit B16 (str "0x8000_0000_0000_0000") = true /\ in_i64 (lit_value B16 (str "0x8000_0000_0000_0000")) = false.
Proof. vm_compute. auto. Qed.
Example ex_wf_in_range : wf_lit B16 (str "0x7fff_FFFF_ffff_FFFF") = true /\ in_i64 (lit_value B16 (str "0x7fff_FFFF_ffff_FFFF")) = true.
Proof. vm_compute. auto. Qed.

Example ex_rej_dec : is_cut (integer (new_input (str "9223372036854775808"))).
Proof. vm_compute. exact I. Qed.
Example ex_rej_dec_neg : is_cut (integer (new_input (str "-9223372036854775809"))).
Proof. vm_compute. exact I. Qed.
Example ex_rej_hex : is_cut (integer (new_input (str "0x8000000000000000"))).
Proof. vm_compute. exact I. Qed.
Example ex_rej_oct : is_cut (integer (new_input (str "0o1000000000000000000000"))).
Proof. vm_compute. exact I. Qed.
Example ex_rej_bin : is_cut (integer (new_input (str "0b1" ++ List.repeat x30 63))).
Proof. vm_compute. exact I. Qed.
Example ex_acc_hex : integer (new_input (str "0x7fffffffffffffff")) = Ok i64_max (end_input (str "0x7fffffffffffffff")).
Proof. vm_compute. reflexivity. Qed.
Example ex_acc_min : integer (new_input (str "-9223372036854775808")) = Ok i64_min (end_input (str "-9223372036854775808")).
Proof. vm_compute. reflexivity. Qed.

Example ex_rej_1e309 : is_cut (float (new_input (str "1e309"))).
Proof. vm_compute. exact I. Qed.
Example ex_rej_m1e309 : is_cut (float (new_input (str "-1e309"))).
Proof. vm_compute. exact I. Qed.
Example ex_rej_edge : is_cut (float (new_input (str "1.7976931348623159e308"))).
Proof. vm_compute. exact I. Qed.
Example ex_rej_edge_neg : is_cut (float (new_input (str "-1.7976931348623159e308"))).
Proof. vm_compute. exact I. Qed.
Example ex_acc_max : float (new_input (str "1.7976931348623157e308"))
                     = Ok (FDec false 17976931348623157 292) (end_input (str "1.7976931348623157e308")).
Proof. vm_compute. reflexivity. Qed.
Example ex_overflow_hyp :
  exists t i', float_ (new_input (str "-1e309 # x")) = Ok t i' /\
               fdec_of_text (remove_us t) = FDec true 1 309 /\ overflows 1 309 = true.
Proof. vm_compute. eauto. Qed.

(* std's text for 1.5 ("1.5") and for 3.0 ("3"): the shape hypotheses hold and the writer gives "1.5" / "3.0" *)
Example ex_shape_1_5 :
  std_finite_shape (classify64 4609434218613702656) (str "1.5") (str "1") (str "5").
Proof.
  constructor; [reflexivity | left; split; [reflexivity | exists x31, []; split; reflexivity] | reflexivity
               | split; intro H; vm_compute in H; discriminate].
Qed.
Example ex_shape_3 :
  std_finite_shape (classify64 4613937818241073152) (str "3") (str "3") [].
Proof.
  constructor; [reflexivity | left; split; [reflexivity | exists x33, []; split; reflexivity] | reflexivity
               | split; intro H; [reflexivity | vm_compute; reflexivity]].
Qed.
Example ex_write_3 : write_f64 4613937818241073152 (str "3") = str "3.0".
Proof. vm_compute. reflexivity. Qed.
Example ex_write_f32_1 : write_f32 1065353216 (str "1") = str "1.0".       (* F2: 1.0f32 *)
Proof. vm_compute. reflexivity. Qed.
(* 7.038531e-26f32 (0x15ae43fd): written through its exact widening 0x3ab5c87fa0000000 *)
Example ex_widen_witness : widen32 363742205 = 4230507875455205376%N.
Proof. vm_compute. reflexivity. Qed.
Example ex_write_neg_nan : write_f64 18444492273895866368 (str "NaN") = str "-nan".
Proof. vm_compute. reflexivity. Qed.
Example ex_write_inf : write_f64 9218868437227405312 (str "inf") = str "inf".
Proof. vm_compute. reflexivity. Qed.

Example ex_ser_u64 : ser_int TU64 18446744073709551615 = None /\ ser_int TU64 9223372036854775807 = Some 9223372036854775807%Z.
Proof. vm_compute. auto. Qed.
Example ex_de_u8 : de_int TU8 256 = None /\ de_int TU8 255 = Some 255%Z /\ de_int TI8 (-129) = None.
Proof. vm_compute. auto. Qed.
