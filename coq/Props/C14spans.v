(* Props/C14spans.v — C14, second layer: whole-document span theorems (Proofs/Spans*.v).
   Only `Theorem ... Proof. exact lemma. Qed.` + `Print Assumptions` + `Example`s. *)
From TV Require Import Base.Prelude Base.Utf8 Base.Winnow Model.Tree Model.Parse Model.Document Model.Encode.
From TV Require Import Proofs.GrammarBase.
From TV Require Import Proofs.SpansDefs Proofs.SpansDoc Proofs.SpansDespan Proofs.SpansExact Proofs.SpansReparse.
From TV Require Import Proofs.SpansNestValue Proofs.SpansNestDoc.
From TV Require Import Proofs.SpansBoundary Proofs.SpansBdDoc Proofs.SpansDespanTotal.
From TV Require Import Proofs.SpansNodes Proofs.SpansNodesDoc.

(* 1. every span stored anywhere in a successfully parsed document (key reprs, key decor, value reprs and
      decor, array / inline-table trailing, table spans, array-of-tables spans, document trailing:
      `all_spans`, Proofs/SpansDefs.v) is a pair (a, b) with a <= b <= length source *)
Theorem C14_spans_in_range : forall s d,
  parse_document s = POk d ->
  Forall (fun sp => (fst sp <= snd sp)%N /\ (snd sp <= N.of_nat (length s))%N) (all_spans d).
Proof. exact spans_in_range. Qed.
Print Assumptions C14_spans_in_range.

(* 2a. `value` stores as the value's span exactly the window of the text it consumed (the repr of a scalar,
       the span of an array / inline table); that text is a non-empty prefix of the input; decor is cleared *)
Theorem C14_value_span_is_consumed : forall i v i',
  value_ i = Ok v i' ->
  value_span v = Some (pos i, pos i') /\ (pos i < pos i')%N /\ value_decor v = decor_new REmpty REmpty
  /\ exists t, rest i = t ++ rest i' /\ pos i' = (pos i + N.of_nat (length t))%N /\ t <> [].
Proof. exact value_exact. Qed.
Print Assumptions C14_value_span_is_consumed.

(* 2b. `simple_key` stores as the key's repr exactly the window of the key token *)
Theorem C14_key_span_is_consumed : forall i r k i',
  simple_key i = Ok (r, k) i' ->
  r = RSpanned (pos i) (pos i') /\ (pos i < pos i')%N
  /\ exists t, rest i = t ++ rest i' /\ pos i' = (pos i + N.of_nat (length t))%N /\ t <> [].
Proof. exact simple_key_span_exact. Qed.
Print Assumptions C14_key_span_is_consumed.

(* 2c. prefix-closedness of simple_key: on exactly the text it consumed it returns the same key and stops at
       the end *)
Theorem C14_simple_key_prefix_closed : forall i rw k i',
  simple_key i = Ok (rw, k) i' ->
  exists t, rest i = t ++ rest i' /\ pos i' = (pos i + N.of_nat (length t))%N
            /\ simple_key (new_input t) = Ok (raw_with_span (0, N.of_nat (length t))%N, k) (mkIn [] (N.of_nat (length t)) 0).
Proof. exact simple_key_prefix_closed. Qed.
Print Assumptions C14_simple_key_prefix_closed.

(* 2d. a key's span, used to slice the source, spells that same key (`cursor_of s i`: the cursor i points into s) *)
Theorem C14_key_reparse : forall s i rw k i',
  cursor_of s i -> simple_key i = Ok (rw, k) i' ->
  rw = RSpanned (pos i) (pos i') /\
  parse_key (slice s (pos i) (pos i')) = POk (raw_with_span (0, pos i' - pos i)%N, k).
Proof. exact key_reparse. Qed.
Print Assumptions C14_key_reparse.

(* 2e. a value's span, used to slice the source, re-parses to a value with the same data (`absv`: decor, reprs,
       spans and key spellings forgotten) — scalars, arrays and braces-delimited inline tables alike *)
Theorem C14_value_reparse : forall s i v i',
  cursor_of s i -> value_ i = Ok v i' ->
  value_span v = Some (pos i, pos i') /\
  exists v', parse_value_raw (slice s (pos i) (pos i')) = POk v' /\ absv v' = absv v.
Proof. exact value_reparse. Qed.
Print Assumptions C14_value_reparse.

(* 5. after despan (ImDocument::into_mut) no spanned raw string and no value / table / array-of-tables span
      remains anywhere in the tree *)
Theorem C14_despan_all : forall s d r t,
  tbl_despan s (doc_root d) = Some r -> raw_despan s (doc_trailing d) = Some t ->
  tbl_nospan r = true /\ raw_nospan t = true /\ all_spans (mkDoc r t) = [].
Proof. exact despan_all. Qed.
Print Assumptions C14_despan_all.

Theorem C14_despan_value : forall s v v', value_despan s v = Some v' -> value_nospan v' = true /\ value_spans v' = [].
Proof. exact despan_value. Qed.
Print Assumptions C14_despan_value.

(* 2f. ... at document level.  `tbl_nodes t` (Proofs/SpansNodes.v) lists every key stored anywhere in the tree as
       (text, repr) and every value node written as a value (scalar, array, braces-delimited inline table; not the
       tables made of dotted keys) as (span, data).  For a well-formed UTF-8 source, every key has a spanned repr
       whose slice spells that key, and every such value node has a span whose slice re-parses to the same data
       (`Pnode`, Proofs/SpansNodesDoc.v). *)
Theorem C14_reparse_all : forall s d,
  utf8_valid_b s = true -> parse_document s = POk d -> Forall (Pnode s) (tbl_nodes (doc_root d)).
Proof. exact reparse_all. Qed.
Print Assumptions C14_reparse_all.

(* 3. nesting (`vnest` / `tnest`, Proofs/SpansDefs.v).  Every value returned by `value`: all that an array or a
      braces-delimited inline table stores (elements, keys, decor, trailing text) lies inside its span; a table
      made of a dotted key inside braces spans its keys and values; recursively. *)
Theorem C14_nested_value : forall i v i', value_ i = Ok v i' -> vnest v = true.
Proof. exact value_nest. Qed.
Print Assumptions C14_nested_value.

(*    Every parsed document: where a table has a span, the repr of every key holding a value and that value's
      span lie inside it (table sections, and tables made of dotted keys — whose spans are widened to cover their
      entries); every value satisfies `vnest`; the elements of an array of tables lie inside the array's span. *)
Theorem C14_nested : forall s d, parse_document s = POk d -> tnest (doc_root d) = true.
Proof. exact parse_document_nest. Qed.
Print Assumptions C14_nested.

(*    ... spelled out: an element of an array lies inside the array's span (with its decor), and is nested itself;
      a key/value entry of a table with a span lies inside that span *)
Theorem C14_nested_array_elem : forall vals tr c d a b it,
  vnest (VArray vals tr c d (Some (a, b))) = true -> In it vals -> item_in a b it = true /\ inest it = true.
Proof. exact vnest_array_elem. Qed.
Print Assumptions C14_nested_array_elem.
Theorem C14_nested_table_entry : forall items d im dt p a b k v,
  tnest (Tbl items d im dt p (Some (a, b))) = true -> In (k, IValue v) items ->
  kspan_in a b k = true /\ osp_in a b (value_span v) = true /\ vnest v = true.
Proof. exact tnest_value_entry. Qed.
Print Assumptions C14_nested_table_entry.

(*    The stronger reading "a table made of a dotted key lies inside the span of its parent in the tree" is FALSE:
      `[t.a.q]` makes t.a an implicit super-table, `a.b.y = 2` under `[t]` puts the dotted table b (span 14-21) into
      it, and a later `[t.a]` header gives t.a the span 22-33.  (The implementation reports the same spans; the
      C14 oracle reads "child" syntactically, which this document satisfies.) *)
Theorem C14_dotted_table_inside_parent_refuted :
  exists s d, parse_document s = POk d /\ dotted_inside (doc_root d) = false /\ tnest (doc_root d) = true.
Proof. exact dotted_inside_refuted. Qed.
Print Assumptions C14_dotted_table_inside_parent_refuted.

(* 4. character boundaries: for a well-formed UTF-8 source, every span endpoint stored anywhere in the parsed
      document is a character boundary of the source (token boundaries are ASCII delimiters or ends of
      UTF-8-checked chunks: every parser consumes whole characters, Proofs/SpansUtf8Lex.v) *)
Theorem C14_char_boundaries : forall s d,
  utf8_valid_b s = true -> parse_document s = POk d ->
  Forall (fun sp => char_boundary_b s (fst sp) = true /\ char_boundary_b s (snd sp) = true) (all_spans d).
Proof. exact spans_on_char_boundaries. Qed.
Print Assumptions C14_char_boundaries.

(*    ... and at the level of one token (`at_ s i`: the cursor points into s, what remains is well-formed) *)
Theorem C14_value_span_boundaries : forall s i v i',
  at_ s i -> value_ i = Ok v i' ->
  value_span v = Some (pos i, pos i') /\ char_boundary_b s (pos i) = true /\ char_boundary_b s (pos i') = true.
Proof. exact value_span_boundaries. Qed.
Print Assumptions C14_value_span_boundaries.
Theorem C14_key_span_boundaries : forall s i r k i',
  at_ s i -> simple_key i = Ok (r, k) i' ->
  r = RSpanned (pos i) (pos i') /\ char_boundary_b s (pos i) = true /\ char_boundary_b s (pos i') = true.
Proof. exact key_span_boundaries. Qed.
Print Assumptions C14_key_span_boundaries.

(* 5'. consequence of 1 + 4: despan (ImDocument::into_mut) of a parsed well-formed UTF-8 document never fails: every
       `str::get(span)` of RawString::despan succeeds (the panic site P_span_slice is unreachable) *)
Theorem C14_despan_total : forall s d,
  utf8_valid_b s = true -> parse_document s = POk d ->
  exists r t, tbl_despan s (doc_root d) = Some r /\ raw_despan s (doc_trailing d) = Some t.
Proof. exact despan_total. Qed.
Print Assumptions C14_despan_total.

(* ---- 6. tables that have a header of their own have a span, wherever the header stands ------------------------------------ *)
From TV Require Import Proofs.SpansHeader.
(* the step: whatever a header opens — a fresh table, or an implicit table that headers of its sub-tables / of arrays of
   tables below it made earlier (`[a.b]` or `[[a.b]]` ... then `[a]`; ParseState::start_table takes that table out of the
   tree and re-opens it) — the open table is explicit and its span is the header's span *)
Theorem C14_header_opens_span : forall arr st path trailing sp st',
  on_header arr st path trailing sp = COk st' ->
  t_span (st_current st') = Some sp /\ t_implicit (st_current st') = false /\ t_dotted (st_current st') = false.
Proof. exact on_header_span. Qed.
Print Assumptions C14_header_opens_span.

(* the document: in EVERY accepted document, every table anywhere in the tree (`in_tree`: the root, entries of tables,
   elements of arrays of tables, at any depth) that is not implicit — i.e. has a header of its own, is an element of an
   array of tables, or is the root — has a span, and the span starts at a `[` of the text (offset 0 for the root).
   No condition on the order of the headers: a super-table given its header after its sub-tables is covered, and so is
   one given its header after an array of tables below it.  (Implicit tables: known finding C14-implicit-table-span.) *)
Theorem C14_explicit_table_span : forall s d u,
  parse_document s = POk d -> in_tree (doc_root d) u -> t_implicit u = false ->
  exists a b, t_span u = Some (a, b) /\ (a = 0%N \/ nth_error s (N.to_nat a) = Some x5b).
Proof. exact explicit_table_span. Qed.
Print Assumptions C14_explicit_table_span.

(* every element of every array of tables is explicit and has such a span *)
Theorem C14_aot_element_span : forall s d t k ts sp e,
  parse_document s = POk d -> in_tree (doc_root d) t -> In (k, IAot ts sp) (t_items t) -> In e ts ->
  t_implicit e = false /\ exists a b, t_span e = Some (a, b) /\ (a = 0%N \/ nth_error s (N.to_nat a) = Some x5b).
Proof. exact aot_element_span. Qed.
Print Assumptions C14_aot_element_span.

(* ---- examples: the hypotheses are satisfiable, the statements say something --------------------------------------- *)
(* "'é' = 'ü' # ö\n[t]\na.b = { x.y = 1, x.z = [ 2 ] }\n[[t.u]]\nk = 1\n[[t.u]]\n" (multi-byte characters, a dotted key, an
   inline table with a dotted key, an array, an array of tables) *)
Example c14_example_parses : exists d, parse_document c14_example = POk d /\ length (all_spans d) = 38
                                       /\ tnest (doc_root d) = true /\ dotted_inside (doc_root d) = true.
Proof.
  destruct (parse_document c14_example) as [d| |] eqn:E.
  - exists d. split; [reflexivity|]. revert E. vm_compute. intro E. inversion E; subst d. repeat split.
  - exfalso. revert E. vm_compute. discriminate.
  - exfalso. revert E. vm_compute. discriminate.
Qed.
Example c14_example_despans : exists d r t, parse_document c14_example = POk d
                                            /\ tbl_despan c14_example (doc_root d) = Some r
                                            /\ raw_despan c14_example (doc_trailing d) = Some t.
Proof.
  destruct (parse_document c14_example) as [d| |] eqn:E.
  - exists d. revert E. vm_compute. intro E. inversion E; subst d. eexists. eexists. repeat split.
  - exfalso. revert E. vm_compute. discriminate.
  - exfalso. revert E. vm_compute. discriminate.
Qed.
(* the key 'é' at the start of the text: its repr is (0, 4), and the slice spells the same key *)
Example c14_example_key : exists rw k i', simple_key (new_input c14_example) = Ok (rw, k) i'
                                          /\ rw = RSpanned 0 4 /\ k = [xc3; xa9]
                                          /\ parse_key (slice c14_example 0 4) = POk (raw_with_span (0, 4)%N, k).
Proof. eexists. eexists. eexists. vm_compute. repeat split. Qed.
(* the example is well-formed UTF-8 and has 15 nodes (9 keys, 6 value nodes): C14_char_boundaries, C14_reparse_all,
   C14_despan_total apply to it *)
Example c14_example_nodes : utf8_valid_b c14_example = true
                            /\ exists d, parse_document c14_example = POk d /\ length (tbl_nodes (doc_root d)) = 15.
Proof.
  split; [reflexivity|]. destruct (parse_document c14_example) as [d| |] eqn:E.
  - exists d. split; [reflexivity|]. revert E. vm_compute. intro E. inversion E; subst d. reflexivity.
  - exfalso. revert E. vm_compute. discriminate.
  - exfalso. revert E. vm_compute. discriminate.
Qed.

(* re-opened tables: `[a.b]` first makes `a` an implicit table without a span; its own header `[a]` (offset 6) then gives it
   the span 6..15 (header to the end of its last value), `a.b` keeps 0..5.  The same below an array of tables: in
   `[[a.b]]\n[a]\nx = 1\n` the element has 0..7 and `a` has 8..17.  Without `[a]` the table stays implicit and span-less. *)
Definition c14_tbl_at (t : tbl) (k : bytes) : option tbl :=
  match kv_get (t_items t) k with Some (_, ITable sub) => Some sub | _ => None end.
Definition c14_span_is (t : tbl) (im : bool) (sp : option (N * N)) : bool :=
  Bool.eqb (t_implicit t) im
  && match t_span t, sp with
     | Some (a, b), Some (a', b') => N.eqb a a' && N.eqb b b'
     | None, None => true
     | _, _ => false
     end.
Definition c14_reopen_check : bool :=
  let ka := [x61] in let kb := [x62] in
  match parse_document [x5b; x61; x2e; x62; x5d; x0a; x5b; x61; x5d; x0a; x78; x20; x3d; x20; x31; x0a] with
  | POk d => match c14_tbl_at (doc_root d) ka with
             | Some a => c14_span_is a false (Some (6, 15)%N)
                         && match c14_tbl_at a kb with Some b => c14_span_is b false (Some (0, 5)%N) | None => false end
             | None => false
             end
  | _ => false
  end
  && match parse_document [x5b; x5b; x61; x2e; x62; x5d; x5d; x0a; x5b; x61; x5d; x0a; x78; x20; x3d; x20; x31; x0a] with
     | POk d => match c14_tbl_at (doc_root d) ka with
                | Some a => c14_span_is a false (Some (8, 17)%N)
                            && match kv_get (t_items a) kb with
                               | Some (_, IAot [e] _) => c14_span_is e false (Some (0, 7)%N)
                               | _ => false
                               end
                | None => false
                end
     | _ => false
     end
  && match parse_document [x5b; x61; x2e; x62; x5d; x0a] with
     | POk d => match c14_tbl_at (doc_root d) ka with Some a => c14_span_is a true None | None => false end
     | _ => false
     end.
Example c14_example_reopened : c14_reopen_check = true.
Proof. vm_compute. reflexivity. Qed.
