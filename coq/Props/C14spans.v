(* Props/C14spans.v — C14, second layer: whole-document span theorems (Proofs/Spans*.v).
   Only `Theorem ... Proof. exact lemma. Qed.` + `Print Assumptions` + `Example`s. *)
From TV Require Import Base.Prelude Base.Utf8 Base.Winnow Model.Tree Model.Parse Model.Document.
From TV Require Import Proofs.SpansDefs Proofs.SpansDoc.

(* 1. every span stored anywhere in a successfully parsed document (key reprs, key decor, value reprs and
      decor, array / inline-table trailing, table spans, array-of-tables spans, document trailing:
      `all_spans`, Proofs/SpansDefs.v) is a pair (a, b) with a <= b <= length source *)
Theorem C14_spans_in_range : forall s d,
  parse_document s = POk d ->
  Forall (fun sp => (fst sp <= snd sp)%N /\ (snd sp <= N.of_nat (length s))%N) (all_spans d).
Proof. exact spans_in_range. Qed.
Print Assumptions C14_spans_in_range.
