(* Props/C16.v — Tables, arrays and maps obey ordered-container laws under any call sequence.

   `run step s h` replays the history h (a list of calls) from state s and returns the final
   state and the list of what every call returned.  Model: Model/Containers.v (tstep / pstep /
   vstep transcribe the Rust methods over the raw entries, placeholders included).  Reference:
   Spec/Ordered.v (ref_step / vref_step on a plain list of pairs / list).

   An `Item::None` placeholder left by an earlier `&mut c[k]` is absent for every call: the read
   accessors filter it, and every write / entry path first drops it (`remove_placeholder`, the repair
   of finding C16-placeholder-residue; Model/Containers.v `prep`).  The refinement theorems below
   therefore hold for ALL histories; the histories that were counterexamples before the repair are
   kept as regression examples at the end. *)
From TV Require Import Base.Prelude Spec.Ordered Model.Containers Proofs.ContainersRefine.

Theorem C16_table : forall h,
  snd (run (tstep KTable) [] h) = snd (run (ref_step KTable) [] h) /\
  forall ks, tobserve KTable ks (fst (run (tstep KTable) [] h))
             = ref_observe KTable ks (fst (run (ref_step KTable) [] h)).
Proof. exact (fun h => table_like_refines KTable h (or_introl eq_refl)). Qed.
Print Assumptions C16_table.

Theorem C16_inline : forall h,
  snd (run (tstep KInline) [] h) = snd (run (ref_step KInline) [] h) /\
  forall ks, tobserve KInline ks (fst (run (tstep KInline) [] h))
             = ref_observe KInline ks (fst (run (ref_step KInline) [] h)).
Proof. exact (fun h => table_like_refines KInline h (or_intror (or_introl eq_refl))). Qed.
Print Assumptions C16_inline.

Theorem C16_inline_tablelike : forall h,
  snd (run (tstep KInlineTL) [] h) = snd (run (ref_step KInlineTL) [] h) /\
  forall ks, tobserve KInlineTL ks (fst (run (tstep KInlineTL) [] h))
             = ref_observe KInlineTL ks (fst (run (ref_step KInlineTL) [] h)).
Proof. exact (fun h => table_like_refines KInlineTL h (or_intror (or_intror eq_refl))). Qed.
Print Assumptions C16_inline_tablelike.

(* after ANY history what the TableLike view of
   an inline table shows (len, is_empty, iter, get, contains_key, printed entries) is exactly the
   list of real entries: the repaired F11. *)
Theorem C16_inline_tablelike_view : forall h ks,
  tobserve KInlineTL ks (fst (run (tstep KInlineTL) [] h))
  = ref_observe KInlineTL ks (abs (fst (run (tstep KInlineTL) [] h))).
Proof. exact (fun h ks => table_like_view KInlineTL h ks (or_intror (or_intror eq_refl))). Qed.
Print Assumptions C16_inline_tablelike_view.

Theorem C16_array : forall h,
  snd (run (vstep KArray) [] h) = snd (run (vref_step KArray) [] h) /\
  vobserve (fst (run (vstep KArray) [] h)) = vref_observe (fst (run (vref_step KArray) [] h)).
Proof. exact (vec_refines KArray). Qed.
Print Assumptions C16_array.

Theorem C16_aot : forall h,
  snd (run (vstep KAot) [] h) = snd (run (vref_step KAot) [] h) /\
  vobserve (fst (run (vstep KAot) [] h)) = vref_observe (fst (run (vref_step KAot) [] h)).
Proof. exact (vec_refines KAot). Qed.
Print Assumptions C16_aot.

Theorem C16_map_sorted : forall h,
  snd (run (pstep KMapSorted) [] h) = snd (run (ref_step KMapSorted) [] h) /\
  forall ks, pobserve ks (fst (run (pstep KMapSorted) [] h))
             = ref_observe KMapSorted ks (fst (run (ref_step KMapSorted) [] h)).
Proof. exact (fun h => map_refines KMapSorted h (or_introl eq_refl)). Qed.
Print Assumptions C16_map_sorted.

Theorem C16_map_ordered : forall h,
  snd (run (pstep KMapOrdered) [] h) = snd (run (ref_step KMapOrdered) [] h) /\
  forall ks, pobserve ks (fst (run (pstep KMapOrdered) [] h))
             = ref_observe KMapOrdered ks (fst (run (ref_step KMapOrdered) [] h)).
Proof. exact (fun h => map_refines KMapOrdered h (or_intror eq_refl)). Qed.
Print Assumptions C16_map_ordered.

(* placeholders are invisible to len / is_empty / iter / get / contains_key / printed entries:
   in every reachable state (any history) of a Table, an InlineTable and
   the TableLike view of an InlineTable, removing the placeholders physically changes nothing *)
Theorem C16_placeholder : forall kd h ks,
  kd = KTable \/ kd = KInline \/ kd = KInlineTL ->
  tobserve kd ks (fst (run (tstep kd) [] h)) = tobserve kd ks (visible (fst (run (tstep kd) [] h))).
Proof. exact (fun kd h ks Hk => placeholders_invisible_reachable kd h ks Hk). Qed.
Print Assumptions C16_placeholder.

(* the same for every state with unique keys, reachable or not *)
Theorem C16_placeholder_state : forall kd ks c,
  kd = KTable \/ kd = KInline \/ kd = KInlineTL ->
  NoDup (map fst c) -> tobserve kd ks c = tobserve kd ks (visible c).
Proof. exact placeholders_invisible. Qed.
Print Assumptions C16_placeholder_state.

(* and EVERY call (reads, writes, entry API, index operators) made in any reachable state answers as
   the reference does on the real entries *)
Theorem C16_placeholder_calls : forall kd h o,
  kd = KTable \/ kd = KInline \/ kd = KInlineTL ->
  snd (tstep kd (fst (run (tstep kd) [] h)) o) = snd (ref_step kd (abs (fst (run (tstep kd) [] h))) o).
Proof. exact calls_blind. Qed.
Print Assumptions C16_placeholder_calls.

(* ---- the former counterexamples of the placeholder class (C16_*_refuted before the repair) now agree ---- *)
Theorem C16_table_regression :
  agrees KTable w_table_insert /\ agrees KTable w_table_or_insert /\ agrees KTable w_table_order.
Proof. exact (conj w_table_insert_agrees (conj w_table_or_insert_agrees w_table_order_agrees)). Qed.
Print Assumptions C16_table_regression.

Theorem C16_inline_regression : agrees KInline w_inline_entry /\ agrees KInline w_inline_goi.
Proof. exact (conj w_inline_entry_agrees w_inline_goi_agrees). Qed.
Print Assumptions C16_inline_regression.

Theorem C16_inline_tablelike_regression : agrees KInlineTL w_tl_entry.
Proof. exact w_tl_entry_agrees. Qed.
Print Assumptions C16_inline_tablelike_regression.

(* ---- non-vacuity: histories that DO create placeholders and leave them in the container ---- *)
Example C16_table_covers_placeholders :
  let h := [MIns ka (PInt 1); MIdxM kb; MIns ["c"%byte] PTab; MRm ka; MIdxM kb; MSort; MLen; MIter; MGet kb;
            MRet (PKeyNe ka); MSortBy CValAsc] in
  anyph (fst (run (tstep KTable) [] h)) = true.
Proof. vm_compute. reflexivity. Qed.

Example C16_inline_tablelike_covers_placeholders :
  let h := [MIdxM ka; MIns kb (PInt 1); MIter; MGet ka; MGetM ka; MLen; MEmp; MCk ka; MIdxM ka; MSort] in
  anyph (fst (run (tstep KInlineTL) [] h)) = true.
Proof. vm_compute. reflexivity. Qed.

Example C16_inline_covers_placeholders :
  let h := [MIdxM ka; MIns kb (PInt 1); MIter; MGet ka; MRm ka; MIdxM ka; MRet PAll; MIns ka (PInt 2)] in
  snd (run (tstep KInline) [] h) = snd (run (ref_step KInline) [] h).
Proof. vm_compute. reflexivity. Qed.

(* the repaired F11 witness: auto-vivify a placeholder in an inline table, then look through TableLike *)
Example C16_F11_witness_now_agrees :
  let h := [MIdxM ka; MLen; MEmp; MIter; MGet ka; MCk ka] in
  snd (run (tstep KInlineTL) [] h) = snd (run (ref_step KInlineTL) [] h)
  /\ snd (run (tstep KInlineTL) [] h) = [OItem INone; ONat 0; OBool true; OList []; OOpt None; OBool false].
Proof. vm_compute. split; reflexivity. Qed.

Example C16_sorted_map_is_sorted :
  snd (run (pstep KMapSorted) [] [MIns ["c"%byte] (PInt 1); MIns ka (PInt 2); MIns kb (PInt 3); MKeys])
  = [OOpt None; OOpt None; OOpt None; OKeys [ka; kb; ["c"%byte]]].
Proof. vm_compute. reflexivity. Qed.

(* Array::sort_by / sort_by_key are STABLE sorts (Vec::sort_by): the refinement theorem C16_array covers
   every comparator of the call vocabulary, among them `x mod 3` (VSortBy VMod3, VSortKey), under which
   most elements tie; on 24 elements (std's unstable sort would already reorder ties above 20):
   elements with the same residue keep their relative order *)
Example C16_array_sort_with_ties_is_stable :
  let l := [7; 3; 11; 9; 2; 16; 30; 4; 23; 12; 5; 19; 27; 8; 14; 21; 1; 25; 18; 10; 29; 6; 13; 24]%Z in
  snd (run (vstep KArray) [] [VFrom l; VSortBy VMod3; VIter; VSortKey; VIter])
  = [VOUnit; VOUnit; VOList [3; 9; 30; 12; 27; 21; 18; 6; 24; 7; 16; 4; 19; 1; 25; 10; 13; 11; 2; 23; 5; 8; 14; 29]%Z; VOUnit; VOList [3; 9; 30; 12; 27; 21; 18; 6; 24; 7; 16; 4; 19; 1; 25; 10; 13; 11; 2; 23; 5; 8; 14; 29]%Z]
  /\ snd (run (vstep KArray) [] [VFrom l; VSortBy VMod3; VIter; VSortKey; VIter])
     = snd (run (vref_step KArray) [] [VFrom l; VSortBy VMod3; VIter; VSortKey; VIter]).
Proof. vm_compute. split; reflexivity. Qed.
