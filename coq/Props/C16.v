(* Props/C16.v — Tables, arrays and maps obey ordered-container laws under any call sequence.

   `run step s h` replays the history h (a list of calls) from state s and returns the final
   state and the list of what every call returned.  Model: Model/Containers.v (tstep / pstep /
   vstep transcribe the Rust methods over the raw entries, placeholders included).  Reference:
   Spec/Ordered.v (ref_step / vref_step on a plain list of pairs / list).

   `touches_placeholder kd h` (Model/Containers.v, decidable) = some call of h is applied to a key
   whose entry is at that moment an `Item::None` placeholder left by an earlier `&mut c[k]`, and the
   call is one of insert / insert_formatted / remove(_entry) [Table] / key / entry (or_insert, insert,
   remove) / get_or_insert / index-assign / extend, or it is the owned into_iter of a Table holding
   any placeholder.  On such histories the containers are NOT plain ordered maps (`_refuted` lemmas). *)
From TV Require Import Base.Prelude Spec.Ordered Model.Containers Proofs.ContainersRefine.

Theorem C16_table : forall h,
  touches_placeholder KTable h = false ->
  snd (run (tstep KTable) [] h) = snd (run (ref_step KTable) [] h) /\
  forall ks, tobserve KTable ks (fst (run (tstep KTable) [] h))
             = ref_observe KTable ks (fst (run (ref_step KTable) [] h)).
Proof. exact (fun h => table_like_refines KTable h (or_introl eq_refl)). Qed.
Print Assumptions C16_table.

Theorem C16_inline : forall h,
  touches_placeholder KInline h = false ->
  snd (run (tstep KInline) [] h) = snd (run (ref_step KInline) [] h) /\
  forall ks, tobserve KInline ks (fst (run (tstep KInline) [] h))
             = ref_observe KInline ks (fst (run (ref_step KInline) [] h)).
Proof. exact (fun h => table_like_refines KInline h (or_intror (or_introl eq_refl))). Qed.
Print Assumptions C16_inline.

Theorem C16_inline_tablelike : forall h,
  touches_placeholder KInlineTL h = false ->
  snd (run (tstep KInlineTL) [] h) = snd (run (ref_step KInlineTL) [] h) /\
  forall ks, tobserve KInlineTL ks (fst (run (tstep KInlineTL) [] h))
             = ref_observe KInlineTL ks (fst (run (ref_step KInlineTL) [] h)).
Proof. exact (fun h => table_like_refines KInlineTL h (or_intror (or_intror eq_refl))). Qed.
Print Assumptions C16_inline_tablelike.

(* full strength, no class: after ANY history (sensitive calls included) what the TableLike view of
   an inline table shows (len, is_empty, iter, get, contains_key, printed entries) is exactly the
   list of real entries: the repaired F11. *)
Theorem C16_inline_tablelike_view : forall h ks,
  tobserve KInlineTL ks (fst (run (tstep KInlineTL) [] h))
  = ref_observe KInlineTL ks (abs (fst (run (tstep KInlineTL) [] h))).
Proof. exact (fun h ks => table_like_view KInlineTL h ks (or_intror (or_intror eq_refl))). Qed.
Print Assumptions C16_inline_tablelike_view.

Theorem C16_array : forall h,
  snd (run (vstep KArray) [] h) = snd (run (vref_step KArray) [] h) /\
  vobserve (fst (run (vstep KArray) [] h)) = vref_observe (fst (run (vref_step KArray) [] h)).
Proof. exact (vec_refines KArray). Qed.
Print Assumptions C16_array.

Theorem C16_aot : forall h,
  snd (run (vstep KAot) [] h) = snd (run (vref_step KAot) [] h) /\
  vobserve (fst (run (vstep KAot) [] h)) = vref_observe (fst (run (vref_step KAot) [] h)).
Proof. exact (vec_refines KAot). Qed.
Print Assumptions C16_aot.

Theorem C16_map_sorted : forall h,
  snd (run (pstep KMapSorted) [] h) = snd (run (ref_step KMapSorted) [] h) /\
  forall ks, pobserve ks (fst (run (pstep KMapSorted) [] h))
             = ref_observe KMapSorted ks (fst (run (ref_step KMapSorted) [] h)).
Proof. exact (fun h => map_refines KMapSorted h (or_introl eq_refl)). Qed.
Print Assumptions C16_map_sorted.

Theorem C16_map_ordered : forall h,
  snd (run (pstep KMapOrdered) [] h) = snd (run (ref_step KMapOrdered) [] h) /\
  forall ks, pobserve ks (fst (run (pstep KMapOrdered) [] h))
             = ref_observe KMapOrdered ks (fst (run (ref_step KMapOrdered) [] h)).
Proof. exact (fun h => map_refines KMapOrdered h (or_intror eq_refl)). Qed.
Print Assumptions C16_map_ordered.

(* placeholders are invisible to len / is_empty / iter / get / contains_key / printed entries:
   in every reachable state (any history, sensitive calls included) of a Table, an InlineTable and
   the TableLike view of an InlineTable, removing the placeholders physically changes nothing *)
Theorem C16_placeholder : forall kd h ks,
  kd = KTable \/ kd = KInline \/ kd = KInlineTL ->
  tobserve kd ks (fst (run (tstep kd) [] h)) = tobserve kd ks (visible (fst (run (tstep kd) [] h))).
Proof. exact (fun kd h ks Hk => placeholders_invisible_reachable kd h ks Hk). Qed.
Print Assumptions C16_placeholder.

(* the same for every state with unique keys, reachable or not *)
Theorem C16_placeholder_state : forall kd ks c,
  kd = KTable \/ kd = KInline \/ kd = KInlineTL ->
  NoDup (map fst c) -> tobserve kd ks c = tobserve kd ks (visible c).
Proof. exact placeholders_invisible. Qed.
Print Assumptions C16_placeholder_state.

(* and every read CALL (get, get_mut, get_key_value(_mut), contains_*, len, is_empty, iter, iter_mut,
   index) made in any reachable state answers as the reference does on the real entries *)
Theorem C16_placeholder_calls : forall kd h o,
  kd = KTable \/ kd = KInline \/ kd = KInlineTL -> is_read o = true ->
  snd (tstep kd (fst (run (tstep kd) [] h)) o) = snd (ref_step kd (abs (fst (run (tstep kd) [] h))) o).
Proof. exact reads_blind. Qed.
Print Assumptions C16_placeholder_calls.

(* ---- the class is not empty: concrete histories on which the containers are not plain maps ---- *)
Theorem C16_table_refuted : exists h,
  touches_placeholder KTable h = true /\ snd (run (tstep KTable) [] h) <> snd (run (ref_step KTable) [] h).
Proof. exact (ex_intro _ w_table_insert w_table_insert_differs). Qed.
Print Assumptions C16_table_refuted.

Theorem C16_table_refuted_or_insert : exists h,
  touches_placeholder KTable h = true /\ snd (run (tstep KTable) [] h) <> snd (run (ref_step KTable) [] h).
Proof. exact (ex_intro _ w_table_or_insert w_table_or_insert_differs). Qed.
Print Assumptions C16_table_refuted_or_insert.

Theorem C16_table_refuted_order : exists h,
  touches_placeholder KTable h = true /\ snd (run (tstep KTable) [] h) <> snd (run (ref_step KTable) [] h).
Proof. exact (ex_intro _ w_table_order w_table_order_differs). Qed.
Print Assumptions C16_table_refuted_order.

Theorem C16_inline_refuted : exists h,
  touches_placeholder KInline h = true /\ snd (run (tstep KInline) [] h) <> snd (run (ref_step KInline) [] h).
Proof. exact (ex_intro _ w_inline_entry w_inline_entry_differs). Qed.
Print Assumptions C16_inline_refuted.

Theorem C16_inline_refuted_panic : exists h,
  touches_placeholder KInline h = true /\ snd (run (tstep KInline) [] h) <> snd (run (ref_step KInline) [] h).
Proof. exact (ex_intro _ w_inline_goi w_inline_goi_differs). Qed.
Print Assumptions C16_inline_refuted_panic.

Theorem C16_inline_tablelike_refuted : exists h,
  touches_placeholder KInlineTL h = true /\ snd (run (tstep KInlineTL) [] h) <> snd (run (ref_step KInlineTL) [] h).
Proof. exact (ex_intro _ w_tl_entry w_tl_entry_differs). Qed.
Print Assumptions C16_inline_tablelike_refuted.

(* ---- non-vacuity: the hypotheses are satisfiable by histories that DO create placeholders ---- *)
Example C16_table_covers_placeholders :
  let h := [MIns ka (PInt 1); MIdxM kb; MIns ["c"%byte] PTab; MRm ka; MIdxM kb; MSort; MLen; MIter; MGet kb;
            MRet (PKeyNe ka); MSortBy CValAsc] in
  touches_placeholder KTable h = false /\ anyph (fst (run (tstep KTable) [] h)) = true.
Proof. vm_compute. split; reflexivity. Qed.

Example C16_inline_tablelike_covers_placeholders :
  let h := [MIdxM ka; MIns kb (PInt 1); MIter; MGet ka; MGetM ka; MLen; MEmp; MCk ka; MIdxM ka; MSort] in
  touches_placeholder KInlineTL h = false /\ anyph (fst (run (tstep KInlineTL) [] h)) = true.
Proof. vm_compute. split; reflexivity. Qed.

Example C16_inline_covers_placeholders :
  let h := [MIdxM ka; MIns kb (PInt 1); MIter; MGet ka; MRm ka; MIdxM ka; MRet PAll; MIns ka (PInt 2)] in
  touches_placeholder KInline h = false.
Proof. vm_compute. reflexivity. Qed.

(* the repaired F11 witness: auto-vivify a placeholder in an inline table, then look through TableLike *)
Example C16_F11_witness_now_agrees :
  let h := [MIdxM ka; MLen; MEmp; MIter; MGet ka; MCk ka] in
  snd (run (tstep KInlineTL) [] h) = snd (run (ref_step KInlineTL) [] h)
  /\ snd (run (tstep KInlineTL) [] h) = [OItem INone; ONat 0; OBool true; OList []; OOpt None; OBool false].
Proof. vm_compute. split; reflexivity. Qed.

Example C16_sorted_map_is_sorted :
  snd (run (pstep KMapSorted) [] [MIns ["c"%byte] (PInt 1); MIns ka (PInt 2); MIns kb (PInt 3); MKeys])
  = [OOpt None; OOpt None; OOpt None; OKeys [ka; kb; ["c"%byte]]].
Proof. vm_compute. reflexivity. Qed.
