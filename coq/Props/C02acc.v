(* Props/C02acc.v — property C02, the READ API: what a caller sees when looking at the decoded tree through
   Item / Value type_name, is_x, as_x, as_table_like, Item::get (by key, by index), Array::get, InlineTable::get and
   doc["k"] (Model/Accessors.v, transcribed from toml_edit's value.rs, item.rs, index.rs) is the decoded tree itself:
   C02_tree says the tree is what the document denotes, these say the accessors read that tree faithfully.
   Statements only; proofs in Proofs/AccessorsSpec.v, Proofs/AccessorsParsed.v.  The same functions print the `acc`
   observation the correspondence run compares with the crates (Extract/Commands.v cmd_acc, harness tree.rs cmd_acc). *)
From TV Require Import Base.Prelude Model.Datetime Model.Numbers Model.Tree Model.Parse Model.Document Model.Encode Extract.Show Model.Accessors.
From TV Require Import Proofs.AccessorsSpec Proofs.AccessorsParsed.
Require Import String.

(* every value is of exactly one of the seven kinds, every item of exactly one of the four *)
Theorem C02acc_value_kind_exclusive : forall v,
  count_true [value_is_str v; value_is_integer v; value_is_float v; value_is_bool v; value_is_datetime v;
              value_is_array v; value_is_inline_table v] = 1.
Proof. exact value_kind_exclusive. Qed.
Print Assumptions C02acc_value_kind_exclusive.

Theorem C02acc_item_kind_exclusive : forall it,
  count_true [item_is_none it; item_is_value it; item_is_table it; item_is_aot it] = 1.
Proof. exact item_kind_exclusive. Qed.
Print Assumptions C02acc_item_kind_exclusive.

Theorem C02acc_item_value_flags : forall it,
  count_true [item_is_str it; item_is_integer it; item_is_float it; item_is_bool it; item_is_datetime it;
              item_is_array it; item_is_inline_table it] = (if item_is_value it then 1 else 0).
Proof. exact item_value_flags. Qed.
Print Assumptions C02acc_item_value_flags.

(* reading a value through the five scalar downcasts alone recovers exactly the stored scalar (and nothing for a
   container): no downcast answers on a foreign kind, none converts *)
Theorem C02acc_read_scalar : forall v, read_scalar v = value_scalar v.
Proof. exact read_scalar_spec. Qed.
Print Assumptions C02acc_read_scalar.

Theorem C02acc_as_integer : forall v z, value_as_integer v = Some z <-> value_scalar v = Some (SInt z).
Proof. exact value_as_integer_spec. Qed.
Print Assumptions C02acc_as_integer.
Theorem C02acc_as_str : forall v s, value_as_str v = Some s <-> value_scalar v = Some (SString s).
Proof. exact value_as_str_spec. Qed.
Print Assumptions C02acc_as_str.
Theorem C02acc_as_float : forall v f, value_as_float v = Some f <-> value_scalar v = Some (SFloat f).
Proof. exact value_as_float_spec. Qed.
Print Assumptions C02acc_as_float.
Theorem C02acc_as_bool : forall v b, value_as_bool v = Some b <-> value_scalar v = Some (SBool b).
Proof. exact value_as_bool_spec. Qed.
Print Assumptions C02acc_as_bool.
Theorem C02acc_as_datetime : forall v d, value_as_datetime v = Some d <-> value_scalar v = Some (SDatetime d).
Proof. exact value_as_datetime_spec. Qed.
Print Assumptions C02acc_as_datetime.
Theorem C02acc_as_array : forall v vals,
  value_as_array v = Some vals <-> exists tr tc dc sp, v = VArray vals tr tc dc sp.
Proof. exact value_as_array_spec. Qed.
Print Assumptions C02acc_as_array.
Theorem C02acc_as_inline_table : forall v items,
  value_as_inline_table v = Some items <-> exists pr im dt dc sp, v = VInline items pr im dt dc sp.
Proof. exact value_as_inline_table_spec. Qed.
Print Assumptions C02acc_as_inline_table.

(* Item's duplicate downcasting API is the value's own on a value and answers None on everything else;
   table-like = table or inline table *)
Theorem C02acc_item_downcasts_value : forall v,
  item_as_str (IValue v) = value_as_str v /\ item_as_integer (IValue v) = value_as_integer v
  /\ item_as_float (IValue v) = value_as_float v /\ item_as_bool (IValue v) = value_as_bool v
  /\ item_as_datetime (IValue v) = value_as_datetime v /\ item_as_array (IValue v) = value_as_array v
  /\ item_as_inline_table (IValue v) = value_as_inline_table v /\ item_type_name (IValue v) = value_type_name v.
Proof. exact item_downcasts_value. Qed.
Print Assumptions C02acc_item_downcasts_value.
Theorem C02acc_item_downcasts_other : forall it,
  item_is_value it = false ->
  item_as_str it = None /\ item_as_integer it = None /\ item_as_float it = None /\ item_as_bool it = None
  /\ item_as_datetime it = None /\ item_as_array it = None /\ item_as_inline_table it = None.
Proof. exact item_downcasts_other. Qed.
Print Assumptions C02acc_item_downcasts_other.
Theorem C02acc_table_like : forall it, item_is_table_like it = orb (item_is_table it) (item_is_inline_table it).
Proof. exact item_table_like_spec. Qed.
Print Assumptions C02acc_table_like.

(* type_name and the is_x flags say the same thing *)
Theorem C02acc_value_type_name : forall v,
  (value_type_name v = str "string" <-> value_is_str v = true)
  /\ (value_type_name v = str "integer" <-> value_is_integer v = true)
  /\ (value_type_name v = str "float" <-> value_is_float v = true)
  /\ (value_type_name v = str "boolean" <-> value_is_bool v = true)
  /\ (value_type_name v = str "datetime" <-> value_is_datetime v = true)
  /\ (value_type_name v = str "array" <-> value_is_array v = true)
  /\ (value_type_name v = str "inline table" <-> value_is_inline_table v = true).
Proof. exact value_type_name_flags. Qed.
Print Assumptions C02acc_value_type_name.
Theorem C02acc_item_type_name : forall it,
  (item_type_name it = str "none" <-> item_is_none it = true)
  /\ (item_type_name it = str "table" <-> item_is_table it = true)
  /\ (item_type_name it = str "array of tables" <-> item_is_aot it = true).
Proof. exact item_type_name_flags. Qed.
Print Assumptions C02acc_item_type_name.

(* lookups hand out what iteration hands out: in a table with distinct keys every entry that is not a placeholder is found
   under its key (Table::get, Item::get(key)); a placeholder is never handed out; an inline table likewise;
   arrays and arrays of tables hand out the i-th stored element and None one past the end *)
Theorem C02acc_get_iter : forall t k it,
  NoDup (keys_of (t_items t)) -> In (k, it) (t_items t) -> item_is_none it = false ->
  index_str (k_key k) (ITable t) = Some it.
Proof. exact index_str_table. Qed.
Print Assumptions C02acc_get_iter.
Theorem C02acc_get_never_placeholder : forall k it x, index_str k it = Some x -> item_is_none x = false.
Proof. exact index_str_not_none. Qed.
Print Assumptions C02acc_get_never_placeholder.
Theorem C02acc_inline_get_iter : forall items k v,
  NoDup (keys_of items) -> In (k, IValue v) items -> inline_get items (k_key k) = Some v.
Proof. exact inline_get_iter. Qed.
Print Assumptions C02acc_inline_get_iter.
Theorem C02acc_array_get : forall vals i v, nth_error vals i = Some (IValue v) -> array_get vals i = Some v.
Proof. exact array_get_nth. Qed.
Print Assumptions C02acc_array_get.
Theorem C02acc_array_get_end : forall vals, array_get vals (array_len vals) = None.
Proof. exact array_get_end. Qed.
Print Assumptions C02acc_array_get_end.
Theorem C02acc_index_aot : forall ts sp i, index_usize i (IAot ts sp) = option_map ITable (nth_error ts i).
Proof. exact index_usize_aot. Qed.
Print Assumptions C02acc_index_aot.
Theorem C02acc_index_aot_end : forall ts sp, index_usize (List.length ts) (IAot ts sp) = None.
Proof. exact index_usize_aot_end. Qed.
Print Assumptions C02acc_index_aot_end.
Theorem C02acc_index_other : forall it i, item_is_aot it = false -> item_is_array it = false -> index_usize i it = None.
Proof. exact index_usize_other. Qed.
Print Assumptions C02acc_index_other.

(* len / is_empty of the table-like view: defined exactly on tables and inline tables, and on a table without placeholders
   (every parsed table: WF) it counts every entry *)
Theorem C02acc_tablelike_len_defined : forall it, is_some (tablelike_len it) = item_is_table_like it.
Proof. exact tablelike_len_iff. Qed.
Print Assumptions C02acc_tablelike_len_defined.
Theorem C02acc_table_len_counts_all : forall items,
  Forall (fun kv => item_is_none (snd kv) = false) items -> table_len items = List.length items.
Proof. exact table_len_no_placeholder. Qed.
Print Assumptions C02acc_table_len_counts_all.

(* ... and on every ACCEPTED document made editable: each entry the root's iteration shows is what doc["k"] and
   Item::get(k) hand out under its key, and it is not a placeholder (keys distinct, no Item::None: the WF backbone) *)
Theorem C02acc_parsed_root_lookup : forall s d r t k it,
  parse_document s = POk d -> tbl_despan s (doc_root d) = Some r -> raw_despan s (doc_trailing d) = Some t ->
  In (k, it) (t_items r) ->
  doc_index (ITable r) (k_key k) = Some it /\ index_str (k_key k) (ITable r) = Some it /\ item_is_none it = false.
Proof. exact parsed_root_lookup. Qed.
Print Assumptions C02acc_parsed_root_lookup.

(* non-vacuity: a concrete document, its root entries looked up *)
Example C02acc_example :
  match parse_document (str ("a = 1" ++ String (Ascii.ascii_of_nat 10) "b = [2, 'x']" ++ String (Ascii.ascii_of_nat 10) "")) with
  | POk d => match index_str (str "b") (ITable (doc_root d)) with
             | Some it => item_is_array it = true /\ option_map item_type_name (index_usize 1 it) = Some (str "string")
                          /\ index_usize 2 it = None /\ item_as_integer it = None
             | None => False
             end
  | _ => False
  end.
Proof. vm_compute. repeat split. Qed.
