(* Props/C02doc.v — property C02, the whole-document theorems: decoded data is exactly what the
   document says.

     abs_doc d          the data of the parsed document: keys, nesting, order, table kinds
                        (header / super / dotted, Spec/Defs.v), every scalar (Proofs/GrammarBase.v:
                        decor, reprs, spans, key spellings are forgotten);
     verdict stmts = Valid T   T is the tree the statements denote: Spec/Defs.v's fold, every value
                        replaced by its datum (`den`: an inline table denotes the table its
                        key/value pairs define; floats are the exact decimal written).

   Statements only; proofs in Proofs/Grammar*.v. *)
From TV Require Import Base.Prelude Base.Utf8 Base.Winnow Gen.Consts Spec.Abnf Spec.Lex Spec.Defs Spec.Syntax.
From TV Require Import Model.Tree Model.Parse Model.Document.
From TV Require Import Proofs.LexEquivBase Proofs.GrammarBase Proofs.GrammarValueBase Proofs.GrammarValueSound Proofs.GrammarTop.

(* The tree of an accepted document is the tree its statements denote — for EVERY derivation of
   the text whose statements are valid: keys, nesting, order, table kinds, every scalar (strings
   after escape processing, integers, the exact decimal of floats, date-time fields), arrays
   element by element, inline tables as the tables their pairs define. *)
Theorem C02_tree : forall s d stmts T,
  parse_document s = POk d -> toml_text s stmts -> verdict stmts = Valid T -> abs_doc d = T.
Proof. exact c02_tree. Qed.
Print Assumptions C02_tree.

(* in particular all valid derivations of an accepted text denote the same tree *)
Theorem C02_derivations_agree : forall s d l1 l2 T1 T2,
  parse_document s = POk d -> toml_text s l1 -> toml_text s l2 -> verdict l1 = Valid T1 -> verdict l2 = Valid T2 -> T1 = T2.
Proof. exact c02_derivations_agree. Qed.
Print Assumptions C02_derivations_agree.

(* For every accepted document there is a derivation of its text, within the limits, whose
   statements denote exactly the tree that was built: under the specification whenever that
   decides, and under the pinned code's resolution of class U1 (code_run, Props/C09.v) always. *)
Theorem C02_tree_witness : forall s d, parse_document s = POk d ->
  exists stmts, toml_text s stmts /\ within_limits stmts = true /\ verdict stmts <> Invalid
                /\ (forall T, verdict stmts = Valid T -> abs_doc d = T)
                /\ code_run (map stmt_den stmts) = Valid (abs_doc d).
Proof. exact c02_tree_witness. Qed.
Print Assumptions C02_tree_witness.

(* ---- values ------------------------------------------------------------------------------------- *)
(* whatever `value` accepts is a `val` of the grammar, and the tree value carries exactly the data
   it denotes (vrel: absv v = den a, a well-defined and within the limits) *)
Theorem C02_value_sound : forall i v i', value_ i = Ok v i' ->
  exists t a, val_tok t a /\ splits i t i' /\ vrel (depth i) v a.
Proof. exact value_sound. Qed.
Print Assumptions C02_value_sound.

(* ---- examples ----------------------------------------------------------------------------------- *)
(* a = [1, [2, {b.c = "x"}], ] *)
Example C02_ex_nested :
  exists d, parse_document [x61; x20; x3d; x20; x5b; x31; x2c; x20; x5b; x32; x2c; x20; x7b; x62; x2e; x63; x20; x3d;
                            x20; x22; x78; x22; x7d; x5d; x2c; x20; x5d] = POk d
    /\ abs_doc d = [([x61], NVal (DArr [DInt 1; DArr [DInt 2; DTab [([x62], DTab [([x63], DStr [x78])])]]]))]
    /\ verdict [SKeyVal [[x61]] (AArr [AInt 1; AArr [AInt 2; AInl [([[x62]; [x63]], AStr [x78])]]])]
       = Valid (abs_doc d).
Proof. eexists. split; [vm_compute; reflexivity|]. split; vm_compute; reflexivity. Qed.

(* [x] / y.z = 1e3 # c / [[t]] : header, dotted key, exact decimal float, array of tables *)
Example C02_ex_tables :
  exists d, parse_document [x5b; x78; x5d; x0a; x79; x2e; x7a; x20; x3d; x20; x31; x65; x33; x20; x23; x20; x63; x0a;
                            x5b; x5b; x74; x5d; x5d; x0a] = POk d
    /\ abs_doc d = [([x78], NTab KHeader [([x79], NTab KDotted [([x7a], NVal (DFloat (FDec false 1 3)))])]);
                    ([x74], NAot [[]])].
Proof. eexists. split; vm_compute; reflexivity. Qed.

(* class U1 ([a.b.c] / [a] / b.x = 1): outside the claims of C01_complete / C02_tree (verdict
   is Undecided); the pinned code rejects it, recorded so that a change is visible *)
Example C02_ex_u1 :
  verdict [SHeader [[x61]; [x62]; [x63]]; SHeader [[x61]]; SKeyVal [[x62]; [x78]] (AInt 1)] = Undecided
  /\ exists e at_, parse_document [x5b; x61; x2e; x62; x2e; x63; x5d; x0a; x5b; x61; x5d; x0a; x62; x2e; x78; x20; x3d; x20; x31]
                   = PErr e at_.
Proof. split; [vm_compute; reflexivity|]. eexists _, _. vm_compute. reflexivity. Qed.
