(* Props/C01doc.v — property C01, the whole-document theorems: the parser accepts exactly the
   valid TOML 1.0.0 documents.

     toml_text s stmts   the text s (after an optional UTF-8 byte-order mark) has a derivation
                         toml = expression *( newline expression ) of toml.abnf v1.0.0 making
                         the statements stmts (Spec/Syntax.v over the tokens of Spec/Lex.v);
     verdict stmts       the definition rules of Spec/Defs.v applied to them (and to every inline
                         table in their values): Valid tree | Invalid | Undecided (class U1,
                         DESIGN.md 3.3);
     within_limits stmts the implementation limits of DESIGN.md 3.4 (i64, binary64 overflow,
                         nesting and key-path lengths below LIMIT).

   Statements only; proofs in Proofs/Grammar*.v (L2: the recursive grammar against value.rs /
   array.rs / inline_table.rs / key.rs / document.rs / table.rs with winnow's ordered choice,
   cut_err and separated semantics) on top of Proofs/LexEquiv*.v (L1, Props/C01tokens.v) and
   Proofs/DefsEquiv*.v (L3, Props/C09.v). *)
From TV Require Import Base.Prelude Base.Utf8 Base.Winnow Gen.Consts Spec.Abnf Spec.Lex Spec.Defs Spec.Syntax.
From TV Require Import Model.Tree Model.Parse Model.Document.
From TV Require Import Proofs.LexEquivBase Proofs.GrammarSep Proofs.GrammarBase Proofs.GrammarValueBase Proofs.GrammarValueComplete
  Proofs.GrammarValueReject Proofs.GrammarTop.

(* Everything the parser accepts is a TOML text whose statements the specification does not
   forbid, within the limits. *)
Theorem C01_sound : forall s d, parse_document s = POk d ->
  exists stmts, toml_text s stmts /\ verdict stmts <> Invalid /\ within_limits stmts = true.
Proof. exact c01_sound. Qed.
Print Assumptions C01_sound.

(* Every TOML text whose statements are valid (and not in class U1) is accepted, provided it is
   within the limits. *)
Theorem C01_complete : forall s stmts T, toml_text s stmts -> verdict stmts = Valid T -> within_limits stmts = true ->
  exists d, parse_document s = POk d.
Proof. exact c01_complete. Qed.
Print Assumptions C01_complete.

(* A valid, non-U1 text is refused only because of the implementation limits. *)
Theorem C01_only_limits_refused : forall s stmts T, toml_text s stmts -> verdict stmts = Valid T ->
  (forall d, parse_document s <> POk d) -> within_limits stmts = false.
Proof. exact c01_only_limits_refused. Qed.
Print Assumptions C01_only_limits_refused.

(* Conversely: a text with a derivation that the specification forbids (a key or table defined
   twice, a value extended, an ill-defined inline table, ...), or that is outside the limits, is
   refused — whatever other reading of the text one might try: the parser's ordered choices,
   `cut_err` commitments and `separated` loops never recover from such a statement. *)
Theorem C01_invalid_rejected : forall s stmts, toml_text s stmts ->
  verdict stmts = Invalid \/ within_limits stmts = false -> forall d, parse_document s <> POk d.
Proof. exact c01_invalid_rejected. Qed.
Print Assumptions C01_invalid_rejected.

(* "accepts exactly": on any derivation of the text outside class U1, acceptance is validity
   within the limits.  (A text without any derivation is refused by C01_sound.) *)
Theorem C01_exact : forall s stmts, toml_text s stmts -> verdict stmts <> Undecided ->
  ((exists d, parse_document s = POk d) <-> ((exists T, verdict stmts = Valid T) /\ within_limits stmts = true)).
Proof. exact c01_exact. Qed.
Print Assumptions C01_exact.

(* ---- values (value.rs `value`, the entry point of arrays, inline tables, key/value lines and
   Value::from_str) --------------------------------------------------------------------------------
     val_tok t a     t is a `val` of the grammar denoting the abstract value a;
     vfollow r       r can follow a value: optional whitespace, then the end of the text, a comment,
                     a newline, "," "]" or "}";
     aval_ok a       every inline table in a obeys the definition rules;
     within d a      the limits, d arrays / inline tables being open around the value;
     vrel d v a      the tree value v carries exactly the data a denotes (absv v = den a), a is
                     well-defined and within the limits, v holds values only. *)
Theorem C01_value_complete : forall t a i r,
  val_tok t a -> rest i = t ++ r -> vfollow r -> aval_ok a = true -> within (depth i) a = true ->
  exists v, value_ i = Ok v (adv t i) /\ vrel (depth i) v a.
Proof. exact value_complete. Qed.
Print Assumptions C01_value_complete.

(* an ill-defined value, or one outside the limits, is refused with commitment *)
Theorem C01_value_rejected : forall t a i r,
  val_tok t a -> rest i = t ++ r -> vfollow r -> aval_ok a && within (depth i) a = false ->
  exists e j, value_ i = Cut e j.
Proof. exact value_reject. Qed.
Print Assumptions C01_value_rejected.

(* ---- non-vacuity ------------------------------------------------------------------------------ *)
(* a=1 : a derivation, valid, within the limits *)
Example C01_ex_derivation :
  let s := [x61; x3d; x31] in
  let stmts := [SKeyVal [[x61]] (AInt 1)] in
  toml_text s stmts /\ verdict stmts = Valid [([x61], NVal (DInt 1))] /\ within_limits stmts = true
  /\ exists d, parse_document s = POk d.
Proof.
  cbv zeta. split; [|split; [vm_compute; reflexivity|split; [vm_compute; reflexivity|eexists; vm_compute; reflexivity]]].
  unfold toml_text. change (strip_bom [x61; x3d; x31]) with ([] ++ [x61; x3d; x31] ++ [] ++ @nil byte).
  apply toml_one, ex_keyval; [reflexivity| |reflexivity|left; reflexivity].
  exists [x61], [], [], [x31]. split; [reflexivity|]. split; [|split; [reflexivity|split; [reflexivity|]]].
  - apply key_one. right. right. split; [split; [discriminate|reflexivity]|reflexivity].
  - apply v_integer. left. exists [], false, [x31], [x31]. split; [reflexivity|]. split; [left; auto|].
    split; [|reflexivity]. left. exists x31. auto.
Qed.

(* a = [1, [2, {b.c = "x"}], ]   (trailing comma, nested array, inline table with a dotted key) is accepted *)
Example C01_ex_accepted :
  exists d, parse_document [x61; x20; x3d; x20; x5b; x31; x2c; x20; x5b; x32; x2c; x20; x7b; x62; x2e; x63; x20; x3d;
                            x20; x22; x78; x22; x7d; x5d; x2c; x20; x5d] = POk d.
Proof. eexists. vm_compute. reflexivity. Qed.

(* a = [1, 2, ] followed by a newline: `separated` gives the comma back to opt(',') *)
Example C01_ex_trailing_comma :
  exists d, parse_document [x61; x20; x3d; x20; x5b; x31; x2c; x20; x32; x2c; x20; x5d; x0a] = POk d.
Proof. eexists. vm_compute. reflexivity. Qed.

(* a = [1,,2] is refused (a committed failure at the second comma) *)
Example C01_ex_rejected :
  exists e at_, parse_document [x61; x20; x3d; x20; x5b; x31; x2c; x2c; x32; x5d] = PErr e at_.
Proof. eexists _, _. vm_compute. reflexivity. Qed.
