(* Props/C06.v — Anything built through the API encodes to valid TOML that decodes back.
   Only statements, each closed by `exact`; proofs are in Proofs/BuiltRT*.v.

   Model/Build.v holds the construction API (functions on Model/Tree.v trees, one per Rust
   constructor), the terms `cval` / `citem` that compose them with `eval_*`, the set `Built*` of
   trees they reach (parametrised by the admissible leaves and keys), the abstract tree `abs_*`,
   and `float_text` / `render_*`: std's float printing is an oracle (DESIGN.md 4.4), a float without
   a stored repr is kept as the exact decimal its text denotes and `render_*` hands that text to
   the printer of Model/Encode.v as the float's repr.

   Not in `Built` (and why): an `Item::Table` below an inline table (InlineTable::insert and
   Array::push take a Value; only IndexMut on an inline-table parent can put one there, and the
   printer drops it: DESIGN.md F13), `Item::None`, the formatting switches (set_implicit,
   set_dotted, set_position, decor setters, *_formatted inserts). *)
From TV Require Import Base.Prelude Base.Utf8 Base.Winnow Gen.Consts.
From TV Require Import Model.Datetime Spec.DatetimeSpec Model.Numbers Model.Tree Model.Parse Model.Document Model.Write Model.Encode Model.Build.
From TV Require Import Proofs.BuiltRTBase Proofs.BuiltRTEncode Proofs.BuiltRTValue Proofs.BuiltRTLeaf Proofs.BuiltRTTop.

(* ---- values --------------------------------------------------------------------------------------
   every value assembled from admissible leaves (`scalar_ok`: UTF-8 strings, i64 integers, floats
   nan / inf / decimals below the overflow threshold, in-range date-times), UTF-8 keys, arrays and
   inline tables nested to any depth below the parser's recursion limit, prints (Display for Value /
   Array / InlineTable) as text that Value::from_str reads back as a value with the same abstract
   tree: same types, same scalars, same keys, same element and key order.
   `top_plain`: the value's own decor prefix prints as nothing (true of every value fresh from a
   constructor; a value taken out of an array keeps the blank Array::push gave it, prints as ` 1`,
   and Value::from_str does not accept a leading blank). *)
Theorem C06_value : forall v,
  BuiltValue scalar_ok key_ok v -> value_depth v < LIMIT -> top_plain v ->
  exists v', parse_value_raw (display_value (render_value float_text v)) = POk v' /\ abs_value v' = abs_value v.
Proof. exact built_value_roundtrip. Qed.
Print Assumptions C06_value.

(* Key::new(k).to_string() is read back by Key::from_str as the key k, for every string k *)
Theorem C06_key : forall k, utf8_valid_b k = true ->
  exists r, parse_key (key_display_repr (key_new k)) = POk (r, k).
Proof. exact key_roundtrip. Qed.
Print Assumptions C06_key.

(* the printer's text for a constructed value is the structural text `txt` between the value's decor:
   no fuel, no dependence on anything but the tree (C06_pure: printing is a function in Gallina by
   construction; on the implementation it is checked by printing twice and printing a clone) *)
Theorem C06_text : forall PS PK v dflt fuel,
  BuiltValue PS PK v -> value_size v < fuel ->
  encode_value fuel (render_value float_text v) dflt = etxt float_text v dflt.
Proof. exact (fun PS PK v dflt fuel H Hf => encode_value_txt float_text PS PK v H fuel dflt Hf). Qed.
Print Assumptions C06_text.
