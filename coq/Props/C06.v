(* Props/C06.v — Anything built through the API encodes to valid TOML that decodes back.
   Only statements, each closed by `exact`; proofs are in Proofs/BuiltRT*.v.
   The construction API, the set `Built*` of trees it reaches and the abstract tree `abs_*`
   are in Model/Build.v. *)
From TV Require Import Base.Prelude Base.Utf8 Base.Winnow Gen.Consts.
From TV Require Import Model.Datetime Model.Numbers Model.Tree Model.Parse Model.Document Model.Write Model.Encode Model.Build.
From TV Require Import Proofs.BuiltRTBase.

(* Key::new(k).to_string() is read back by Key::from_str as the key k, for every string k *)
Theorem C06_key : forall k, utf8_valid_b k = true ->
  exists r, parse_key (key_display_repr (key_new k)) = POk (r, k).
Proof. exact key_roundtrip. Qed.
Print Assumptions C06_key.
