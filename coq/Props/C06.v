(* Props/C06.v — Anything built through the API encodes to valid TOML that decodes back.
   Only statements, each closed by `exact`; proofs are in Proofs/BuiltRT*.v.

   Model/Build.v holds the construction API (functions on Model/Tree.v trees, one per Rust
   constructor), the terms `cval` / `citem` that compose them with `eval_*`, the set `Built*` of
   trees they reach (parametrised by the admissible leaves and keys), the abstract tree `abs_*`,
   and `float_text` / `render_*`: std's float printing is an oracle (DESIGN.md 4.4), a float without
   a stored repr is kept as the exact decimal its text denotes and `render_*` hands that text to
   the printer of Model/Encode.v as the float's repr.

   Not in `Built` (and why): an `Item::Table` below an inline table (InlineTable::insert and
   Array::push take a Value; only IndexMut on an inline-table parent can put one there, and the
   printer drops it: DESIGN.md F13), `Item::None`, the formatting switches (set_dotted, set_position,
   decor setters, *_formatted inserts).  Table::set_implicit(true) IS covered (BI_table / BI_aot carry the
   flag; a table marked implicit must still print something below itself, or it vanishes from the text):
   that is what toml's DocumentFormatter produces, see Props/C06toml.v.  One use of the array and decor setters IS
   covered too (BV_array_ml): the multi-line layout the two `pretty` serializers give an array — set_prefix("\n    ") on
   every element, set_trailing("\n"), set_trailing_comma(true) — see Props/C07text.v. *)
From TV Require Import Base.Prelude Base.Utf8 Base.Winnow Gen.Consts.
From TV Require Import Model.Datetime Spec.DatetimeSpec Model.Numbers Model.Tree Model.Parse Model.Document Model.Write Model.Encode Model.Build.
From TV Require Import Proofs.BuiltRTBase Proofs.BuiltRTEncode Proofs.BuiltRTValue Proofs.BuiltRTLeaf Proofs.BuiltRTTop.

(* ---- values --------------------------------------------------------------------------------------
   every value assembled from admissible leaves (`scalar_ok`: UTF-8 strings, i64 integers, floats
   nan / inf / decimals below the overflow threshold, in-range date-times), UTF-8 keys, arrays and
   inline tables nested to any depth below the parser's recursion limit, prints (Display for Value /
   Array / InlineTable) as text that Value::from_str reads back as a value with the same abstract
   tree: same types, same scalars, same keys, same element and key order.
   `top_plain`: the value's own decor prefix prints as nothing (true of every value fresh from a
   constructor; a value taken out of an array keeps the blank Array::push gave it, prints as ` 1`,
   and Value::from_str does not accept a leading blank). *)
Theorem C06_value : forall v,
  BuiltValue scalar_ok key_ok v -> value_depth v < LIMIT -> top_plain v ->
  exists v', parse_value_raw (display_value (render_value float_text v)) = POk v' /\ abs_value v' = abs_value v.
Proof. exact built_value_roundtrip. Qed.
Print Assumptions C06_value.

(* Key::new(k).to_string() is read back by Key::from_str as the key k, for every string k *)
Theorem C06_key : forall k, utf8_valid_b k = true ->
  exists r, parse_key (key_display_repr (key_new k)) = POk (r, k).
Proof. exact key_roundtrip. Qed.
Print Assumptions C06_key.

(* the printer's text for a constructed value is the structural text `txt` between the value's decor:
   no fuel, no dependence on anything but the tree (C06_pure: printing is a function in Gallina by
   construction; on the implementation it is checked by printing twice and printing a clone) *)
Theorem C06_text : forall PS PK v dflt fuel,
  BuiltValue PS PK v -> value_size v < fuel ->
  encode_value fuel (render_value float_text v) dflt = etxt float_text v dflt.
Proof. exact (fun PS PK v dflt fuel H Hf => encode_value_txt float_text PS PK v H fuel dflt Hf). Qed.
Print Assumptions C06_text.

(* ---- the constructors stay inside Built ----------------------------------------------------------
   `cval` (Model/Build.v) composes Value::from, Array::new + push, collect into an Array,
   InlineTable::new + insert (a repeated key replaces the value in place), collect into an inline
   table; whatever such a term evaluates to is a BuiltValue with default decor *)
From TV Require Import Proofs.BuiltRTWF.
Theorem C06_built_value : forall PS PK c, cval_ok PS PK c ->
  BuiltValue PS PK (eval_value c) /\ value_decor (eval_value c) = decor_default.
Proof. exact eval_value_built. Qed.
Print Assumptions C06_built_value.

Theorem C06_value_constructed : forall c,
  cval_ok scalar_ok key_ok c -> value_depth (eval_value c) < LIMIT ->
  exists v', parse_value_raw (display_value (render_value float_text (eval_value c))) = POk v'
             /\ abs_value v' = abs_value (eval_value c).
Proof. exact constructed_value_roundtrip. Qed.
Print Assumptions C06_value_constructed.

(* ---- documents -------------------------------------------------------------------------------------
   a constructed document (Table::new() / DocumentMut::new() root; entries inserted by Table::insert:
   values, tables, arrays of tables, nested to any depth) prints (Display for DocumentMut) as text that
   DocumentMut::from_str accepts and decodes to the same abstract tree — same keys, nesting, types,
   scalars, element order — up to what a TOML document can say at all (`printed_entries`, Model/Build.v):
   in every table the values come before the sub-tables (the values keep their order, the sub-tables
   keep theirs), and an ArrayOfTables without elements has no text (the key disappears).
   Bounds: the parser's recursion limit applies to header paths (`tbl_hdepth`) and values (`tbl_vdepth`). *)
From TV Require Import Proofs.BuiltRTDoc.
Theorem C06_document : forall t,
  BuiltTbl scalar_ok key_ok t -> tbl_hdepth t < LIMIT -> tbl_vdepth t < LIMIT ->
  exists d, parse_document (display_document (render_tbl float_text t) REmpty) = POk d
            /\ abs_tbl (doc_root d) = printed_entries (abs_tbl t).
Proof. exact document_roundtrip. Qed.
Print Assumptions C06_document.

(* the table / array-of-tables / document constructors stay inside Built *)
Theorem C06_built_document : forall PS PK from_table l,
  centries_ok PS PK l -> BuiltTbl PS PK (eval_doc from_table l).
Proof. exact (fun PS PK ft l H => eval_doc_built PS PK ft l H). Qed.
Print Assumptions C06_built_document.

Theorem C06_document_constructed : forall from_table l,
  centries_ok scalar_ok key_ok l ->
  tbl_hdepth (eval_doc from_table l) < LIMIT -> tbl_vdepth (eval_doc from_table l) < LIMIT ->
  exists d, parse_document (display_document (render_tbl float_text (eval_doc from_table l)) REmpty) = POk d
            /\ abs_tbl (doc_root d) = printed_entries (abs_tbl (eval_doc from_table l)).
Proof. exact constructed_document_roundtrip. Qed.
Print Assumptions C06_document_constructed.

(* an in-order check that `printed_entries` only reorders and only drops empty arrays of tables: on a table
   whose values already precede its sub-tables and that holds no empty array of tables it is the identity *)
Example ex_printed_identity :
  let l := [([x61], AVal (AScalar (SInt 1))); ([x62], AVal (AScalar (SBool true)));
            ([x74], ATbl [([x78], AVal (AScalar (SInt 2))); ([x75], ATbl [])]);
            ([x6f], AAot [[([x79], AVal (AScalar (SInt 3)))]; []])] in
  printed_entries l = l.
Proof. reflexivity. Qed.
Example ex_printed_reorders :
  printed_entries [([x74], ATbl []); ([x61], AVal (AScalar (SInt 1))); ([x6f], AAot [])]
  = [([x61], AVal (AScalar (SInt 1))); ([x74], ATbl [])].
Proof. reflexivity. Qed.

(* ---- the hypotheses are satisfiable; nasty values; the depth bound is sharp ------------------------ *)
Definition ex_nasty : cval :=
  CInlInsert
    [([x61], CArrPush [CScalar (SString [x0a; x22; x27; x5c; x00]);                 (* LF, quotation mark, apostrophe, backslash, NUL *)
                       CScalar (SInt (- 2 ^ 63));
                       CScalar (SFloat (FDec true 0 (-1)));                           (* -0.0 *)
                       CScalar (SFloat (FNan true)); CScalar (SFloat (FInf false));
                       CScalar (SFloat (FDec false 5 (-324)));                         (* 5e-324 *)
                       CScalar (SDatetime (mkDT (Some (mkDate 2000 2 29)) None None));
                       CScalar (SDatetime (mkDT None (Some (mkTime 23 59 60 1)) None));
                       CScalar (SBool true); CArrCollect []; CInlCollect []]);
     ([], CInlCollect [([x31], CScalar (SDatetime (mkDT (Some (mkDate 1979 5 27)) (Some (mkTime 7 32 0 500000000)) (Some (OffCustom (-420))))))]);
     ([x61], CScalar (SString []))].                                                  (* the key `a` again: replaced in place *)

Example ex_nasty_ok : cval_ok scalar_ok key_ok ex_nasty.
Proof. repeat (constructor; cbn; try reflexivity; try (split; reflexivity)). Qed.

Example ex_nasty_text :
  display_value (render_value float_text (eval_value ex_nasty))
  = [x7b; x20; x61; x20; x3d; x20; x22; x22; x2c; x20; x22; x22; x20; x3d; x20; x7b; x20; x31; x20; x3d; x20]
    ++ [x31; x39; x37; x39; x2d; x30; x35; x2d; x32; x37; x54; x30; x37; x3a; x33; x32; x3a; x30; x30; x2e; x35; x2d; x30; x37; x3a; x30; x30]
    ++ [x20; x7d; x20; x7d].                 (* { a = <empty string>, <empty key> = { 1 = 1979-05-27T07:32:00.5-07:00 } } *)
Proof. vm_compute. reflexivity. Qed.

Definition ex_array : cval :=
  CArrPush [CScalar (SString [x0a; x22; x27; x5c; x00]); CScalar (SInt (- 2 ^ 63)); CScalar (SFloat (FDec true 0 (-1)));
            CScalar (SFloat (FNan true)); CScalar (SFloat (FDec false 5 (-324)));
            CScalar (SDatetime (mkDT (Some (mkDate 2000 2 29)) None None));
            CInlInsert [([x64], CScalar (SDatetime (mkDT (Some (mkDate 2000 2 29)) None None)))];   (* a date before ` }` *)
            CArrCollect [CInlCollect []]].
Example ex_array_roundtrip :
  exists v', parse_value_raw (display_value (render_value float_text (eval_value ex_array))) = POk v'
             /\ abs_value v' = abs_value (eval_value ex_array).
Proof. eexists. split; vm_compute; reflexivity. Qed.

(* the multi-line layout of an array (Pretty::visit_array_mut): elements behind a line break and four blanks, a comma
   after each, the closing bracket on its own line; nested, inside an inline table, empty *)
Definition ex_ml (es : list value) : value :=
  VArray (map (fun e => IValue (ml_elem e)) es) (RExplicit [x0a]) true decor_default None.
Definition ex_ml_value : value :=
  ex_ml [value_from (SInt 1);
         ex_ml [value_from (SString [x61]); value_from (SBool true)];
         VInline (mk_inline_items [([x6b], ex_ml []); ([x6c], ex_ml [value_from (SInt 2)])]) REmpty false false decor_default None].
Example ex_ml_built : BuiltValue scalar_ok key_ok ex_ml_value.
Proof.
  assert (D : decor_built decor_default) by (split; left; reflexivity).
  repeat first [apply BV_array_ml | apply BV_inline | apply BV_scalar | apply Forall_cons | apply Forall_nil
               | apply NoDup_cons | apply NoDup_nil | exact D | exact I | reflexivity
               | (intros [H|[]]; discriminate H) | (intros []) ].
Qed.
Example ex_ml_text :
  display_value (render_value float_text ex_ml_value)
  = [x5b; x0a] ++ [x20; x20; x20; x20; x31; x2c; x0a]
    ++ [x20; x20; x20; x20; x5b; x0a; x20; x20; x20; x20; x22; x61; x22; x2c; x0a; x20; x20; x20; x20; x74; x72; x75; x65; x2c; x0a; x5d; x2c; x0a]
    ++ [x20; x20; x20; x20; x7b; x20; x6b; x20; x3d; x20; x5b; x0a; x5d; x2c; x20; x6c; x20; x3d; x20; x5b; x0a; x20; x20; x20; x20; x32; x2c; x0a; x5d; x20; x7d; x2c; x0a]
    ++ [x5d].
Proof. vm_compute. reflexivity. Qed.
Example ex_ml_roundtrip :
  exists v', parse_value_raw (display_value (render_value float_text ex_ml_value)) = POk v'
             /\ abs_value v' = abs_value ex_ml_value.
Proof. eexists. split; vm_compute; reflexivity. Qed.

(* nesting: 79 levels are read back, 80 are printed but refused by the parser's recursion limit *)
Fixpoint nest (n : nat) (c : cval) : cval := match n with O => c | S n' => CArrPush [nest n' c] end.
Example ex_depth_79 :
  exists v', parse_value_raw (display_value (eval_value (nest 79 (CScalar (SInt 1))))) = POk v'
             /\ abs_value v' = abs_value (eval_value (nest 79 (CScalar (SInt 1)))).
Proof. eexists. split; vm_compute; reflexivity. Qed.
Example ex_depth_80_refused :
  value_depth (eval_value (nest 80 (CScalar (SInt 1)))) = LIMIT /\
  exists e at_, parse_value_raw (display_value (eval_value (nest 80 (CScalar (SInt 1))))) = PErr e at_.
Proof. split; [reflexivity|]. eexists. eexists. vm_compute. reflexivity. Qed.

(* a value taken out of an array keeps the blank Array::push gave it and does not parse alone *)
Example ex_not_top_plain :
  let v := value_decorate_str (value_from (SInt 1)) [x20] [] in
  BuiltValue scalar_ok key_ok v /\ display_value v = [x20; x31] /\
  exists e at_, parse_value_raw (display_value v) = PErr e at_.
Proof.
  cbv zeta. split; [constructor; [reflexivity|split; [right; right|right]; reflexivity]|].
  split; [reflexivity|]. eexists. eexists. vm_compute. reflexivity.
Qed.

(* a document with a value after a sub-table, a table holding only sub-tables, arrays of tables inside arrays
   of tables, an empty array of tables, nasty keys, a repeated key *)
Definition ex_doc : list (bytes * citem) :=
  [([x78], CValue (CScalar (SInt 1)));
   ([x74], CTable [([x73; x75; x62], CTable [([x64; x65; x65; x70], CTable [])]); ([x2e], CTable [])]);
   ([], CValue (CScalar (SString [x0a])));                                              (* empty key, after a table *)
   ([x61], CAot [[([x62], CAot [[([x63], CValue (CScalar (SFloat (FDec false 15 (-1)))))]; []]); ([x76], CValue ex_array)]; []]);
   ([x65], CAot []);                                                                    (* dropped by the printer *)
   ([x31; x39; x37; x39; x2d; x30; x35; x2d; x32; x37], CTable [([x78], CValue (CInlInsert [([x20], CScalar (SBool false))]))]);
   ([x78], CValue (CScalar (SInt 2)))].                                                 (* x again: replaced in place *)

Example ex_doc_ok : centries_ok scalar_ok key_ok ex_doc.
Proof. split; repeat (constructor; cbn; try reflexivity; try (split; reflexivity)). Qed.

Example ex_doc_roundtrip :
  exists d, parse_document (display_document (render_tbl float_text (eval_doc false ex_doc)) REmpty) = POk d
            /\ abs_tbl (doc_root d) = printed_entries (abs_tbl (eval_doc false ex_doc))
            /\ map fst (abs_tbl (doc_root d)) = [[x78]; []; [x74]; [x61]; [x31; x39; x37; x39; x2d; x30; x35; x2d; x32; x37]].
Proof. eexists. split; [vm_compute; reflexivity|]. split; vm_compute; reflexivity. Qed.

(* table nesting: header paths of 79 keys are read back, 80 are refused (recursion limit on key paths) *)
Fixpoint nest_tbl (n : nat) (c : citem) : citem := match n with O => c | S n' => CTable [([x74], nest_tbl n' c)] end.
Example ex_tbl_depth_79 :
  exists d, parse_document (display_document (eval_doc false [([x74], nest_tbl 78 (CTable []))]) REmpty) = POk d
            /\ abs_tbl (doc_root d) = abs_tbl (eval_doc false [([x74], nest_tbl 78 (CTable []))]).
Proof. eexists. split; vm_compute; reflexivity. Qed.
Example ex_tbl_depth_80_refused :
  tbl_hdepth (eval_doc false [([x74], nest_tbl 79 (CTable []))]) = LIMIT /\
  exists e at_, parse_document (display_document (eval_doc false [([x74], nest_tbl 79 (CTable []))]) REmpty) = PErr e at_.
Proof. split; [reflexivity|]. eexists. eexists. vm_compute. reflexivity. Qed.
