(* Props/C01front.v — property C01, the clause about the serde front ends: "The serde front ends
   (toml::from_str, toml_edit::de::from_slice) accept exactly the same documents as the parser"; the bytes
   entry point validates UTF-8 first.

   Model/FrontEnds.v: every front end = parse_document, then T::deserialize on the root's value tree
   (T = toml::Table: to_toml_table; T = toml::Value: to_toml_value, Model/SerdeRoutes.v); from_slice_table
   checks utf8_valid_b first (proved equal to Unicode well-formedness in Proofs/LexEquivUtf8.v).
   tree_of_doc d   the value tree of the parsed document (None: a float inside — floats are symbolic in
                   the parser model; such documents are outside these statements)
   tree_ready x    the keys of every table of x are distinct and its date-times are in range.  True of
                   every parsed document (C09_valid_wellformed for header tables, the duplicate-key check
                   of inline tables, C12_closed), but that is NOT yet proved as one lemma about
                   parse_document: it is a hypothesis here, hence `_partial`; the extracted commands
                   (Extract/Cmd_front.v) evaluate it on every generated document.
   has_private_key / _below_root   a table key spelling "$__toml_private_datetime" (known finding
                   private-datetime-key, F14) *)
From TV Require Import Base.Prelude Base.Utf8 Model.Datetime Model.Tree Model.Document Spec.SerdeData.
From TV Require Import Model.De Model.SerdeRoutes Model.FrontEnds Proofs.FrontEnds.

(* THE BYTES ENTRY POINT: invalid UTF-8 is refused with the UTF-8 error before anything else; on valid UTF-8
   it is the string front end; it never reaches a panic site; it accepts exactly the valid-UTF-8 inputs the
   string front end accepts *)
Theorem C01_slice : forall bs,
  (utf8_valid_b bs = false -> from_slice_table bs = FUtf8Err) /\
  (utf8_valid_b bs = true -> from_slice_table bs = toml_from_str_table bs) /\
  from_slice_table bs <> FPanic /\
  (accepts (from_slice_table bs) <-> utf8_valid_b bs = true /\ accepts (toml_from_str_table bs)).
Proof. exact slice_front. Qed.
Print Assumptions C01_slice.

(* A DOCUMENT THE PARSER REFUSES is refused by every front end, as a parse error ... *)
Theorem C01_frontends_reject : forall s e a,
  parse_document s = PErr e a ->
  toml_from_str_table s = FParseErr /\ toml_from_str_value s = FParseErr /\ edit_from_str_table s = FParseErr /\
  edit_parse s = FParseErr /\ (utf8_valid_b s = true -> from_slice_table s = FParseErr).
Proof. exact rejected_everywhere. Qed.
Print Assumptions C01_frontends_reject.

(* ... and whatever a front end accepts the parser accepts *)
Theorem C01_frontends_sound : forall conv s v, from_str_with conv s = FOk v -> exists d, parse_document s = POk d.
Proof. exact accepted_means_parsed. Qed.
Print Assumptions C01_frontends_sound.

(* A DOCUMENT THE PARSER ACCEPTS is accepted by toml::from_str::<Table> / str::parse::<Table> /
   toml_edit::de::from_str / from_slice unless a table below the root spells the private key, and by
   toml::from_str::<Value> unless any table does.
   FULL STATEMENT (C01_frontends): the same without the hypothesis `tree_ready x`.  Missing: the lemma
   parse_document s = POk d -> tree_of_doc d = Some x -> tree_ready x = true. *)
Theorem C01_frontends_partial : forall s d x,
  parse_document s = POk d -> tree_of_doc d = Some x -> tree_ready x = true ->
  (has_private_key_below_root x = false ->
     toml_from_str_table s = FOk (canon_value true x) /\ edit_from_str_table s = FOk (canon_value true x) /\
     (utf8_valid_b s = true -> from_slice_table s = FOk (canon_value true x))) /\
  (has_private_key x = false -> toml_from_str_value s = FOk (canon_value true x)).
Proof. exact accepted_everywhere. Qed.
Print Assumptions C01_frontends_partial.

(* the classifier of the known class is exact: on such a document a front end refuses ONLY because of a
   private key *)
Theorem C01_frontends_classifier_partial : forall s d x,
  parse_document s = POk d -> tree_of_doc d = Some x -> tree_ready x = true ->
  (toml_from_str_table s = FDeErr -> has_private_key_below_root x = true) /\
  (toml_from_str_value s = FDeErr -> has_private_key x = true).
Proof. exact refusal_means_private_key. Qed.
Print Assumptions C01_frontends_classifier_partial.

(* known finding private-datetime-key (F14): [t] / "$__toml_private_datetime" = "x" is a document for the
   parser and is refused by every serde front end *)
Theorem C01_frontends_refuted :
  exists d x, parse_document w_private_refused = POk d /\ tree_of_doc d = Some x /\ tree_ready x = true /\
              has_private_key_below_root x = true /\
              toml_from_str_table w_private_refused = FDeErr /\ toml_from_str_value w_private_refused = FDeErr /\
              from_slice_table w_private_refused = FDeErr.
Proof. exact private_key_refused. Qed.
Print Assumptions C01_frontends_refuted.
