(* Props/C13.v — property C13: every decoding and encoding route gives the same answer.
   Statements only; proofs in Proofs/Routes*.v (on top of the C07 development, Proofs/SerdeRT*.v).

   Level: the TOML value tree.  A decoding route is a function of (type, tree the text parses to)
   (Model/SerdeRoutes.v `decode`); which tree a text parses to, and that from_str / from_slice /
   from_document / Deserializer::from_str hand the SAME tree to toml_edit's deserializer, is below this
   level (C01-C03; compared on the implementation by lib/props/c13.py on every run).
     edit family   t e esl edoc eim efs tvd evd : de_value
     value family  tval tvdval : to_toml_value then tv_de;   ttab : to_toml_table then tv_de *)
From TV Require Import Base.Prelude Model.Datetime Model.DatetimeStd Model.SerNum Spec.SerdeData Model.Ser Model.De Model.SerdeRoutes
  Proofs.RoutesRefuted Proofs.RoutesConv Proofs.RoutesTwins Proofs.RoutesTop Proofs.RoutesDecode Extract.Show.
Require Import String.

(* ---- all decoding routes yield equal results whenever they succeed ----
   twin_ty: no map keyed by `char` (the model's strings are arbitrary bytes; on ill-formed UTF-8 two keys
   could decode to one char).  plain_root: needed only where str::parse::<toml::Table> is involved — the
   root is a table with distinct keys not starting with the private tunnel key. *)
Theorem C13_twin_deserializers : forall ty x y v1 v2,
  twin_ty ty = true -> to_toml_value x = Ok y -> de_value ty x = Ok v1 -> tv_de ty y = Ok v2 -> sval_eq v1 v2.
Proof. intros ty x y v1 v2 H. exact (twins_agree ty H x y v1 v2). Qed.
Print Assumptions C13_twin_deserializers.

Theorem C13_decode_routes : forall ty x r1 r2 v1 v2,
  twin_ty ty = true ->
  (uses_table_route r1 = true \/ uses_table_route r2 = true -> plain_root x = true) ->
  decode r1 ty x = Ok v1 -> decode r2 ty x = Ok v2 -> sval_eq v1 v2 \/ sval_eq v2 v1.
Proof. exact decode_routes_agree. Qed.
Print Assumptions C13_decode_routes.

(* ---- on text obtained by serializing a value of the target type every route succeeds and returns it ----
   (The three defects that made this false are repaired in /repo: C13-tryinto-datetime-string,
   C13-tryfrom-datetime-table, C13-valueser-root-tuple-variant; their former witnesses are kept below as
   positive statements.)  What remains excluded is the in-band signalling F14 (`tunnel_free`: no table
   key spells the private tunnel name). *)
Theorem C13_on_serialized_datetime :
  has_type dt_val dt_ty /\ ser_toml_root dt_ty dt_val = Ok dt_tree
  /\ to_toml_value dt_tree = Ok dt_tree /\ to_toml_table dt_tree = Ok dt_tree
  /\ forall r, decode r dt_ty dt_tree = Ok dt_val.
Proof. exact on_serialized_datetime. Qed.
Print Assumptions C13_on_serialized_datetime.

(* a String target does not get the text of a date-time, on any route *)
Theorem C13_datetime_is_not_a_string :
  forall r, decode r (TStruct (str "S") [(str "d", TStr)]) dt_tree = Err EDe.
Proof. exact datetime_is_not_a_string. Qed.
Print Assumptions C13_datetime_is_not_a_string.

(* on the document toml::to_string writes, every toml_edit-based route returns the value, for every type;
   the routes through toml::Value / toml::Table too (date-times included) when no table key spells the
   private tunnel name *)
Theorem C13_on_serialized : forall ty v out, has_type v ty -> ser_toml_root ty v = Ok out ->
  (forall r, edit_family r = true -> exists v', decode r ty out = Ok v' /\ sval_eq v v')
  /\ (tunnel_free out = true ->
      forall r, r = R_tval \/ r = R_ttab -> exists v', decode r ty out = Ok v' /\ sval_eq v v').
Proof. exact on_serialized_doc. Qed.
Print Assumptions C13_on_serialized.

(* ... and on the text of a single value (toml::ser::ValueSerializer), for every type *)
Theorem C13_on_serialized_value : forall ty v x,
  has_type v ty -> ser_value_text ty v = Ok x ->
  (forall r, r = R_tvd \/ r = R_evd -> exists v', decode r ty x = Ok v' /\ sval_eq v v')
  /\ (tunnel_free x = true -> exists v', decode R_tvdval ty x = Ok v' /\ sval_eq v v').
Proof. exact on_serialized_value. Qed.
Print Assumptions C13_on_serialized_value.

(* the former witness of the repaired defect: E::T(1, 2) is written as { T = [1, 2] } and reads back *)
Theorem C13_value_text_tuple_variant :
  has_type tvr_val tvr_ty
  /\ ser_value_text tvr_ty tvr_val = Ok (VTab [(str "T", VArr [VInt 1; VInt 2])])
  /\ ser_value_text tvr_ty tvr_val = ser_value tvr_ty tvr_val
  /\ decode R_tvd tvr_ty (VTab [(str "T", VArr [VInt 1; VInt 2])]) = Ok tvr_val
  /\ decode R_evd tvr_ty (VTab [(str "T", VArr [VInt 1; VInt 2])]) = Ok tvr_val
  /\ decode R_tvdval tvr_ty (VTab [(str "T", VArr [VInt 1; VInt 2])]) = Ok tvr_val.
Proof. exact on_serialized_value_tuple_variant. Qed.
Print Assumptions C13_value_text_tuple_variant.

(* the former witness of the repaired C06-root-datetime-printed-as-table: a Datetime at the ROOT of
   toml::ser::ValueSerializer is written as the date-time (before: as the table { "$__toml_private_datetime" = ".." })
   and read back by the three single-value routes; at the root of a document it is refused by toml::to_string as by
   toml_edit::ser::to_string (a document is a table); Value::try_from yields the date-time.  Table::try_from still
   answers the private-key table (known class private-datetime-key). *)
Theorem C13_root_datetime :
  has_type rdt_val rdt_ty
  /\ ser_value_text rdt_ty rdt_val = Ok (VDatetime dt_d) /\ ser_value rdt_ty rdt_val = Ok (VDatetime dt_d)
  /\ tv_ser rdt_ty rdt_val = Ok (VDatetime dt_d)
  /\ ser_toml_root rdt_ty rdt_val = Err (EUnsupportedType None) /\ ser_edit_root rdt_ty rdt_val = Err (EUnsupportedType None)
  /\ (forall r, r = R_tvd \/ r = R_evd \/ r = R_tvdval -> decode r rdt_ty (VDatetime dt_d) = Ok rdt_val)
  /\ tv_ser_table rdt_ty rdt_val = Ok (VTab [(DT_FIELD, VStr (display_datetime dt_d))]).
Proof. exact root_datetime. Qed.
Print Assumptions C13_root_datetime.

(* ---- Value::try_from / Table::try_from against serialize-then-parse, date-times included ---- *)
Theorem C13_try_from_datetime :
  ser_toml_root dt_ty dt_val = Ok dt_tree /\ to_toml_value dt_tree = Ok dt_tree
  /\ tv_ser dt_ty dt_val = Ok dt_tree /\ tv_ser_table dt_ty dt_val = Ok dt_tree.
Proof. exact try_from_datetime. Qed.
Print Assumptions C13_try_from_datetime.

(* the same tree (same key order), for every type including those containing date-times, when no table
   key of the serialized document spells the private tunnel name *)
Theorem C13_try_from : forall ty v out,
  has_type v ty -> ser_toml_root ty v = Ok out -> tunnel_free out = true ->
  exists y, to_toml_value out = Ok y /\ to_toml_table out = Ok y /\ tv_ser ty v = Ok y
            /\ (forall y', tv_ser_table ty v = Ok y' -> y' = y).
Proof. exact try_from_is_parsed_text. Qed.
Print Assumptions C13_try_from.

(* the twin serializers below the root: ValueSerializer's tree, read as a toml::Value, is Value::try_from's *)
Theorem C13_twin_serializers : forall ty v x,
  has_type v ty -> ser_value ty v = Ok x -> tunnel_free x = true ->
  exists y, to_toml_value x = Ok y /\ tv_ser ty v = Ok y.
Proof. intros ty v x. exact (try_from_twin ty v x). Qed.
Print Assumptions C13_twin_serializers.

(* ---- the converse: try_from accepts nothing serialize-then-parse refuses ----
   (The defect that made this false, C07-tryfrom-nested-none-dropped, is repaired in /repo: Value::try_from /
   Table::try_from answered Ok, with a field dropped, where to_string answers Err(unsupported None).)
   doc_keys: no map key type is `char` / `Option<_>` — keys Value::try_from accepts by contract (whatever serializes to
   a string) and a document serializer does not. *)
Theorem C13_try_from_same_verdict : forall ty v, has_type v ty -> doc_keys ty = true ->
  ((exists y, tv_ser ty v = Ok y) <-> (exists x, ser_value ty v = Ok x)).
Proof. exact try_from_same_verdict. Qed.
Print Assumptions C13_try_from_same_verdict.

(* ... and on success the trees are the same *)
Theorem C13_try_from_accepts_only_serializable : forall ty v y,
  has_type v ty -> doc_keys ty = true -> tv_ser ty v = Ok y ->
  exists x, ser_value ty v = Ok x /\ (tunnel_free x = true -> to_toml_value x = Ok y).
Proof. exact try_from_accepts_only_serializable. Qed.
Print Assumptions C13_try_from_accepts_only_serializable.

Theorem C13_table_try_from_accepts_only_serializable : forall ty v y,
  has_type v ty -> doc_keys ty = true -> tv_ser_table ty v = Ok y -> exists x, ser_value ty v = Ok x.
Proof. exact table_try_from_accepts_only_serializable. Qed.
Print Assumptions C13_table_try_from_accepts_only_serializable.

(* ---- non-vacuity ---- *)
(* struct Cfg { m: BTreeMap<String, Vec<En>>, o: Option<Point>, t: En, w: Wrap(u8), c: char }   (no date-time) *)
Definition ex_en : ty :=
  TEnum (str "En") [(str "U", VUnit); (str "N", VNewtype (TInt TI64)); (str "T", VTuple [TBool; TStr]);
                    (str "S", VStruct [(str "a", TOpt (TInt TI32)); (str "b", TInt TU64)])].
Definition ex_point : ty := TStruct (str "Point") [(str "y", TInt TI32); (str "x", TInt TI32)].
Definition ex_ty : ty :=
  TStruct (str "Cfg") [(str "m", TMap TStr (TSeq ex_en)); (str "o", TOpt ex_point); (str "t", ex_en);
                       (str "w", TNewtype (str "Wrap") (TInt TU8)); (str "c", TChar)].
Definition ex_val : sval :=
  SRec [SMap [(SStr (str "k2"), SSeq [SVariant 0 SUnit; SVariant 3 (SRec [SNone; SInt 7])]); (SStr (str "k1"), SSeq [])];
        SSome (SRec [SInt 1; SInt (-2)]); SVariant 2 (SSeq [SBool true; SStr (str "x y")]); SNewtype (SInt 255); SChar 233].

Example C13_ex_hyps : has_type ex_val ex_ty /\ twin_ty ex_ty = true /\ doc_keys ex_ty = true
  /\ match ser_toml_root ex_ty ex_val with Ok out => tunnel_free out && plain_root out | Err _ => false end = true.
Proof. repeat split; vm_compute; reflexivity. Qed.

(* the hypotheses of C13_on_serialized / C13_try_from hold of the date-time witness too *)
Example C13_ex_datetime_hyps : has_type dt_val dt_ty /\ twin_ty dt_ty = true
  /\ match ser_toml_root dt_ty dt_val with Ok out => tunnel_free out && plain_root out | Err _ => false end = true.
Proof. repeat split; vm_compute; reflexivity. Qed.

(* the document order is m (k2, k1), o (y, x), t, w, c; the toml::Value is sorted; both families read it back
   (the table route returns the map in key order: equal up to the order of map entries) *)
Definition ex_val_sorted : sval :=
  SRec [SMap [(SStr (str "k1"), SSeq []); (SStr (str "k2"), SSeq [SVariant 0 SUnit; SVariant 3 (SRec [SNone; SInt 7])])];
        SSome (SRec [SInt 1; SInt (-2)]); SVariant 2 (SSeq [SBool true; SStr (str "x y")]); SNewtype (SInt 255); SChar 233].
Example C13_ex_routes :
  exists out, ser_toml_root ex_ty ex_val = Ok out
    /\ decode R_t ex_ty out = Ok ex_val /\ decode R_tval ex_ty out = Ok ex_val_sorted /\ decode R_ttab ex_ty out = Ok ex_val_sorted
    /\ to_toml_value out = tv_ser ex_ty ex_val /\ to_toml_table out = tv_ser_table ex_ty ex_val.
Proof. eexists. split; [vm_compute; reflexivity|]. repeat split; vm_compute; reflexivity. Qed.

(* a mismatching pair: a 3-element array read as a pair — toml_edit's family accepts and ignores the
   rest, toml::Value's refuses; they never succeed with different answers *)
Example C13_ex_disagree_on_success_only :
  decode R_e (TTuple [TInt TI8; TInt TI8]) (VArr [VInt 1; VInt 2; VInt 3]) = Ok (SSeq [SInt 1; SInt 2])
  /\ decode R_tvdval (TTuple [TInt TI8; TInt TI8]) (VArr [VInt 1; VInt 2; VInt 3]) = Err EDe.
Proof. split; vm_compute; reflexivity. Qed.
