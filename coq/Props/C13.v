(* Props/C13.v — property C13: every decoding and encoding route gives the same answer.
   Statements only; proofs in Proofs/Routes*.v.  Level: the TOML value tree (see Props/C07.v). *)
From TV Require Import Base.Prelude Spec.SerdeData Model.Ser Model.De Model.SerdeRoutes Proofs.RoutesRefuted.

Theorem C13_on_serialized_refuted :
  exists t v out,
    has_type v t /\ ser_toml_root t v = Ok out
    /\ decode R_t t out = Ok v /\ decode R_e t out = Ok v
    /\ (exists y, to_toml_value out = Ok y /\ to_toml_table out = Ok y)
    /\ decode R_tval t out = Err EDe /\ decode R_ttab t out = Err EDe.
Proof. exact on_serialized_refuted. Qed.
Print Assumptions C13_on_serialized_refuted.

Theorem C13_try_from_refuted :
  exists t v out y y',
    has_type v t /\ ser_toml_root t v = Ok out /\ to_toml_value out = Ok y
    /\ tv_ser t v = Ok y' /\ tv_ser_table t v = Ok y' /\ y <> y'.
Proof. exact try_from_refuted. Qed.
Print Assumptions C13_try_from_refuted.
