(* Base/Utf8.v — UTF-8 well-formedness (Unicode Table 3-7), encoding of scalar values,
   char boundaries.  Functional specs of std::str::from_utf8 / char::from_u32 /
   String::push(char) / str::chars().count() as used by the code. *)
From TV Require Import Base.Prelude.

Local Open Scope N_scope.

Definition is_cont (b : byte) : bool := (128 <=? b2n b) && (b2n b <=? 191).
Definition inr (lo hi : N) (b : byte) : bool := (lo <=? b2n b) && (b2n b <=? hi).

(* std::str::from_utf8(..).is_ok() *)
Fixpoint utf8_valid_b (s : bytes) : bool :=
  match s with
  | [] => true
  | b0 :: s1 =>
    let n := b2n b0 in
    if n <=? 127 then utf8_valid_b s1
    else if inr 194 223 b0 then
      match s1 with b1 :: s2 => is_cont b1 && utf8_valid_b s2 | _ => false end
    else if inr 224 239 b0 then
      match s1 with
      | b1 :: b2 :: s3 =>
        (if n =? 224 then inr 160 191 b1 else if n =? 237 then inr 128 159 b1 else is_cont b1)
        && is_cont b2 && utf8_valid_b s3
      | _ => false end
    else if inr 240 244 b0 then
      match s1 with
      | b1 :: b2 :: b3 :: s4 =>
        (if n =? 240 then inr 144 191 b1 else if n =? 244 then inr 128 143 b1 else is_cont b1)
        && is_cont b2 && is_cont b3 && utf8_valid_b s4
      | _ => false end
    else false
  end.

(* char::from_u32(h).is_some() *)
Definition is_scalar (h : N) : bool :=
  (h <? 55296) || ((57343 <? h) && (h <=? 1114111)).

(* String::push(char): UTF-8 encoding of a scalar value *)
Definition utf8_encode (h : N) : bytes :=
  if h <? 128 then [n2b h]
  else if h <? 2048 then [n2b (192 + h / 64); n2b (128 + h mod 64)]
  else if h <? 65536 then [n2b (224 + h / 4096); n2b (128 + (h / 64) mod 64); n2b (128 + h mod 64)]
  else [n2b (240 + h / 262144); n2b (128 + (h / 4096) mod 64); n2b (128 + (h / 64) mod 64); n2b (128 + h mod 64)].

(* core::num::is_utf8_char_boundary on a byte: b < 128 || b >= 192 *)
Definition is_boundary_byte (b : byte) : bool := (b2n b <? 128) || (192 <=? b2n b).

(* str::chars().count() on valid UTF-8 = number of non-continuation bytes *)
Definition char_count (s : bytes) : N :=
  N.of_nat (length (filter is_boundary_byte s)).

(* str::is_char_boundary(i) for valid UTF-8 text s *)
Definition char_boundary_b (s : bytes) (i : N) : bool :=
  match nth_error s (N.to_nat i) with
  | Some b => is_boundary_byte b
  | None => i =? N.of_nat (length s)
  end.
