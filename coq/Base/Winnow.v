(* Base/Winnow.v — the fragment of winnow 0.7.6's combinator semantics the TOML parser uses,
   transcribed from winnow-0.7.6/src/{combinator,token,parser}.rs (complete, non-partial
   streams).  This is an ORACLE for external code: it is validated by the correspondence
   runs, not verified.

   input  = remaining bytes + absolute offset + RecursionCheck.current
   result = Ok value rest | Bt err at | Cut err at | Panic site
   `Bt`/`Cut` carry the cursor at which winnow leaves the stream when the error is
   returned (that is the offset `ParseError` reports).  `Panic` stands for a Rust panic
   (or, at `from_utf8_unchecked` sites, undefined behaviour). *)
From TV Require Import Base.Prelude Base.Utf8.

(* Panic / UB sites of the modelled code (crate-relative file:function in comments where used). *)
Inductive site : Set :=
| P_out_of_fuel            (* model artefact: fuel exhausted; excluded by fuel_sufficient *)
| P_repeat_no_progress     (* winnow ErrMode::assert in repeat/separated (debug builds panic) *)
| P_unchecked_utf8 (where_ : N)  (* from_utf8_unchecked reached with non-UTF-8 bytes *)
| P_expect_digits          (* parser/datetime.rs: s.parse::<u8/u16>().expect(..) *)
| P_unreachable_sign       (* parser/datetime.rs time_offset, numbers.rs special_float: unreachable!() *)
| P_key_path_empty         (* key.rs: first_mut().expect / inline_table.rs, document.rs: path.pop().expect *)
| P_root_not_empty         (* state.rs finalize_table: assert!(root.is_empty()) *)
| P_item_none              (* state.rs descend_path: Item::None => unreachable!() *)
| P_aot_empty              (* state.rs descend_path: array.get_mut(len-1).unwrap() / len()-1 underflow *)
| P_path_index             (* error.rs duplicate_key / extend_wrong_type: assert!(i < path.len()); &path[..len-1] *)
| P_debug_assert (n : N)   (* state.rs debug_assert!s *)
| P_depth_underflow        (* RecursionCheck::exit: current -= 1 *)
| P_arith_overflow (n : N) (* debug-build arithmetic overflow *)
| P_span_slice             (* raw_string.rs / error.rs: slicing by span out of range or off a char boundary *)
| P_other (n : N).

Inductive custom : Set :=
| OutOfRange | DuplicateKey | ExtendWrongType | RecursionLimit | Utf8Error | IntError | FloatError.

(* ContextError: `cause` (external error) + whether any StrContext was attached.
   The rendered message is empty iff both are absent. *)
Record perr : Set := mkErr { e_cause : option custom; e_ctx : bool }.
Definition err0 : perr := mkErr None false.
Definition err_of (c : custom) : perr := mkErr (Some c) false.

Record input : Set := mkIn { rest : bytes; pos : N; depth : nat }.

Inductive res (A : Type) : Type :=
| Ok (a : A) (i : input)
| Bt (e : perr) (i : input)
| Cut (e : perr) (i : input)
| Panic (s : site).
Arguments Ok {A}. Arguments Bt {A}. Arguments Cut {A}. Arguments Panic {A}.

Definition parser (A : Type) := input -> res A.

Definition new_input (s : bytes) : input := mkIn s 0%N 0.

Definition advance (n : nat) (i : input) : input :=
  mkIn (skipn n (rest i)) (pos i + N.of_nat n)%N (depth i).

Definition ret {A} (a : A) : parser A := fun i => Ok a i.
Definition bind {A B} (p : parser A) (f : A -> parser B) : parser B :=
  fun i => match p i with
           | Ok a i' => f a i'
           | Bt e i' => Bt e i'
           | Cut e i' => Cut e i'
           | Panic s => Panic s
           end.
Definition pmap {A B} (f : A -> B) (p : parser A) : parser B :=
  fun i => match p i with
           | Ok a i' => Ok (f a) i'
           | Bt e i' => Bt e i'
           | Cut e i' => Cut e i'
           | Panic s => Panic s
           end.
Definition pvalue {A B} (b : B) (p : parser A) : parser B := pmap (fun _ => b) p.
Definition pvoid {A} (p : parser A) : parser unit := pmap (fun _ => tt) p.

Declare Scope parser_scope.
Delimit Scope parser_scope with parser.
Notation "x <- p ;; q" := (bind p (fun x => q))
  (at level 61, p at next level, right associativity) : parser_scope.
Notation "' pat <- p ;; q" := (bind p (fun x => match x with pat => q end))
  (at level 61, pat pattern, p at next level, right associativity) : parser_scope.
Notation "p ;;; q" := (bind p (fun _ => q))
  (at level 61, right associativity) : parser_scope.
Open Scope parser_scope.

(* -- failure / primitives ------------------------------------------------------------ *)
Definition fail {A} : parser A := fun i => Bt err0 i.
Definition empty : parser unit := ret tt.

(* token::any *)
Definition any : parser byte :=
  fun i => match rest i with
           | b :: _ => Ok b (advance 1 i)
           | [] => Bt err0 i
           end.

(* token::one_of(set) = any.verify(set): resets on failure *)
Definition one_of (f : byte -> bool) : parser byte :=
  fun i => match rest i with
           | b :: _ => if f b then Ok b (advance 1 i) else Bt err0 i
           | [] => Bt err0 i
           end.
Definition none_of (f : byte -> bool) : parser byte := one_of (fun b => negb (f b)).
Definition byte_ (x : byte) : parser byte := one_of (byte_eqb x).

(* token::literal on a byte string *)
Definition lit (l : bytes) : parser bytes :=
  fun i => match strip_prefix l (rest i) with
           | Some _ => Ok l (advance (length l) i)
           | None => Bt err0 i
           end.

(* token::take_while(m..=n, set); n = None means unbounded *)
Fixpoint take_upto (f : byte -> bool) (n : nat) (s : bytes) : bytes :=
  match n, s with
  | S n', b :: s' => if f b then b :: take_upto f n' s' else []
  | _, _ => []
  end.
Definition take_while_mn (m : nat) (n : option nat) (f : byte -> bool) : parser bytes :=
  fun i =>
    let got := match n with
               | Some n' => take_upto f n' (rest i)
               | None => fst (span_while f (rest i))
               end in
    if Nat.ltb (length got) m then Bt err0 i else Ok got (advance (length got) i).
Definition take_while0 (f : byte -> bool) : parser bytes := take_while_mn 0 None f.
Definition take_while1 (f : byte -> bool) : parser bytes := take_while_mn 1 None f.

(* token::take(n) *)
Definition take_n (n : nat) : parser bytes :=
  fun i => if Nat.ltb (length (rest i)) n then Bt err0 i
           else Ok (firstn n (rest i)) (advance n i).

(* token::rest *)
Definition rest_ : parser bytes := fun i => Ok (rest i) (advance (length (rest i)) i).

(* combinator::eof *)
Definition eof : parser unit :=
  fun i => match rest i with [] => Ok tt i | _ => Bt err0 i end.

(* -- combinators ---------------------------------------------------------------------- *)
Definition peek {A} (p : parser A) : parser A :=
  fun i => match p i with
           | Ok a _ => Ok a i
           | Bt e _ => Bt e i
           | Cut e _ => Cut e i
           | Panic s => Panic s
           end.

Definition opt {A} (p : parser A) : parser (option A) :=
  fun i => match p i with
           | Ok a i' => Ok (Some a) i'
           | Bt _ _ => Ok None i
           | Cut e i' => Cut e i'
           | Panic s => Panic s
           end.

Definition cut_err {A} (p : parser A) : parser A :=
  fun i => match p i with
           | Bt e i' => Cut e i'
           | r => r
           end.

(* alt((p, q)): q starts from the checkpoint; after the last alternative the stream is left
   where that alternative left it; ContextError::or keeps the later error. *)
Definition alt {A} (p q : parser A) : parser A :=
  fun i => match p i with
           | Bt _ _ => q i
           | r => r
           end.
Notation "p <|> q" := (alt p q) (at level 62, right associativity) : parser_scope.

(* .context(..): marks the error as carrying context *)
Definition context {A} (p : parser A) : parser A :=
  fun i => match p i with
           | Bt e i' => Bt (mkErr (e_cause e) true) i'
           | Cut e i' => Cut (mkErr (e_cause e) true) i'
           | r => r
           end.

(* .verify(f) *)
Definition verify {A} (f : A -> bool) (p : parser A) : parser A :=
  fun i => match p i with
           | Ok a i' => if f a then Ok a i' else Bt err0 i
           | r => r
           end.

(* .verify_map(f) *)
Definition verify_map {A B} (f : A -> option B) (p : parser A) : parser B :=
  fun i => match p i with
           | Ok a i' => match f a with Some b => Ok b i' | None => Bt err0 i end
           | Bt e i' => Bt e i'
           | Cut e i' => Cut e i'
           | Panic s => Panic s
           end.

(* .try_map(f): external error becomes the cause; stream reset to the start.
   The function may also reach a panic site (expect/unwrap inside the closure). *)
Inductive tm (B : Type) : Type := TmOk (b : B) | TmErr (c : custom) | TmPanic (s : site).
Arguments TmOk {B}. Arguments TmErr {B}. Arguments TmPanic {B}.

Definition try_map {A B} (f : A -> tm B) (p : parser A) : parser B :=
  fun i => match p i with
           | Ok a i' => match f a with
                        | TmOk b => Ok b i'
                        | TmErr c => Bt (err_of c) i
                        | TmPanic s => Panic s
                        end
           | Bt e i' => Bt e i'
           | Cut e i' => Cut e i'
           | Panic s => Panic s
           end.

(* from_external_error(..).cut() raised directly by hand-written parsers *)
Definition cut_custom {A} (c : custom) : parser A := fun i => Cut (err_of c) i.

(* .span() / .with_span() / .take() *)
Definition span_ {A} (p : parser A) : parser (N * N) :=
  fun i => match p i with
           | Ok _ i' => Ok (pos i, pos i') i'
           | Bt e i' => Bt e i'
           | Cut e i' => Cut e i'
           | Panic s => Panic s
           end.
Definition with_span {A} (p : parser A) : parser (A * (N * N)) :=
  fun i => match p i with
           | Ok a i' => Ok (a, (pos i, pos i')) i'
           | Bt e i' => Bt e i'
           | Cut e i' => Cut e i'
           | Panic s => Panic s
           end.
Definition taken {A} (p : parser A) : parser bytes :=
  fun i => match p i with
           | Ok _ i' => Ok (firstn (N.to_nat (pos i' - pos i)) (rest i)) i'
           | Bt e i' => Bt e i'
           | Cut e i' => Cut e i'
           | Panic s => Panic s
           end.

(* outer.and_then(inner) where inner runs on the produced slice as its own complete
   stream; on inner failure the outer stream is reset.  `inner` is given as a function
   from the slice to a result (Ok / error kind, cut or not). *)
Inductive sub (B : Type) : Type := SubOk (b : B) | SubBt (e : perr) | SubCut (e : perr) | SubPanic (s : site).
Arguments SubOk {B}. Arguments SubBt {B}. Arguments SubCut {B}. Arguments SubPanic {B}.
Definition and_then {A B} (p : parser A) (inner : A -> sub B) : parser B :=
  fun i => match p i with
           | Ok a i' => match inner a with
                        | SubOk b => Ok b i'
                        | SubBt e => Bt e i
                        | SubCut e => Cut e i
                        | SubPanic s => Panic s
                        end
           | Bt e i' => Bt e i'
           | Cut e i' => Cut e i'
           | Panic s => Panic s
           end.

(* sequence helpers *)
Definition preceded {A B} (p : parser A) (q : parser B) : parser B := p ;;; q.
Definition terminated {A B} (p : parser A) (q : parser B) : parser A := a <- p ;; q ;;; ret a.
Definition delimited {A B C} (p : parser A) (q : parser B) (r : parser C) : parser B :=
  p ;;; b <- q ;; r ;;; ret b.
Definition pair_ {A B} (p : parser A) (q : parser B) : parser (A * B) :=
  a <- p ;; b <- q ;; ret (a, b).

(* -- loops (fuelled; fuel = S (bytes remaining) always suffices) ---------------------- *)
(* repeat(0.., p) accumulating into a list *)
Fixpoint repeat0_f {A} (fuel : nat) (p : parser A) (acc : list A) (i : input) : res (list A) :=
  match fuel with
  | O => Panic P_out_of_fuel
  | S f =>
    match p i with
    | Ok a i' =>
      if Nat.eqb (length (rest i')) (length (rest i)) then Panic P_repeat_no_progress
      else repeat0_f f p (a :: acc) i'
    | Bt _ _ => Ok (rev acc) i
    | Cut e i' => Cut e i'
    | Panic s => Panic s
    end
  end.
Definition repeat0 {A} (p : parser A) : parser (list A) :=
  fun i => repeat0_f (S (length (rest i))) p [] i.

(* repeat(1.., p) *)
Definition repeat1 {A} (p : parser A) : parser (list A) :=
  fun i => match p i with
           | Ok a i' => repeat0_f (S (length (rest i'))) p [a] i'
           | Bt e i' => Bt e i'
           | Cut e i' => Cut e i'
           | Panic s => Panic s
           end.

(* separated(0.., p, sep) / separated(1.., p, sep): after a separator, a backtracking
   element failure resets to BEFORE the separator. *)
Fixpoint separated_loop {A Sp} (fuel : nat) (p : parser A) (sep : parser Sp) (acc : list A) (i : input)
  : res (list A) :=
  match fuel with
  | O => Panic P_out_of_fuel
  | S f =>
    match sep i with
    | Bt _ _ => Ok (rev acc) i
    | Cut e i' => Cut e i'
    | Panic s => Panic s
    | Ok _ i1 =>
      if Nat.eqb (length (rest i1)) (length (rest i)) then Panic P_repeat_no_progress
      else match p i1 with
           | Bt _ _ => Ok (rev acc) i
           | Cut e i' => Cut e i'
           | Panic s => Panic s
           | Ok a i2 => separated_loop f p sep (a :: acc) i2
           end
    end
  end.
Definition separated0 {A Sp} (p : parser A) (sep : parser Sp) : parser (list A) :=
  fun i => match p i with
           | Bt _ _ => Ok [] i
           | Cut e i' => Cut e i'
           | Panic s => Panic s
           | Ok a i' => separated_loop (S (length (rest i'))) p sep [a] i'
           end.
Definition separated1 {A Sp} (p : parser A) (sep : parser Sp) : parser (list A) :=
  fun i => match p i with
           | Bt e i' => Bt e i'
           | Cut e i' => Cut e i'
           | Panic s => Panic s
           | Ok a i' => separated_loop (S (length (rest i'))) p sep [a] i'
           end.

(* Parser::parse: run to completion, require eof; the error offset is the cursor at failure *)
Inductive outcome (A : Type) : Type :=
| Done (a : A)
| Failed (e : perr) (at_ : N)
| Panicked (s : site).
Arguments Done {A}. Arguments Failed {A}. Arguments Panicked {A}.

Definition parse_all {A} (p : parser A) (s : bytes) : outcome A :=
  match (a <- p ;; eof ;;; ret a) (new_input s) with
  | Ok a _ => Done a
  | Bt e i => Failed e (pos i)
  | Cut e i => Failed e (pos i)
  | Panic st => Panicked st
  end.

(* from_utf8_unchecked(bytes, why): UB/panic site unless the bytes are valid UTF-8 *)
Definition unchecked_utf8 (where_ : N) (p : parser bytes) : parser bytes :=
  fun i => match p i with
           | Ok b i' => if utf8_valid_b b then Ok b i' else Panic (P_unchecked_utf8 where_)
           | r => r
           end.
