(* Base/Prelude.v — bytes, byte classes, small list helpers shared by model and spec. *)
From Coq Require Export List Bool Arith NArith ZArith Lia.
From Coq.Strings Require Export Byte.
Export ListNotations.

Global Arguments N.add : simpl never.
Global Arguments N.sub : simpl never.
Global Arguments N.mul : simpl never.
Global Arguments N.eqb : simpl never.
Global Arguments N.ltb : simpl never.
Global Arguments N.leb : simpl never.
Global Arguments Z.add : simpl never.
Global Arguments Z.sub : simpl never.
Global Arguments Z.mul : simpl never.
Global Arguments Z.eqb : simpl never.
Global Arguments Z.ltb : simpl never.
Global Arguments Z.leb : simpl never.

Definition bytes := list byte.

Definition b2n (b : byte) : N := Byte.to_N b.
Definition n2b (n : N) : byte := match Byte.of_N n with Some b => b | None => x00 end.

Definition byte_eqb (a b : byte) : bool := Byte.eqb a b.

Lemma byte_eqb_eq a b : byte_eqb a b = true <-> a = b.
Proof. unfold byte_eqb. split; [apply Byte.byte_dec_bl | apply Byte.byte_dec_lb]. Qed.

Lemma byte_eqb_refl a : byte_eqb a a = true.
Proof. apply byte_eqb_eq; reflexivity. Qed.

Fixpoint bytes_eqb (a b : bytes) : bool :=
  match a, b with
  | [], [] => true
  | x :: a', y :: b' => byte_eqb x y && bytes_eqb a' b'
  | _, _ => false
  end.

Lemma bytes_eqb_eq a b : bytes_eqb a b = true <-> a = b.
Proof.
  revert b; induction a as [|x a IH]; intros [|y b]; simpl; split; intro H;
    try reflexivity; try discriminate.
  - apply andb_true_iff in H as [H1 H2]. apply byte_eqb_eq in H1. apply IH in H2. congruence.
  - inversion H; subst. apply andb_true_iff; split; [apply byte_eqb_refl | apply IH; reflexivity].
Qed.

Lemma bytes_eqb_refl a : bytes_eqb a a = true.
Proof. apply bytes_eqb_eq; reflexivity. Qed.

(* A byte class is a list of inclusive ranges over byte values, as in the Rust
   source: `(b' ', b'\t')`, `0x20..=0x7E`, ... *)
Definition bclass := list (N * N).

Definition in_class (c : bclass) (b : byte) : bool :=
  existsb (fun r => (fst r <=? b2n b)%N && (b2n b <=? snd r)%N) c.

Definition is_byte (x : byte) : byte -> bool := byte_eqb x.

(* prefix test / strip *)
Fixpoint strip_prefix (p s : bytes) : option bytes :=
  match p, s with
  | [], _ => Some s
  | x :: p', y :: s' => if byte_eqb x y then strip_prefix p' s' else None
  | _ :: _, [] => None
  end.

Lemma strip_prefix_spec p s r : strip_prefix p s = Some r <-> s = p ++ r.
Proof.
  revert s; induction p as [|x p IH]; intros s; simpl.
  - split; congruence.
  - destruct s as [|y s]; [split; discriminate|].
    destruct (byte_eqb x y) eqn:E.
    + apply byte_eqb_eq in E; subst. rewrite IH. split; intro H; [subst; reflexivity|injection H; auto].
    + split; [discriminate|]. intro H; injection H as H1 H2; subst.
      rewrite byte_eqb_refl in E; discriminate.
Qed.

Fixpoint span_while (f : byte -> bool) (s : bytes) : bytes * bytes :=
  match s with
  | [] => ([], [])
  | b :: s' => if f b then let (a, r) := span_while f s' in (b :: a, r) else ([], s)
  end.

Lemma span_while_app f s : fst (span_while f s) ++ snd (span_while f s) = s.
Proof.
  induction s as [|b s IH]; simpl; [reflexivity|].
  destruct (f b); [|reflexivity].
  destruct (span_while f s) as [a r]; simpl in *. congruence.
Qed.

Lemma span_while_all f s : forallb f (fst (span_while f s)) = true.
Proof.
  induction s as [|b s IH]; simpl; [reflexivity|].
  destruct (f b) eqn:E; [|reflexivity].
  destruct (span_while f s) as [a r]; simpl in *. rewrite E; assumption.
Qed.

Lemma span_while_stop f s : match snd (span_while f s) with [] => True | b :: _ => f b = false end.
Proof.
  induction s as [|b s IH]; simpl; [exact I|].
  destruct (f b) eqn:E; [|simpl; exact E].
  destruct (span_while f s) as [a r]; simpl in *. exact IH.
Qed.

(* decimal digit value of an ASCII digit byte *)
Definition digit_val (b : byte) : N := (b2n b - 48)%N.
Definition is_digit (b : byte) : bool := (48 <=? b2n b)%N && (b2n b <=? 57)%N.

Fixpoint dec_value_acc (acc : N) (s : bytes) : N :=
  match s with
  | [] => acc
  | b :: s' => dec_value_acc (acc * 10 + digit_val b)%N s'
  end.
Definition dec_value (s : bytes) : N := dec_value_acc 0 s.

Definition digit_byte (d : N) : byte := n2b (48 + d)%N.

Definition optmap {A B} (f : A -> B) (o : option A) : option B :=
  match o with Some a => Some (f a) | None => None end.
